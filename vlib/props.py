"""Per-property definitions: theorems pinned, case generators, projections, oracles."""
import itertools, random, re
from . import gen
from .core import hx, coq_read_all
from . import sexp as SX
from . import structproj as SP

PROPS = {}


TABLES = {"C01": ("keywords",), "C05": ("keywords",), "C06": ("keywords",), "C13": ("keywords",),
          "C18": ("keywords", "messages"), "C14": ("format",), "C02": ("format", "unsupported", "units"),
          "C12": ("unsupported",), "C19": ("units",), "C07": ("units",), "C03": ("keywords", "format"),
          "C17": ("keywords", "format", "units", "unsupported")}


class Prop:
    id = None
    theorems = []          # names in Properties/<id>.v
    release = False        # also run the release build of the harness
    single_process = False # run all cases in one process, in order
    rule = ""
    assumes = []

    def cases(self, tier, rng):
        """returns list of (case_line, tag) — tag feeds the distribution in the evidence"""
        raise NotImplementedError

    def project(self, case, line):
        """the part of an observation this property speaks about"""
        return std(line)

    def nontrivial(self, case, line):
        return True

    def oracle(self, case, impl_line, model_line):
        """Called on a disagreement. Return a string saying how the implementation's answer
        violates the property on this very input, or None if that cannot be shown (the verdict is
        then 'no-failing-input-found')."""
        return "the implementation's answer differs from the answer the theorems prove to be the one the property demands"

    def post(self, results):
        """extra cross-case checks on [(case, impl, model)]; returns [(case, why)]"""
        return []


def pinned_theorems(mod):
    """the theorem names pinned in Properties/Pin<mod>.v"""
    import os
    path = os.path.join(os.path.dirname(os.path.dirname(os.path.abspath(__file__))), "coq", "Properties", "Pin%s.v" % mod)
    if not os.path.exists(path):
        return []
    return re.findall(r"^Check %s\.(\w+)" % mod, open(path).read(), flags=re.M)


# theorems that live in another property's module (word-level lifts proved together with C05)
MODULES = {
    "C01": (["C01"], [("C05", "C01_words")]),
    "C05": (["C05", "C05r", "C05s", "C05t"], []),
    "C13": (["C13", "C13r"], [("C05", "C13_leading"), ("C05", "C13_leading_pass")]),
    "C02": (["C02", "E2E"], []),
    "C03": (["C03", "C03u", "C03v"], []),
    "C09": (["C09", "C09m", "C09d"], []),
    "C04": (["C04", "C04w", "C04s"], []),
    "C07": (["C07", "C07e"], []),
    "C08": (["C08", "C08s"], []),
    "C10": (["C10", "C19e", "C10s"], []),
    "C12": (["C12", "C12p"], []),
    "C14": (["C14", "C14o"], []),
    "C15": (["C15", "C15r", "C15c"], []),
    "C16": (["C16", "C16b", "C16c", "C16d", "C16t"], []),
    "C17": (["C17"], [("C03", "C03_parse_total"), ("C03", "C03_compile_total")]),
    "C18": (["C18", "C18q", "C18s"], []),
    "C19": (["C19", "C19e"], []),
    "C20": (["C20", "C20b"], []),
}
ELSEWHERE = {("C05", "C01_words"), ("C05", "C13_leading"), ("C05", "C13_leading_pass")}


def register(cls):
    obj = cls()
    mods, extra = MODULES.get(cls.id, ([cls.id], []))
    ths = []
    for m in mods:
        ths += ["%s.%s" % (m, n) for n in pinned_theorems(m) if (m, n) not in ELSEWHERE or (m, n) in extra]
    ths += ["%s.%s" % (m, n) for (m, n) in extra if n in pinned_theorems(m)]
    obj.theorems = ths
    obj.modules = sorted(set(mods + [m for m, _ in extra]))
    obj.tables = TABLES.get(cls.id, ())
    PROPS[cls.id] = obj
    return cls


def P(s):
    return "P " + hx(s)


def PC(s, mdt="/dev/mdt0"):
    return "PC %s %s" % (hx(s), hx(mdt))


def tree_or_err(line):
    """OK <opts> <tree> stays, every error message collapses to ERR"""
    if line.startswith("ERR"):
        return "ERR"
    return line


CERR_RE = re.compile(r" CERR (\w+) (\S*) (.*)$")
PERR_ARG = re.compile(r"^ERR Syntax error: Failed to parse argument `(.*)` of (test|action|global option) `([^`]*)`(?:: (.*))?$")
PERR_TOK = re.compile(r"^ERR Syntax error: Unexpected token: `(.*)`$")


def cerr_struct(line):
    """a compile error as variant + payload (the construct it names); the wording of its Display
    text is something no property speaks about"""
    m = CERR_RE.search(line)
    return line[:m.start()] + " CERR %s %s" % (m.group(1), m.group(2)) if m else line


def std(line):
    """the default projection: a rejected input is just rejected (which message: C18), a compile
    error is its variant and the construct it names (its wording: nobody)"""
    return cerr_struct(tree_or_err(line))


def std_struct(line):
    """as [std], with the emitted programs compared as read-back structures (layout of the text: C04)"""
    return cerr_struct(tree_or_err(SP.structural(line)))


def perr_struct(line):
    """what C18 speaks about in a parse error: which kind of error, the keyword named, the word
    quoted -- not the wording of the explanation that follows"""
    m = PERR_ARG.match(line)
    if m:
        return "ERR argument kind=%s keyword=%s word=%s explained=%s" % (m.group(2), m.group(3), m.group(1), "yes" if m.group(4) else "no")
    m = PERR_TOK.match(line)
    if m:
        return "ERR token word=%s" % m.group(1)
    return line


def parse_part(line):
    return line.split(" || ")[0]


def compile_part(line):
    p = line.split(" || ", 1)
    return p[1] if len(p) > 1 else ""


def strip_clock(line):
    return re.sub(r"clock \d+ ", "clock * ", line)


def strip_epoch(line):
    """remove the clock reading and every occurrence of that number from an observation"""
    m = re.search(r"clock (\d+) ", line)
    if not m:
        return line
    return line.replace(m.group(1), "*")


def unesc(text):
    return re.sub(r"\\x([0-9a-f]+);", lambda m: chr(int(m.group(1), 16)), text)


def scheme_of(line):
    """the emitted program text(s) of a COK observation"""
    cp = compile_part(line) if " || " in line else line
    if " COK " not in cp:
        return None
    parts = cp.split(" | ")
    return [unesc(p) for p in parts[1:]]



# ------------------------------------------------------------------------------------------- semantic oracle (C02)

def sstr_(s):
    return "S" + ".".join("%x" % ord(c) for c in s)


def file_records(rng, expr_text, clock, k):
    """file records directed at the constants of the expression: value-1, value, value+1 per unit,
    permission/type bits, matching and near-miss names; plus random ones"""
    nums = [int(x) for x in re.findall(r"\d+", expr_text) if len(x) < 18][:30] or [0]
    words = [w.strip("'\"") for w in re.findall(r"-i?(?:name|path|pool|xattr)\s+(\S+)", expr_text)] or ["a"]
    octs = [int(x, 8) for x in re.findall(r"-perm\s+[-/]?([0-7]{3,4})\b", expr_text)]
    recs = []
    for _ in range(k):
        n = rng.choice(nums + [0, 1, 5])
        unit = rng.choice([1, 1, 2, 512, 1024, 2**20, 2**30, 60, 3600, 86400])
        d = rng.choice([-1, 0, 0, 1, unit - 1, -unit + 1, unit])
        size = max(0, n * unit + d) if rng.random() < 0.8 else rng.randint(0, 2**33)
        def stamp():
            if rng.random() < 0.8:
                return max(0, clock - n * unit - rng.choice([-1, 0, 0, 1, unit - 1, unit]))
            return rng.randint(0, clock + 100000)
        cnt = lambda: max(0, n + rng.choice([-1, 0, 0, 1])) if rng.random() < 0.8 else rng.randint(0, 2**32 - 1)
        ftype = rng.choice([0o100000, 0o040000, 0o120000, 0o010000, 0o020000, 0o060000, 0o140000])
        perm = rng.choice(octs + [0o644, 0o755, 0, 0o7777, rng.randint(0, 0o7777)])
        if rng.random() < 0.4:
            perm ^= 1 << rng.randrange(12)
        w = rng.choice(words)
        name = rng.choice([w, w.upper(), w.lower(), w + "x", w[:-1], w.replace("*", "zz").replace("?", "q"), "other",
                           re.sub(r"\\(.)", r"\1", w), re.sub(r"\\(.)", r"\1", w).replace("*", "zz").replace("?", "q")])
        rel = rng.choice(["d/" + name, name, w, w.replace("*", "a/b")])
        pools = rng.sample(words + ["fast", "slow"], rng.randint(0, 2))
        xattrs = [(rng.choice(words + ["user.k"]), rng.choice(words + ["v", ""])) for _ in range(rng.randint(0, 2))]
        nums14 = [size, ftype | perm, cnt(), cnt(), cnt(), cnt(), stamp(), stamp(), stamp(),
                  rng.choice([0, 1, 7, 8, 2 * n, 2 * n + 1]), cnt(), cnt(), rng.choice([0, 65536, 1048576]), cnt()]
        strs = [name, rel, "/mnt/" + rel, "[0x1:0x%x:0x0]" % rng.randint(0, 99), rng.choice(["bob", "root"]), rng.choice(["users", "wheel"]), "/mnt"]
        fields = [str(x) for x in nums14] + [sstr_(x) for x in strs]
        fields += [str(len(pools))] + [sstr_(x) for x in pools]
        fields += [str(len(xattrs))] + [sstr_(x) for kv in xattrs for x in kv]
        fields += [rng.choice("01") for _ in range(4)]
        recs.append(" ".join(fields))
    return recs


def semantic_cases(rng, results, per_case, limit):
    """EV lines for compiled observations of the implementation"""
    lines, meta = [], []
    pool = [(c, i) for c, i, m in results if c.startswith("PC ") and " COK " in i]
    rng.shuffle(pool)
    for c, i in pool[:limit]:
        f = c.split(" ")
        expr_hex = f[1]
        expr_text = "" if expr_hex == "-" else "".join(chr(int(x, 16)) for x in expr_hex.split("."))
        cp = compile_part(i)
        mclock = re.search(r"clock (\d+) COK (.*?) \| ", cp)
        if not mclock:
            continue
        clock, iomap = int(mclock.group(1)), mclock.group(2)
        text = unesc(cp.split(" | ", 1)[1])
        for rec in file_records(rng, expr_text, clock, per_case):
            lines.append("EV %s %d %s %s FILE %s" % (expr_hex, clock, hx(text), iomap, rec))
            meta.append((c, rec))
    return lines, meta

# ------------------------------------------------------------------------------------------- C01

C01_WORDS = ["(", ")", "!", ",", "-a", "-and", "-o", "-or", "-true", "-false", "-print", "-depth"]


@register
class C01(Prop):
    id = "C01"
    theorems = ["C01_tokens", "C01_unique", "C01_no_prefix", "C01_words"]
    rule = ("all word sequences over the 12-word alphabet ( ) ! , -a -and -o -or -true -false -print -depth up to the "
            "stated length, exhaustively; random longer sequences (length 6..40); random well-formed expressions of "
            "depth <= 8 over the whole vocabulary; compared: the tree, or the fact of rejection. Non-trivial: "
            "sequences of at least 2 words; distinct = distinct inputs")

    def cases(self, tier, rng):
        maxlen = 5 if tier == "quick" else 6
        out = []
        for n in range(1, maxlen + 1):
            for ws in itertools.product(C01_WORDS, repeat=n):
                out.append((P(" ".join(ws)), "exhaustive-len-%d" % n))
        nrand = 20000 if tier == "quick" else 300000
        for _ in range(nrand):
            n = rng.randint(6, 40)
            ws = [rng.choice(C01_WORDS) for _ in range(n)]
            out.append((P(" ".join(ws)), "random-words"))
        for _ in range(nrand):
            ws = gen.expr_words(rng, rng.randint(1, 8))
            # sprinkle damage: sometimes drop or duplicate a word
            r = rng.random()
            if r < 0.15 and len(ws) > 1:
                del ws[rng.randrange(len(ws))]
            elif r < 0.25:
                ws.insert(rng.randrange(len(ws) + 1), rng.choice(C01_WORDS[:8]))
            out.append((P(" ".join(ws)), "random-wellformed" if r >= 0.25 else "random-damaged"))
        for d in [64, 127, 128, 129, 150, 200]:
            out.append((P("( " * d + "-true -o -false" + " )" * d), "deep-nesting"))
            out.append((P("! " * d + "-true"), "deep-nesting"))
            out.append((P("( " * d + "-true" + " )" * (d - 1)), "deep-nesting"))
            out.append((P("-print" + " -true" * d), "deep-nesting"))
        # many rejected parenthesised inputs first, valid ones afterwards, in every process
        for _ in range(40):
            for bad in ["( -true", "( )", "( ( -true -o", "( -true , )", "-false -a ( ! )", "( ( ( -true ) -a"]:
                out.append((P(bad), "rejected-parens"))
            out.append((P("( -true )"), "after-rejected"))
            out.append((P("( ( -name x ) -o ( -false ) )"), "after-rejected"))
        return out

    def project(self, case, line):
        return tree_or_err(line)

    def nontrivial(self, case, line):
        return case.count(".20.") >= 1


# ------------------------------------------------------------------------------------------- C02

def supported_expr(rng, depth):
    return gen.expr_words(rng, depth, unsupported=0.0, options=0.03)


@register
class C02(Prop):
    id = "C02"
    theorems = []
    assumes = ["the meaning of the emitted forms is the SPECIFIED Guile/LiPE runtime (Spec/SchemeSem.v, SchemePrelude.v, "
               "GuileFormat.v); no Guile or LiPE exists in the sandbox",
               "host renderings (strftime, the %S ratio, the type character, dirname, ctime) are one uninterpreted function on "
               "the find side and on the Scheme side; differences between find's and Guile's rendering of the same value are "
               "not covered",
               "'find's rules' for ages: trunc(age/unit) compared with N for every unit (the manual's rule; the GNU 4.9 binary "
               "uses another window for -amin/-cmin/-mmin)",
               "(ice-9 format) directives ~d ~o ~f are assumed available to the policy (loaded by (lipe find))"]

    def project(self, case, line):
        return std_struct(line)
    rule = ("random expressions over every supported test/action (boundary-rich arguments), compiled and rendered; "
            "compared: the emitted program as read back (whose meaning the theorems characterise) and the destination "
            "table. In addition (semantic oracle, coverage key semantic_oracle_evaluations) the IMPLEMENTATION's "
            "program text is read by the specified reader and evaluated by the specified Scheme semantics on file "
            "records directed at the constants of the expression (value-1/value/value+1 per unit, permission and "
            "type bits, matching and near-miss names), and compared with find's reference semantics. "
            "Non-trivial: the expression compiles; distinct = distinct inputs")

    def cases(self, tier, rng):
        n = 20000 if tier == "quick" else 400000
        out = []
        for _ in range(n):
            ws = supported_expr(rng, rng.randint(0, 5))
            out.append((PC(gen.join_words(rng, ws)), "random-supported"))
        pool = ["foo", "core", "README", "a*", "x?y", "Dir/f"]
        for _ in range(n // 10):
            k = rng.randint(2, 5)
            items = ["%s %s" % (rng.choice(["-name", "-iname", "-path", "-ipath"]), rng.choice(pool)) for _ in range(k)]
            s_ = items[0]
            for w in items[1:]:
                s_ += rng.choice([" ", " -o ", " -a ", " ! "]) + w
            out.append((PC(s_ + rng.choice(["", " -print", " -print0", " -quit"])), "shared-patterns"))
        for _ in range(n // 20):
            k = rng.randint(4, 12)
            names = " -o ".join("%s n%d" % (rng.choice(["-name", "-iname", "-path"]), i) for i in range(k))
            acts = " ".join(rng.choice(["-fprint o%d" % rng.randint(0, 3), "-print0", "-fprintf f '%p'", "-print", "-printf '%s\\n'"]) for _ in range(rng.randint(1, 4)))
            out.append((PC("( %s ) %s" % (names, acts)), "many-resources"))
        # every string matcher x every class of pattern (plain; each glob special alone; an escaped ordinary
        # character; an escaped special; a trailing backslash; mixed case) x every output mode
        classes = ["ab", "a*", "a?b", "[ab]c", "a\\b", "a\\*b", "x\\", "Ab", "a[", "a\\[b", "*", "?", ""]
        for kw in ["-name", "-iname", "-path", "-ipath", "-pool", "-xattr"]:
            for pat in classes:
                for act in ["", "-print", "-print0", "-fprint f", "-printf '%p'", "-printf '%p\\n'", "-quit"]:
                    out.append((PC("%s '%s' %s" % (kw, pat, act)), "matcher-class-x-mode"))
                out.append((PC("%s '%s' -o %s '%s' -print0" % (kw, pat, kw, pat.upper())), "matcher-class-x-mode"))
        return out

    def sequences(self, tier, rng):
        """compile / sleep past a second boundary / compile again, all in one process"""
        tt = ["-mmin +5 -amin -10 -o -ctime 1 -name x", "-amin +1s -print", "-mtime -2 -fprint o -o -atime 3"]
        seq = []
        for t in tt:
            seq.append(PC(t))
        seq.append("Z 1100")
        for t in tt:
            seq.append(PC(t))
        seq.append("Z 1100")
        seq.append(PC(tt[0]))
        # a compile that fails after a time test was translated, then a good one a second later
        seq.append(PC("-mmin -5 -ls"))
        seq.append(PC("( -name core -o -atime +30 ) -printf '%p %M\\n'"))
        seq.append("Z 1100")
        seq.append(PC("-mmin -5"))
        seq.append(PC("-name '*.c' -threads 4 -print"))
        seq.append(PC("-name '*.c' -threads 4 -print"))
        seq.append(PC("-type f -depth"))
        seq.append(PC("-type f -depth"))
        return [seq]

    def nontrivial(self, case, line):
        return " COK " in line

    def oracle(self, case, impl, model):
        """look for a file record on which the implementation's program and find's rules differ"""
        import os
        from . import core
        if " COK " not in impl:
            return None      # the property speaks about expressions that compile (which ones do: C05, C12)
        lines, meta = semantic_cases(random.Random(7), [(case, impl, model)], 60 if len(case) > 3000 else 300, 1)
        outs = core.run_lines(os.path.join(core.OCAML, "driver"), lines)
        for (c, rec), o in zip(meta, outs):
            m = re.match(r"EVAL spec=(.*) \|\| prog=(.*)$", o or "")
            if m and m.group(1) not in ("KNOWN-D17", "UNDEFINED", "NO-PARSE") and m.group(1) != m.group(2):
                return "on the file record [%s] the emitted policy gives {%s} where find's rules give {%s}" % (rec, m.group(2)[:300], m.group(1)[:300])
        if compile_part(impl).split(" | ")[0] != compile_part(model).split(" | ")[0]:
            return "the destination table differs from the one the property demands"
        return None

    def post(self, results):
        """semantic oracle: the IMPLEMENTATION's program text, read by the specified reader and
        evaluated by the specified semantics on directed file records, against find's rules"""
        import os
        from . import core
        rng = random.Random(12345)
        tier_limit = 1500 if len(results) < 100000 else 20000
        lines, meta = semantic_cases(rng, results, 4, tier_limit)
        outs = core.run_lines(os.path.join(core.OCAML, "driver"), lines)
        bad = []
        self.semantic_evaluations = 0
        for (c, rec), o in zip(meta, outs):
            m = re.match(r"EVAL spec=(.*) \|\| prog=(.*)$", o or "")
            if not m:
                bad.append((c, "semantic oracle produced no answer: %r" % (o or "")[:200]))
                continue
            spec, prog = m.group(1), m.group(2)
            if spec in ("KNOWN-D17", "UNDEFINED", "NO-PARSE"):
                continue
            self.semantic_evaluations += 1
            if spec != prog:
                bad.append((c, "on the file record [%s] the emitted policy gives {%s} where find's rules give {%s}" % (rec, prog[:300], spec[:300])))
        return bad


# ------------------------------------------------------------------------------------------- C03

def mutate(rng, s):
    if not s:
        return s
    r = rng.random()
    k = rng.randrange(len(s))
    alphabet = "-()!,'\"\\%0789 \t\nabckMGT+=/~u"
    if r < 0.35:
        return s[:k] + s[k + 1:]
    if r < 0.7:
        return s[:k] + rng.choice(alphabet) + s[k + 1:]
    return s[:k] + rng.choice(alphabet) + s[k:]


ARG_KEYWORDS = (gen.TIME_KW + gen.U32_KW + gen.U64_KW + gen.STR_TESTS_OK + gen.STR_TESTS_UNSUP
                + ["-perm", "-size", "-type", "-xattr-match", "-fls", "-fprint", "-fprint0", "-fprintf", "-printf",
                   "-maxdepth", "-mindepth", "-threads"])
SHORT_ALPHABET = list("0179+-/kxu=r,'\"\\%{f XU")


@register
class C03(Prop):
    id = "C03"
    theorems = []
    logger = True          # also run in a process with a logger installed at every level
    release = True
    rule = ("grammar-aware inputs, every prefix and random single-character mutations of valid inputs, exhaustive "
            "argument strings (length <= 2 quick / 3 thorough) over a 20-symbol alphabet after every argument-taking "
            "keyword, numeric boundaries, nesting to depth 64, inputs up to 4 KiB; both build profiles; compared: the "
            "outcome class (result / error value / panic) of parse and of compile+render. Non-trivial: input of at "
            "least 2 characters; distinct = distinct inputs")
    assumes = ["stack exhaustion, allocation failure and panics inside dependencies that the model does not contain "
               "are covered only by the differential runs at the stated bounds (partial)"]

    def cases(self, tier, rng):
        out = []
        nvalid = 400 if tier == "quick" else 4000
        for _ in range(nvalid):
            s = gen.join_words(rng, gen.expr_words(rng, rng.randint(0, 4), unsupported=0.05, options=0.05), fancy=rng.random() < 0.3)
            out.append((PC(s), "valid"))
            for k in range(0, len(s), max(1, len(s) // 12)):
                out.append((PC(s[:k]), "prefix"))
            for _ in range(8):
                out.append((PC(mutate(rng, s)), "mutation"))
        L = 2 if tier == "quick" else 3
        for kw in ARG_KEYWORDS:
            for n in range(0, L + 1):
                for a in itertools.product(SHORT_ALPHABET, repeat=n):
                    if tier == "quick" and n == 2 and rng.random() < 0.5:
                        continue
                    out.append((PC(kw + " " + "".join(a)), "short-arg"))
        for kw in gen.TIME_KW + gen.U32_KW + gen.U64_KW + ["-size", "-threads", "-maxdepth", "-perm"]:
            for b in gen.BOUNDARY_NUMS + [2**64 // 1024, 2**64 // 1024 + 1, 2**64 // 512, 2**64 // 2**40, 7777, 17777, 777777777777]:
                for suf in ["", "k", "T", "c", "d", "s"]:
                    out.append((PC("%s %d%s" % (kw, b, suf)), "numeric-boundary"))
        for d in [1, 8, 32, 64]:
            out.append((PC("( " * d + "-true" + " )" * d), "nesting"))
            out.append((PC("! " * d + "-true"), "nesting"))
            out.append((PC("( " * d + "-true" + " )" * (d - 1)), "nesting"))
        for d in [10, 16, 20, 24, 32, 64]:
            out.append((PC("( " * d + "-name core"), "unclosed-nesting"))
            out.append((PC("(" * d), "unclosed-nesting"))
            out.append((PC("-type f -a ! " + "( " * d + "-name core"), "unclosed-nesting"))
            out.append((PC("! " * d), "unclosed-nesting"))
            out.append((PC("-true -o " * d), "unclosed-nesting"))
        for n in [500, 4000]:
            out.append((PC("-name " + "a" * n), "long"))
            out.append((PC(" -o ".join(["-true"] * (n // 8))), "long"))
            out.append((PC("-printf '" + "%p\\n" * (n // 4) + "'"), "long"))
        for ch in ["é", "€", "☃", "\U0001F600"]:
            for pre in ["", "x", "xy", "xyz", "-", "-size x", "-amin +", "-true -o x", "-name a -perm "]:
                for k in [10, 16, 23, 24, 25, 30, 47, 48, 49, 64]:
                    out.append((PC(pre + ch * k), "long-non-ascii"))
                    out.append((PC(pre + ch * k + " -print"), "long-non-ascii"))
        for v in range(0o370, 0o1000, 5):
            out.append((PC("-printf 'a\\%03ob\\n'" % v), "octal-escape"))
            out.append((PC("-fprintf f '\\%03o'" % v), "octal-escape"))
        out += [(PC(s), "scale") for s in gen.scale_cases(rng)]
        # trees built through the public constructors (values a parse never yields included): compile must
        # answer with a program or an error for every tree of the shape a parse returns
        for deg in ["T Type 0", "And T Type 0 A Print", "Or T Type 0 T Type 1 File", "A PrintFormatted 0", "A FilePrintFormatted S 0",
                    "T Name S", "T Pool S", "T XattrMatch S S", "A FilePrint S", "Not T Type 0"]:
            out.append(("TC 0 - 2f " + deg, "api-tree"))
        for code in [0, 0o777, 0o1000, 0xd7ff, 0xd800, 0xdabc, 0xdfff, 0xe000, 0xffff]:
            out.append(("TC 0 - 2f A PrintFormatted 3 F Name X Ascii %d X Newline" % code, "api-tree"))
            out.append(("TC 1 0 2f Or T Name S78 A FilePrintFormatted S66 1 X Ascii %d" % code, "api-tree"))
        for _ in range(2000 if tier == "quick" else 40000):
            out.append(("TC %s %s 2f %s" % (rng.choice("01"), rng.choice(["-", "0", "1", "4294967295"]),
                                            gen.tree(rng, rng.randint(0, 4), api_only=False, unsupported=0.15)), "api-tree"))
        # no blank where the lexer needs none: punctuation glued to its neighbours, options anywhere
        for _ in range(3000 if tier == "quick" else 60000):
            ws = gen.words_with_options(rng, rng.randint(1, 4), nopts=2, unsupported=0.1)
            if rng.random() < 0.5:
                k = rng.randrange(len(ws) + 1)
                ws[k:k] = rng.choice([["(", "-true", ",", "-false", ")"], ["!"], [","], ["(", ")"], ["!", "("]])
            out.append((PC(gen.glue_punctuation(rng, ws)), "glued-punctuation"))
        for lead in ["", "-depth ", "-threads 2 "]:
            for body in ["-true,-depth", "(-true,-depth)", "(!-false,-threads 4)", "!(-true)", "(-true)-o(-false)", "-true,!-false",
                         "((-true))", "(-name x)-print", "-true ,-depth", "-true, -depth", "(-depth)", "!-depth", ",-depth", "-depth,", "(-threads 3)!-true"]:
                out.append((PC(lead + body), "glued-punctuation"))
        # every member / corrupted member of every argument language (the C05 corpus) is a totality input too
        c5 = PROPS["C05"].cases(tier, rng) if "C05" in PROPS else []
        out += [("PC " + c[2:] + " " + hx("/d") if c.startswith("P ") else c, "C05-corpus") for c, _ in c5]
        out += [(PC(s), "seed-corpus") for s in ["", " ", "nope", "-perm 17777", "-printf '\\1234567'", "-maxdepth 3",
                                                 "-size 18014398509481984k", "-printf '%'", "-printf '\\", "'", "\"", "-name 'x"]]
        return out

    def project(self, case, line):
        if " || " not in line and line.startswith("clock "):
            # a tree compiled through the API (no parse part): clock T COK ... / CERR ... / CPANIC
            c = " " + line
            return "API " + ("CPANIC" if "CPANIC" in c else "COK" if " COK " in c else "CERR" if " CERR " in c else line.split(" ")[2] if len(line.split(" ")) > 2 else line)
        p = parse_part(line).split(" ")[0]
        c = compile_part(line)
        cls = "" if not c else ("CPANIC" if "CPANIC" in c else "COK" if " COK " in c else "CERR" if " CERR " in c else c.split(" ")[0])
        return p + " " + cls

    def nontrivial(self, case, line):
        return len(case) > 8

    def oracle(self, case, impl, model):
        if "PANIC" in impl or "NO-OUTPUT" in impl:
            return "the library panics (or dies) on this input instead of returning a value"
        if impl.startswith("HANG"):
            return "the library does not return within the time limit on this input (or on the one right before it)"
        return None


# ------------------------------------------------------------------------------------------- C04

C04_ALPHABET = ['"', "\\", "~", "%", "(", ")", ";", "#", "\n", "\r", "\t", "\x01", "é", "a", " "]


def quote_any(s):
    if "'" not in s:
        return "'" + s + "'"
    if '"' not in s:
        return '"' + s + '"'
    return None


@register
class C04(Prop):
    id = "C04"
    theorems = []
    rule = ("every string-carrying primary (-name -iname -path -ipath -pool -xattr -xattr-match -fprint -fprint0 "
            "-fprintf file and format, -printf literal text, %Ak selector) and the device path x all strings up to the "
            "stated length over the 14-symbol alphabet \" \\ ~ % ( ) ; # LF TAB 0x01 e-acute a space, plus random longer "
            "strings; compared: the emitted text byte for byte. Non-trivial: string of length >= 1 that compiles")

    def strings(self, maxlen):
        for n in range(0, maxlen + 1):
            for t in itertools.product(C04_ALPHABET, repeat=n):
                yield "".join(t)

    def cases(self, tier, rng):
        out = []
        # strings no parse can put there: every string position of a tree built through the public constructors
        # (a format LITERAL holding a backslash or a quote, for instance: the format parser never yields one)
        api = ['"', "\\", "C:\\", "a\\nb", "a\"b", "\\\"", "~", "~~", "a\r\nb", "\n", ") (display 1) (", "é\\", ""] \
            + (["".join(rng.choice(C04_ALPHABET) for _ in range(rng.randint(1, 6))) for _ in range(40 if tier == "quick" else 2000)])
        for u in api:
            h = sstr_(u)
            for t in ["T Name %s", "T InsensitivePath %s", "T Pool %s", "T Xattr %s", "T XattrMatch %s S76", "T XattrMatch S6b %s",
                      "A FilePrint %s", "A FilePrintNull %s", "A FilePrintFormatted %s 1 F Name",
                      "A PrintFormatted 1 L %s", "A PrintFormatted 3 F Name L %s X Newline", "A FilePrintFormatted S66 2 L %s L %s",
                      "A PrintFormatted 1 F XAttr %s"]:
                out.append(("TC 0 - 2f " + t.replace("%s", h), "api-string"))
        # a string and its ESCAPED spelling side by side, both orders, both managers (a table keyed by the escaped
        # text in one place and the raw text in another confuses them)
        for u in ["a\\b", 'x"y', "~", "a\\\\b", '\\"', "\\"]:
            for esc_ in (u.replace("\\", "\\\\").replace('"', '\\"'), u.replace("~", "~~")):
                if esc_ == u:
                    continue
                for a_, b_ in ((esc_, u), (u, esc_)):
                    qa, qb = quote_any(a_), quote_any(b_)
                    if qa and qb:
                        for kw in ("-name", "-ipath"):
                            for tail in ("", " -print0"):
                                out.append((PC("( %s %s -o %s %s )%s" % (kw, qa, kw, qb, tail)), "escaped-twin"))
        full = 2 if tier == "quick" else 3
        for kw in ["-name", "-iname", "-path", "-ipath", "-pool", "-xattr", "-fprint", "-fprint0"]:
            L = 3 if (kw == "-name" or tier != "quick") else full
            for s in self.strings(L):
                q = quote_any(s)
                if q is not None:
                    out.append((PC(kw + " " + q), kw))
        for s in self.strings(full):
            q = quote_any(s)
            if q is None:
                continue
            out.append((PC("-xattr-match " + q + " v"), "-xattr-match"))
            out.append((PC("-xattr-match k " + q), "-xattr-match"))
            out.append((PC("-fprintf " + q + " '%p\\n'"), "-fprintf-file"))
            out.append((PC("-print", s), "device-path"))
        for s in self.strings(3):
            if "%" in s:
                continue
            q = quote_any(s)
            if q is not None:
                out.append((PC("-printf " + q), "-printf-literal"))
                out.append((PC("-fprintf f " + q), "-fprintf-literal"))
        for c in C04_ALPHABET + list("kHY@"):
            q = quote_any("%A" + c + "%C" + c + "%T" + c)
            if q:
                out.append((PC("-printf " + q), "strftime-selector"))
        for esc in ["\\042", "\\134", "\\176", "\\045", "\\101", "\\000", "\\777", "\\\\", "\\", "\\n\\t\\a\\b\\f\\r\\v\\0"]:
            out.append((PC("-printf 'x" + esc + "y'"), "octal-escape"))
            out.append((PC("-printf '" + esc + "'"), "octal-escape"))
        for wd in gen.source_dictionary():
            q = quote_any(wd)
            if q:
                for kw in ["-name", "-pool", "-fprint", "-xattr"]:
                    out.append((PC(kw + " " + q), "source-dictionary"))
                if "%" not in wd:
                    out.append((PC("-printf " + q), "source-dictionary"))
                out.append((PC("-print", wd), "source-dictionary"))
        n = 3000 if tier == "quick" else 60000
        for _ in range(n):
            s = "".join(rng.choice(C04_ALPHABET + list("bc*?[")) for _ in range(rng.randint(4, 12)))
            q = quote_any(s)
            if q is None:
                continue
            kw = rng.choice(["-name", "-ipath", "-pool", "-xattr", "-fprint", "-printf", "-xattr-match k"])
            if kw == "-printf" and "%" in s:
                s = s.replace("%", "%%"); q = quote_any(s)
            out.append((PC(kw + " " + q, rng.choice(["/dev/x", s])), "random-long"))
        return out

    def nontrivial(self, case, line):
        return " COK " in line

    def oracle(self, case, impl, model):
        texts = scheme_of(impl)
        if texts is None:
            return None
        for t in texts:
            forms = read_forms(t)
            if forms is None or len(forms) != 2:
                return "the emitted text does not read back as exactly two top-level forms"
        mt = scheme_of(model)
        if mt:
            # user text lives in string literals: the literals of the program, in order, must decode to
            # exactly what the property demands (the model's, proved); code around them is other properties' subject
            fi, fm = read_forms(texts[0]), read_forms(mt[0])
            si, sm = [], []
            _strings_in(fi, si); _strings_in(fm, sm)
            if si != sm:
                return ("the string literals of the emitted program decode to %s where the property demands %s"
                        % ([x[:40] for x in si if x not in sm][:3] or "a different sequence", [x[:40] for x in sm if x not in si][:3] or "another order"))
        # "literal format text is printed verbatim": run the implementation's program and find's rules on
        # directed file records (the semantic oracle of C02) and compare what is written
        if "Formatted" in parse_part(impl):
            why = PROPS["C02"].oracle(case, impl, model)
            if why and "file record" in why:
                return why
        return None   # layout, or code that holds no user text, differs


# ------------------------------------------------------------------------------------------- C05

def members(rng):
    """(keyword, argument words) pairs: generated members of every argument language"""
    out = []
    for kw in gen.TIME_KW:
        for sg in ["", "+", "-"]:
            for u in gen.TIME_UNITS:
                out.append([kw, sg + gen.num(rng, 10) + u])
    for kw in gen.U32_KW + gen.U64_KW:
        for sg in ["", "+", "-"]:
            out.append([kw, sg + gen.small(rng)])
            out.append([kw, sg + "00" + gen.small(rng)])
    for sg in ["", "+", "-"]:
        for u in gen.SIZE_UNITS:
            out.append(["-size", sg + gen.small(rng) + u])
    for kw in gen.STR_TESTS_OK + gen.STR_TESTS_UNSUP + gen.STR_ACTIONS_OK + gen.STR_ACTIONS_UNSUP:
        for _ in range(3):
            q = gen.quote(rng, gen.word(rng, 0.2))
            if q:
                out.append([kw, q])
    for kw in gen.STR_TESTS_OK + gen.STR_ACTIONS_OK + ["-regex"]:
        for v in ["a  b", "a\tb", "a\nb", " a", "a ", "  ", "x \t y", "a\r\nb"]:
            out.append([kw, rng.choice(["'%s'", '"%s"']) % v])
    out.append(["-xattr-match", "'user.k'", "'  v '"])
    out.append(["-printf", "'%p  %u\\n'"])
    for kw in gen.BARE_TESTS_OK + gen.BARE_TESTS_UNSUP + gen.BARE_ACTIONS_OK + gen.BARE_ACTIONS_UNSUP + ["-depth"]:
        out.append([kw])
    for _ in range(20):
        out.append(["-perm", gen.perm_arg(rng)])
        out.append(["-type", ",".join(rng.choice(gen.TYPES) for _ in range(rng.randint(1, 4)))])
        q1, q2 = gen.quote(rng, gen.word(rng, 0.2)), gen.quote(rng, gen.word(rng, 0.2))
        if q1 and q2:
            out.append(["-xattr-match", q1, q2])
        f = gen.fmt_string(rng, True).replace("'", "")
        out.append(["-printf", "'" + f + "'"])
        out.append(["-fprintf", "out", "'" + f + "'"])
    out.append(["-threads", gen.small(rng)])
    out.append(["-maxdepth", gen.small(rng)])
    out.append(["-mindepth", gen.small(rng)])
    return out


CORRUPT_SUFFIX = ["x", "-true", "k", ",", ",u+x", "q", "'", "7", "%", "(", "!", ".", "-", "+", "\\"]


@register
class C05(Prop):
    id = "C05"
    theorems = []
    rule = ("every keyword x generated members of its argument language (all units, signs, leading zeros, octal and "
            "symbolic modes, bare/quoted words, format strings) x systematically corrupted non-members that start "
            "validly (trailing/embedded junk, missing argument, keyword extensions), alone and embedded after/before "
            "other primaries; every ordered pair of prefix-related keywords; compared: the tree, or the fact of "
            "rejection. Non-trivial: everything but a bare keyword alone")

    def cases(self, tier, rng):
        out = []
        rounds = 3 if tier == "quick" else 40
        for _ in range(rounds):
            for m in members(rng):
                s = " ".join(m)
                out.append((P(s), "member"))
                out.append((P("-true " + s + " -o ! " + s), "member-embedded"))
                out.append((P("( " + s + " )"), "member-embedded"))
                for suf in rng.sample(CORRUPT_SUFFIX, 4):
                    out.append((P(s + suf), "corrupt-trailing"))
                    out.append((P("-true " + s + suf + " -print"), "corrupt-embedded"))
                    if len(m) > 1:
                        out.append((P(m[0] + suf + " " + " ".join(m[1:])), "corrupt-keyword"))
                        k = rng.randrange(len(m[1]) + 1)
                        out.append((P(m[0] + " " + m[1][:k] + suf + m[1][k:] + (" " + " ".join(m[2:]) if len(m) > 2 else "")), "corrupt-inside"))
                if len(m) > 1:
                    # one letter of the argument in the other case (X for x, K for k, D for d ...)
                    letters = [i for i, ch in enumerate(m[1]) if ch.isalpha() and ch.isascii()]
                    for i in rng.sample(letters, min(2, len(letters))):
                        flipped = m[1][:i] + m[1][i].swapcase() + m[1][i + 1:]
                        out.append((PC(" ".join([m[0], flipped] + m[2:])), "case-flipped-argument"))
                    out.append((P(" ".join(m[:-1])), "missing-argument"))
                    out.append((P(" ".join(m[:-1]) + " )"), "missing-argument"))
        for d1 in "01789":
            for d2 in "0789":
                for d3 in "0189":
                    out.append((P("-printf 'a\\%s%s%sb'" % (d1, d2, d3)), "digit-escape"))
        for t in ["\\+12", "\\-12", "\\ 12", "\\1+2", "\\0x1", "\\08", "\\8", "%+5s", "%-5s", "%05s", "%5p", "%.3s", "%#m"]:
            out.append((P("-printf '%s'" % t), "digit-escape"))
            out.append((P("-true -fprintf out 'x%sy\\n'" % t), "digit-escape"))
        for lead in ["-depth", "-threads 4", "-depth -threads 2"]:
            for nxt in ["-amin 5", "-atime +2", "-anewer ref", "-and -true", "-a -true", "-a-print", "-and-true", "-a-name x", "-a", "-and", "-a ", "-o -true"]:
                out.append((P(lead + " " + nxt), "after-leading-option"))
                out.append((P(lead + "  " + nxt + " -o -name x -print"), "after-leading-option"))
        kws = gen.ALL_KEYWORDS + ["-a", "-and", "-o", "-or"]
        for a in kws:
            for b in kws:
                if a != b and (a.startswith(b) or b.startswith(a)):
                    for arg in ["", " 5", " x", " 'x' 'y'"]:
                        out.append((P(a + arg), "prefix-pair"))
                        out.append((P("-true " + a + arg + " -true"), "prefix-pair"))
        for a in kws:
            for ext in ["x", "0", "f", "-", "s"]:
                out.append((P(a + ext + " 5"), "keyword-extension"))
        for u in ["\u00a0", "\u3000", "\x0b", "\x0c", "\u0085", "\u2028", "\u2003"]:
            for kw in gen.STR_TESTS_OK + ["-regex", "-user", "-fprint", "-fls"]:
                out.append((P("%s foo%sbar" % (kw, u)), "unicode-space"))
                out.append((P("( %s a%sb -o -true )" % (kw, u)), "unicode-space"))
            out.append((P("-xattr-match user.tag foo%sbar" % u), "unicode-space"))
            out.append((P("-printf %%p%s%%s" % u), "unicode-space"))
            out.append((P("-true%s-false" % u), "unicode-space"))
        out += [(P(s_), "scale") for s_ in gen.scale_cases(rng)]
        for w in ["foo", "-foo", "nope", "--", "-", "true", "-TRUE", "-Print", "5", "'-true'"]:
            out.append((P(w), "non-keyword"))
            out.append((P("-true " + w), "non-keyword"))
        return out

    def project(self, case, line):
        return tree_or_err(parse_part(line))

    def nontrivial(self, case, line):
        return ".20." in case


# ------------------------------------------------------------------------------------------- C06

TWO_ARG_KEYWORDS = ("-fprintf", "-xattr-match")


def layout_variants(rng, ws, k):
    """k spellings of the same abstract expression given as canonical words. Words that are the
    ARGUMENT of a primary are never re-spelled as operators (an argument may well be the word -a)."""
    vs = []
    for _ in range(k):
        out = []
        args_left = 0
        for w in ws:
            if args_left > 0:
                args_left -= 1
                if w.startswith("'") and w.endswith("'") and len(w) >= 2:
                    out.append(gen.quote(rng, w[1:-1]) or w)
                else:
                    out.append(w)
                continue
            if w in ARG_KEYWORDS:
                args_left = 2 if w in TWO_ARG_KEYWORDS else 1
                out.append(w)
            elif w in ("-a", "-and"):
                c = rng.choice(["-a", "-and", None])
                if c: out.append(c)
            elif w in ("-o", "-or"):
                out.append(rng.choice(["-o", "-or"]))
            else:
                out.append(w)
        vs.append(gen.join_words(rng, out, fancy=True))
    return vs


def redundant_parens(rng, ws):
    """wrap a random well-formed operand (a single primary) in parentheses, with or without blanks"""
    # choose a primary start: a word starting with '-' that is a keyword, not an operator
    idx = [i for i, w in enumerate(ws) if w in gen.BARE_TESTS_OK + gen.BARE_ACTIONS_OK]
    if not idx:
        return None
    i = rng.choice(idx)
    return ws[:i] + ["("] + [ws[i]] + [")"] + ws[i + 1:]


@register
class C06(Prop):
    id = "C06"
    theorems = []

    def oracle(self, case, impl, model):
        # a difference from the model does not show that two spellings of one expression differ: see post()
        return None
    rule = ("generated expressions x layout variants (kind and amount of blanks per gap incl. leading/trailing, "
            "implicit/-a/-and, -o/-or, redundant parentheses with and without inner blanks, quoting style of string "
            "arguments when the value permits it); compared: options and tree of every variant with the model's and "
            "with each other; blank inputs against -true. Non-trivial: expression with at least one operator")

    def cases(self, tier, rng):
        n = 4000 if tier == "quick" else 100000
        out = []
        self.groups = []
        for _ in range(n):
            ws = gen.expr_words(rng, rng.randint(0, 4), unsupported=0.05, options=0.05, hostile=0.0)
            vs = layout_variants(rng, ws, 6)
            rp = redundant_parens(rng, ws)
            if rp:
                vs.append(" ".join(rp))
                vs.append(" ".join(rp).replace("( ", "(").replace(" )", ")"))
            self.groups.append([P(v) for v in vs])
            for v in vs:
                out.append((P(v), "variant"))
        for v in ["it's", 'a"b', "x y", "a'b c", "p)q", "tab\there", "foo\u00a0bar", "報告書\u3000最終版.txt", "v\x0bt", "f\x0cf", "n\u0085l", "l\u2028s", "dir\\"]:
            spell = [q for q in ["'" + v + "'" if "'" not in v else None, '"' + v + '"' if '"' not in v else None,
                                 v if not any(c in v for c in " \t\r\n)") and v[0] not in "\"'" else None] if q]
            for kw in ["-name", "-path", "-fprint", "-pool"]:
                self.groups.append([P("%s %s -print" % (kw, q)) for q in spell] + [P("%s   %s\t-a -print" % (kw, spell[0]))])
                for c in self.groups[-1]:
                    out.append((c, "quote-variant"))
        for d in [2, 64, 128, 129, 160]:
            base = "-name x -o -size +1k"
            g = [P(base), P("( " * d + base + " )" * d), P("(" * d + base + ")" * d)]
            self.groups.append(g)
            out += [(c, "deep-redundant-parens") for c in g]
        for _ in range(30):
            for bad in ["( )", "( ( -name x -o ) )", "-true ( ( ( , -false ) ) )", "( -true"]:
                out.append((P(bad), "rejected-parens"))
            g = [P("-depth ( -name x ) -o ( -size +1k -print )"), P("-depth -name x -o -size +1k -print"), P("-depth (-name x) -or ((-size +1k -print))")]
            self.groups.append(g)
            out += [(c, "after-rejected") for c in g]
        blanks = ["", " ", "\t", "\n", "\r", " \t\r\n ", "   ", "-true"]
        self.groups.append([P(b) for b in blanks])
        for b in blanks:
            out.append((P(b), "blank"))
        return out

    def nontrivial(self, case, line):
        return ".20." in case or ".9." in case

    def post(self, results):
        res = {c: i for c, i, m in results}
        bad = []
        for g in getattr(self, "groups", []):
            got = [(c, res[c]) for c in g if c in res]
            for c, i in got[1:]:
                if i != got[0][1]:
                    bad.append((c, "two spellings of one expression give different results: %s and %s" % (got[0][0], c)))
                    break
        return bad


# ------------------------------------------------------------------------------------------- C07

@register
class C07(Prop):
    id = "C07"
    theorems = []

    def oracle(self, case, impl, model):
        nums = lambda t: sorted(re.findall(r"(?<![\w.:%])\d+(?![\w.:])", re.sub(r"clock \d+ ", "", t)))
        if impl.startswith("OK") != model.startswith("OK"):
            return ("a number the property demands to be rejected is accepted" if impl.startswith("OK")
                    else "a number in the range of its field is rejected")
        if nums(impl) != nums(model):
            return ("the numbers carried into the tree or the emitted constants are %s where the property demands %s"
                    % ([x for x in nums(impl) if x not in nums(model)][:4], [x for x in nums(model) if x not in nums(impl)][:4]))
        return None

    def project(self, case, line):
        return std_struct(line)
    release = True
    rule = ("every numeric primary x decimal strings around 0, 2^31, 2^32, 2^63, 2^64, 2^64/unit (+-1) for every "
            "unit, leading zeros, signs, up to 40 digits, random values; both profiles; compared: the number in the "
            "tree and every constant of the emitted program. Non-trivial: values >= 2^16")

    def cases(self, tier, rng):
        out = []
        nums = set(gen.BOUNDARY_NUMS)
        for b in [2**31, 2**32, 2**63, 2**64]:
            nums |= {b - 2, b - 1, b, b + 1}
        for m in [1, 2, 512, 2**10, 2**20, 2**30, 2**40, 60, 3600, 86400]:
            nums |= {2**64 // m - 1, 2**64 // m, 2**64 // m + 1}
        nums |= {10**39, 10**40 - 1, int("9" * 40)}
        for _ in range(200 if tier == "quick" else 5000):
            nums.add(rng.randint(0, 2**rng.randint(1, 70)))
        for n in sorted(nums):
            for z in ["", "0", "000"]:
                ds = z + str(n)
                for sg in ["", "+", "-"]:
                    for kw in gen.U32_KW + gen.U64_KW:
                        out.append((PC("%s %s%s" % (kw, sg, ds)), "count"))
                    for u in gen.SIZE_UNITS:
                        out.append((PC("-size %s%s%s" % (sg, ds, u)), "size"))
                    for kw in ["-amin", "-mtime"]:
                        for u in gen.TIME_UNITS:
                            out.append((PC("%s %s%s%s" % (kw, sg, ds, u)), "time"))
                out.append((PC("-threads %s -true" % ds), "threads"))
                out.append((PC("-true -threads %s" % ds), "threads"))
        for n in [0, 1, 7, 64, 2**32 - 1]:
            for sfx in ["-depth", "-depth -uid 5", "-uid 5 -depth", "-a -depth -a -uid 5", "-depth -depth", "-threads %d" % (n + 1)]:
                out.append((PC("-threads %d %s" % (n, sfx)), "threads-with-options"))
                out.append((PC("-uid 5 -threads %d %s" % (n, sfx)), "threads-with-options"))
        for kw in gen.U32_KW + gen.U64_KW + ["-size", "-amin", "-mtime", "-threads"]:
            for q in ["'", '"']:
                for body in ["5", "0x10", "1e6", "42 94967296", "10 G", "+1.5G", "5kb", "-5 d", "18446744073709551615 1", "07", " 7", "7 "]:
                    out.append((PC("%s %s%s%s" % (kw, q, body, q)), "quoted-numeric"))
        for a_, b_ in ((2, 3), (3, 2), (0, 7), (4294967295, 1), (2147483648, 5), (5, 2147483648)):
            for t_ in ["-threads %d -uid 7 -threads %d", "-threads %d -a -uid 7 -a -threads %d", "-depth -threads %d ( -uid 7 -o -threads %d )",
                       "-uid 7 -threads %d -o -threads %d", "-threads %d -threads %d -uid 7"]:
                out.append((PC(t_ % (a_, b_)), "threads-twice"))
        for n_ in [2147483647, 2147483648, 2147483649, 4294967294, 4294967295, 65535, 65536, 255, 256]:
            out.append((PC("-threads %d -uid 7" % n_), "threads-boundary"))
            out.append(("TC 0 %d 2f T UserId Eq 7" % n_, "threads-boundary"))
        return out

    def nontrivial(self, case, line):
        return len(case) > 40


# ------------------------------------------------------------------------------------------- C08

WHO = ["u", "g", "o", "a", "ug", "uo", "ua", "go", "ga", "oa", "ugo", "uga", "uoa", "goa", "ugoa"]
PERMS = ["r", "w", "x", "rw", "rx", "wx", "rwx"]
CLAUSES = [w + op + p for w in WHO for op in "+-=" for p in PERMS]


@register
class C08(Prop):
    id = "C08"
    theorems = []
    exhaustive_tags = ["octal3", "octal4", "clause1"]
    rule = ("all 4096 octal values in 3- and 4-digit spelling, all 315 single clauses, two-clause lists (10 000 sampled "
            "quick / all 99 225 thorough), sampled three- and four-clause lists, each under the three prefixes; "
            "compared: kind and bits in the tree and mask/constant in the emitted comparison. Non-trivial: all")

    def cases(self, tier, rng):
        out = []
        for v in range(4096):
            for pre in ["", "-", "/"]:
                if v < 512:
                    out.append((PC("-perm %s%03o" % (pre, v)), "octal3"))
                out.append((PC("-perm %s%04o" % (pre, v)), "octal4"))
        for c in CLAUSES:
            for pre in ["", "-", "/"]:
                out.append((PC("-perm " + pre + c), "clause1"))
        pairs = [(a, b) for a in CLAUSES for b in CLAUSES]
        if tier == "quick":
            pairs = rng.sample(pairs, 10000)
        for a, b in pairs:
            out.append((P("-perm %s%s,%s" % (rng.choice(["", "-", "/"]), a, b)), "clause2"))
        for _ in range(5000 if tier == "quick" else 100000):
            k = rng.choice([3, 4])
            out.append((P("-perm %s%s" % (rng.choice(["", "-", "/"]), ",".join(rng.choice(CLAUSES) for _ in range(k)))), "clause%d" % k))
        for _ in range(3000 if tier == "quick" else 60000):
            a, b = rng.choice(CLAUSES), rng.choice(CLAUSES)
            out.append((P("-perm %s%s,%s,%s" % (rng.choice(["", "-", "/"]), a, b, a)), "clause-repeat"))
        for bad in ["8", "77", "17777", "20000", "777777777777", "0777x", "777,u+x", "u+x,777", "u+rq", "u+", "+r", "u", "u+r,", ",u+r", "a=rwxs", ""]:
            for pre in ["", "-", "/"]:
                out.append((P("-perm " + pre + bad), "malformed"))
        for bits in [0o010000, 0o040000, 0o040755, 0o100644, 0o170000, 0o177777, 0o200000, 2**31, 2**32 - 1, 0o7777, 0]:
            for k_ in ("Equal", "AtLeast", "Any"):
                out.append(("TC 0 - 2f T Perm %s %d" % (k_, bits), "api-wide-bits"))
                out.append(("TC 0 - 2f And T Name S78 Not T Perm %s %d" % (k_, bits), "api-wide-bits"))
        return out

    def project(self, case, line):
        return std_struct(line)

    def known_class(self, case):
        return "-" in unesc_case(case).split(" ", 1)[1][1:] if False else None


def unesc_case(case):
    f = case.split(" ")[1]
    return "" if f == "-" else "".join(chr(int(x, 16)) for x in f.split("."))



def formats_ending_in_every_escape():
    """formats whose last element is each documented escape and each octal escape \\000-\\017, \\177, \\377, \\400"""
    ends = ["\\a", "\\b", "\\c", "\\f", "\\n", "\\r", "\\t", "\\v", "\\0", "\\\\", "\\"] \
        + ["\\%03o" % v for v in list(range(0, 16)) + [0o177, 0o377, 0o400, 0o777]] + ["%%", "x", "\\n\\n", "\\n "]
    out = []
    for e in ends:
        out.append("-printf '%%p%s'" % e)
        out.append("-printf '%%p\\n%s'" % e)
        out.append("-print -printf '%%s %%p%s'" % e)
    return out

# ------------------------------------------------------------------------------------------- C09

C09_LEAVES = ["T True", "T False", "T Name S78", "A Print", "A Quit", "A FilePrint S66"]


def small_trees(n_ops):
    """all trees with exactly n_ops operator nodes over the C09 leaves and And/Or/List/Not"""
    if n_ops == 0:
        for l in C09_LEAVES:
            yield l
        return
    for t in small_trees(n_ops - 1):
        yield "Not " + t
    for k in range(0, n_ops):
        for a in small_trees(k):
            for b in small_trees(n_ops - 1 - k):
                for op in ("And", "Or", "List"):
                    yield "%s %s %s" % (op, a, b)


@register
class C09(Prop):
    id = "C09"
    theorems = []

    def post(self, results):
        # model-independent half: the shape the property demands, decided on the implementation's own answers
        return [(c, w) for c, i, m in results for w in [SP.c09_evidence(i or "")] if w]

    def project(self, case, line):
        return std_struct(line)
    rule = ("all expression trees with up to 2 (quick) / 3 (thorough) operator nodes over {true, false, a name test, "
            "print, quit, a file print} and And/Or/List/Not, exhaustively, plus random larger trees and parsed "
            "expressions; compared: the emitted program as read back and the destination table; the shape the property demands is also decided on the implementation's own answer. Non-trivial: at least one operator")

    def cases(self, tier, rng):
        out = []
        maxops = 2 if tier == "quick" else 3
        for k in range(0, maxops + 1):
            for t in small_trees(k):
                out.append(("TC 0 - 2f " + t, "exhaustive-ops-%d" % k))
        for _ in range(3000 if tier == "quick" else 100000):
            t = gen.tree(rng, rng.randint(1, 6), api_only=False, unsupported=0.0, actions=rng.choice([0.0, 0.1, 0.4]))
            out.append(("TC 0 - 2f " + t, "random-tree"))
            ws = gen.expr_words(rng, 3, hostile=0.0)
            out.append((PC(" ".join(ws)), "random-parsed"))
        for d in [100, 128, 129, 140, 200]:
            out.append((PC("-print" + " -true" * d), "deep-chain"))
            out.append((PC("-false -o " + "! " * d + "-quit"), "deep-chain"))
            out.append((PC("-true" * 1 + " -o -true" * d + " -o -fprint f"), "deep-chain"))
        # state carried between compilations in one process: alternate action / no action
        for _ in range(200):
            out.append((PC("-name a -print"), "alternating"))
            out.append((PC("-name a -o -name b"), "alternating"))
            out.append((PC("! -name c"), "alternating"))
            out.append((PC("! -quit"), "alternating"))
        for t_ in ["Prec A Print", "And T Name S61 Prec A Print", "Not Prec A Quit", "Or Prec And T False A FilePrint S6f T Name S61",
                   "Prec Prec A PrintFid", "Prec T True", "And Prec T True A Print", "List Prec A Print T True"]:
            out.append(("TC 0 - 2f " + t_, "api-precedence"))
        return out

    def nontrivial(self, case, line):
        return any(k in case for k in ("And ", "Or ", "List ", "Not ")) or case.startswith("PC")

    def oracle(self, case, impl, model):
        return SP.c09_evidence(impl)


def _strings_in(x, acc):
    stack = [x]
    while stack:
        y = stack.pop()
        if isinstance(y, list):
            stack.extend(reversed(y))
        elif isinstance(y, tuple) and y[0] == "s":
            acc.append(y[1])
    return acc


def read_forms(text):
    """the specified reader (extracted from Coq); the Python reader is only a fallback"""
    try:
        return coq_read_all([text])[0]
    except Exception:
        return SX.read_all(text)


def oracle_program(case, impl, model):
    ti, tm = scheme_of(impl), scheme_of(model)
    if (ti is None) != (tm is None):
        return "the implementation compiles where the property demands an error, or the reverse"
    if ti is None:
        return "different error"
    fi, fm = read_forms(ti[0]), read_forms(tm[0])
    if fi is None:
        return "the emitted program does not read back"
    if fi != fm:
        return "the emitted program differs in structure from the one the property demands"
    if compile_part(impl).split(" | ")[0] != compile_part(model).split(" | ")[0]:
        return "the destination table differs"
    return None


# ------------------------------------------------------------------------------------------- C10

OUT_ACTIONS = ["-print", "-print0", "-print-file-fid", "-fprint f1", "-fprint f2", "-fprint0 f1", "-fprint0 f3",
               "-printf '%p\\n'", "-printf '%p'", "-printf 'x\\n%s'", "-printf ''", "-fprintf f1 '%p\\n'",
               "-fprintf f2 '%p'", "-fprintf f1 ''",
               # file names an implementation might treat specially: empty, the standard streams, a dash
               "-fprint ''", "-fprint0 \"\"", "-fprintf '' '%p'", "-fprint /dev/stdout", "-fprint0 /dev/stdout",
               "-fprint /dev/stderr", "-fprint -", "-fprintf /dev/stdout '%p\\n'",
               "-fprint d//f", "-fprint d/f", "-fprint0 d/./f", "-fprint d/f/", "-fprint /tmp/.", "-fprint0 /usr/../tmp", "-fprint .",
               # a raw line feed inside literal format text (not the \n escape): in the middle, at the end
               "-printf '%p\nz'", "-printf 'a\nb %s\n'", "-printf '%p z\n'", "-fprintf f1 'x\ny'",
               "-quit"]


@register
class C10(Prop):
    id = "C10"
    theorems = []

    def post(self, results):
        return [(c, w) for c, i, m in results for w in [SP.c10_evidence(i or "")] if w]

    def project(self, case, line):
        return std_struct(line)
    rule = ("all multisets of up to 3 (quick) / 4 (thorough) actions from every output-producing action with file "
            "names from a pool of 3, in random operator trees; random mixes of up to 6; expressions with 1..300 distinct "
            "destinations and with more than 254 generated identifiers before a printer; compared: destination table, "
            "mode, and the emitted program. Non-trivial: at least 2 actions")

    def cases(self, tier, rng):
        out = []
        k = 3 if tier == "quick" else 4
        for n in range(1, k + 1):
            for combo in itertools.combinations_with_replacement(OUT_ACTIONS, n):
                ws = list(combo)
                rng.shuffle(ws)
                s = ws[0]
                for w in ws[1:]:
                    s += rng.choice([" ", " -o ", " -a ", " , ", " -o ! "]) + w
                if rng.random() < 0.3:
                    s = "-name x* ( " + s + " )"
                out.append((PC(s), "multiset-%d" % n))
        for _ in range(2000 if tier == "quick" else 50000):
            ws = [rng.choice(OUT_ACTIONS) for _ in range(rng.randint(2, 6))]
            s = ws[0]
            for w in ws[1:]:
                s += rng.choice([" ", " -o ", " -a ", " , "]) + w
            out.append((PC(s), "random-mix"))
        for nd in [1, 2, 17, 127, 128, 254, 255, 256, 300]:
            out.append((PC(" ".join("-fprint out.%d" % i for i in range(nd))), "many-destinations"))
            out.append((PC(" ".join("-fprint0 o%d -fprint o%d" % (i, i) for i in range(nd))), "many-destinations"))
        for nm in [125, 126, 127, 130]:
            names = " -o ".join("-name n%d" % i for i in range(nm))
            out.append((PC("-fprint early -fprint0 early ( %s ) -fprint late -fprint0 late -print0" % names), "late-printer"))
        out += [(PC(s_), "scale") for s_ in gen.scale_cases(rng)]
        out += [(PC(f), "format-ending") for f in formats_ending_in_every_escape()]
        for a in OUT_ACTIONS:
            for n in (0, 1, 2):
                out.append((PC("-threads %d %s" % (n, a)), "threads-x-action"))
                out.append((PC("%s -threads %d" % (a, n)), "threads-x-action"))
            out.append((PC("-depth " + a), "threads-x-action"))
        return out

    def nontrivial(self, case, line):
        return line.count("%lf3:print:") >= 2 or " none " in line

    def oracle(self, case, impl, model):
        return SP.c10_evidence(impl)


# ------------------------------------------------------------------------------------------- C11

@register
class C11(Prop):
    id = "C11"
    theorems = []

    def project(self, case, line):
        return std_struct(line)
    rule = ("expressions with 0..300 matchers and printers in random first-occurrence order with deliberate repeats, "
            "case-only differences (-name/-iname, -path/-ipath on the same text) and pattern/literal pairs, in plain "
            "and in framed mode; compared: the emitted program (bindings, references). Non-trivial: at least 2 "
            "generated resources")

    def cases(self, tier, rng):
        out = []
        pats = ["foo", "Foo", "f*", "f?o", "[f]oo", "a\\b", "core", "README", "x y", "zz", "ЖУРНАЛ", "ÉTÉ*", "123", "*.*"]
        kws = ["-name", "-iname", "-path", "-ipath"]
        acts = ["-print", "-print0", "-printf '%p\\n'", "-fprint o1", "-fprint0 o1", "-fprint o2", "-print-file-fid", "-printf '%p'",
                "-fprint /dev/stdout", "-fprint0 /dev/stdout", "-fprint ''", "-fprint -", "-fprint /dev/stderr"]
        for _ in range(4000 if tier == "quick" else 80000):
            n = rng.choice([0, 1, 2, 3, 5, 8, 12, 20])
            items = []
            for _ in range(n):
                if rng.random() < 0.7:
                    items.append("%s '%s'" % (rng.choice(kws), rng.choice(pats)))
                else:
                    items.append(rng.choice(acts if rng.random() < 0.5 else acts[:3] + acts[6:7]))
            if not items:
                items = ["-true"]
            s = items[0]
            for w in items[1:]:
                s += rng.choice([" ", " -o ", " -a "]) + w
            out.append((PC(s), "mixed-%d" % n))
        for n in [50, 127, 128, 200, 300]:
            s = " -o ".join("%s p%d" % (rng.choice(kws), rng.randint(0, n)) for _ in range(n))
            out.append((PC(s), "many"))
            out.append((PC(s + " -print0 -fprint z"), "many"))
        # requests that differ, but whose (pattern, case-sensitivity) or (destination, terminator) would collide
        # under a key built by gluing the parts together
        glue = ["/i", ":i", "|i", "#i", ",i", ";i", " i", "-i", "_i", ".i", "i", "/1", ":1", "1", ":true", "/ci", "\\0i", "/I"]
        for pat_ in ["docs", "a*", ""]:
            for g in glue:
                for a_, b_ in ((g, ""), ("", g)):
                    for tail in ["", " -print0"]:
                        out.append((PC("-ipath '%s%s' -o -path '%s%s'%s" % (pat_, b_, pat_, a_, tail)), "key-collision"))
                        out.append((PC("-name '%s%s' -o -iname '%s%s'%s" % (pat_, a_, pat_, b_, tail)), "key-collision"))
        for g in ["0", "/0", ":0", "\\0", "n", "/n", ":n", "-", "/-", ":None", ":Some", "a", "/a", "\\n"]:
            for a1, a2 in (("-fprint0", "-fprint"), ("-fprint", "-fprint0"), ("-fprintf", "-fprint0"), ("-fprint0", "-fprintf")):
                f1 = "%s 'o%s'%s" % (a1, "", " '%p'" if a1 == "-fprintf" else "")
                f2 = "%s 'o%s'%s" % (a2, g, " '%p'" if a2 == "-fprintf" else "")
                out.append((PC(f1 + " " + f2), "key-collision"))
                out.append((PC(f2 + " " + f1 + " " + f2), "key-collision"))
        for a in pats:
            for k1 in kws:
                for k2 in kws:
                    out.append((PC("%s '%s' -o %s '%s'" % (k1, a, k2, a)), "pairs"))
                    out.append((PC("%s '%s' -o %s '%s' -print0" % (k1, a, k2, a)), "pairs"))
        return out

    def nontrivial(self, case, line):
        return line.count("(%lf3:") >= 2

    def oracle(self, case, impl, model):
        ti = scheme_of(impl)
        if ti:
            forms = read_forms(ti[0])
            if forms is None:
                return "the emitted program does not read back"
            why = SX.scope_check(forms)
            if why:
                return why
        tm = scheme_of(model)
        if ti and tm:
            ki, km = SP.resource_skeleton(read_forms(ti[0])), SP.resource_skeleton(read_forms(tm[0]))
            if ki != km:
                return ("the bindings of the program, or the order in which the policy body refers to them, differ from what "
                        "the property demands (a reference reaches another resource, or sharing differs)")
        return None


# ------------------------------------------------------------------------------------------- C12

@register
class C12(Prop):
    id = "C12"
    theorems = []
    release = True
    rule = ("random trees over the full vocabulary with 0..3 unsupported constructs at random positions (dead "
            "branches, inside format strings), every unsupported construct alone, parsed and constructor-built; both "
            "profiles; compared: success, or the error kind and the construct it names. Non-trivial: tree with an operator")

    def cases(self, tier, rng):
        out = []
        singles = (["T %s S78" % t for t in ["AccessNewer", "ChangeNewer", "FsType", "Group", "InsensitiveLinkName",
                                              "InsensitiveRegex", "LinkName", "ModifyNewer", "Regex", "Samefile", "User"]]
                   + ["T NoGroup", "T NoUser", "A Prune", "A List", "A FileList S66", "P XDev"]
                   + ["A PrintFormatted 1 F %s" % f for f in ["Depth", "DeviceNumber", "FsType", "SymbolicTarget",
                                                              "PermissionsSymbolic", "TypeSymlink", "SecurityContext"]]
                   + ["A PrintFormatted 1 X Clear", "A FilePrintFormatted S66 2 L S61 X Clear"])
        for code in [0, 0o777, 0o1000, 0xd7ff, 0xd800, 0xdabc, 0xdfff, 0xe000, 0xffff]:
            out.append(("TC 0 - 2f A PrintFormatted 3 F Name X Ascii %d X Newline" % code, "api-only-code"))
            out.append(("TC 0 - 2f And T Name S2a.2e.63 A FilePrintFormatted S66 2 X Ascii %d L S61" % code, "api-only-code"))
        for s in singles:
            for d_ in ("0", "1"):
                for t_ in ("-", "0", "1", "7"):
                    if (d_, t_) != ("0", "-"):
                        out.append(("TC %s %s 2f %s" % (d_, t_, s), "single-with-options"))
                        out.append(("TC %s %s 2f And T Name S78 %s" % (d_, t_, s), "single-with-options"))
            out.append(("TC 0 - 2f " + s, "single"))
            out.append(("TC 0 - 2f Or T True " + s, "single-dead-branch"))
            out.append(("TC 0 - 2f And T False Not " + s, "single-dead-branch"))
        for _ in range(4000 if tier == "quick" else 100000):
            out.append(("TC 0 - 2f " + gen.tree(rng, rng.randint(1, 5), api_only=False, unsupported=rng.choice([0.0, 0.1, 0.3])), "random-tree"))
            ws = gen.expr_words(rng, 3, unsupported=rng.choice([0.0, 0.15, 0.4]), hostile=0.0)
            out.append((PC(" ".join(ws)), "random-parsed"))
            if rng.random() < 0.3:
                opt = rng.choice(["-depth", "-threads 1", "-threads 0", "-depth -threads 3"])
                out.append((PC(rng.choice([opt + " " + " ".join(ws), " ".join(ws) + " " + opt])), "random-parsed-with-options"))
        # unsupported primaries that take a word: with numeric, empty and odd arguments; with options around
        for kw in gen.STR_TESTS_UNSUP + gen.STR_ACTIONS_UNSUP:
            for arg in ["1000", "007", "0", "''", '""', "-1", "root", "'a b'", "x*"]:
                for pre in ["", "-depth ", "-threads 1 ", "-name x "]:
                    out.append((PC("%s%s %s" % (pre, kw, arg)), "unsupported-word-argument"))
        unsup = ["%d", "%D", "%F", "%l", "%M", "%Y", "%Z", "\\c"]
        for u_ in unsup:
            for f_ in [u_, u_ + "\\n", "%p" + u_, "%p" + u_ + "\\n", u_ + "%p", "%p\\n" + u_, "a" + u_ + "b", u_ + u_, "%p " + u_ + " %s\\n"]:
                for act in ["-printf '%s'", "-fprintf out '%s'", "-false -printf '%s'", "-name x -o -printf '%s' -print"]:
                    out.append((PC(act % f_), "unsupported-directive-position"))
        for kw in ["-maxdepth", "-mindepth"]:
            for n_ in ["0", "00", "1", "3", "4294967294", "4294967295", "4294967296", "18446744073709551615", "-1", "+1", "x", "''"]:
                for ctx in ["%s", "-depth %s", "-name foo %s", "-name foo -o ( %s -print )", "! %s", "%s -print", "-threads 2 %s -a -true"]:
                    out.append((PC(ctx % (kw + " " + n_)), "refused-option-number"))
        for kw in gen.BARE_TESTS_UNSUP + gen.BARE_ACTIONS_UNSUP:
            for pre in ["", "-depth ", "-threads 1 ", "-depth -name x ", "-name x -o "]:
                for post in ["", " -depth", " -o -print", " -print"]:
                    out.append((PC(pre + kw + post), "unsupported-bare"))
        return out

    def project(self, case, line):
        c = compile_part(line) if " || " in line else line
        c = strip_clock(c)
        if " COK " in c:
            return parse_part(line).split(" ")[0] + " COK"
        m = CERR_RE.search(" " + c)
        if m:
            # the variant and the construct named; of the Display text only whether it names that construct
            # (case-insensitively, as a phrase such as "-nouser" or "no user" would also name it: not decided here)
            name = m.group(2).split("(")[0]
            names = name.lower() in m.group(3).lower()
            return "%s CERR %s %s display-names-construct=%s" % (parse_part(line).split(" ")[0], m.group(1), m.group(2), names)
        return parse_part(line).split(" ")[0] + " " + c

    def nontrivial(self, case, line):
        return any(k in case for k in ("And ", "Or ", "List ", "Not ")) or case.startswith("PC")


# ------------------------------------------------------------------------------------------- C13

@register
class C13(Prop):
    id = "C13"
    theorems = []

    def oracle(self, case, impl, model):
        text = unesc_case(case) if case.startswith("P") else ""
        if not any(k in text for k in ("-depth", "-threads", "-maxdepth", "-mindepth")):
            # no option in the input: the only part of the property in play is the default thread count
            ai, am = SP.thread_argument(impl), SP.thread_argument(model)
            if ai != am and ai is not None and am is not None:
                return "the scan call is given %s threads where the property demands the runtime's default %s" % (ai, am)
            return None
        return "options, tree or thread count differ from what the theorems prove the property demands on an input with options"

    def project(self, case, line):
        # the options returned, the tree (no option node in it), and the thread-count argument of the
        # emitted scan call; how the tests and actions of the tree are compiled is other properties' subject
        c = compile_part(line)
        cls = "COK" if " COK " in " " + c else cerr_struct(" " + strip_clock(c)).strip() if c else ""
        return "%s || %s threads-argument=%s" % (tree_or_err(parse_part(line)), cls, SP.thread_argument(line))
    rule = ("random expressions with 0..4 options (-depth, -threads N, -maxdepth N, -mindepth N) inserted at random "
            "word boundaries (front, middle, inside parentheses, after '!'), repeated with different values; compared: "
            "returned options, tree, and the thread argument of the emitted scan call. Non-trivial: at least one option")

    def cases(self, tier, rng):
        out = []
        for _ in range(6000 if tier == "quick" else 150000):
            ws = gen.expr_words(rng, rng.randint(0, 3), hostile=0.0)
            # word boundaries that are primary starts
            starts = [i for i, w in enumerate(ws) if w.startswith("-") and w not in ("-a", "-and", "-o", "-or")
                      and (i == 0 or not ws[i - 1].startswith("-") or ws[i - 1] in gen.BARE_TESTS_OK + gen.BARE_ACTIONS_OK + ["-a", "-and", "-o", "-or"])]
            k = rng.randint(0, 4)
            opts = []
            for _ in range(k):
                o = rng.choice(["-depth", "-threads %d" % rng.choice([0, 1, 4, 64, 2**32 - 1]), "-threads %d" % rng.randint(0, 99)]
                               + (["-maxdepth 3", "-mindepth 1"] if rng.random() < 0.15 else []))
                opts.append(o)
            lead = rng.randint(0, k)
            s_words = list(ws)
            for o in opts[lead:]:
                pos = rng.choice(starts + [len(s_words)]) if starts else len(s_words)
                s_words = s_words[:pos] + [o] + s_words[pos:]
                starts = [i + (1 if i >= pos else 0) for i in starts]
            s = " ".join(opts[:lead] + s_words)
            out.append((PC(gen.join_words(rng, s.split(" "), fancy=rng.random() < 0.2)), "options-%d" % k))
        for lead in ["-depth", "-threads 3", "-threads 3 -depth", "-depth -and -threads 2"]:
            for andw in ["", "-a", "-and"]:
                for operand in ["-name x", "! -name x", "( -name x -o -type f )", "! ( -name x )", "-print", ", -true", "-o -true", ")", "-depth", "! -empty -print0"]:
                    out.append((PC(" ".join(w for w in [lead, andw, operand] if w)), "leading-and-operand"))
        for s in ["-depth", "-threads 3", "-depth -threads 2 -threads 7", "-true -depth", "( -depth )", "! -threads 9",
                  "-threads 1 -true -threads 2 -o -threads 3", "-maxdepth 3", "-true -mindepth 1", "-depth -depth",
                  "-threads 4294967295", "-threads 4294967296"]:
            out.append((PC(s), "directed"))
        # one compiled expression rendered several times: every rendering carries the thread count
        for s in ["-threads 7 -name x", "-name x -threads 7", "-threads 0 -print", "-depth -threads 4294967295", "-name x", "-depth"]:
            for paths in (["/dev/mdt0", "/dev/mdt1"], ["/a", "/a", "/b"], ["", "x", ""]):
                out.append(("R %s %d %s" % (hx(s), len(paths), " ".join(hx(p_) for p_ in paths)), "repeated-rendering"))
        return out

    def nontrivial(self, case, line):
        return "2d.64.65.70.74.68" in case or "2d.74.68.72.65.61.64.73" in case


# ------------------------------------------------------------------------------------------- C14

C14_ALPHABET = ["%", "\\", "{", "}", ":", "A", "p", "q", "0", "1", "7", "8", "n", "f", "@", "x", "+", "-"]


@register
class C14(Prop):
    id = "C14"
    theorems = []
    rule = ("all strings up to length 4 (quick) / 5 (thorough) over the 18-symbol alphabet % \\ { } : A p q 0 1 7 8 n f @ x + -, "
            "every documented directive and escape individually and in context, random strings up to length 60; "
            "compared: the element list, or the fact of rejection. Non-trivial: strings of length >= 2")

    def cases(self, tier, rng):
        out = []
        L = 4 if tier == "quick" else 5
        for n in range(0, L + 1):
            for t in itertools.product(C14_ALPHABET, repeat=n):
                out.append((P("-printf '" + "".join(t) + "'"), "exhaustive-len-%d" % n))
        singles = ["%" + f for f in gen.FMT_FIELDS_OK + gen.FMT_FIELDS_UNSUP] + gen.FMT_ESC + ["\\c"] \
            + ["\\%03o" % v for v in range(0, 512, 7)] + ["\\%o" % v for v in [1, 7, 12, 77]] \
            + ["%{xattr:user}", "%{xattr:}", "%{xattr:a1}", "%{xattr:a", "%{fid", "%{}", "%A", "%T", "%C", "%", "%q", "%9"]
        for s in singles:
            for ctx in ["%s", "a%sb", "%s%s", "x%s", "%sy", "%%%s", "\\\\%s"]:
                out.append((P("-printf '" + ctx.replace("%s", s) + "'"), "single"))
        for body in ["xattr:xattr:lov", "xattr:xattr:xattr:a", "xattr:fid", "xattr:a:b", "fid}", "{fid}", "xattr::a", "xattr:a}", "projid:x", "xattr:é", "XATTR:a"]:
            for ctx in ["%{B}", "%p %{B}\\n", "a%{B}b", "%{B}%{B}"]:
                out.append((P("-printf '" + ctx.replace("B", body) + "'"), "braced"))
        for lit in ["é", "éa", "taille→ ", "→", "日本", "a💾b", "\u00a0"]:
            for ctx in ["L%p", "L%%", "L\\n", "%pL%s", "L\\101L", "%p L", "LL%{fid}"]:
                out.append((P("-printf '" + ctx.replace("L", lit) + "'"), "non-ascii-literal"))
        for _ in range(5000 if tier == "quick" else 200000):
            n = rng.randint(1, 60)
            s = "".join(rng.choice(C14_ALPHABET + list("abcdDFghHiklmMPsStuUyYZ {}-é→") + ["{fid}", "{projid}", "{xattr:", "xattr:"]) for _ in range(n))
            out.append((P("-printf \"" + s.replace('"', "") + "\""), "random"))
        return out

    def project(self, case, line):
        return tree_or_err(line)

    def nontrivial(self, case, line):
        return len(case) > 40


# ------------------------------------------------------------------------------------------- C15

@register
class C15(Prop):
    id = "C15"
    theorems = []
    logger = True          # also run in a process with a logger installed at every level

    def project(self, case, line):
        # against the model: the program as read back; the byte-for-byte comparisons this property is
        # about are between the implementation's own answers (post / oracle)
        if case.startswith("FS "):
            return "FS"          # decided on the implementation's own two answers (post); the model has no file system
        return std_struct(line)
    single_process = False
    rule = ("random expressions biased to many matchers/printers/files, each parsed+compiled 5 times in one process "
            "with unrelated compilations in between, the whole batch in several fresh processes (fresh hash seeds), and "
            "a same-process sequence compile / sleep past a second boundary / compile; compared: every result with the "
            "model's single answer for the clock reading measured around the call (which bounds the embedded second); "
            "rejected and refused inputs repeat too; the same batch in a process with a logger installed; trees with a "
            "shared subtree against their unshared equals; compile / create the destination files / compile again. "
            "Non-trivial: at least 2 generated resources or a time test")

    def cases(self, tier, rng):
        out = []
        pats = ["a", "b*", "c?", "D", "e.txt", "f[0-9]"]
        for _ in range(1500 if tier == "quick" else 30000):
            items = []
            for _ in range(rng.randint(2, 12)):
                r = rng.random()
                if r < 0.4:
                    items.append("%s %s" % (rng.choice(["-name", "-iname", "-path", "-ipath"]), rng.choice(pats)))
                elif r < 0.8:
                    items.append(rng.choice(["-print", "-print0", "-fprint o1", "-fprint o2", "-fprint0 o1", "-fprintf o3 '%p'", "-printf '%s\\n'", "-print-file-fid"]
                                            + ["-fprint " + p_ for p_ in FS_PATHS[5:]]))
                elif r < 0.93:
                    items.append("%s %s%d" % (rng.choice(gen.TIME_KW), gen.sign(rng), rng.randint(0, 50)))
                else:
                    items.append(rng.choice(["-depth", "-threads %d" % rng.randint(1, 9)]))
            s = items[0]
            for w in items[1:]:
                s += rng.choice([" ", " -o ", " -a "]) + w
            out.append((PC(s, "/dev/x"), "base"))
        # an error is a result too: inputs that are rejected, and expressions that are refused with several
        # unsupported constructs at once (which one is named must not vary between calls or processes)
        unsup_f = ["%d", "%D", "%F", "%l", "%M", "%Y", "%Z", "\\c"]
        for _ in range(200 if tier == "quick" else 4000):
            k = rng.randint(2, 6)
            fmt = " ".join(rng.sample(unsup_f, k)) + rng.choice(["", "%p", "\\n"])
            out.append((PC("%s-printf '%s'" % (rng.choice(["", "-name a ", "-nouser -o "]), fmt), "/dev/x"), "base-refused"))
            ws = gen.expr_words(rng, 3, unsupported=0.6, hostile=0.0)
            out.append((PC(" ".join(ws), "/dev/x"), "base-refused"))
            ws = gen.expr_words(rng, 3, unsupported=0.2)
            out.append((PC(mutate(rng, " ".join(ws)), "/dev/x"), "base-rejected"))
        # trees built through the public constructors: the same VALUE with one shared allocation on both sides
        # of an operator and with two separate ones must compile alike (they are equal inputs)
        for _ in range(150 if tier == "quick" else 3000):
            t = gen.tree(rng, rng.randint(0, 3), api_only=False, unsupported=0.0)
            opn = rng.choice(["And", "Or", "List"])
            wrap_ = rng.choice(["%s", "Not %s", "And T Name S78 %s", "Or %s A PrintNull"])
            out.append(("TC 0 - 2f " + wrap_ % ("Dup%s %s" % (opn, t)), "shared-subtree"))
            out.append(("TC 0 - 2f " + wrap_ % ("%s %s %s" % (opn, t, t)), "shared-subtree"))
        # the state of the host's file system is no input: compile, create every destination file, compile again
        for t_ in ["-fprint @T@/out", "-fprint @T@/out -o -fprint0 @T@/./out -fprint @T@/d//f", "-name x -fprintf @T@/d/../out '%p'",
                   "-fprint0 @T@/x -print", "-fprint @T@/./d/f -fprint @T@/d/f", "-fprint @T@", "-fprint @T@/."]:
            out.append(("FS " + hx(t_), "fs-state"))
        # three repetitions that land in the same process (batch length a multiple of the shard
        # count), two that land in other processes (shifted by one), all with unrelated compilations
        # in between
        while len(out) % 16:
            out.append((PC("-true"), "pad"))
        base = list(out)
        out = base + [(c, "same-process-repeat") for c, _ in base] * 2
        out.append((PC("-false"), "shift"))
        out += [(c, "other-process-repeat") for c, _ in base] * 2
        return out


    def sequences(self, tier, rng):
        """compile / sleep past a second boundary / compile again, all in one process"""
        tt = ["-mmin +5 -amin -10 -o -ctime 1 -name x", "-amin +1s -print", "-mtime -2 -fprint o -o -atime 3"]
        seq = []
        for t in tt:
            seq.append(PC(t))
        seq.append("Z 1100")
        for t in tt:
            seq.append(PC(t))
        seq.append("Z 1100")
        seq.append(PC(tt[0]))
        # a compile that fails after a time test was translated, then a good one a second later
        seq.append(PC("-mmin -5 -ls"))
        seq.append(PC("( -name core -o -atime +30 ) -printf '%p %M\\n'"))
        seq.append("Z 1100")
        seq.append(PC("-mmin -5"))
        seq.append(PC("-name '*.c' -threads 4 -print"))
        seq.append(PC("-name '*.c' -threads 4 -print"))
        seq.append(PC("-type f -depth"))
        seq.append(PC("-type f -depth"))
        return [seq]

    def nontrivial(self, case, line):
        return line.count("(%lf3:") >= 2 or "quotient" in line

    def oracle(self, case, impl, model):
        # a difference from the model is not by itself a difference between two runs (see post()); what it can
        # show is the second half of the property: the embedded second is the clock reading around the call
        mc = re.search(r"clock (\d+) ", impl)
        if mc and " COK " in impl and " COK " in model:
            big = lambda t: set(x for x in re.findall(r"\d{9,}", t))
            extra = big(compile_part(impl)) - big(compile_part(model))
            if extra:
                return ("the program embeds the second(s) %s while the clock read %s both before and after the compile call"
                        % (sorted(extra)[:3], mc.group(1)))
        return None

    def post(self, results):
        from .core import expand_dups
        seen, bad = {}, []
        for c, i, m in results:
            if (i or "").startswith("NEQ-SELF"):
                bad.append((c, "two parses of the same text (or a result and its clone) do not compare equal under the library's own =="))
                continue
            if c.startswith("FS "):
                if (i or "").startswith("FS DIFF"):
                    bad.append((c, "compiling the same input before and after its destination files were created gives different results: " + i[8:400]))
                continue
            k = strip_epoch(i)
            key = expand_dups(c)      # a tree with a shared subtree and the same tree without sharing are equal inputs
            if key in seen and seen[key] != k:
                bad.append((c, "two compilations of the same input give different results"))
            seen.setdefault(key, k)
        return bad


# ------------------------------------------------------------------------------------------- C16

@register
class C16(Prop):
    id = "C16"
    theorems = []

    def project(self, case, line):
        return std_struct(line)
    rule = ("programs with 1..3 printers (every printer-creating action, stdout and files, all terminators) in random "
            "operator trees; compared: the emitted program, whose printer bindings and frame procedure are the lock/"
            "write/unlock step sequences the interleaving theorem quantifies over; in addition the locking discipline "
            "is re-checked on the implementation's own text. Non-trivial: at least one printer")
    assumes = ["Guile mutexes (ice-9 threads), atomicity of one display call on a port, and make-printer = lock; write "
               "line; write terminator; unlock are assumed (no Guile or LiPE in the sandbox)"]

    def cases(self, tier, rng):
        out = []
        acts = OUT_ACTIONS[:-1]
        for n in (1, 2, 3):
            for combo in itertools.combinations_with_replacement(acts, n):
                ws = list(combo)
                s = ws[0]
                for w in ws[1:]:
                    s += rng.choice([" ", " -o ", " , "]) + w
                out.append((PC(s), "printers<=%d" % n))
                out.append((PC("-name q* " + s), "printers<=%d" % n))
        for _ in range(1000 if tier == "quick" else 30000):
            ws = gen.expr_words(rng, 3, hostile=0.0)
            out.append((PC(" ".join(ws)), "random"))
        out.append((PC("-true"), "default-print"))
        out += [(PC(f), "format-ending") for f in formats_ending_in_every_escape()]
        return out

    def nontrivial(self, case, line):
        return "%lf3:print:" in line

    def oracle(self, case, impl, model):
        ti = scheme_of(impl)
        if ti:
            forms = SX.read_all(ti[0])
            if forms is None:
                return "the emitted program does not read back"
            why = SX.discipline_check(forms)
            if why:
                return why
        # whole records also need the right mode: plain output only for newline-terminated records
        return SP.c10_evidence(impl)

    def post(self, results):
        bad = []
        for c, i, m in results:
            ti = scheme_of(i)
            if ti:
                forms = SX.read_all(ti[0])
                why = SX.discipline_check(forms) if forms else "the emitted program does not read back"
                why = why or SP.c10_evidence(i)
                if why:
                    bad.append((c, why))
        return bad


# ------------------------------------------------------------------------------------------- C17

@register
class C17(Prop):
    id = "C17"
    theorems = []

    def project(self, case, line):
        # against the model: the program as read back; the byte-for-byte comparisons this property is
        # about are between the implementation's own answers (post / oracle)
        return std_struct(line)

    def oracle(self, case, impl, model):
        # a difference from the model is not a difference between the two builds: see post()
        return None
    release = True
    rule = ("the corpora of C03 and C05 (valid, invalid and boundary inputs) through a debug and a release build of the "
            "same harness; compared record by record with the model (hence with each other), clock normalised by "
            "construction. Non-trivial: inputs of at least 2 words")

    def cases(self, tier, rng):
        out = []
        # the C03 corpus already contains the C05 corpus (members and corrupted members)
        c3 = PROPS["C03"].cases(tier, rng)
        out += [(c, "C03+C05-corpus") for c, _ in c3]
        for u in ["Byte", "Word", "Block", "KiloByte", "MegaByte", "GigaByte", "TeraByte"]:
            out.append(("TC 0 - 2f T Size Gt %s 18446744073709551615" % u, "size-overflow"))
        for nm in [120, 126, 127, 128, 200]:
            names = " -o ".join("-name n%d" % i for i in range(nm))
            out.append((PC("( %s ) -print0" % names), "many-resources"))
            out.append((PC(" -o ".join("-fprint out%d.txt" % i for i in range(nm * 2))), "many-resources"))
        for v in ["40000000644", "100000000000", "37777777777", "40000000111", "7777777777777777777777777", "00000000000000644"]:
            for pre in ["", "-", "/"]:
                out.append((PC("-perm %s%s" % (pre, v)), "octal-overflow"))
        return out

    def nontrivial(self, case, line):
        return ".20." in case

    def post(self, results):
        # debug and release answers of one case must be identical (clock aside)
        seen, bad = {}, []
        for c, i, m in results:
            k = strip_epoch(i)
            if c in seen and seen[c] != k:
                bad.append((c, "debug and release builds answer differently: %s / %s" % (seen[c][:200], k[:200])))
            seen.setdefault(c, k)
        return bad


# ------------------------------------------------------------------------------------------- C18

INVALID_ARGS = {
    "num": ["x", "-x", "+x", "abc", "k5", "'5'", "=5", "99999999999999999999999", "\\d", "x\\y", "x'y", "n\"1", "\x07", "z\x1b[0m", "é", "x\u00a0y"],
    "str": [")"],
    "perm": ["8", "q+r", "+r", "=", "rwx", "7", "u", "88"],
    "type": ["x", "q,f", "ff", "F", "1", ",f"],
    "size": ["x", "k", "+k", "-M", "five"],
    "fmt": [],
}
KW_CLASS = [(k, "num") for k in gen.TIME_KW + gen.U32_KW + gen.U64_KW + ["-threads", "-maxdepth", "-mindepth"]] + \
           [("-size", "size"), ("-perm", "perm"), ("-type", "type")] + \
           [(k, "str") for k in gen.STR_TESTS_OK + gen.STR_TESTS_UNSUP + gen.STR_ACTIONS_OK + gen.STR_ACTIONS_UNSUP + ["-printf", "-fprintf", "-xattr-match"]]


@register
class C18(Prop):
    id = "C18"
    theorems = []
    logger = True          # also run in a process with a logger installed at every level
    rule = ("every argument-taking keyword x invalid-from-the-start argument words and end of input, after 0..3 valid "
            "primaries and before 0..2 more; unknown words at random positions; well-formed expressions damaged by one "
            "or two edits; compared: the kind of error, the keyword it names, the word it quotes and whether an "
            "explanation follows (not the wording of the explanation). Non-trivial: the primary is embedded (not alone)")

    def project(self, case, line):
        return perr_struct(line) if line.startswith("ERR") else tree_or_err(line)

    def cases(self, tier, rng):
        out = []
        reps = 2 if tier == "quick" else 30
        valid = ["-true", "-name x", "-size +5k", "-print", "( -false )", "! -empty", "-uid 5 -o", "-type f ,"]
        for _ in range(reps):
            for kw, cls in KW_CLASS:
                for a in INVALID_ARGS[cls] + [None]:
                    pre = [rng.choice(valid) for _ in range(rng.randint(0, 3))]
                    post = [rng.choice(valid[:6]) for _ in range(rng.randint(0, 2))]
                    mid = kw if a is None else kw + " " + a
                    if a is None:
                        post = []
                    out.append((P(" ".join(pre + [mid] + post)), "invalid-arg" if a is not None else "missing-arg"))
            for w in ["foo", "-foo", "nope", "-anewerx", "-amin5", "-printx", "x-true", "-true-false", "--true", "5", "+", "=", "'q'", "-Name",
                      "-new\\er", "-it's", "-bo\x0cgus", "-quitx", "-print00", "-depths", "-lsx", "-emptyy", "\"ab\" x", "é" * 30]:
                pre = [rng.choice(valid) for _ in range(rng.randint(0, 3))]
                post = [rng.choice(valid[:6]) for _ in range(rng.randint(0, 2))]
                out.append((P(" ".join(pre + [w] + post)), "unknown-word"))
        # rejected inputs of every other shape: well-formed expressions damaged by one or two edits
        for _ in range(6000 if tier == "quick" else 150000):
            ws = gen.expr_words(rng, depth=rng.randint(1, 4), unsupported=0.1, options=0.1)
            s_ = gen.join_words(rng, ws, fancy=rng.random() < 0.2)
            for _k in range(rng.randint(1, 2)):
                s_ = mutate(rng, s_)
            out.append((P(s_), "random-damaged"))
        return out

    def nontrivial(self, case, line):
        return case.count(".20.") >= 2

    def oracle(self, case, impl, model):
        if not impl.startswith("ERR") and model.startswith("ERR"):
            return "the input is accepted although the property demands an error"
        if impl.startswith("ERR") and not model.startswith("ERR"):
            return None
        return ("the error does not name the keyword / quote the word that the theorems prove it must: expected %s, got %s"
                % (perr_struct(model)[:200], perr_struct(impl)[:200]))

    def post(self, results):
        """model-independent half of the property: a message is never empty and the word it quotes
        (and the keyword it names) occur in the input"""
        bad = []
        for c, i, m in results:
            if not c.startswith("P ") or not (i or "").startswith("ERR"):
                continue
            text = unesc_case(c)
            msg = unesc(i[3:].strip())
            if not msg.strip():
                bad.append((c, "the input is rejected with an empty message"))
                continue
            for rx in (PERR_ARG, PERR_TOK):
                mm = rx.match(unesc(i))
                if mm:
                    quoted = [mm.group(1)] + ([mm.group(3)] if rx is PERR_ARG else [])
                    # ... and whatever the explanation that follows puts between back-quotes
                    if rx is PERR_ARG and mm.group(4):
                        quoted += re.findall(r"`([^`]*)`", mm.group(4))
                    for q in quoted:
                        if q and q not in text:
                            bad.append((c, "the message quotes `%s`, which does not occur in the input" % q[:80]))
                    break
        return bad


# ------------------------------------------------------------------------------------------- C19

@register
class C19(Prop):
    id = "C19"
    theorems = ["C19_action", "C19_frames", "C19_units", "C19_byte_size"]
    release = True
    rule = ("random trees built through the public constructors (depth <= 12, incl. Prec/Global/Positional/"
            "nested List nodes and empty formats), directed formatted prints (newline escape first/middle/last/absent), "
            "every Size/TimeSpec unit with boundary counts; a case is non-trivial when the tree has at least one "
            "operator node or the helper is a unit helper; distinct = distinct case lines")

    def cases(self, tier, rng):
        n = 3000 if tier == "quick" else 60000
        out = []
        for i in range(n):
            d = rng.choice([1, 2, 3, 4, 6, 8, 12])
            out.append(("T " + gen.tree(rng, d, True, unsupported=0.1, actions=0.35), "tree-depth<=%d" % d))
        els = ["X Newline", "L S61", "F Name", "X TabHorizontal", "X Ascii 10", "L Sa", "X Clear", "X Null"]
        for k in range(0, 4):
            for combo in itertools.product(els, repeat=k):
                f = "%d%s" % (k, "".join(" " + e for e in combo))
                for wrap in ["%s", "Not %s", "And T True %s", "Or %s T False", "List T True Prec %s", "Prec Not %s"]:
                    out.append(("T " + wrap % ("A PrintFormatted " + f), "directed-printf"))
        for a in ["Print", "PrintNull", "PrintFid", "Quit", "Prune", "List", "DefaultPrint", "FileList S66", "FilePrint S66",
                  "FilePrintNull S66", "FilePrintFormatted S66 1 X Newline", "FilePrintFormatted S66 0"]:
            for wrap in ["%s", "Not %s", "Prec %s", "Or T True %s", "List %s T True", "And T False Not Prec %s"]:
                out.append(("T " + wrap % ("A " + a), "directed-action"))
        units = ["Byte", "Word", "Block", "KiloByte", "MegaByte", "GigaByte", "TeraByte"]
        mult = [1, 2, 512, 2**10, 2**20, 2**30, 2**40]
        for u, m in zip(units, mult):
            for nn in [0, 1, 2, 1000, (2**64 - 1) // m, (2**64 - 1) // m + 1, 2**64 - 1, 2**63, rng.randint(0, 2**64 - 1)]:
                if nn < 2**64:
                    out.append(("U %s %d" % (u, nn), "size-unit"))
        for u in ["Second", "Minute", "Hour", "Day"]:
            out.append(("V %s %d" % (u, rng.randint(0, 2**64 - 1)), "time-unit"))
        return out

    def project(self, case, line):
        if case.startswith("U "):
            _, u, n = case.split(" ")
            m = dict(Byte=1, Word=2, Block=512, KiloByte=2**10, MegaByte=2**20, GigaByte=2**30, TeraByte=2**40)[u]
            if int(n) * m >= 2**64:      # the property is silent when the product does not fit
                return line.split(" bytes ")[0]
        return line

    def nontrivial(self, case, line):
        return not case.startswith("T ") or any(k in case for k in ("And ", "Or ", "List ", "Not ", "Prec "))


# ------------------------------------------------------------------------------------------- C20

# paths that EXIST on any host but are not in canonical form, and several spellings of one file: a library that
# consults the file system (canonicalize) or normalises paths answers differently for them
FS_PATHS = [".", "..", "./", "/.", "//", "/tmp/.", "/tmp/..", "/usr/./lib", "/usr/../usr/lib", "/proc/self/..", "/dev/./null",
            "d//f", "d/f", "d/./f", "d/f/", "./d/f", "d/../d/f"]
HOSTILE_PATHS = FS_PATHS + ["".join(t) for n in (2, 3) for t in itertools.product('"\\a', repeat=n)] + ["a \nb", "a\t\nb", "a\r\nb", " lead", "trail ", "two  spaces", "\n", "tab\t",
                 "lipe", "find", "lambda", "#t", "0", "mdt0", "let*", "/mnt/éé\"x", "/日本語\\mdt0", "été \"2024\"/mdt", "💾\"", "/mnt/lustré\\mdt0",
                 "/dev/mdt0", "/", "", "a b", "x\"y", "back\\slash", "q\\", "\"", "é☃", "~a~%", "(;#|", "new\nline", "t\tab", "z" * 10000,
                 "\") (system \"id\") (\"",
                 # characters a general-purpose escaper treats specially: other control characters, DEL, C1 controls,
                 # combining marks, line/paragraph separators, private-use and the last code point, a lone NUL
                 "/dev/\x1b[31mred\x1b[0m", "a\x7fb", "nel\u0085x", "cafe\u0301", "ls\u2028ps\u2029", "pu\ue000a", "max\U0010ffff",
                 "nul\x00mid", "\x01\x02\x1f", "bell\x07\x08\x0b\x0c", "zwj\u200d\ufeff", "rtl\u202e"]


@register
class C20(Prop):
    id = "C20"
    theorems = []

    def post(self, results):
        return [(c, w) for c, i, m in results for w in [SP.c20_evidence(c, i or "")] if w]

    def project(self, case, line):
        # against the model: the program as read back; the byte-for-byte comparisons this property is
        # about are between the implementation's own answers (post / oracle)
        return std_struct(line)
    rule = ("random compiled expressions x histories of 2..5 render calls with device paths from benign and hostile "
            "strings (quotes, backslashes, blanks, non-ASCII, 10 kB), each followed by a destination-table query; "
            "compared: every rendering (as read back) and the table with the model's; the renderings byte for byte with one another, the device string decoded. Non-trivial: history with at least two different paths")

    def cases(self, tier, rng):
        out = []
        dic = gen.source_dictionary()
        for _ in range(2500 if tier == "quick" else 60000):
            ws = gen.expr_words(rng, rng.randint(0, 3), hostile=0.1)
            if dic and rng.random() < 0.3:
                ws = ws + [rng.choice(["-name", "-iname", "-pool", "-fprint"]), "'" + rng.choice(dic).replace("'", "") + "'"]
            elif rng.random() < 0.2:
                ws = ws + ["-name", rng.choice(["mdt0", "lipe", "/"])]
            k = rng.randint(2, 5)
            paths = [rng.choice(HOSTILE_PATHS) for _ in range(k)]
            r = rng.random()
            if r < 0.3:
                paths[1] = paths[0]
            elif r < 0.6:
                # paths that some notion of path equality would identify
                base = rng.choice(["/dev/mapper/mdt0", "/mnt/mdt", "/dev/sdb", "rel/path"])
                variants = [base, base + "/", base.replace("/", "//", 1), base.replace("/", "/./", 1), base + "/.", base.upper(), base + " "]
                paths = [rng.choice(variants) for _ in range(k)]
                paths[0] = base
            out.append(("R %s %d %s" % (hx(" ".join(ws)), k, " ".join(hx(p) for p in paths)), "history-%d" % k))
        return out

    def nontrivial(self, case, line):
        f = case.split(" ")
        return len(set(f[3:])) >= 2 and " COK " in line

    def oracle(self, case, impl, model):
        if "IOMAP-CHANGED" in impl:
            return "rendering changed the destination table"
        return SP.c20_evidence(case, impl)
