"""Per-property definitions: theorems pinned, case generators, projections, oracles."""
import random, re
from . import gen
from .core import hx

PROPS = {}


class Prop:
    id = None
    title = ""
    theorems = []          # names in Properties/<id>.v
    release = False        # also run the release build of the harness
    rule = ""

    def cases(self, tier, rng):
        """returns list of (case_line, tag) — tag feeds the distribution in the evidence"""
        raise NotImplementedError

    def project(self, case, line):
        """the part of an observation this property speaks about"""
        return line

    def nontrivial(self, case, line):
        return True

    def oracle(self, case, impl_line, model_line):
        """Called on a disagreement. Return a string describing how the implementation's answer
        violates the property on this very input, or None if it cannot be shown to (then the
        verdict is 'no-failing-input-found')."""
        return "implementation and proved model disagree on the projection the property determines"


def register(cls):
    PROPS[cls.id] = cls()
    return cls


def parse_ok(line):
    return line.startswith("OK ")


# ------------------------------------------------------------------------------------------- C19

@register
class C19(Prop):
    id = "C19"
    theorems = ["C19_action", "C19_frames", "C19_units", "C19_byte_size"]
    release = True
    rule = ("random trees built through the public constructors (depth <= 12, incl. Prec/Global/Positional/"
            "nested List nodes and empty formats), every Size/TimeSpec unit with boundary counts; a case is "
            "non-trivial when the tree has at least one operator node or the helper is a unit helper; "
            "distinct = distinct case lines")

    def cases(self, tier, rng):
        n = 3000 if tier == "quick" else 60000
        out = []
        for i in range(n):
            d = rng.choice([1, 2, 3, 4, 6, 8, 12])
            out.append(("T " + gen.tree(rng, d, True, unsupported=0.1, actions=0.35), "tree-depth<=%d" % d))
        units = ["Byte", "Word", "Block", "KiloByte", "MegaByte", "GigaByte", "TeraByte"]
        mult = [1, 2, 512, 2**10, 2**20, 2**30, 2**40]
        for u, m in zip(units, mult):
            for nn in [0, 1, 2, 1000, (2**64 - 1) // m, (2**64 - 1) // m + 1, 2**64 - 1, 2**63, rng.randint(0, 2**64 - 1)]:
                if nn < 2**64:
                    out.append(("U %s %d" % (u, nn), "size-unit"))
        for u in ["Second", "Minute", "Hour", "Day"]:
            out.append(("V %s %d" % (u, rng.randint(0, 2**64 - 1)), "time-unit"))
        return out

    def project(self, case, line):
        if case.startswith("U "):
            _, u, n = case.split(" ")
            m = dict(Byte=1, Word=2, Block=512, KiloByte=2**10, MegaByte=2**20, GigaByte=2**30, TeraByte=2**40)[u]
            if int(n) * m >= 2**64:      # the property is silent when the product does not fit
                return line.split(" bytes ")[0]
        return line

    def nontrivial(self, case, line):
        return not case.startswith("T ") or any(k in case for k in ("And ", "Or ", "List ", "Not ", "Prec "))
