"""Projections of a COK observation onto what a property speaks about.

The model prints the emitted program byte for byte, layout included.  Most properties speak about the
STRUCTURE of the program (the theorems are stated on the erased S-expressions), so their runs compare
the programs as read back, not as text: a change of indentation or line breaks in the emitted text
does not touch them (C04, which is about the text, C15/C17/C20, which compare the implementation's
texts with one another, keep the text)."""
import re
from . import sexp as SX

_UNESC = re.compile(r"\\x([0-9a-f]+);")


def _unesc(text):
    return _UNESC.sub(lambda m: chr(int(m.group(1), 16)), text)


def _leaf(x):
    kind, val = x
    if kind == "s":
        return '"' + "".join(c if 32 <= ord(c) < 127 and c not in '"\\' else "\\x%x;" % ord(c) for c in val) + '"'
    return val


def canon(x):
    """canonical one-line text of a read-back form (iterative: programs nest as deep as the expression)"""
    out = []
    stack = [x]
    while stack:
        y = stack.pop()
        if y is None:
            out.append(")")
        elif isinstance(y, list):
            out.append("(")
            stack.append(None)
            stack.extend(reversed(y))
        else:
            out.append(_leaf(y))
    return " ".join(out)


_CACHE = {}


def structure_of_text(escaped_text):
    """canonical one-line form of the program's structure; UNREADABLE<text> when it does not read"""
    r = _CACHE.get(escaped_text)
    if r is None:
        try:
            forms = SX.read_all(_unesc(escaped_text))
        except Exception:
            forms = None
        r = "UNREADABLE " + escaped_text if forms is None else " ".join(canon(f) for f in forms)
        if len(_CACHE) > 200000:
            _CACHE.clear()
        _CACHE[escaped_text] = r
    return r


def structural(line):
    """COK <table> | text | text ... -> COK <table> | structure | structure ..."""
    i = line.find(" COK ")
    if i < 0:
        return line
    parts = line[i:].split(" | ")
    return line[:i] + " | ".join([parts[0]] + [structure_of_text(p) for p in parts[1:]])


def find_list(x, head):
    """first sub-list whose first element is the atom `head` (depth first, iterative)"""
    stack = [x]
    while stack:
        y = stack.pop()
        if isinstance(y, list):
            if y and not isinstance(y[0], list) and y[0] == ("a", head):
                return y
            stack.extend(reversed(y))
    return None


def thread_argument(line):
    """the thread-count argument of the emitted scan call (last argument of lipe-scan) of every rendering
    of the observation, or None"""
    i = line.find(" COK ")
    if i < 0:
        return None
    parts = line[i:].split(" | ")
    if len(parts) < 2:
        return None
    out = []
    for text in parts[1:]:
        if text.startswith("IOMAP"):
            out.append(text)
            continue
        try:
            forms = SX.read_all(_unesc(text))
        except Exception:
            forms = None
        call = find_list(forms, "lipe-scan") if forms else None
        out.append(canon(call[-1]) if call else "?")
    return ",".join(out)


# ------------------------------------------------------------------ evidence from the implementation's own answer
# (model-independent: what the property says can be decided on the observation alone)

def _unhexs(tok):
    """S<hex.hex...> -> text"""
    h = tok[1:]
    return "" if h in ("", "-") else "".join(chr(int(x, 16)) for x in h.split("."))


def actions_of(parse_line):
    """the action nodes of a serialised tree, in order: (name, destination or None, terminator, needs_frames)"""
    toks = parse_line.split(" ")
    out, i = [], 0
    while i < len(toks):
        if toks[i] != "A" or i + 1 >= len(toks):
            i += 1
            continue
        name = toks[i + 1]
        i += 2
        dest = None
        if name in ("FileList", "FilePrint", "FilePrintNull", "FilePrintFormatted"):
            dest = _unhexs(toks[i]); i += 1
        last = None
        if name in ("PrintFormatted", "FilePrintFormatted"):
            n = int(toks[i]); i += 1
            for _ in range(n):
                kind, what = toks[i], toks[i + 1]
                i += 2
                if (kind == "F" and what in ("AccessFormatted", "ChangeFormatted", "ModifyFormatted", "XAttr")) or (kind == "X" and what == "Ascii"):
                    i += 1
                last = (kind, what)
        term = {"Print": "a", "FilePrint": "a", "PrintFid": "a", "DefaultPrint": "a", "PrintNull": "0", "FilePrintNull": "0"}.get(name, "-")
        if name in ("PrintNull", "FileList", "FilePrint", "FilePrintFormatted", "FilePrintNull"):
            frames = True
        elif name == "PrintFormatted":
            frames = last is not None and last != ("X", "Newline")
        else:
            frames = False
        out.append((name, dest, term, frames))
    return out


def parse_iomap(compile_line):
    """COK none | ...  -> None ;  COK map k tag target... -> {tag: (dest or None, term)}"""
    i = compile_line.find(" COK ")
    if i < 0:
        return "no-program"
    toks = compile_line[i + 5:].split(" | ")[0].split(" ")
    if toks[0] == "none":
        return None
    k = int(toks[1]); j = 2; m = {}
    for _ in range(k):
        tag = int(toks[j]); j += 1
        if toks[j] == "Stdout":
            m[tag] = (None, toks[j + 1]); j += 2
        else:
            m[tag] = (_unhexs(toks[j + 1]), toks[j + 2]); j += 3
    return m


def c10_evidence(impl):
    """mode choice and destination table against the rule of the property, on the implementation's own tree"""
    p = impl.split(" || ")
    if len(p) < 2 or not p[0].startswith("OK") or " COK " not in p[1]:
        return None
    acts = actions_of(p[0])
    if not acts:
        acts = [("Print", None, "a", False)]
    want_framed = any(a[3] for a in acts)
    table = parse_iomap(p[1])
    if (table is not None) != want_framed:
        return ("the expression %s framed output by the rule of the property, but the compiled result reports %s"
                % ("needs" if want_framed else "does not need", "no destination table (plain mode)" if table is None else "a destination table (framed mode)"))
    if table is None:
        return None
    produced = set()
    for name, dest, term, _ in acts:
        if name in ("Quit", "Prune", "List", "FileList"):
            continue
        produced.add((dest, term))
    have = list(table.values())
    if len(set(have)) != len(have):
        return "two tags of the destination table name the same (destination, terminator) pair"
    if set(have) != produced:
        return ("the destination table names %s but the actions of the expression write to %s"
                % (sorted(map(str, set(have))), sorted(map(str, produced))))
    # the tag each printer puts on its frames, and the printer each action calls (body order = tree order)
    texts = p[1][p[1].find(" COK "):].split(" | ")[1:]
    try:
        forms = SX.read_all(_unesc(texts[0])) if texts else None
    except Exception:
        forms = None
    ls = SX.let_star(forms) if forms else None
    if ls is None:
        return None
    bindings, body = ls
    tag_of = {}
    for b in bindings:
        if not (isinstance(b, list) and len(b) == 2 and SX.is_atom(b[0]) and b[0][1].startswith("%lf3:print:")):
            continue
        chars = [a for a in SX.atoms_in(b[1], []) if a.startswith("#\\x")]
        if len(chars) != 1:
            return None
        try:
            tag_of[b[0][1]] = int(chars[0][3:], 16)
        except ValueError:
            return None
    for name, tag in tag_of.items():
        if tag not in table:
            return "printer %s puts tag %d on its frames, which is not a key of the destination table %s" % (name, tag, sorted(table))
    refs = [a for a in SX.atoms_in(body, []) if a.startswith("%lf3:print:")]
    writers = [a for a in acts if a[0] not in ("Quit", "Prune", "List", "FileList")]
    if len(refs) == len(writers) and all(r in tag_of for r in refs):
        for k, (r, a) in enumerate(zip(refs, writers)):
            if table[tag_of[r]] != (a[1], a[2]):
                return ("the frames of action #%d (%s) carry tag %d, which the destination table maps to %s and not to the "
                        "action's own destination and terminator %s" % (k + 1, a[0], tag_of[r], table[tag_of[r]], (a[1], a[2])))
    return None


def c09_evidence(impl):
    """implicit print present iff the tree has no action: shape of the policy body on the implementation's own text"""
    p = impl.split(" || ")
    if len(p) < 2 or not p[0].startswith("OK") or " COK " not in p[1]:
        return None
    texts = p[1][p[1].find(" COK "):].split(" | ")[1:]
    if not texts:
        return None
    try:
        forms = SX.read_all(_unesc(texts[0]))
    except Exception:
        forms = None
    if not forms:
        return "the emitted program does not read back"
    call = find_list(forms, "lipe-scan")
    if call is None or len(call) < 4 or not isinstance(call[3], list) or len(call[3]) != 3:
        return None
    body = call[3][2]
    acts = actions_of(p[0])
    count = []
    SX.atoms_in(body, count)
    n_default = sum(1 for a in count if a == "print-relative-path")
    if not acts:
        ok = (isinstance(body, list) and len(body) == 3 and body[0] == ("a", "and") and body[2] == [("a", "print-relative-path")])
        if not ok:
            return "the expression has no action but the policy body is not (and <expression> (print-relative-path))"
        if n_default != 1:
            return "the expression has no action but the path is printed %d times" % n_default
    elif n_default != 0 and not any(a[0] == "DefaultPrint" for a in acts):
        return "the expression has an action but the implicit print was added as well"
    return None


def c20_evidence(case, impl):
    """renderings of one compiled expression for several device paths (case kind R): equal paths give
    equal texts; different paths give texts that differ exactly in the device string of the scan call,
    which decodes to the path given"""
    if not case.startswith("R ") or " COK " not in impl:
        return None
    f = case.split(" ")
    n = int(f[2])
    paths = ["" if h == "-" else "".join(chr(int(x, 16)) for x in h.split(".")) for h in f[3:3 + n]]
    cp = impl[impl.find(" COK "):]
    texts = [_unesc(t) for t in cp.split(" | ")[1:] if not t.startswith("map ") and t != "none" and not t.startswith("IOMAP")]
    if len(texts) < len(paths):
        return None
    holes = []
    for path, text in zip(paths, texts):
        try:
            forms = SX.read_all(text)
        except Exception:
            forms = None
        if not forms:
            return "a rendering does not read back"
        call = find_list(forms, "lipe-scan")
        if call is None or len(call) < 2 or isinstance(call[1], list) or call[1][0] != "s":
            return "a rendering has no device string in the scan call"
        if call[1][1] != path:
            return "the device string of the scan call decodes to %r, not to the path given %r" % (call[1][1][:60], path[:60])
        call[1] = ("a", "<DEVICE>")
        holes.append(" ".join(canon(x) for x in forms))
    for a, b, pa, pb in zip(holes, holes[1:], paths, paths[1:]):
        if a != b:
            return "two renderings differ in more than the device string"
    for i in range(len(paths)):
        for j in range(i + 1, len(paths)):
            if paths[i] == paths[j] and texts[i] != texts[j]:
                return "two renderings for the same path differ"
    return None


def resource_skeleton(forms):
    """the let* bindings of the program (canonical) and the generated names referred to in its body, in order"""
    ls = SX.let_star(forms)
    if ls is None:
        return None
    bindings, body = ls
    refs = [a for a in SX.atoms_in(body, []) if a.startswith("%lf3:")]
    return [canon(b) for b in bindings], refs
