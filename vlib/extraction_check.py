"""Extraction fidelity: the OCaml program extracted from the model must compute what Coq itself
computes. A sample of case lines and the driver's answers is written into a .v file and
`forallb (run_case c = answer)` is evaluated by vm_compute inside coqc."""
import os, subprocess
from . import core


def nlist(s):
    return "[" + ";".join(str(ord(ch)) for ch in s) + "]"


def check(cases_with_answers, tag, timeout=1200):
    """cases_with_answers: list of (case line incl. @clock, driver output line). Returns (ok, detail)."""
    core.ensure_dirs()
    path = os.path.join(core.WORK, "extract_%s.v" % tag)
    with open(path, "w") as f:
        f.write("From Coq Require Import List NArith.\nFrom FP Require Import Model.Chars Model.Obs.\nImport ListNotations.\nLocal Open Scope N_scope.\n")
        f.write("Definition cases : list (str * str) := [\n")
        f.write(";\n".join("(%s, %s)" % (nlist(c), nlist(a)) for c, a in cases_with_answers))
        f.write("].\n")
        f.write("Definition bad := filter (fun ca => negb (str_eqb (run_case (fst ca)) (snd ca))) cases.\n")
        f.write("Eval vm_compute in (List.length cases, List.length bad).\n")
    try:
        rc, out, err = core.sh(["coqc", "-Q", ".", "FP", path], cwd=core.COQ, timeout=timeout)
    except subprocess.TimeoutExpired:
        return False, "extraction check timed out"
    for ext in (".vo", ".glob", ".vok", ".vos"):
        try: os.remove(path[:-2] + ext)
        except OSError: pass
    if rc != 0:
        return False, (out + err)[-1500:]
    txt = " ".join(out.split())
    ok = ("(%d%%nat, 0%%nat)" % len(cases_with_answers)) in txt or ("= (%d, 0)" % len(cases_with_answers)) in txt
    return ok, txt[-300:]
