"""Source coverage of /repo/src reached by a list of cases: the harness is rebuilt with rustc's
-C instrument-coverage (nightly toolchain of the sandbox) into harness/target-cov, the cases are run
through it, and llvm-cov reports lines per file.  A measure of generator quality written into the
evidence; it decides nothing (a missing toolchain gives 'not available', never a violation)."""
import glob, os, re, shutil, subprocess
from . import core

BIN = "/root/.rustup/toolchains/nightly-x86_64-unknown-linux-gnu/lib/rustlib/x86_64-unknown-linux-gnu/bin/"
TARGET = os.path.join(core.ROOT, "harness", "target-cov")
EXE = os.path.join(TARGET, "debug", "fpharness")
IGN = "--ignore-filename-regex=(registry|rustc|harness/src)"


def build():
    if not os.path.exists(BIN + "llvm-cov"):
        return False, "llvm-cov of the nightly toolchain not found"
    # instrumented build scripts and proc-macros write a profile where they run (the crate directory,
    # i.e. /repo): send those to the scratch directory instead
    junk = os.path.join(core.WORK, "cov-build")
    os.makedirs(junk, exist_ok=True)
    env = dict(os.environ, CARGO_TARGET_DIR=TARGET, CARGO_NET_OFFLINE="true",
               RUSTFLAGS="-C instrument-coverage --cfg lipe_find_parser_verif",
               LLVM_PROFILE_FILE=os.path.join(junk, "build-%p-%m.profraw"))
    p = subprocess.run(["cargo", "+nightly", "build", "--offline"], cwd=os.path.join(core.ROOT, "harness"),
                       env=env, capture_output=True, text=True)
    shutil.rmtree(junk, ignore_errors=True)
    return p.returncode == 0, p.stderr[-1500:]


def run(groups, tag, nproc=8, timeout=1800):
    """groups: list of lists of case lines; each list is run in order by one process"""
    cov = os.path.join(core.WORK, "cov-" + tag)
    shutil.rmtree(cov, ignore_errors=True)
    os.makedirs(cov)
    env = dict(os.environ, LLVM_PROFILE_FILE=os.path.join(cov, "%p-%m.profraw"))
    procs = []
    for g in groups:
        if not g:
            continue
        f = os.path.join(cov, "in-%d.txt" % len(procs))
        open(f, "w").write("\n".join(g) + "\n")
        procs.append(subprocess.Popen([EXE], stdin=open(f), stdout=subprocess.DEVNULL, stderr=subprocess.DEVNULL, env=env))
        if len(procs) % nproc == 0:
            for p in procs[-nproc:]:
                p.wait(timeout=timeout)
    for p in procs:
        try:
            p.wait(timeout=timeout)
        except subprocess.TimeoutExpired:
            p.kill()
    prof = os.path.join(cov, "all.profdata")
    raws = glob.glob(os.path.join(cov, "*.profraw"))
    if not raws:
        return None
    subprocess.run([BIN + "llvm-profdata", "merge", "-sparse"] + raws + ["-o", prof], check=True)
    for r in raws:
        os.remove(r)
    return prof


def report(prof):
    rep = subprocess.run([BIN + "llvm-cov", "report", EXE, "-instr-profile=" + prof, IGN], capture_output=True, text=True).stdout
    summary = {}
    for l in rep.split("\n"):
        f = l.split()
        if len(f) >= 10 and (f[0].endswith(".rs") or f[0] == "TOTAL"):
            summary[f[0]] = {"lines": int(f[7]), "lines_missed": int(f[8]), "line_cover": f[9],
                             "regions": int(f[1]), "regions_missed": int(f[2])}
    show = subprocess.run([BIN + "llvm-cov", "show", EXE, "-instr-profile=" + prof, IGN], capture_output=True, text=True).stdout
    uncovered, cur = {}, None
    for line in show.split("\n"):
        m = re.match(r"^(/repo/src/\S+):$", line)
        if m:
            cur = m.group(1)
            continue
        m = re.match(r"^\s*(\d+)\|\s*0\|(.*)$", line)
        if m and cur and m.group(2).strip() and not m.group(2).strip().startswith("//"):
            uncovered.setdefault(cur, []).append((int(m.group(1)), m.group(2).rstrip()[:110]))
    return summary, uncovered


def measure(lines, tag, cap=60000, rng=None, sequences=()):
    ok, log = build()
    if not ok:
        return {"available": False, "why": log[-300:]}
    if len(lines) > cap and rng is not None:
        lines = rng.sample(lines, cap)
    n = 8
    groups = [lines[i::n] for i in range(n)] + [list(s) for s in sequences]
    prof = run(groups, tag)
    if prof is None:
        return {"available": False, "why": "no profile written"}
    summary, uncovered = report(prof)
    shutil.rmtree(os.path.dirname(prof), ignore_errors=True)
    return {"available": True, "cases": len(lines), "per_file": summary,
            "unreached_lines": {k.replace("/repo/", ""): [n_ for n_, _ in v] for k, v in uncovered.items()}}
