"""Build steps, running both sides, comparing, verdicts, evidence."""
import hashlib, json, os, re, subprocess, sys, time, glob

ROOT = os.path.dirname(os.path.dirname(os.path.abspath(__file__)))
COQ = os.path.join(ROOT, "coq")
OCAML = os.path.join(ROOT, "ocaml")
HARNESS = os.path.join(ROOT, "harness")
WORK = os.path.join(ROOT, "work")
REPLAYS = os.path.join(ROOT, "replays")
EVIDENCE = os.path.join(ROOT, "evidence")
GUARD = "lipe_find_parser_verif"

FORBIDDEN = re.compile(
    r"\b(Admitted|admit|Axiom|Axioms|Parameter|Parameters|Conjecture|Admit Obligations|"
    r"bypass_check|type-in-type|impredicative-set)\b|Unset\s+Guard|Unset\s+Positivity|Unset\s+Universe")

TRUSTED_BASE = [
    "Coq 8.16.1 kernel (coqc); vm_compute used for finite sweeps and witnesses; native_compute not used",
    "axioms: none (Print Assumptions of every pinned theorem must say 'Closed under the global context')",
    "extraction: ExtrOcamlBasic only (bool, option, unit, list, prod, sumbool, sumor, andb, orb); OCaml 4.13.1; hand-written driver.ml (I/O and int<->N only)",
    "correspondence harness: /verif/harness (Rust, serialisation of public values, catch_unwind, clock reads, variant/payload of compile errors parsed from their Debug form) and /verif/vlib (Python generators and differ)",
    "verdict-forming Python: the per-property projections (vlib/props.py), the datum reader applied to both sides before programs are compared (vlib/sexp.py, vlib/structproj.py), and the model-independent evidence functions and cross-run comparisons (post), which alone can yield a VIOLATION; they mirror theorems but are not theorems",
    "extraction is sampled against Coq's own evaluation (vm_compute) on every run (vlib/extraction_check.py)",
    "hand-written Gallina model of src/find_parser/*, src/ast.rs, src/scheme/*, RunOptions and of the winnow 0.6.7 subset they use: tied to the code only by the correspondence runs",
]


def sh(cmd, cwd=None, timeout=1800, env=None, inp=None):
    e = dict(os.environ)
    e["CARGO_NET_OFFLINE"] = "true"
    if env:
        e.update(env)
    p = subprocess.run(cmd, cwd=cwd, shell=isinstance(cmd, str), capture_output=True, text=True,
                       timeout=timeout, env=e, input=inp)
    return p.returncode, p.stdout, p.stderr


def ensure_dirs():
    for d in (WORK, REPLAYS, EVIDENCE):
        os.makedirs(d, exist_ok=True)


# ---------------------------------------------------------------- builds

def coq_makefile():
    mk = os.path.join(COQ, "Makefile")
    proj = os.path.join(COQ, "_CoqProject")
    if not os.path.exists(mk) or os.path.getmtime(mk) < os.path.getmtime(proj):
        rc, out, err = sh("coq_makefile -f _CoqProject -o Makefile", cwd=COQ)
        if rc != 0:
            raise RuntimeError("coq_makefile failed: " + err)


def build_coq(targets=None, timeout=2400):
    """Full .vo build of the given targets (default: everything). Returns (ok, log)."""
    coq_makefile()
    cmd = ["make", "-j16"] + (targets or [])
    try:
        rc, out, err = sh(cmd, cwd=COQ, timeout=timeout)
    except subprocess.TimeoutExpired:
        return False, "make timed out"
    return rc == 0, out[-4000:] + err[-4000:]


def build_driver():
    src = [os.path.join(OCAML, f) for f in ("model.ml", "model.mli", "driver.ml")]
    exe = os.path.join(OCAML, "driver")
    if not all(os.path.exists(s) for s in src):
        return False, "extracted model missing (Extract/Extract.vo not built)"
    if os.path.exists(exe) and all(os.path.getmtime(exe) >= os.path.getmtime(s) for s in src):
        return True, ""
    rc, out, err = sh("ocamlfind ocamlopt -O3 -w -a -o driver model.mli model.ml driver.ml", cwd=OCAML, timeout=900)
    return rc == 0, out + err


def build_harness(release=False):
    cmd = ["cargo", "build", "--offline"] + (["--release"] if release else [])
    rc, out, err = sh(cmd, cwd=HARNESS, timeout=1800, env={"RUSTFLAGS": "--cfg " + GUARD})
    exe = os.path.join(HARNESS, "target", "release" if release else "debug", "fpharness")
    return rc == 0 and os.path.exists(exe), (out + err)[-3000:], exe


def forbidden_scan():
    """Forbidden tokens anywhere in the development (comments stripped)."""
    hits = []
    for f in glob.glob(os.path.join(COQ, "**", "*.v"), recursive=True):
        txt = open(f).read()
        # strip comments (nested)
        out, depth, i = [], 0, 0
        while i < len(txt):
            if txt.startswith("(*", i):
                depth += 1; i += 2
            elif txt.startswith("*)", i) and depth > 0:
                depth -= 1; i += 2
            else:
                if depth == 0:
                    out.append(txt[i])
                i += 1
        code = "".join(out)
        # Variable / Hypothesis only inside sections
        sec = 0
        for ln, line in enumerate(code.split("\n"), 1):
            if re.match(r"\s*Section\b", line): sec += 1
            if re.match(r"\s*End\b", line) and sec > 0: sec -= 1
            if FORBIDDEN.search(line):
                hits.append("%s:%d: %s" % (os.path.relpath(f, ROOT), ln, line.strip()))
            if sec == 0 and re.match(r"\s*(Variable|Variables|Hypothesis|Hypotheses|Context)\b", line):
                hits.append("%s:%d: %s (outside a section)" % (os.path.relpath(f, ROOT), ln, line.strip()))
    return hits


def audit_theorems(prop, theorems):
    """Print Assumptions of each pinned theorem (qualified Module.name), in one coqc run."""
    ensure_dirs()
    path = os.path.join(WORK, "audit_%s.v" % prop)
    mods = sorted(set(t.split(".")[0] for t in theorems))
    with open(path, "w") as f:
        for m in mods:
            f.write("From FP Require Properties.%s.\n" % m)
        for t in theorems:
            f.write('Goal True. idtac "@@%s". Abort.\nPrint Assumptions %s.\n' % (t, t))
    try:
        rc, out, err = sh(["coqc", "-Q", ".", "FP", path], cwd=COQ, timeout=900)
    except subprocess.TimeoutExpired:
        return None, "audit timed out"
    for ext in (".vo", ".glob", ".vok", ".vos"):
        try: os.remove(path[:-2] + ext)
        except OSError: pass
    try: os.remove(os.path.join(WORK, ".audit_%s.aux" % prop))
    except OSError: pass
    if rc != 0:
        return None, (out + err)[-3000:]
    res, cur = {}, None
    for line in out.split("\n"):
        if line.startswith("@@"):
            cur = line[2:].strip(); res[cur] = ""
        elif cur is not None:
            res[cur] += line + "\n"
    return res, ""


def coqchk(prop, timeout=1800):
    """independent re-check of the property's compiled closure; returns (ok, axioms text)"""
    try:
        mods = prop if isinstance(prop, (list, tuple)) else [prop]
        args = []
        for m in mods:
            args += ["FP.Properties.%s" % m, "FP.Properties.Pin%s" % m]
        rc, out, err = sh(["coqchk", "-o", "-silent", "-Q", ".", "FP"] + args, cwd=COQ, timeout=timeout)
    except subprocess.TimeoutExpired:
        return False, "coqchk timed out"
    txt = out + err
    m = re.search(r"\* Axioms:(.*?)\n\s*\n", txt, flags=re.S)
    axioms = m.group(1).strip() if m else "?"
    clean = (rc == 0 and axioms == "<none>" and "type-in-type: <none>" in txt
             and "unsafe (co)fixpoints: <none>" in txt and "positivity is assumed: <none>" in txt)
    return clean, ("axioms: " + axioms) if rc == 0 else txt[-1500:]


# ---------------------------------------------------------------- running the two sides

def hx(s):
    return ".".join("%x" % ord(c) for c in s) or "-"


def run_lines(exe, lines, shards=16, timeout=None):
    """Run an executable that maps stdin lines to stdout lines, sharded over processes."""
    if not lines:
        return []
    if timeout is None:
        timeout = int(os.environ.get("VERIF_CASE_TIMEOUT", "300"))
    n = max(1, min(shards, len(lines) // 200 + 1))
    chunks = [lines[i::n] for i in range(n)]
    procs = []
    for ch in chunks:
        argv = exe.split(" ") if " --" in exe else [exe]      # "path --logger": the harness with a logger installed
        p = subprocess.Popen(argv, stdin=subprocess.PIPE, stdout=subprocess.PIPE, stderr=subprocess.PIPE, text=True)
        procs.append(p)
    import threading
    outs = [None] * n
    def work(i):
        try:
            o, e = procs[i].communicate("\n".join(chunks[i]) + "\n", timeout=timeout)
        except subprocess.TimeoutExpired:
            # a hang: keep what was printed, the first missing line is reported as HANG
            procs[i].kill()
            o, e = procs[i].communicate()
            o = (o or "") + "HANG\n"
        outs[i] = o.split("\n")
        if outs[i] and outs[i][-1] == "": outs[i].pop()
    ths = [threading.Thread(target=work, args=(i,)) for i in range(n)]
    for t in ths: t.start()
    for t in ths: t.join()
    res = [None] * len(lines)
    for i in range(n):
        got = outs[i] or []
        for j, idx in enumerate(range(i, len(lines), n)):
            res[idx] = got[j] if j < len(got) else "NO-OUTPUT"
    return res


CLOCK = re.compile(r"clock (\d+)")
CERR_FIELDS = re.compile(r" CERR (\w+) (\S*) (.*)$")
NONASCII = re.compile(r"\\x([0-9a-f]+);")


def _has_nonascii(payload):
    return any(int(h, 16) >= 0x80 for h in NONASCII.findall(payload))


def _drop_payload(line, m):
    variant, payload = m.group(1), m.group(2)
    return line[:m.start()] + " CERR %s %s *" % (variant, payload.split("(")[0])


def normalise_pair(impl, model):
    """A compile error is observed as `CERR <variant> <payload> <Display text>`. The Debug rendering
    of an unsupported construct's string payload is modelled for the ASCII range only (Rust escapes
    other characters by Unicode tables): when either side's payload has a character above 0x7f the
    parenthesised part of the payload and the Display text are dropped from both sides and only
    variant + construct name compare."""
    mi, mm = CERR_FIELDS.search(impl or ""), CERR_FIELDS.search(model or "")
    if mi and mm and (_has_nonascii(mi.group(2)) or _has_nonascii(mm.group(2))):
        return _drop_payload(impl, mi), _drop_payload(model, mm)
    return impl, model


_ARITY = {"And": 2, "Or": 2, "List": 2, "Not": 1, "Prec": 1, "DupAnd": 1, "DupOr": 1, "DupList": 1}


def _subtree_end(toks, i):
    t = toks[i]
    if t in _ARITY:
        j = i + 1
        for _ in range(_ARITY[t]):
            j = _subtree_end(toks, j)
        return j
    j = i + 2 if t in ("T", "A", "G", "P") else i + 1       # the word after a leaf head is its name (`A List`)
    while j < len(toks) and toks[j] not in _ARITY and toks[j] not in ("T", "A", "G", "P"):
        j += 1
    return j


def expand_dups(case):
    """T/TC cases may contain DupAnd/DupOr/DupList t: for the implementation ONE subtree shared by both
    operands (Rc clones); for the model, which has no notion of sharing, the operator applied to t and t"""
    if "Dup" not in case or not (case.startswith("T ") or case.startswith("TC ")):
        return case
    toks = case.split(" ")
    i = 0
    while i < len(toks):
        if toks[i] in ("DupAnd", "DupOr", "DupList"):
            end = _subtree_end(toks, i + 1)
            sub = toks[i + 1:end]
            toks = toks[:i] + [toks[i][3:]] + sub + sub + toks[end:]
        else:
            i += 1
    return " ".join(toks)


def run_both(cases, harness_exe, driver_exe=None, shards=16):
    """cases: list of case lines. Returns list of (case, impl_line, model_line)."""
    driver_exe = driver_exe or os.path.join(OCAML, "driver")
    impl = run_lines(harness_exe, cases, shards=shards)
    mcases = []
    for c, o in zip(cases, impl):
        m = CLOCK.search(o or "")
        mcases.append(expand_dups(c) + (" @" + m.group(1) if m else ""))
    model = run_lines(driver_exe, mcases)
    return [(c,) + normalise_pair(i, m) for c, i, m in zip(cases, impl, model)]


# ---------------------------------------------------------------- verdicts and evidence

def write_replay(prop, payload):
    ensure_dirs()
    h = hashlib.sha1(json.dumps(payload, sort_keys=True).encode()).hexdigest()[:12]
    path = os.path.join(REPLAYS, "%s-%s.json" % (prop, h))
    with open(path, "w") as f:
        json.dump(payload, f, indent=1)
    return path


def write_evidence(prop, tier, seed, coverage, assumptions, wall, violations):
    ensure_dirs()
    ev = {"property_id": prop, "tier": tier, "seed": seed, "level": "proof", "coverage": coverage,
          "assumptions": assumptions, "wall_s": round(wall, 2), "violations": violations}
    with open(os.path.join(EVIDENCE, prop + ".json"), "w") as f:
        json.dump(ev, f, indent=1)


def load_known():
    p = os.path.join(ROOT, "known_findings.json")
    if not os.path.exists(p):
        return []
    return json.load(open(p))["findings"]


# ---------------------------------------------------------------- the specified Guile reader (extracted from Coq)

def _unhexs(h):
    return "" if h == "" else "".join(chr(int(x, 16)) for x in h.split("."))


def _parse_read(line):
    """READ <forms> -> python structure in the format of vlib.sexp (('a', text), ('s', value), lists)"""
    if not line.startswith("READ") or line.startswith("READ-FAIL"):
        return None
    toks = line.split(" ")[1:]
    stack = [[]]
    for t in toks:
        while t.startswith("("):
            stack.append([]); t = t[1:]
        closes = 0
        while t.endswith(")"):
            closes += 1; t = t[:-1]
        if t.startswith("a:"):
            stack[-1].append(("a", _unhexs(t[2:])))
        elif t.startswith("s:"):
            stack[-1].append(("s", _unhexs(t[2:])))
        for _ in range(closes):
            l = stack.pop(); stack[-1].append(l)
    return stack[0]


def coq_read_all(texts, driver_exe=None):
    """reads program texts with the reader of Spec/GuileReader.v (the one the C04 theorems are about)"""
    driver_exe = driver_exe or os.path.join(OCAML, "driver")
    outs = run_lines(driver_exe, ["RD " + hx(t) for t in texts], shards=4)
    return [_parse_read(o) for o in outs]
