"""Seeded, grammar-aware generators of find expressions (surface strings) and of trees in the
harness' prefix notation. Every random choice derives from the rng handed in."""
import random

BLANKS = [" ", "\t", "\n", "\r"]
SIZE_UNITS = ["", "b", "c", "w", "k", "M", "G", "T"]
TIME_UNITS = ["", "s", "m", "h", "d"]
TYPES = "bcdpfls"

TIME_KW = ["-amin", "-atime", "-cmin", "-ctime", "-mmin", "-mtime"]
U32_KW = ["-gid", "-inum", "-mirror-count", "-stripe-count", "-uid"]
U64_KW = ["-links"]
STR_TESTS_OK = ["-iname", "-ipath", "-name", "-path", "-pool", "-xattr"]
STR_TESTS_UNSUP = ["-anewer", "-cnewer", "-fstype", "-group", "-ilname", "-iregex", "-mnewer",
                   "-regex", "-samefile", "-user"]
BARE_TESTS_OK = ["-empty", "-executable", "-false", "-readable", "-true", "-writable"]
BARE_TESTS_UNSUP = ["-nouser", "-nogroup"]
BARE_ACTIONS_OK = ["-print", "-print0", "-print-file-fid", "-quit"]
BARE_ACTIONS_UNSUP = ["-ls", "-prune"]
STR_ACTIONS_OK = ["-fprint", "-fprint0"]
STR_ACTIONS_UNSUP = ["-fls"]
OPTIONS = ["-depth", "-threads"]
ALL_KEYWORDS = (TIME_KW + U32_KW + U64_KW + STR_TESTS_OK + STR_TESTS_UNSUP + BARE_TESTS_OK
                + BARE_TESTS_UNSUP + ["-perm", "-size", "-type", "-xattr-match"] + BARE_ACTIONS_OK
                + BARE_ACTIONS_UNSUP + STR_ACTIONS_OK + STR_ACTIONS_UNSUP + ["-fprintf", "-printf"]
                + ["-depth", "-maxdepth", "-mindepth", "-threads"])
OPERATOR_WORDS = ["(", ")", "!", ",", "-a", "-and", "-o", "-or"]

FMT_FIELDS_OK = list("%abcfgGhHikmnpPsStuUy") + ["{fid}", "{projid}", "{mirror-count}", "{stripe-count}",
                                                  "{stripe-size}", "{xattr:ab}"] + [t + c for t in "ACT" for c in "@kHY+cZ"]
FMT_FIELDS_UNSUP = list("dDFlMYZ")
FMT_ESC = ["\\a", "\\b", "\\f", "\\n", "\\r", "\\t", "\\v", "\\0", "\\\\", "\\101", "\\042", "\\176", "\\134", "\\q", "\\", "\\400", "\\501", "\\777", "\\377"]

BOUNDARY_NUMS = [0, 1, 2, 7, 9, 10, 99, 255, 256, 2**16, 2**31 - 1, 2**31, 2**32 - 1, 2**32, 2**32 + 5,
                 2**63 - 1, 2**63, 2**64 - 1, 2**64, 2**64 + 1, 10**25]


def num(rng, bits=32):
    r = rng.random()
    if r < 0.4:
        return str(rng.randint(0, 300))
    if r < 0.7:
        return str(rng.choice(BOUNDARY_NUMS))
    if r < 0.85:
        return "0" * rng.randint(1, 3) + str(rng.randint(0, 5000))
    return str(rng.randint(0, 2**(bits + 2)))


def small(rng):
    return str(rng.randint(0, 400))


def sign(rng):
    return rng.choice(["", "+", "-"])


WORD_ALPHABET = "abcxyz019._*?[]~%#;:/=+-"
HOSTILE = ['"', "\\", "~", "%", "(", ";", "#", "\x01", "é", "'", "a b", "*", "?", "[", "☃", "\u00a0", "\u3000", "\x0b", "\x0c", "\u0085", "\u2028"]


UNICODE_LETTERS = "éÜñЖжλ日本語한💾→ß"


def word(rng, hostile=0.15):
    n = rng.randint(1, 6)
    s = "".join(rng.choice(WORD_ALPHABET) for _ in range(n))
    if rng.random() < 0.12:
        pos = rng.randint(0, len(s))
        s = s[:pos] + "".join(rng.choice(UNICODE_LETTERS) for _ in range(rng.randint(1, 3))) + s[pos:]
    if rng.random() < hostile:
        pos = rng.randint(0, len(s))
        s = s[:pos] + rng.choice(HOSTILE) + s[pos:]
    return s


def quote(rng, value):
    """a spelling of the argument word `value` that the word syntax permits"""
    styles = []
    if value and not any(c in value for c in " \t\r\n)") and value[0] not in "\"'":
        styles.append(value)
    if "'" not in value:
        styles.append("'" + value + "'")
    if '"' not in value:
        styles.append('"' + value + '"')
    if not styles:
        return None
    return rng.choice(styles)


def fmt_string(rng, allow_unsup=False, maxlen=6):
    parts = []
    for _ in range(rng.randint(0, maxlen)):
        r = rng.random()
        if r < 0.4:
            f = rng.choice(FMT_FIELDS_OK + (FMT_FIELDS_UNSUP if allow_unsup else []))
            parts.append("%" + f)
        elif r < 0.65:
            e = rng.choice(FMT_ESC + (["\\c"] if allow_unsup else []))
            parts.append(e)
        else:
            parts.append("".join(rng.choice("abz ,:~/-01789{}@") for _ in range(rng.randint(1, 4))))
    if rng.random() < 0.5:
        parts.append("\\n")
    return "".join(parts)


def perm_arg(rng):
    pre = rng.choice(["", "-", "/"])
    if rng.random() < 0.5:
        v = rng.randint(0, 0o7777)
        return pre + (("%03o" % v) if rng.random() < 0.5 else ("%04o" % v))
    cls = []
    for _ in range(rng.randint(1, 3)):
        who = "".join(rng.sample("ugoa", rng.randint(1, 3)))
        op = rng.choice("+=-")
        pm = "".join(rng.sample("rwx", rng.randint(1, 3)))
        cls.append(who + op + pm)
    return pre + ",".join(cls)


def primary(rng, unsupported=0.0, options=0.0, hostile=0.15):
    """returns a list of words (keyword and argument words, each already in its final spelling)"""
    r = rng.random()
    if r < options:
        o = rng.choice(OPTIONS)
        return [o] if o == "-depth" else [o, small(rng)]
    if rng.random() < unsupported:
        k = rng.choice(["t", "b", "a", "sa", "f"])
        if k == "t":
            return [rng.choice(STR_TESTS_UNSUP), quote(rng, word(rng, hostile)) or "x"]
        if k == "b":
            return [rng.choice(BARE_TESTS_UNSUP)]
        if k == "a":
            return [rng.choice(BARE_ACTIONS_UNSUP)]
        if k == "sa":
            return [rng.choice(STR_ACTIONS_UNSUP), quote(rng, word(rng, hostile)) or "x"]
        return ["-printf", "'" + fmt_string(rng, True).replace("'", "") + "%" + rng.choice(FMT_FIELDS_UNSUP) + "'"]
    k = rng.randint(0, 13)
    if k == 0:
        return [rng.choice(TIME_KW), sign(rng) + small(rng) + rng.choice(TIME_UNITS)]
    if k == 1:
        return [rng.choice(U32_KW), sign(rng) + small(rng)]
    if k == 2:
        return [rng.choice(U64_KW), sign(rng) + small(rng)]
    if k == 3:
        return [rng.choice(STR_TESTS_OK), quote(rng, word(rng, hostile)) or "x"]
    if k in (4, 5):
        return [rng.choice(BARE_TESTS_OK)]
    if k in (6, 7):
        return [rng.choice(BARE_ACTIONS_OK)]
    if k == 8:
        return [rng.choice(STR_ACTIONS_OK), quote(rng, word(rng, hostile)) or "x"]
    if k == 9:
        return ["-perm", perm_arg(rng)]
    if k == 10:
        return ["-size", sign(rng) + small(rng) + rng.choice(SIZE_UNITS)]
    if k == 11:
        return ["-type", ",".join(rng.choice(TYPES) for _ in range(rng.randint(1, 3)))]
    if k == 12:
        return ["-xattr-match", quote(rng, word(rng, hostile)) or "x", quote(rng, word(rng, hostile)) or "y"]
    f = fmt_string(rng).replace("'", "")
    if rng.random() < 0.5:
        return ["-printf", "'" + f + "'"]
    return ["-fprintf", quote(rng, word(rng, 0)) or "o", "'" + f + "'"]


def expr_words(rng, depth=3, **kw):
    """a well-formed expression as a list of words"""
    def atom(d):
        r = rng.random()
        if d > 0 and r < 0.2:
            return ["("] + lst(d - 1) + [")"]
        if d > 0 and r < 0.35:
            return ["!"] + atom(d - 1)
        return primary(rng, **kw)
    def and_(d):
        out = atom(d)
        while rng.random() < 0.35:
            out = out + rng.choice([[], ["-a"], ["-and"]]) + atom(d)
        return out
    def or_(d):
        out = and_(d)
        while rng.random() < 0.25:
            out = out + [rng.choice(["-o", "-or"])] + and_(d)
        return out
    def lst(d):
        out = or_(d)
        while rng.random() < 0.1:
            out = out + [","] + or_(d)
        return out
    return lst(depth)


def join_words(rng, words, fancy=False):
    """concatenate with blanks; with fancy, random kinds/amounts of blanks and leading/trailing"""
    if not fancy:
        return " ".join(words)
    def gap():
        return "".join(rng.choice(BLANKS) for _ in range(rng.randint(1, 3)))
    s = (gap() if rng.random() < 0.3 else "") + words[0] if words else ""
    for w in words[1:]:
        s += gap() + w
    if rng.random() < 0.3:
        s += gap()
    return s


# ---------------------------------------------------------------- trees in prefix notation

def sstr(s):
    return "S" + ".".join("%x" % ord(c) for c in s)


def tree_cmp(rng, val):
    return "%s %s" % (rng.choice(["Gt", "Lt", "Eq"]), val)


def tree_fmt(rng, allow_unsup=True, maxlen=4, force_last=None):
    els = []
    n = rng.randint(0, maxlen)
    for _ in range(n):
        r = rng.random()
        if r < 0.35:
            els.append("L " + sstr(word(rng)))
        elif r < 0.7:
            ok = ["Percent", "Access", "DiskSizeBlocks", "Change", "Basename", "Group", "GroupId", "Parents",
                  "StartingPoint", "InodeDecimal", "DiskSizeKilos", "PermissionsOctal", "Hardlinks", "Name",
                  "NameWithoutStartingPoint", "DiskSizeBytes", "Sparseness", "Modify", "User", "UserId", "Type",
                  "FileId", "ProjectId", "MirrorCount", "StripeCount", "StripeSize",
                  "AccessFormatted 40", "ChangeFormatted 6b", "ModifyFormatted 22", "XAttr " + sstr(word(rng))]
            un = ["Depth", "DeviceNumber", "FsType", "SymbolicTarget", "PermissionsSymbolic", "TypeSymlink", "SecurityContext"]
            els.append("F " + rng.choice(ok + (un if allow_unsup and rng.random() < 0.15 else [])))
        else:
            sp = ["Alarm", "Backspace", "Form", "Newline", "CarriageReturn", "TabHorizontal", "TabVertical", "Null",
                  "Backslash", "Ascii %d" % rng.choice([0, 34, 65, 92, 126, 255, 511]),
                  # codes only the public constructors can build (a parse yields at most 0o777): around the
                  # surrogate range, which is no character, and the ends of the 16-bit field
                  "Ascii %d" % rng.choice([512, 0x7ff, 0x800, 0xd7ff, 0xd800, 0xdbff, 0xdc00, 0xdfff, 0xe000, 0xfffe, 0xffff])]
            els.append("X " + rng.choice(sp + (["Clear"] if allow_unsup and rng.random() < 0.2 else [])))
    if force_last:
        els.append(force_last)
    return "%d %s" % (len(els), " ".join(els)) if els else "0"


def tree_leaf(rng, api_only=True, unsupported=0.1, actions=0.3):
    r = rng.random()
    if api_only and r < 0.05:
        return "G " + rng.choice(["Depth", "MaxDepth 3", "MinDepth 1", "Threads 4"])
    if api_only and r < 0.08:
        return "P XDev"
    if rng.random() < actions:
        a = rng.choice(["Print", "PrintNull", "PrintFid", "Quit", "FilePrint", "FilePrintNull", "PrintFormatted",
                        "FilePrintFormatted", "DefaultPrint" if api_only else "Print"]
                       + (["Prune", "List", "FileList"] if rng.random() < unsupported else []))
        if a in ("FilePrint", "FilePrintNull", "FileList"):
            return "A %s %s" % (a, sstr(rng.choice(["o1", "o2", "o 3"])))
        if a == "PrintFormatted":
            return "A PrintFormatted " + tree_fmt(rng, force_last=rng.choice([None, "X Newline", "X Newline", "L " + sstr("z")]))
        if a == "FilePrintFormatted":
            return "A FilePrintFormatted %s %s" % (sstr(rng.choice(["o1", "o2"])), tree_fmt(rng))
        return "A " + a
    if rng.random() < unsupported:
        t = rng.choice(["AccessNewer", "ChangeNewer", "FsType", "Group", "InsensitiveLinkName", "InsensitiveRegex",
                        "LinkName", "ModifyNewer", "Regex", "Samefile", "User", "NoGroup", "NoUser"])
        return "T " + t + ("" if t in ("NoGroup", "NoUser") else " " + sstr(word(rng)))
    k = rng.randint(0, 12)
    n32 = str(rng.choice([0, 1, 5, 1000, 2**32 - 1]))
    n64 = str(rng.choice([0, 1, 5, 1000, 2**40, 2**64 - 1]))
    if k == 0:
        return "T %s %s" % (rng.choice(["AccessTime", "ChangeTime", "ModifyTime"]),
                            tree_cmp(rng, rng.choice(["Second", "Minute", "Hour", "Day"]) + " " + n64))
    if k == 1:
        return "T %s %s" % (rng.choice(["GroupId", "InodeNumber", "MirrorCount", "StripeCount", "UserId"]), tree_cmp(rng, n32))
    if k == 2:
        return "T Links " + tree_cmp(rng, n64)
    if k == 3:
        return "T %s %s" % (rng.choice(["Name", "Path", "InsensitiveName", "InsensitivePath"]), sstr(word(rng)))
    if k == 4:
        return "T " + rng.choice(["Empty", "Executable", "False", "True", "Readable", "Writable"])
    if k == 5:
        return "T Perm %s %d" % (rng.choice(["AtLeast", "Any", "Equal"]), rng.randint(0, 4095))
    if k == 6:
        return "T Pool " + sstr(word(rng))
    if k == 7:
        return "T Size " + tree_cmp(rng, rng.choice(["Byte", "Word", "Block", "KiloByte", "MegaByte", "GigaByte", "TeraByte"]) + " " + n64)
    if k == 8:
        n = rng.randint(0 if api_only else 1, 3)
        return "T Type %d%s" % (n, "".join(" " + rng.choice(["Block", "Character", "Directory", "Pipe", "File", "Link", "Socket"]) for _ in range(n)))
    if k == 9:
        return "T Xattr " + sstr(word(rng))
    if k == 10:
        return "T XattrMatch %s %s" % (sstr(word(rng)), sstr(word(rng)))
    return "T True"


def tree(rng, depth=4, api_only=True, **kw):
    if depth <= 0 or rng.random() < 0.3:
        return tree_leaf(rng, api_only, **kw)
    r = rng.random()
    if rng.random() < 0.07:
        # the same subtree on both sides, as ONE shared allocation (equal VALUE for the model)
        return "Dup%s %s" % (rng.choice(["And", "Or", "List"]), tree(rng, depth - 1, api_only, **kw))
    if r < 0.3:
        return "And %s %s" % (tree(rng, depth - 1, api_only, **kw), tree(rng, depth - 1, api_only, **kw))
    if r < 0.55:
        return "Or %s %s" % (tree(rng, depth - 1, api_only, **kw), tree(rng, depth - 1, api_only, **kw))
    if r < 0.7:
        return "List %s %s" % (tree(rng, depth - 1, api_only, **kw), tree(rng, depth - 1, api_only, **kw))
    if r < 0.88:
        return "Not " + tree(rng, depth - 1, api_only, **kw)
    if api_only:
        return "Prec " + tree(rng, depth - 1, api_only, **kw)
    return "Not " + tree(rng, depth - 1, api_only, **kw)


# ---------------------------------------------------------------- dictionary harvested from the source

_DICT = None


def source_dictionary():
    """string literals of the library's own sources that look like markers or identifiers
    (grey-box dictionary: text the implementation might treat specially when it meets it in
    user data)"""
    global _DICT
    if _DICT is not None:
        return _DICT
    import glob, re
    words = set()
    for f in glob.glob("/repo/src/**/*.rs", recursive=True):
        try:
            txt = open(f, encoding="utf-8", errors="replace").read()
        except OSError:
            continue
        for m in re.finditer(r'"((?:[^"\\\n]|\\.){2,40})"', txt):
            w = m.group(1)
            if "\\" in w or "{" in w and "}" in w and ":" not in w:
                continue
            if re.search(r"[%:~#@$<>|]", w) and " " not in w and "'" not in w:
                words.add(w)
        # placeholders and markers inside longer literals: {name}, %name%, %lf3:kind
        for m in re.finditer(r"\{[A-Za-z_][A-Za-z_0-9]*\}|%[A-Za-z_:0-9]+%|%lf3:[a-z]+", txt):
            words.add(m.group(0))
    _DICT = sorted(words)[:200]
    return _DICT


def scale_cases(rng):
    """inputs that are large in one dimension at a time (counts of every repeatable thing)"""
    out = []
    out.append("-type " + ",".join(rng.choice(TYPES) for _ in range(300)))
    out.append("-perm " + ",".join(rng.choice("ugoa") + rng.choice("+=-") + rng.choice("rwx") for _ in range(500)))
    out.append("-perm /" + ",".join("ugoa=rwx" for _ in range(200)))
    out.append("-printf '" + "".join(rng.choice(["%p", "%s", "\\n", "\\101", "ab", "%%", "%{fid}", "%Ak", "~", "é"]) for _ in range(400)) + "'")
    out.append(" -o ".join("-name n%d" % i for i in range(300)))
    out.append(" ".join("-iname 'N%d*'" % (i % 150) for i in range(300)) + " -print0")
    out.append(" ".join("-threads %d" % i for i in range(200)) + " -true")
    out.append("-true " + " ".join("-depth" for _ in range(200)))
    for n_ in (255, 256, 257, 1000):          # counts across the width of a byte
        out.append("-true" + " -depth" * n_)
        out.append("-true" + " -threads 2" * n_)
        out.append("-depth " * n_ + "-true")
        out.append(" -o ".join("-name n" for _ in range(n_)))
        out.append("-print" + " -print" * n_)
    out.append("! " * 300 + "-true")
    out.append(" , ".join("-true" for _ in range(300)))
    out.append("-name " + "".join(rng.choice(UNICODE_LETTERS + "ab*?[") for _ in range(3000)))
    out.append(" ".join("-fprint f%d" % i for i in range(300)))
    out.append(" ".join("-fprintf g%d '%%p\\n'" % (i % 100) for i in range(300)))
    out.append("-xattr-match " + "k" * 2000 + " " + "v" * 2000)
    out.append("( " * 100 + "-size +%d" % (2**63) + "T" + " )" * 100)
    out.append("-uid " + "0" * 500 + "7")
    out.append(" ".join("%s %d" % (rng.choice(TIME_KW), i) for i in range(200)))
    return out


_HARV = None


def harvest_literals():
    """every string literal of the library's non-test sources, wherever it sits (tables, consts,
    match arms): robust against restructuring, unlike a scan that looks for tables by shape.
    Returns {'dash': keyword-like literals, 'format': short literals of find_parser/format.rs,
    'all_short': every literal of at most 16 characters}"""
    global _HARV
    if _HARV is not None:
        return _HARV
    import glob, re
    dash, fmt, short = set(), set(), set()
    for f in glob.glob("/repo/src/**/*.rs", recursive=True):
        try:
            txt = open(f, encoding="utf-8", errors="replace").read()
        except OSError:
            continue
        i = txt.find("#[cfg(test)]")
        if i >= 0:
            txt = txt[:i]
        i = txt.find("#[test]")
        if i >= 0:
            txt = txt[:i]
        for m in re.finditer(r'"((?:[^"\\\n]|\\.){1,16})"', txt):
            w = m.group(1).replace("\\\\", "\\").replace('\\"', '"')
            short.add(w)
            if re.fullmatch(r"-[A-Za-z0-9][A-Za-z0-9-]*", w):
                dash.add(w)
            if f.endswith("format.rs"):
                fmt.add(w)
        for m in re.finditer(r"'((?:[^'\\\n]|\\.))'", txt):
            if f.endswith("format.rs"):
                fmt.add(m.group(1))
    _HARV = {"dash": sorted(dash), "format": sorted(fmt), "all_short": sorted(short)}
    return _HARV


def harvest_inputs(kinds):
    """directed inputs built from the harvested literals: (input text, tag)"""
    h = harvest_literals()
    out = []
    if "keywords" in kinds:
        for w in h["dash"]:
            for t in (w, w + " a", w + " 1", w + " a b", "-true " + w, "-true " + w + " 1", w + " -true", w + " 1 -true",
                      "( " + w + " )", "! " + w + " a", w.upper(), w + "x", w[:-1]):
                out.append((t, "harvest-keyword"))
    if "format" in kinds:
        for name in ["a", "user.comment", "a.b", ".a", "a.", "a_b", "a1", "1", "a-b", "", "A", "a:b", "a}b", "é", "user.", "a..b", "a b"]:
            out.append(("-printf '%{xattr:" + name + "}'", "harvest-format"))
            out.append(("-fprintf out 'x%{xattr:" + name + "}y\\n'", "harvest-format"))
        for w in h["format"]:
            if "'" in w:
                continue
            spellings = [w] + ([w.upper(), w.swapcase(), w.capitalize(), w[:-1] + w[-1:].swapcase()] if any(c.isalpha() for c in w) else [])
            for v in dict.fromkeys(spellings):
                for t in ("%" + v, "\\" + v, "%{" + v + "}", v, "%" + v + "x", "a%" + v + "%p\\n", "%A" + v, "%C" + v, "%T" + v):
                    out.append(("-printf '" + t + "'", "harvest-format"))
    return out


def glue_punctuation(rng, words, p=0.7):
    """join words leaving NO blank next to a self-delimiting token ( ) ! , with probability p per side
    (whether that preserves the meaning is for the model to say: `x,` is one word after -name)"""
    out = ""
    for k, w in enumerate(words):
        if k > 0:
            tight = (w in "()!," or words[k - 1] in "()!,") and rng.random() < p
            out += "" if tight else " "
        out += w
    return out


def words_with_options(rng, depth=3, nopts=2, **kw):
    ws = expr_words(rng, depth, **kw)
    for _ in range(rng.randint(0, nopts)):
        o = rng.choice(OPTIONS)
        ins = [o] if o == "-depth" else [o, small(rng)]
        # only at word positions that start a primary or operator (never between a keyword and its argument:
        # approximated by inserting before a word that starts with '-' or is punctuation, or at the end)
        pos = [i for i, w in enumerate(ws) if w in "()!," or w.startswith("-")] + [len(ws)]
        i = rng.choice(pos)
        ws[i:i] = ins
    return ws
