"""A small reader for the Guile datum subset the compiler emits, a scope checker and a locking-
discipline checker. The reader is applied to the implementation's and the model's program alike before
most comparisons (vlib/structproj.py: structural); the checkers are model-independent evidence
functions (they mirror theorems C11_scoped and C16b but are not theorems) that run on every result
of C11/C16 and in the search for a failing input. Part of the trusted harness (DESIGN.md section 7)."""

DELIMS = set(" \t\r\n()\";")
ESC = {"a": "\a", "b": "\b", "f": "\f", "n": "\n", "r": "\r", "t": "\t", "v": "\v", "0": "\0", "\\": "\\", '"': '"'}


def read_all(text):
    """returns a list of forms (atoms: ('a', text), strings: ('s', value), lists: python lists) or None"""
    pos, n = 0, len(text)
    stack = [[]]
    while pos < n:
        c = text[pos]
        if c in " \t\r\n":
            pos += 1
        elif c == "(":
            stack.append([]); pos += 1
        elif c == ")":
            if len(stack) < 2:
                return None
            l = stack.pop(); stack[-1].append(l); pos += 1
        elif c == '"':
            pos += 1
            val = []
            while True:
                if pos >= n:
                    return None
                d = text[pos]
                if d == '"':
                    pos += 1
                    break
                if d == "\\":
                    if pos + 1 >= n or text[pos + 1] not in ESC:
                        return None
                    val.append(ESC[text[pos + 1]]); pos += 2
                else:
                    val.append(d); pos += 1
            stack[-1].append(("s", "".join(val)))
        elif c == ";":
            return None
        else:
            start = pos
            if text.startswith("#\\", pos):
                pos += 2
            while pos < n and text[pos] not in DELIMS:
                pos += 1
            atom = text[start:pos]
            if any(ch in atom for ch in "'`,|") or not atom:
                return None
            stack[-1].append(("a", atom))
    if len(stack) != 1:
        return None
    return stack[0]


def is_atom(x, name=None):
    return isinstance(x, tuple) and x[0] == "a" and (name is None or x[1] == name)


def let_star(forms):
    if not forms or len(forms) != 2:
        return None
    f = forms[1]
    if not (isinstance(f, list) and len(f) == 3 and is_atom(f[0], "let*") and isinstance(f[1], list)):
        return None
    return f[1], f[2]


def atoms_in(x, acc):
    """the atoms of a form in order (iterative: forms nest as deep as the expression)"""
    stack = [x]
    while stack:
        y = stack.pop()
        if isinstance(y, list):
            stack.extend(reversed(y))
        elif is_atom(y):
            acc.append(y[1])
    return acc


def scope_check(forms):
    """generated names (%lf3:...) bound once, used only after their binding, lambda parameters fresh"""
    ls = let_star(forms)
    if ls is None:
        return "the second form is not a let* with a binding list and a body"
    bindings, body = ls
    bound = []
    for b in bindings:
        if not (isinstance(b, list) and len(b) == 2 and is_atom(b[0])):
            return "malformed binding"
        name, val = b[0][1], b[1]
        params = []
        if isinstance(val, list) and val and is_atom(val[0], "lambda") and len(val) >= 2 and isinstance(val[1], list):
            params = [p[1] for p in val[1] if is_atom(p)]
        for a in atoms_in(val, []):
            if a.startswith("%lf3:") and a not in bound and a not in params:
                return "binding of %s uses %s before it is bound" % (name, a)
        for p in params:
            if p.startswith("%lf3:") and p in bound:
                return "lambda parameter %s captures an outer binding" % p
        if name in bound:
            return "%s is bound twice" % name
        bound.append(name)
    for a in atoms_in(body, []):
        if a.startswith("%lf3:") and a not in bound:
            return "the body uses %s which is not bound" % a
    return None


def discipline_check(forms):
    """every write to a port happens under the mutex created with that port; printers sharing a port
    share its mutex; the frame procedure writes only inside with-mutex; a printer that calls the
    frame procedure holds no mutex itself"""
    ls = let_star(forms)
    if ls is None:
        return "the second form is not a let*"
    bindings, body = ls
    port_mutex = {}
    frame_mutex = None
    for b in bindings:
        if not (isinstance(b, list) and len(b) == 2 and is_atom(b[0])):
            return "malformed binding"
        name, val = b[0][1], b[1]
        if name.startswith("%lf3:print:") and isinstance(val, list) and val and is_atom(val[0], "make-printer"):
            if len(val) != 4 or not is_atom(val[1]) or not is_atom(val[2]):
                return "malformed make-printer"
            port, mutex = val[1][1], val[2][1]
            if port_mutex.setdefault(port, mutex) != mutex:
                return "two printers on port %s use different mutexes (%s, %s): a record can be torn" % (port, port_mutex[port], mutex)
        elif name.startswith("%lf3:frame:"):
            # (lambda (s d) (with-mutex M (display ..) (display ..)))
            if not (isinstance(val, list) and len(val) == 3 and is_atom(val[0], "lambda") and isinstance(val[2], list)
                    and val[2] and is_atom(val[2][0], "with-mutex") and is_atom(val[2][1])):
                return "the frame procedure does not write under with-mutex"
            frame_mutex = val[2][1][1]
            for w in val[2][2:]:
                if not (isinstance(w, list) and w and is_atom(w[0], "display")):
                    return "unexpected form inside the frame procedure"
        elif name.startswith("%lf3:print:"):
            # framed printer: (lambda (line) (%lf3:frame:2 line #\xNN)) — must not lock
            txt = atoms_in(val, [])
            if "with-mutex" in txt or "lock-mutex" in txt:
                return "a framed printer takes a mutex around the frame procedure, which locks the same mutex: deadlock"
            if not any(a.startswith("%lf3:frame:") for a in txt):
                return "a printer neither uses make-printer nor the frame procedure"
    # two variables that name the same underlying port must not be guarded by different mutexes
    opened = {}
    for b in bindings:
        name, val = b[0][1], b[1]
        if name.startswith("%lf3:port:") and isinstance(val, list):
            opened.setdefault(repr(val), []).append(name)
    for what, names in opened.items():
        ms = set(port_mutex[n] for n in names if n in port_mutex)
        if len(ms) > 1:
            return ("the variables %s all name the same port but their printers lock different mutexes %s: two threads can "
                    "write to it at once and tear a record" % (names, sorted(ms)))
    # a printer without terminator on a line-oriented (unframed) port must be handed whole lines
    bare = set()
    for b in bindings:
        name, val = b[0][1], b[1]
        if (name.startswith("%lf3:print:") and isinstance(val, list) and len(val) == 4 and is_atom(val[0], "make-printer")
                and is_atom(val[3], "#f")):
            bare.add(name)
    stack = [body]
    while stack:
        y = stack.pop()
        if not isinstance(y, list):
            continue
        if len(y) == 2 and is_atom(y[0]) and y[0][1] in bare:
            arg = y[1]
            if (isinstance(arg, list) and len(arg) >= 3 and is_atom(arg[0], "format") and isinstance(arg[2], tuple)
                    and arg[2][0] == "s" and arg[2][1] != "" and not arg[2][1].endswith("\n")):
                return ("plain (unframed) mode, printer %s adds no terminator, and the text it is handed (template %r) "
                        "does not end in a newline: records of different threads run together on the port" % (y[0][1], arg[2][1][-20:]))
        stack.extend(y)
    mutex_names = [b[0][1] for b in bindings if is_atom(b[0]) and b[0][1].startswith("%lf3:mutex:")]
    if len(set(port_mutex.values())) != len(port_mutex):
        pass  # several ports sharing a mutex is safe
    body_atoms = atoms_in(body, [])
    for raw in ("print-file-fid", "display", "write-line", "write"):
        if raw in body_atoms:
            return "the policy body writes with %s, outside any printer" % raw
    if "print-relative-path" in body_atoms and any(n.startswith("%lf3:print:") for n in [b[0][1] for b in bindings]):
        return "print-relative-path (unlocked) coexists with mutex-guarded printers on the same port"
    return None
