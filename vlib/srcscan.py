"""Table-level consistency between /repo's current SOURCE TEXT and the Coq model's source text.

The correspondence runs compare behaviour on generated inputs; a keyword, directive or message
ADDED to the library would not be generated and could go unnoticed. This scan extracts the
table-like parts of the Rust sources (keyword lists in order, format directive and escape tables,
unit multipliers, explanation and Display strings, the unsupported-construct lists) and the same
tables from coq/Model/*.v, and reports every difference. An entry the SOURCE has and the model
lacks makes the dependent checks report that the model is no longer tied to the source; the other
direction (the scan does not find a model entry in the source: removed, or the source restructured)
is left to the behavioural runs. It supports the tie between model and code; it decides no property."""
import os, re

REPO = "/repo/src"
ROOT = os.path.dirname(os.path.dirname(os.path.abspath(__file__)))
MODEL = os.path.join(ROOT, "coq", "Model")


def _read(path):
    try:
        return open(path, encoding="utf-8").read()
    except OSError:
        return ""


def _strip_tests(rs):
    """drop #[test] functions and #[cfg(test)] modules: string literals there are not tables"""
    rs = re.sub(r"#\[cfg\(test\)\].*", "", rs, flags=re.S) if "#[cfg(test)]" in rs else rs
    i = rs.find("#[test]")
    return rs[:i] if i >= 0 else rs


def _impl_block(rs, header):
    i = rs.find(header)
    if i < 0:
        return ""
    j = rs.find("\nimpl ", i + 1)
    k = rs.find("\n#[derive", i + 1)
    ends = [x for x in (j, k) if x > 0]
    return rs[i:min(ends)] if ends else rs[i:]


def rust_keywords():
    rs = _strip_tests(_read(os.path.join(REPO, "find_parser", "mod.rs")))
    out = {}
    for name, header in (("test", "impl Parseable for Test"), ("action", "impl Parseable for Action"),
                         ("global", "impl Parseable for GlobalOption")):
        block = _impl_block(rs, header)
        out[name] = re.findall(r'"(-[a-z0-9-]+)"', block)
    tok = rs[rs.find("pub fn token"):rs.find("fn _parse")]
    out["operators"] = re.findall(r'"(-[a-z]+|[()!,])"', tok)
    return out


def coq_keywords():
    v = _read(os.path.join(MODEL, "Lex.v"))
    out = {}
    for name, start, end in (("global", "Definition parse_global", "Definition parse_action"),
                             ("action", "Definition parse_action", "Definition parse_test"),
                             ("test", "Definition parse_test", "Definition blank_or_eof")):
        block = v[v.find(start):v.find(end)]
        out[name] = re.findall(r'(?:unary|binary|literal) "(-[a-z0-9-]+)"', block)
    tok = v[v.find("Definition parse_token"):v.find("Definition lex ")]
    out["operators"] = re.findall(r'literal "(-[a-z]+|[()!,])"', tok)
    return out


def rust_format_tables():
    rs = _strip_tests(_read(os.path.join(REPO, "find_parser", "format.rs")))
    fields = re.findall(r'literal\("([^"]+)"\)\.value\(FormatField::(\w+)\)', rs)
    fields += [(m[0] + "<any>", m[1]) for m in re.findall(r'preceded\("(\w)", any\)\.map\(FormatField::(\w+)\)', rs)]
    specials = re.findall(r'literal\("((?:\\\\|[^"\\])+)"\)\.value\(FormatSpecial::(\w+)\)', rs)
    specials = [(a.replace("\\\\", "\\"), b) for a, b in specials]
    octal = re.findall(r"take_while\((\d+)\.\.=(\d+)", rs)
    return {"fields": fields, "specials": specials, "octal_digits": octal}


COQ_FIELD = {"FPercent": "Percent", "FAccess": "Access", "FDiskSizeBlocks": "DiskSizeBlocks", "FChange": "Change",
             "FDepth": "Depth", "FDeviceNumber": "DeviceNumber", "FBasename": "Basename", "FFsType": "FsType",
             "FGroup": "Group", "FGroupId": "GroupId", "FParents": "Parents", "FStartingPoint": "StartingPoint",
             "FInodeDecimal": "InodeDecimal", "FDiskSizeKilos": "DiskSizeKilos", "FSymbolicTarget": "SymbolicTarget",
             "FPermissionsOctal": "PermissionsOctal", "FPermissionsSymbolic": "PermissionsSymbolic",
             "FHardlinks": "Hardlinks", "FName": "Name", "FNameWithoutStartingPoint": "NameWithoutStartingPoint",
             "FDiskSizeBytes": "DiskSizeBytes", "FSparseness": "Sparseness", "FModify": "Modify", "FUser": "User",
             "FUserId": "UserId", "FType": "Type", "FTypeSymlink": "TypeSymlink", "FSecurityContext": "SecurityContext",
             "FFileId": "FileId", "FProjectId": "ProjectId", "FMirrorCount": "MirrorCount",
             "FStripeCount": "StripeCount", "FStripeSize": "StripeSize", "FAccessFormatted": "AccessFormatted",
             "FChangeFormatted": "ChangeFormatted", "FModifyFormatted": "ModifyFormatted"}
COQ_SPECIAL = {"XNull": "Null", "XBackslash": "Backslash", "XAlarm": "Alarm", "XBackspace": "Backspace", "XClear": "Clear",
               "XForm": "Form", "XNewline": "Newline", "XCarriageReturn": "CarriageReturn",
               "XTabHorizontal": "TabHorizontal", "XTabVertical": "TabVertical"}


def coq_format_tables():
    v = _read(os.path.join(MODEL, "Format.v"))
    fblock = v[v.find("Definition parse_field"):v.find("Definition parse_element")]
    fields = [(lit, COQ_FIELD.get(f, f)) for f, lit in re.findall(r'value (F\w+) \(literal "([^"]+)"\)', fblock)]
    fields += [(lit + "<any>", COQ_FIELD.get(f, f)) for f, lit in re.findall(r'pmap (F\w+) \(preceded \(literal "(\w)"\) any\)', fblock)]
    sblock = v[v.find("Definition parse_special"):v.find("Definition parse_field")]
    specials = [(lit, COQ_SPECIAL.get(x, x)) for x, lit in re.findall(r'value (X\w+) \(literal "([^"]+)"\)', sblock)]
    octal = re.findall(r"take_while_mn (\d+) (\d+) is_oct", sblock)
    return {"fields": fields, "specials": specials, "octal_digits": octal}


def rust_explain():
    rs = _read(os.path.join(REPO, "find_parser", "error.rs"))
    block = rs[rs.find("fn explain"):rs.find("#[derive(Debug, Error)]")]
    pairs = re.findall(r'"([a-z_]+)" => "([^"]+)"', block)
    display = re.findall(r'#\[error\("([^"]+)"\)\]', rs)
    return {"explain": pairs, "display": display}


def coq_explain():
    v = _read(os.path.join(MODEL, "Parse.v"))
    block = v[v.find("Definition explain"):v.find("Record sctx")]
    return {"explain": re.findall(r'String\.eqb d "([a-z_]+)" then "([^"]+)"', block)}


def rust_units():
    rs = _read(os.path.join(REPO, "ast.rs"))
    mult = rs[rs.find("pub fn mult"):rs.find("pub fn byte_size")]
    secs = rs[rs.find("pub fn secs"):rs.find("/// Generic comparison type")]
    def ev(e):
        return eval(e.replace(" ", ""), {"__builtins__": {}})
    return {"mult": [(a, ev(b)) for a, b in re.findall(r"Size::(\w+)\(_\) => ([0-9 *]+),", mult)],
            "secs": [(a, ev(b)) for a, b in re.findall(r"TimeSpec::(\w+)\(_\) => ([0-9 *]+),", secs)]}


def coq_units():
    v = _read(os.path.join(MODEL, "Ast.v"))
    mult = v[v.find("Definition size_mult"):v.find("Definition time_secs")]
    secs = v[v.find("Definition time_secs"):v.find("Definition two64")]
    name = {"UByte": "Byte", "UWord": "Word", "UBlock": "Block", "UKilo": "KiloByte", "UMega": "MegaByte",
            "UGiga": "GigaByte", "UTera": "TeraByte", "USecond": "Second", "UMinute": "Minute", "UHour": "Hour", "UDay": "Day"}
    return {"mult": [(name[a], int(b)) for a, b in re.findall(r"(U\w+) => (\d+)", mult)],
            "secs": [(name[a], int(b)) for a, b in re.findall(r"(U\w+) => (\d+)", secs)]}


def rust_compile_tables():
    rs = _read(os.path.join(REPO, "scheme", "target_scheme.rs"))
    ph = rs[rs.find("fn placeholder"):rs.find("fn snippet")]
    unsupported_fields = re.findall(r"FormatField::(\w+)", ph[ph.rfind("FormatField::Depth") - 5:]) if "FormatField::Depth" in ph else []
    tests = rs[rs.find("// The following are tests defined by GNU find"):rs.find("impl TargetScheme for Operator")]
    unsupported_tests = re.findall(r"Test::(\w+)", tests)
    act = rs[rs.find("impl TargetScheme for Action"):rs.find("impl TargetScheme for PositionalOption")]
    m = re.search(r"((?:Action::\w+(?:\(_\))?\s*\|?\s*)+)=>\s*\{\s*return Err\(CompileError::UnsupportedAction", act)
    unsupported_actions = re.findall(r"Action::(\w+)", m.group(1)) if m else []
    err = _read(os.path.join(REPO, "scheme", "error.rs"))
    return {"unsupported_fields": sorted(set(unsupported_fields)), "unsupported_tests": sorted(set(unsupported_tests)),
            "unsupported_actions": sorted(set(unsupported_actions)),
            "compile_error_display": re.findall(r'#\[error\("([^"]+)\{0\}"\)\]', err)}


def coq_compile_tables():
    v = _read(os.path.join(MODEL, "Compile.v"))
    fu = v[v.find("Definition field_unsupported"):v.find("Definition placeholder")]
    tu = v[v.find("Definition test_unsupported"):v.find("Definition xattr_offending")]
    ca = v[v.find("Definition compile_action"):v.find("Fixpoint compile_expr")]
    ce = v[v.find("Definition compile_error_text"):]
    return {"unsupported_fields": sorted(set(re.findall(r'Some "(\w+)"', fu))),
            "unsupported_tests": sorted(set(re.findall(r'Some "(\w+)"', tu))),
            "unsupported_actions": sorted(set(re.findall(r'CErr UnsupportedAction "(\w+)"', ca))),
            "compile_error_display": re.findall(r'"(Although [^"]+)"', ce)}


def scan():
    """returns a list of (kind, human-readable difference, only_in_source): only_in_source is the
    list of table entries the SOURCE has and the model lacks. Entries the model has and the scan
    does not find in the source are reported with an empty third component: either the source was
    restructured so that this scan no longer recognises the table (the behavioural runs, which
    generate from the model's tables and from every literal of the sources, decide), or the entry
    was removed (the behavioural runs then disagree at once)."""
    diffs = []

    def cmp(kind, what, src, mdl, ordered=False):
        src, mdl = list(src), list(mdl)
        only_s = [x for x in src if x not in mdl]
        only_m = [x for x in mdl if x not in src]
        if only_s or only_m:
            diffs.append((kind, "%s differ: only in source %s / only in model %s" % (what, only_s, only_m), only_s))

    rk, ck = rust_keywords(), coq_keywords()
    for k in ("test", "action", "global"):
        cmp("keywords", k + " keywords", rk[k], ck[k])
    cmp("keywords", "operator words", sorted(set(rk["operators"])), sorted(set(ck["operators"])))
    rf, cf = rust_format_tables(), coq_format_tables()
    for k in ("fields", "specials", "octal_digits"):
        cmp("format", "format " + k, rf[k], cf[k])
    re_, ce_ = rust_explain(), coq_explain()
    cmp("messages", "explain() table", re_["explain"], ce_["explain"])
    ru, cu = rust_units(), coq_units()
    for k in ("mult", "secs"):
        cmp("units", "unit table " + k, ru[k], cu[k])
    rc, cc = rust_compile_tables(), coq_compile_tables()
    for k in ("unsupported_fields", "unsupported_tests", "unsupported_actions"):
        cmp("unsupported", k, rc[k], cc[k])
    cmp("unsupported", "CompileError texts", sorted(set(rc["compile_error_display"])), sorted(set(cc["compile_error_display"])))
    return diffs


if __name__ == "__main__":
    for k, d, o in scan():
        print("DIFF[%s]:" % k, d, "| only in source:", o)
    print("tables compared: keywords %s, fields %d, specials %d, explain %d" % (
        {k: len(v) for k, v in rust_keywords().items()}, len(rust_format_tables()["fields"]),
        len(rust_format_tables()["specials"]), len(rust_explain()["explain"])))
