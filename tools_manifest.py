#!/usr/bin/env python3
"""Regenerates MANIFEST.json from the registry in vlib/props.py and manifest_notes.json."""
import json, os, sys
ROOT = os.path.dirname(os.path.abspath(__file__))
sys.path.insert(0, ROOT)
from vlib.props import PROPS
notes = json.load(open(os.path.join(ROOT, "manifest_notes.json")))
allp = [json.loads(l)["id"] for l in open(os.path.join(ROOT, "properties.jsonl"))]
checks, na = [], []
for pid in allp:
    if pid in PROPS and pid in notes["claimed"]:
        n = notes["claimed"][pid]
        checks.append({
            "property_id": pid,
            "quick_cmd": "./check %s --tier quick" % pid,
            "thorough_cmd": "./check %s --tier thorough" % pid,
            "evidence_file": "/verif/evidence/%s.json" % pid,
            "replay_cmd_template": "./check %s --replay {path}" % pid,
            "engine": "coq-model+correspondence",
            "level_claimed": {"category": "proof", "text": n["text"], "design_ref": n.get("design_ref", "DESIGN.md section 5, " + pid)},
            "level_note": n["note"],
            "technique": n.get("technique", "machine-checked proof in Coq 8.16 about a hand-written Gallina model + differential correspondence check of the extracted model against the code"),
        })
    else:
        na.append({"property_id": pid, "reason": notes["not_applicable"].get(pid, "check not built yet in this round (work in progress, see DESIGN.md section 12)")})
m = {
    "version": 1,
    "setup_cmd": "./setup.sh",
    "hooks": {
        "guard": "lipe_find_parser_verif",
        "enable": "RUSTFLAGS=\"--cfg lipe_find_parser_verif\" when building /verif/harness against /repo (no source hook exists: every observation goes through the public API and catch_unwind)",
        "baseline_off_cmd": "cd /repo && cargo test --workspace --no-fail-fast --offline",
        "source_commits": [],
        "add_only": True,
    },
    "engines": [{"name": "coq-model+correspondence", "path": "/verif/coq, /verif/harness, /verif/ocaml, /verif/check",
                 "serves_properties": [c["property_id"] for c in checks],
                 "kind_free_text": "Coq 8.16 theorems about a hand-written Gallina model of the parser and compiler; the model is extracted to OCaml (ExtrOcamlBasic only) and compared with the library built from /repo on generated cases"}],
    "checks": checks,
    "notes": notes.get("notes", ""),
    "not_applicable": na,
}
json.dump(m, open(os.path.join(ROOT, "MANIFEST.json"), "w"), indent=1)
print("claimed:", [c["property_id"] for c in checks])
