#!/usr/bin/env python3
"""Negative controls: changes under which the property still holds (pure refactors m1/m2, unrelated
behaviour change m3).  Applies each to /repo, runs the property's quick check (and, for refactors,
the broad C03 check), undoes it.  Development tool.  Results: seeded/NEGCTL.json"""
import json, os, re, subprocess, sys
ROOT = os.path.dirname(os.path.abspath(__file__))
SRC = os.environ.get("NEGCTL_SRC", "/tmp/mut4/out")
def sh(cmd, cwd=None, env=None, timeout=3600):
    e = dict(os.environ); e.update(env or {})
    p = subprocess.run(cmd, shell=True, cwd=cwd, capture_output=True, text=True, timeout=timeout, env=e)
    return p.returncode, p.stdout + p.stderr
only = sys.argv[1:]
resfile = os.path.join(ROOT, "seeded", os.environ.get("NEGCTL_OUT", "NEGCTL.json"))
res = json.load(open(resfile)) if os.path.exists(resfile) else {}
assert sh("git -C /repo status --porcelain")[1].strip() == "", "/repo not clean"
for pid in sorted(os.listdir(SRC)):
    if not re.fullmatch(r"C\d\d", pid) or (only and pid not in only): continue
    for k in ("m1", "m2", "m3"):
        patch = os.path.join(SRC, pid, k, "patch.diff")
        if not os.path.exists(patch): continue
        name = "%s-%s" % (pid, k)
        meta = {}
        try: meta = json.load(open(os.path.join(SRC, pid, k, "meta.json")))
        except Exception: pass
        rc, out = sh("git -C /repo apply %s" % patch)
        if rc != 0:
            res[name] = {"error": "patch does not apply: " + out[-200:]}; print(name, "NOAPPLY"); continue
        runs = {}
        try:
            checks = [pid] + (["C03"] if k in ("m1", "m2") and pid != "C03" else [])
            for c in checks:
                rc, out = sh("./check %s --tier quick" % c, cwd=ROOT, env={"VERIF_SKIP_COQ": "1"})
                viol = [l for l in out.split("\n") if l.startswith("VIOLATION")]
                summ = [l for l in out.split("\n") if re.match(r"C\d+ quick", l)]
                runs[c] = {"exit": rc, "violation": viol[:1], "summary": summ[:1]}
        finally:
            sh("git -C /repo checkout -- . && git -C /repo clean -fdq")
        res[name] = {"kind": meta.get("kind"), "summary": meta.get("summary", "")[:300], "runs": runs,
                     "quiet": all(r["exit"] == 0 for r in runs.values())}
        print(name, res[name]["quiet"], {c: (r["exit"], r["violation"]) for c, r in runs.items()}, flush=True)
        json.dump(res, open(resfile, "w"), indent=1)
assert sh("git -C /repo status --porcelain")[1].strip() == "", "/repo left dirty"
