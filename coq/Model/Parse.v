(** _parse / parse of find_parser/mod.rs, RunOptions::update of lib.rs and the error reporter of
    find_parser/error.rs. *)
From Coq Require Import List String NArith Bool Arith.
From FP Require Import Model.Chars Model.Winnow Model.Ast Model.Args Model.Lex Model.Prec.
Import ListNotations.
Local Open Scope N_scope.

Inductive presult :=
| ParseOk (o : options) (e : expr)
| ParseErr (msg : str)
| ParsePanic (site : string).

(** RunOptions::update; the catch-all arm is unreachable!() *)
Definition update_options (o : options) (g : gopt) : option options :=
  match g with
  | GDepth => Some {| opt_depth := true; opt_threads := opt_threads o |}
  | GThreads n => Some {| opt_depth := opt_depth o; opt_threads := Some n |}
  | _ => None
  end.
Fixpoint update_all (o : options) (gs : list gopt) : option options :=
  match gs with
  | [] => Some o
  | g :: r => match update_options o g with Some o' => update_all o' r | None => None end
  end.

(** misplaced options are registered and replaced by True *)
Fixpoint replace_globals (o : options) (ts : list token) : option (options * list token) :=
  match ts with
  | [] => Some (o, [])
  | KPrim (LGlobal g) :: r =>
      match update_options o g with
      | Some o' => match replace_globals o' r with
                   | Some (o'', r') => Some (o'', KPrim (LTest TTrue) :: r')
                   | None => None
                   end
      | None => None
      end
  | t :: r => match replace_globals o r with
              | Some (o', r') => Some (o', t :: r')
              | None => None
              end
  end.

(** * error.rs *)
Definition explain (d : string) : string :=
  if String.eqb d "file_and_format" then "Expected a filename and format string"
  else if String.eqb d "attribute_and_value" then "Expected an attribute name and a value to compare"
  else if String.eqb d "invalid_comparison" then "Invalid comparison operator"
  else if String.eqb d "invalid_format_specifier" then "Found an invalid format specifier"
  else if String.eqb d "invalid_permission_format" then "Invalid permission format"
  else if String.eqb d "invalid_size_specifier" then "Invalid size specifier"
  else if String.eqb d "invalid_type_specifier" then "Found an invalid type specifier"
  else if String.eqb d "invalid_time_specifier" then "Found an invalid time specifier"
  else if String.eqb d "symbolic_permission_level" then "Found invalid symbolic permission level"
  else if String.eqb d "symbolic_permission_symbol" then "Enountered an invalid permission symbol"
  else if String.eqb d "unsigned_integer" then "Expected an unsigned integer"
  else if String.eqb d "unsupported_option" then "This option is not supported by LiPE"
  else if String.eqb d "string" then "Expected a string"
  else d.

Record sctx := { sc_test : option string; sc_action : option string;
                 sc_global : option string; sc_descr : option string }.
Definition is_empty (o : option string) : bool :=
  match o with Some EmptyString => true | _ => false end.
Definition fold_ctx (acc : sctx) (c : ctx) : sctx :=
  match c with
  | Label s =>
      if String.eqb s "test" then
        {| sc_test := Some ""%string; sc_action := sc_action acc; sc_global := sc_global acc; sc_descr := sc_descr acc |}
      else if is_empty (sc_test acc) then
        {| sc_test := Some s; sc_action := sc_action acc; sc_global := sc_global acc; sc_descr := sc_descr acc |}
      else if String.eqb s "action" then
        {| sc_test := sc_test acc; sc_action := Some ""%string; sc_global := sc_global acc; sc_descr := sc_descr acc |}
      else if is_empty (sc_action acc) then
        {| sc_test := sc_test acc; sc_action := Some s; sc_global := sc_global acc; sc_descr := sc_descr acc |}
      else if String.eqb s "global_option" then
        {| sc_test := sc_test acc; sc_action := sc_action acc; sc_global := Some ""%string; sc_descr := sc_descr acc |}
      else if is_empty (sc_global acc) then
        {| sc_test := sc_test acc; sc_action := sc_action acc; sc_global := Some s; sc_descr := sc_descr acc |}
      else acc
  | Expected s =>
      {| sc_test := sc_test acc; sc_action := sc_action acc; sc_global := sc_global acc; sc_descr := Some s |}
  end.
Definition syntax_context (cs : list ctx) : sctx :=
  fold_left fold_ctx (rev cs)
    {| sc_test := None; sc_action := None; sc_global := None; sc_descr := None |}.

(** the word the message quotes: String::parse on what is left of the input, "" on failure *)
Definition next_word (rest : str) : str :=
  match parse_string rest with (Ok w, _) => w | _ => [] end.

Definition failed_arg (next : str) (kind name : string) (d : option string) : str :=
  chars "Failed to parse argument `" ++ next ++ chars "` of " ++ chars kind ++ chars " `"
    ++ chars name ++ chars "`"
    ++ match d with Some dd => chars ": " ++ chars (explain dd) | None => [] end.

Definition message (cs : list ctx) (rest : str) : str :=
  let sc := syntax_context cs in
  let next := next_word rest in
  chars "Syntax error: " ++
  match sc_test sc, sc_action sc, sc_global sc, sc_descr sc with
  | Some t, _, _, d => failed_arg next "test" t d
  | None, Some a, _, d => failed_arg next "action" a d
  | None, None, Some g, d => failed_arg next "global option" g d
  | None, None, None, _ => chars "Unexpected token: `" ++ next ++ chars "`"
  end.

Definition err_of {A} (o : out A) (rest : str) : presult :=
  match o with
  | Back c | Cut c => ParseErr (message c rest)
  | Panic s => ParsePanic s
  | Ok _ => ParsePanic "err_of"
  end.

(** every error of the precedence stage carries only Expected/"grammar"/"parens" contexts and is
    raised once the lexer has consumed the whole input: the quoted word is empty *)
Definition grammar_error : presult := ParseErr (message [Expected "grammar"] []).

Definition parse (input : str) : presult :=
  match leading_options input with
  | (Ok gs, rest) =>
      match update_all default_options gs with
      | None => ParsePanic "RunOptions::update: unreachable"
      | Some o =>
          let lexed := match rest with
                       | [] => (Ok [KPrim (LTest TTrue)], rest)
                       | _ => lex rest
                       end in
          match lexed with
          | (Ok tokens, _) =>
              match replace_globals o tokens with
              | None => ParsePanic "RunOptions::update: unreachable"
              | Some (o', tokens') =>
                  match prec_parser tokens' with
                  | Some e => ParseOk o' e
                  | None => grammar_error
                  end
              end
          | (bad, rest') => err_of bad rest'
          end
      end
  | (bad, rest) => err_of bad rest
  end.
