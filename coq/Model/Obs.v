(** Observation lines of the correspondence check: [run_case] parses one case line (the same the
    Rust harness reads, with the clock reading the harness measured appended as "@<secs>") and
    returns the line the harness is expected to print. Glue; no theorem is about it. *)
From Coq Require Import List String NArith Bool Arith.
From FP Require Import Model.Chars Model.Ast Model.Sexp Model.Parse Model.Compile Model.Ser.
From FP Require Import Spec.GuileReader Model.ObsSem.
Import ListNotations.
Local Open Scope string_scope.
Local Open Scope list_scope.
Local Open Scope N_scope.

Definition unhex (t : str) : str :=
  match t with
  | [45] => []
  | [] => []
  | _ => map hex_value (split_on 46 t [])
  end.

Definition obs_parse (input : str) : str * option (options * expr) :=
  match parse input with
  | ParseOk o e => (words [w "OK"; ser_options o; ser_expr e], Some (o, e))
  | ParseErr m => (words [w "ERR"; esc m], None)
  | ParsePanic _ => (w "PANIC", None)
  end.

Definition ser_term (t : option N) : str := match t with None => w "-" | Some c => print_hex c end.
Definition ser_target (t : target) : str :=
  match t with
  | TStdout c => words [w "Stdout"; ser_term c]
  | TFile f c => words [w "File"; ser_str f; ser_term c]
  end.
Definition ser_iomap (m : option (list (N * target))) : str :=
  match m with
  | None => w "none"
  | Some l => words (w "map" :: print_dec (N.of_nat (List.length l))
                       :: map (fun '(k, t) => words [print_dec k; ser_target t]) l)
  end.

Fixpoint count_times (e : expr) : nat :=
  match e with
  | ETest (TAccessTime _) | ETest (TChangeTime _) | ETest (TModifyTime _) => 1
  | EPrec a | ENot a => count_times a
  | EAnd a b | EOr a b | EList a b => count_times a + count_times b
  | _ => 0
  end%nat.

(** the variant of a compile error and its payload (escaped with blanks too, so that it is one
    field), then the Display text *)
Definition kind_name (k : errkind) : string :=
  match k with
  | UnsupportedTest => "UnsupportedTest" | UnsupportedAction => "UnsupportedAction"
  | UnsupportedOption => "UnsupportedOption" | UnsupportedFormat => "UnsupportedFormat"
  end.
Definition esc_sp (s : str) : str :=
  flat_map (fun c => if c =? 32 then w "\x20;" else esc_char c) s.

Definition obs_compile (e : expr) (o : options) (clock : N) (mdts : list str) : str :=
  w "clock " ++ print_dec clock ++ sp ++
  match compile e o (repeat clock (count_times e)) with
  | COk c => w "COK " ++ ser_iomap (c_iomap c)
             ++ flat_map (fun mdt => w " | " ++ esc (scheme_text c mdt)) mdts
  | CErr k n => w "CERR " ++ w (kind_name k) ++ sp ++ esc_sp (chars n ++ payload_text e)
                ++ sp ++ esc (compile_error_text k n ++ payload_text e)
  | CPanic _ => w "CPANIC"
  end.

Definition bit (b : bool) : str := if b then w "1" else w "0".

(** the clock field "@123" at the end of a case *)
Definition split_clock (fields : list str) : list str * N :=
  match rev fields with
  | (64 :: n) :: r => (rev r, dec_value n)
  | _ => (fields, 0)
  end.

(** serialisation of what the specified Guile reader returns on a text (oracle for the search of
    a failing input: run on the IMPLEMENTATION's text) *)
Fixpoint ser_sexp (x : sexp) : str :=
  match x with
  | SAtom a => w "a:" ++ join [46] (map print_hex a)
  | SStr u => w "s:" ++ join [46] (map print_hex u)
  | SList l => w "(" ++ join sp (map ser_sexp l) ++ w ")"
  end.
Definition obs_read (text : str) : str :=
  match read_all text with
  | Some forms => words (w "READ" :: map ser_sexp forms)
  | None => w "READ-FAIL"
  end.

Definition run_case (line : str) : str :=
  let (fields, clock) := split_clock (tokens_of line) in
  match fields with
  | kind :: args =>
      if tok_is kind "P" then
        match args with a :: _ => fst (obs_parse (unhex a)) | [] => w "BAD-CASE" end
      else if tok_is kind "PC" || tok_is kind "D" then
        match args with
        | a :: m :: _ =>
            match obs_parse (unhex a) with
            | (s, None) => s
            | (s, Some (o, e)) => s ++ w " || " ++ obs_compile e o clock [unhex m]
            end
        | _ => w "BAD-CASE"
        end
      else if tok_is kind "R" then
        match args with
        | a :: n :: ms =>
            match obs_parse (unhex a) with
            | (s, None) => s
            | (s, Some (o, e)) => s ++ w " || " ++ obs_compile e o clock (map unhex ms)
            end
        | _ => w "BAD-CASE"
        end
      else if tok_is kind "T" then
        match read_expr args with
        | Some e => words [w "action"; bit (has_action e); w "frames"; bit (complex_frames e);
                           w "tree"; ser_expr e]
        | None => w "BAD-TREE"
        end
      else if tok_is kind "TC" then
        match args with
        | d :: th :: m :: tree =>
            match read_expr tree with
            | Some e =>
                let o := {| opt_depth := tok_is d "1";
                            opt_threads := if tok_is th "-" then None else Some (dec_value th) |} in
                obs_compile e o clock [unhex m]
            | None => w "BAD-TREE"
            end
        | _ => w "BAD-CASE"
        end
      else if tok_is kind "U" then
        match de_size args with
        | Some (Size u n, _) =>
            words [w "mult"; print_dec (size_mult u); w "bytes";
                   match byte_size Debug (Size u n) with Some b => print_dec b | None => w "PANIC" end]
        | None => w "BAD-CASE"
        end
      else if tok_is kind "UR" then   (* release profile of the same helper *)
        match de_size args with
        | Some (Size u n, _) =>
            words [w "mult"; print_dec (size_mult u); w "bytes";
                   match byte_size Release (Size u n) with Some b => print_dec b | None => w "PANIC" end]
        | None => w "BAD-CASE"
        end
      else if tok_is kind "Z" then w "slept"
      else if tok_is kind "EV" then obs_eval args
      else if tok_is kind "RD" then
        match args with a :: _ => obs_read (unhex a) | [] => w "BAD-CASE" end
      else if tok_is kind "V" then
        match de_time args with
        | Some (Time u _, _) => words [w "secs"; print_dec (time_secs u)]
        | None => w "BAD-CASE"
        end
      else w "BAD-CASE"
  | [] => w "BAD-CASE"
  end.
