(** permission.rs after the repairs: octal values are range-checked, the argument word must be
    consumed entirely. The '-' clause keeps the code's (defective, unit-test-pinned) meaning:
    Del(target & !level) — see Spec/Chmod.v and the known finding D14. *)
From Coq Require Import List String NArith Bool Arith.
From FP Require Import Model.Chars Model.Winnow Model.Ast Model.Args.
Import ListNotations.
Local Open Scope N_scope.

Definition all_bits : N := 4095.   (* every flag of Mode: 0o7777 *)
Definition sym_value (c : N) : N :=
  if c =? 117 then 448        (* u 0o700 *)
  else if c =? 103 then 56    (* g 0o070 *)
  else if c =? 111 then 7     (* o 0o007 *)
  else if c =? 97 then 511    (* a 0o777 *)
  else if c =? 114 then 292   (* r 0o444 *)
  else if c =? 119 then 146   (* w 0o222 *)
  else 73.                    (* x 0o111 *)
Definition from_symbolic (s : str) : N := fold_left (fun acc c => N.lor acc (sym_value c)) s 0.

Inductive partial := PSet (target level : N) | PAdd (bits : N) | PDel (bits : N).

Definition parse_partial : sparser partial :=
  bind (take_while 1 (in_str "ugoa")) (fun target =>
  bind (cut_err (context (expected "symbolic_permission_symbol") (one_of (in_str "+=-")))) (fun op =>
  pmap (fun level =>
          let t := from_symbolic target in
          let l := from_symbolic level in
          if op =? 61 then PSet t l
          else if op =? 43 then PAdd (N.land t l)
          else PDel (N.land t (N.ldiff all_bits l)))
       (cut_err (context (expected "symbolic_permission_level") (take_while 1 (in_str "rwx")))))).

Definition partial_update (p : partial) (mode : N) : N :=
  match p with
  | PDel bits => N.ldiff mode bits
  | PAdd bits => N.lor mode bits
  | PSet target level => N.lor (N.ldiff mode target) (N.land target level)
  end.

Definition parse_permission : sparser N :=
  context (label "permission")
    (alt [ try_map (try_map (take_while 3 is_oct)
                      (fun oct => let n := oct_value oct in if n <? two32 then Some n else None))
                   (fun bits => if bits <=? all_bits then Some bits else None);
           pmap (fun v => fold_left (fun acc e => partial_update e acc) v 0)
                (separated1 slen parse_partial (literal ","));
           context (expected "invalid_permission_format") fail ]).

Definition parse_permcheck : sparser (permkind * N) :=
  context (label "permission_comparison")
    (alt [ pmap (fun b => (PAny, b)) (preceded (literal "/") (cut_err parse_permission));
           pmap (fun b => (PAtLeast, b)) (preceded (literal "-") (cut_err parse_permission));
           pmap (fun b => (PEqual, b)) (cut_err parse_permission) ]).

(** the argument of -perm: quote_delimiter().and_then(terminated(PermCheck::parse, eof...)) *)
Definition parse_perm_arg : sparser (permkind * N) :=
  and_then quote_delimiter
    (terminated parse_permcheck (context (expected "invalid_permission_format") eof)).
