(** precedence.rs: the climber over the token slice, written as direct recursive functions.
    Contexts are not kept: every error of this stage renders as the same message (see ErrMsg),
    only the Backtrack / Cut distinction steers the control flow and is kept.
    [repeat(0.., ...)] loops are fuelled by the length of the remaining tokens (each iteration
    consumes at least one token). *)
From Coq Require Import List Arith Bool.
From FP Require Import Model.Ast Model.Lex.
Import ListNotations.

Definition leaf_expr (l : leaf) : expr :=
  match l with
  | LTest t => ETest t | LAction a => EAction a | LGlobal g => EGlobal g | LPositional => EPositional
  end.

Inductive pres := POk (e : expr) (rest : list token) | PBack | PCut.

Section Levels.
  Variable atomf : list token -> pres.

  (* repeat(0.., alt((preceded(And, cut_err(atom)), atom))).fold(...) *)
  Fixpoint and_loop (k : nat) (acc : expr) (ts : list token) : pres :=
    match k with
    | O => POk acc ts
    | S k =>
      match ts with
      | KAnd :: r =>
          match atomf r with POk e r' => and_loop k (EAnd acc e) r' | _ => PCut end
      | _ =>
          match atomf ts with
          | POk e r' => and_loop k (EAnd acc e) r'
          | PBack => POk acc ts
          | PCut => PCut
          end
      end
    end.
  Definition and_ (ts : list token) : pres :=
    match atomf ts with POk e r => and_loop (length r) e r | x => x end.

  Fixpoint or_loop (k : nat) (acc : expr) (ts : list token) : pres :=
    match k with
    | O => POk acc ts
    | S k =>
      match ts with
      | KOr :: r => match and_ r with POk e r' => or_loop k (EOr acc e) r' | _ => PCut end
      | _ => POk acc ts
      end
    end.
  Definition or_ ts := match and_ ts with POk e r => or_loop (length r) e r | x => x end.

  Fixpoint list_loop (k : nat) (acc : expr) (ts : list token) : pres :=
    match k with
    | O => POk acc ts
    | S k =>
      match ts with
      | KComma :: r => match or_ r with POk e r' => list_loop k (EList acc e) r' | _ => PCut end
      | _ => POk acc ts
      end
    end.
  Definition list_ ts := match or_ ts with POk e r => list_loop (length r) e r | x => x end.
End Levels.

(* alt((one_of(primary), not, parens, preceded(any, fail))) with fuel for the nesting *)
Fixpoint atom (n : nat) (ts : list token) : pres :=
  match n with
  | O => PCut
  | S n =>
    match ts with
    | KPrim p :: r => POk (leaf_expr p) r
    | KNot :: r => match atom n r with POk e r' => POk (ENot e) r' | _ => PCut end
    | KLParen :: r =>
        match list_ (atom n) r with
        | POk e (KRParen :: r') => POk e r'
        | _ => PCut
        end
    | _ => PBack
    end
  end.

(* repeat_till(1.., list, eof) and then .first() *)
Fixpoint rt_loop (f : list token -> pres) (k : nat) (first : expr) (ts : list token) : option expr :=
  match ts with
  | [] => Some first
  | _ => match k with
         | O => None
         | S k => match f ts with POk _ r => rt_loop f k first r | _ => None end
         end
  end.
Definition prec_parser (ts : list token) : option expr :=
  let f := list_ (atom (S (length ts))) in
  match f ts with POk e r => rt_loop f (length r) e r | _ => None end.
