(** Glue for the semantic oracle of C02: evaluates, on one file record, (a) the reference
    semantics of the expression (Spec/FindSem.v) and (b) the meaning (Spec/SchemeSem.v,
    Spec/SchemePrelude.v) of a program TEXT — the implementation's — read by the specified Guile
    reader. Used to look for a concrete file on which the emitted policy and find disagree.
    No theorem is about this file. *)
From Coq Require Import List String NArith Bool Arith.
From FP Require Import Model.Chars Model.Ast Model.Sexp Model.Parse Model.Compile Model.Ser.
From FP Require Import Spec.GuileReader Spec.FileRecord Spec.FindSem Spec.SchemeSem Spec.SchemePrelude Spec.Unsupported.
Import ListNotations.
Local Open Scope string_scope.
Local Open Scope list_scope.
Local Open Scope N_scope.

(** a small concrete host: globs with * and ? (other specials literal), case folding of ASCII *)
Definition lower (c : N) : N := if (65 <=? c) && (c <=? 90) then c + 32 else c.
Fixpoint glob (fuel : nat) (p s : str) : bool :=
  match fuel with
  | O => false
  | S n =>
      match p, s with
      | [], [] => true
      | [], _ => false
      | 42 :: p', [] => glob n p' []
      | 42 :: p', c :: s' => glob n p' s || glob n p s'
      | 63 :: p', _ :: s' => glob n p' s'
      | 63 :: _, [] => false
      (* backslash: the next pattern character stands for itself; a trailing backslash for itself *)
      | 92 :: c :: p', b :: s' => (c =? b) && glob n p' s'
      | 92 :: _ :: _, [] => false
      | a :: p', b :: s' => (a =? b) && glob n p' s'
      | _ :: _, [] => false
      end
  end.
Definition toy_fnmatch (ci : bool) (p s : str) : bool :=
  let p' := if ci then map lower p else p in
  let s' := if ci then map lower s else s in
  glob (S (2 * (List.length p + List.length s))) p' s'.
Definition toy_host : host :=
  {| fnmatch := toy_fnmatch;
     streq_ci := fun p s => str_eqb (map lower p) (map lower s);
     xattr_match := fun xs a v => match xattr_ref a xs with Some x => toy_fnmatch false v x | None => false end;
     strftime_text := fun c t => c :: 61 :: print_dec t;
     dirname := fun s => w "dir(" ++ s ++ w ")";
     type_char := fun m => print_radix 8 (N.land m 61440);
     ratio_text := fun a b => print_dec a ++ [47] ++ print_dec b;
     ctime_text := fun t => w "ctime(" ++ print_dec t ++ w ")" |}.

(** file record: 14 decimal numbers, 7 strings, pools (count + strings), xattrs (count + pairs),
    4 bits *)
Definition nth_tok (l : list str) (n : nat) : str := nth n l [].
Fixpoint take_strs (n : nat) (l : list str) : list str * list str :=
  match n with
  | O => ([], l)
  | S k => match l with x :: r => let (a, b) := take_strs k r in (de_str x :: a, b) | [] => ([], []) end
  end.
Fixpoint pair_up (l : list str) : list (str * str) :=
  match l with a :: b :: r => (a, b) :: pair_up r | _ => [] end.
Definition read_file (t : list str) : file * list str :=
  let num k := dec_value (nth_tok t k) in
  let strs := skipn 14 t in
  let s k := de_str (nth_tok strs k) in
  let r1 := skipn 7 strs in
  let np := N.to_nat (dec_value (nth_tok r1 0)) in
  let (pools, r2) := take_strs np (skipn 1 r1) in
  let nx := N.to_nat (dec_value (nth_tok r2 0)) in
  let (xs, r3) := take_strs (2 * nx) (skipn 1 r2) in
  let b k := tok_is (nth_tok r3 k) "1" in
  ({| f_size := num 0%nat; f_mode := num 1%nat; f_uid := num 2%nat; f_gid := num 3%nat; f_ino := num 4%nat;
      f_nlink := num 5%nat; f_atime := num 6%nat; f_ctime := num 7%nat; f_mtime := num 8%nat;
      f_blocks := num 9%nat; f_projid := num 10%nat; f_stripe_count := num 11%nat;
      f_stripe_size := num 12%nat; f_mirror_count := num 13%nat;
      f_name := s 0%nat; f_relative_path := s 1%nat; f_absolute_path := s 2%nat; f_fid := s 3%nat;
      f_user := s 4%nat; f_group := s 5%nat; f_mount_path := s 6%nat;
      f_pools := pools; f_xattrs := pair_up xs;
      f_empty := b 0%nat; f_executable := b 1%nat; f_readable := b 2%nat; f_writable := b 3%nat |},
   skipn 4 r3).

Definition ser_dest (d : dest) : str :=
  match d with DStdout => w "stdout" | DFile p => w "file:" ++ join [46] (map print_hex p) end.
Definition ser_output (o : output) : str :=
  let '(d, payload, term) := o in
  w "[" ++ ser_dest d ++ sp ++ join [46] (map print_hex payload) ++ w "/" ++
  match term with Some c => print_hex c | None => w "-" end ++ w "]".
Definition ser_result (r : option result) : str :=
  match r with
  | None => w "RUNTIME-ERROR"
  | Some (b, outs, q) =>
      (if b then w "T" else w "F") ++ (if q then w " quit " else w " ") ++ flat_map ser_output outs
  end.

(** destination table as the harness prints it: none | map n (k Stdout t | k File S.. t)* *)
Definition read_term (t : str) : option N := if tok_is t "-" then None else Some (hex_value t).
Fixpoint read_targets (fuel : nat) (l : list str) : list (N * target) :=
  match fuel with
  | O => []
  | S n =>
      match l with
      | k :: kind :: r =>
          if tok_is kind "Stdout" then
            match r with t :: r' => (dec_value k, TStdout (read_term t)) :: read_targets n r' | [] => [] end
          else match r with f :: t :: r' => (dec_value k, TFile (de_str f) (read_term t)) :: read_targets n r' | _ => [] end
      | _ => []
      end
  end.
Definition read_iomap (l : list str) : option (list (N * target)) * list str :=
  match l with
  | k :: r =>
      if tok_is k "none" then (None, r)
      else match r with
           | n :: r' =>
               (* entries have 3 or 4 tokens: find the end by re-serialising *)
               let entries := read_targets (N.to_nat (dec_value n)) r' in
               let used := fold_left (fun acc e => match snd e with TStdout _ => acc + 3 | TFile _ _ => acc + 4 end)%nat
                                     (firstn (N.to_nat (dec_value n)) entries) 0%nat in
               (Some (firstn (N.to_nat (dec_value n)) entries), skipn used r')
           | [] => (None, [])
           end
  | [] => (None, [])
  end.

Definition unhex_s (t : str) : str :=
  match t with [45] => [] | [] => [] | _ => map hex_value (split_on 46 t []) end.

(** EV <expr text hex> <clock> <program text hex> <iomap...> FILE <file record...> *)
Definition obs_eval (args : list str) : str :=
  match args with
  | ex :: clk :: text :: rest =>
      let (io, rest') := read_iomap rest in
      let (f, _) := read_file (skipn 1 rest') in
      let clock := repeat (dec_value clk) 64 in
      let spec :=
        match parse (unhex_s ex) with
        | ParseOk _ e =>
            if ctime_free e then
              if defined e f then ser_result (Some (feval toy_host (wrap e) clock f)) else w "UNDEFINED"
            else w "KNOWN-D17"
        | _ => w "NO-PARSE"
        end in
      let prog :=
        match read_all (unhex_s text) with
        | Some forms => ser_result (sem_forms toy_host io forms f)
        | None => w "UNREADABLE"
        end in
      w "EVAL spec=" ++ spec ++ w " || prog=" ++ prog
  | _ => w "BAD-CASE"
  end.


(** * Debug rendering of the first unsupported construct (what CompileError's text carries after
    the variant name): Rust's `{:?}` of a String for the ASCII range; characters above 0x7f are
    copied (the comparison skips payloads containing them, their escaping depends on Unicode
    tables that are not modelled) *)
Definition debug_char (c : N) : str :=
  if c =? 34 then w "\""" else if c =? 92 then w "\\" else if c =? 10 then w "\n"
  else if c =? 13 then w "\r" else if c =? 9 then w "\t" else if c =? 0 then w "\0"
  else if (c <? 32) || (c =? 127) then w "\u{" ++ print_hex c ++ w "}"
  else [c].
Definition debug_string (u : str) : str := [34] ++ flat_map debug_char u ++ [34].
Definition test_payload (t : test) : option str :=
  match t with
  | TAccessNewer u | TChangeNewer u | TFsType u | TGroup u | TInsensitiveLinkName u
  | TInsensitiveRegex u | TLinkName u | TModifyNewer u | TRegex u | TSamefile u | TUser u => Some u
  | _ => None
  end.
Fixpoint first_payload (e : expr) : option (option str) :=
  (* Some (Some u): first unsupported construct has the string payload u; Some None: it has none *)
  match e with
  | ETest t => match Spec.Unsupported.bad_test t with
               | Some _ => Some (test_payload t)
               | None => None
               end
  | EAction (AFileList u) => Some (Some u)
  | EAction a => match Spec.Unsupported.bad_action a with Some _ => Some None | None => None end
  | EPositional => Some None
  | ENot a | EPrec a => first_payload a
  | EAnd a b | EOr a b | EList a b =>
      match first_payload a with Some r => Some r | None => first_payload b end
  | EGlobal _ => None
  end.
Definition payload_text (e : expr) : str :=
  match first_payload (wrap e) with
  | Some (Some u) => w "(" ++ debug_string u ++ w ")"
  | _ => []
  end.
