(** Emitted text as a layout-carrying S-expression: atoms, string literals made of pieces, and
    lists whose elements carry the exact white space the Rust format strings put before them.
    [print] is byte-for-byte what the Rust code returns; [erase] forgets the layout and decodes
    the string literals. *)
From Coq Require Import List String NArith Bool.
From FP Require Import Model.Chars.
Import ListNotations.
Local Open Scope N_scope.

(** a string literal is a sequence of pieces: raw user text (printed through the escaping
    function, decoding back to itself) or one of the lettered escapes \a \b \f \n \r \t \v \0 *)
Inductive piece := PLit (u : str) | PEsc (c : N).

Inductive lsexp :=
| LAtom (a : str)
| LStr (ps : list piece)
| LList (items : litems) (trail : str)
with litems :=
| LNil
| LCons (ws : str) (x : lsexp) (r : litems).

(** scheme::escape_string *)
Definition escape_char (c : N) : str := if (c =? 34) || (c =? 92) then [92; c] else [c].
Definition escape_string (u : str) : str := flat_map escape_char u.
(** the '~' doubling of scheme::escape_template *)
Definition double_tilde (u : str) : str := flat_map (fun c => if c =? 126 then [126; 126] else [c]) u.

Definition print_piece (p : piece) : str :=
  match p with PLit u => escape_string u | PEsc c => [92; c] end.

Fixpoint print (x : lsexp) : str :=
  match x with
  | LAtom a => a
  | LStr ps => 34 :: flat_map print_piece ps ++ [34]
  | LList items trail => 40 :: print_items items ++ trail ++ [41]
  end
with print_items (l : litems) : str :=
  match l with
  | LNil => []
  | LCons ws x r => ws ++ print x ++ print_items r
  end.

(** plain S-expressions: what a reader returns *)
Inductive sexp := SAtom (a : str) | SStr (s : str) | SList (l : list sexp).

(** meaning of the lettered escapes in a Guile string literal *)
Definition esc_value (c : N) : N :=
  if c =? 97 then 7 else if c =? 98 then 8 else if c =? 102 then 12 else if c =? 110 then 10
  else if c =? 114 then 13 else if c =? 116 then 9 else if c =? 118 then 11 else if c =? 48 then 0
  else c.
Definition piece_value (p : piece) : str :=
  match p with PLit u => u | PEsc c => [esc_value c] end.

Fixpoint erase (x : lsexp) : sexp :=
  match x with
  | LAtom a => SAtom a
  | LStr ps => SStr (flat_map piece_value ps)
  | LList items _ => SList (erase_items items)
  end
with erase_items (l : litems) : list sexp :=
  match l with
  | LNil => []
  | LCons _ x r => erase x :: erase_items r
  end.

(** builders *)
Fixpoint items_sep (sep : str) (l : list lsexp) : litems :=
  match l with [] => LNil | x :: r => LCons sep x (items_sep sep r) end.
Definition lst (l : list lsexp) : lsexp :=
  match l with
  | [] => LList LNil []
  | x :: r => LList (LCons [] x (items_sep [32] r)) []
  end.
Definition atom (s : string) : lsexp := LAtom (chars s).
Definition lstr (u : str) : lsexp := LStr [PLit u].
Fixpoint items_app (a b : litems) : litems :=
  match a with LNil => b | LCons ws x r => LCons ws x (items_app r b) end.
