(** Mirror of src/ast.rs (and RunOptions of src/lib.rs). Numbers are unbounded [N]; the ranges
    of the Rust fields (u16/u32/u64) are enforced where the values are produced. *)
From Coq Require Import List NArith Bool.
From FP Require Import Model.Chars.
Import ListNotations.
Local Open Scope N_scope.

Inductive size_unit := UByte | UWord | UBlock | UKilo | UMega | UGiga | UTera.
Inductive size := Size (u : size_unit) (n : N).
Inductive time_unit := USecond | UMinute | UHour | UDay.
Inductive timespec := Time (u : time_unit) (n : N).

Inductive cmp (T : Type) := Gt (v : T) | Lt (v : T) | Eq (v : T).
Arguments Gt {T}. Arguments Lt {T}. Arguments Eq {T}.
Definition cmp_val {T} (c : cmp T) : T := match c with Gt v | Lt v | Eq v => v end.
Definition cmp_map {T U} (f : T -> U) (c : cmp T) : cmp U :=
  match c with Gt v => Gt (f v) | Lt v => Lt (f v) | Eq v => Eq (f v) end.

Inductive filetype := FBlock | FCharacter | FDirectory | FPipe | FFile | FLink | FSocket.

Inductive permkind := PAtLeast | PAny | PEqual.

Inductive fspecial :=
| XAlarm | XBackspace | XClear | XForm | XNewline | XCarriageReturn | XTabHorizontal
| XTabVertical | XNull | XBackslash | XAscii (n : N).

Inductive ffield :=
| FPercent | FAccess | FAccessFormatted (c : N) | FDiskSizeBlocks | FChange | FChangeFormatted (c : N)
| FDepth | FDeviceNumber | FBasename | FFsType | FGroup | FGroupId | FParents | FStartingPoint
| FInodeDecimal | FDiskSizeKilos | FSymbolicTarget | FPermissionsOctal | FPermissionsSymbolic
| FHardlinks | FName | FNameWithoutStartingPoint | FDiskSizeBytes | FSparseness | FModify
| FModifyFormatted (c : N) | FUser | FUserId | FType | FTypeSymlink | FSecurityContext | FFileId
| FProjectId | FMirrorCount | FStripeCount | FStripeSize | FXAttr (s : str).

Inductive felem := ELit (s : str) | EField (f : ffield) | ESpecial (x : fspecial).
Definition format := list felem.

Inductive test :=
| TAccessTime (c : cmp timespec) | TChangeTime (c : cmp timespec) | TEmpty | TExecutable | TFalse
| TGroupId (c : cmp N) | TInodeNumber (c : cmp N) | TInsensitiveName (s : str)
| TInsensitivePath (s : str) | TLinks (c : cmp N) | TMirrorCount (c : cmp N)
| TModifyTime (c : cmp timespec) | TName (s : str) | TPath (s : str) | TPerm (k : permkind) (bits : N)
| TPool (s : str) | TReadable | TSize (c : cmp size) | TStripeCount (c : cmp N) | TTrue
| TType (l : list filetype) | TUserId (c : cmp N) | TWritable | TXattr (s : str)
| TXattrMatch (a b : str)
(* not supported by the target *)
| TAccessNewer (s : str) | TChangeNewer (s : str) | TFsType (s : str) | TGroup (s : str)
| TInsensitiveLinkName (s : str) | TInsensitiveRegex (s : str) | TLinkName (s : str)
| TModifyNewer (s : str) | TNoGroup | TNoUser | TRegex (s : str) | TSamefile (s : str) | TUser (s : str).

Inductive action :=
| AFileList (f : str) | AFilePrint (f : str) | AFilePrintNull (f : str)
| AFilePrintFormatted (f : str) (fmt : format) | AList | APrint | APrintNull
| APrintFormatted (fmt : format) | APrintFid | APrune | AQuit | ADefaultPrint.

Inductive gopt := GDepth | GMaxDepth (n : N) | GMinDepth (n : N) | GThreads (n : N).

Inductive expr :=
| EPrec (e : expr) | ENot (e : expr) | EAnd (a b : expr) | EOr (a b : expr) | EList (a b : expr)
| ETest (t : test) | EAction (a : action) | EGlobal (g : gopt) | EPositional.

Record options := { opt_depth : bool; opt_threads : option N }.
Definition default_options := {| opt_depth := false; opt_threads := None |}.

(** Size / TimeSpec helpers *)
Definition size_mult (u : size_unit) : N :=
  match u with
  | UByte => 1 | UWord => 2 | UBlock => 512 | UKilo => 1024 | UMega => 1048576
  | UGiga => 1073741824 | UTera => 1099511627776
  end.
Definition time_secs (u : time_unit) : N :=
  match u with USecond => 1 | UMinute => 60 | UHour => 3600 | UDay => 86400 end.

Definition two64 : N := 18446744073709551616.
Definition two32 : N := 4294967296.

(** [Size::byte_size]: a u64 multiplication; out of range it panics in a debug build and wraps in
    a release build (C19 only speaks about the in-range case) *)
Inductive profile := Debug | Release.
Definition byte_size (p : profile) (s : size) : option N :=
  match s with Size u n =>
    let x := n * size_mult u in
    if x <? two64 then Some x else match p with Debug => None | Release => Some (x mod two64) end
  end.

(** [Expression::action] and [Expression::complex_frames] *)
Fixpoint has_action (e : expr) : bool :=
  match e with
  | EAction _ => true
  | EPrec a | ENot a => has_action a
  | EAnd a b | EOr a b | EList a b => has_action a || has_action b
  | _ => false
  end.

Definition is_newline_elem (el : felem) : bool :=
  match el with ESpecial XNewline => true | _ => false end.
Definition action_frames (a : action) : bool :=
  match a with
  | APrintNull | AFileList _ | AFilePrint _ | AFilePrintFormatted _ _ | AFilePrintNull _ => true
  | APrintFormatted fmt =>
      match rev fmt with [] => false | el :: _ => negb (is_newline_elem el) end
  | _ => false
  end.
Fixpoint complex_frames (e : expr) : bool :=
  match e with
  | EAction a => action_frames a
  | EPrec a | ENot a => complex_frames a
  | EAnd a b | EOr a b | EList a b => complex_frames a || complex_frames b
  | _ => false
  end.
