(** The tokenizer of find_parser/mod.rs after the repairs: keywords and whole primaries must end
    at a word boundary, the placeholder word is gone, -maxdepth/-mindepth are always refused. *)
From Coq Require Import List String NArith Bool Arith.
From FP Require Import Model.Chars Model.Winnow Model.Ast Model.Args Model.Perm Model.Format.
Import ListNotations.
Local Open Scope N_scope.

Inductive leaf := LTest (t : test) | LAction (a : action) | LGlobal (g : gopt) | LPositional.
Inductive token := KLParen | KRParen | KOr | KAnd | KNot | KComma | KPrim (l : leaf).

(** unary!(id, transform, parser) *)
Definition unary {A B} (id : string) (f : A -> B) (p : sparser A) : sparser B :=
  pmap f (context (label id)
            (preceded (terminated (literal id) word_end)
                      (cut_err (preceded multispace1 (cut_err p))))).
(** binary!(id, transform, lhs, rhs, arguments) *)
Definition binary {A B C} (id : string) (f : A * B -> C) (pl : sparser A) (pr : sparser B)
  (args : string) : sparser C :=
  pmap f (context (label id)
            (preceded (terminated (literal id) word_end)
                      (cut_err (context (expected args)
                                  (preceded multispace1 (separated_pair pl multispace1 pr)))))).

Definition unsupported_u32 : sparser N :=
  context (expected "unsupported_option") (verify parse_u32 (fun _ => false)).

Definition parse_global : sparser gopt :=
  context (label "global_option")
    (alt [ value GDepth (literal "-depth");
           unary "-maxdepth" GMaxDepth unsupported_u32;
           unary "-mindepth" GMinDepth unsupported_u32;
           unary "-threads" GThreads parse_u32 ]).

Definition parse_action : sparser action :=
  context (label "action")
    (alt [ unary "-fls" AFileList parse_string;
           binary "-fprintf" (fun '(f, t) => AFilePrintFormatted f t)
                  (context (expected "filename") parse_string)
                  (context (expected "format_string") parse_format_arg)
                  "filename_and_format";
           unary "-fprint0" AFilePrintNull parse_string;
           unary "-fprint" AFilePrint parse_string;
           value AList (literal "-ls");
           value APrintFid (literal "-print-file-fid");
           unary "-printf" APrintFormatted parse_format_arg;
           value APrintNull (literal "-print0");
           value APrint (literal "-print");
           value APrune (literal "-prune");
           value AQuit (literal "-quit") ]).

Definition parse_test : sparser test :=
  context (label "test")
    (alt [ alt [ unary "-amin" TAccessTime (parse_cmp (parse_time UMinute));
                 unary "-anewer" TAccessNewer parse_string;
                 unary "-atime" TAccessTime (parse_cmp (parse_time UDay));
                 unary "-cmin" TChangeTime (parse_cmp (parse_time UMinute));
                 unary "-cnewer" TChangeNewer parse_string;
                 unary "-ctime" TChangeTime (parse_cmp (parse_time UDay));
                 value TEmpty (literal "-empty");
                 value TExecutable (literal "-executable");
                 value TFalse (literal "-false");
                 unary "-fstype" TFsType parse_string;
                 unary "-gid" TGroupId (parse_cmp parse_u32);
                 unary "-group" TGroup parse_string;
                 unary "-ilname" TInsensitiveLinkName parse_string;
                 unary "-iname" TInsensitiveName parse_string;
                 unary "-inum" TInodeNumber (parse_cmp parse_u32);
                 unary "-ipath" TInsensitivePath parse_string;
                 unary "-iregex" TInsensitiveRegex parse_string;
                 unary "-links" TLinks (parse_cmp parse_u64);
                 unary "-mirror-count" TMirrorCount (parse_cmp parse_u32);
                 unary "-mmin" TModifyTime (parse_cmp (parse_time UMinute));
                 unary "-mnewer" TModifyNewer parse_string ];
           alt [ unary "-mtime" TModifyTime (parse_cmp (parse_time UDay));
                 unary "-name" TName parse_string;
                 value TNoUser (literal "-nouser");
                 value TNoGroup (literal "-nogroup");
                 unary "-path" TPath parse_string;
                 unary "-perm" (fun '(k, b) => TPerm k b) parse_perm_arg;
                 unary "-pool" TPool parse_string;
                 value TReadable (literal "-readable");
                 unary "-regex" TRegex parse_string;
                 unary "-samefile" TSamefile parse_string;
                 unary "-size" TSize (parse_cmp parse_size);
                 unary "-stripe-count" TStripeCount (parse_cmp parse_u32);
                 value TTrue (literal "-true");
                 unary "-type" TType parse_filetypes;
                 unary "-uid" TUserId (parse_cmp parse_u32);
                 unary "-user" TUser parse_string;
                 binary "-xattr-match" (fun '(f, v) => TXattrMatch f v)
                        (context (expected "attribute") parse_string)
                        (context (expected "value") parse_string)
                        "attribute_and_value";
                 unary "-xattr" TXattr parse_string;
                 value TWritable (literal "-writable") ] ]).

Definition blank_or_eof : sparser unit := alt [ value tt multispace1; eof ].

Definition parse_token : sparser token :=
  context (label "syntax")
    (alt [ value KLParen (literal "(");
           value KRParen (literal ")");
           value KNot (literal "!");
           value KComma (literal ",");
           value KOr (terminated (alt [literal "-or"; literal "-o"]) blank_or_eof);
           value KAnd (terminated (alt [literal "-and"; literal "-a"]) blank_or_eof);
           terminated
             (alt [ pmap (fun t => KPrim (LTest t)) parse_test;
                    pmap (fun a => KPrim (LAction a)) parse_action;
                    pmap (fun g => KPrim (LGlobal g)) parse_global ])
             word_end;
           context (expected "invalid_token") fail ]).

(** lex: preceded(multispace0, repeat_till(1.., terminated(token, multispace0), eof)) *)
Definition lex : sparser (list token) :=
  pmap fst (preceded multispace0
              (repeat_till1 slen (terminated parse_token multispace0) eof)).

(** the leading run of options of _parse; after each option an explicit and may be written,
    provided something follows it:
    (multispace0, opt(terminated(alt(("-and", "-a")), (multispace1, peek(any))))) *)
Definition leading_and : sparser (option unit) :=
  opt (terminated (alt [literal "-and"; literal "-a"]) (pair_ multispace1 (peek any))).
Definition leading_options : sparser (list gopt) :=
  preceded multispace0
    (repeat0 slen (terminated (terminated parse_global word_end) (pair_ multispace0 leading_and))).
