(** Characters are Unicode scalar values, represented as [N]; a string is a [list N].
    Everything winnow does in this library is [char]-based, so UTF-8 never appears. *)
From Coq Require Import List String Ascii NArith Bool.
Import ListNotations.
Local Open Scope N_scope.

Definition char := N.
Definition str := list N.

Fixpoint chars (s : string) : str :=
  match s with
  | EmptyString => []
  | String a r => N_of_ascii a :: chars r
  end.

(* ASCII classes exactly as winnow's AsChar for char *)
Definition is_space (c : N) : bool := (c =? 32) || (c =? 9) || (c =? 13) || (c =? 10).
Definition is_digit (c : N) : bool := (48 <=? c) && (c <=? 57).
Definition is_alpha (c : N) : bool := ((65 <=? c) && (c <=? 90)) || ((97 <=? c) && (c <=? 122)).
Definition is_oct (c : N) : bool := (48 <=? c) && (c <=? 55).

Fixpoint mem (c : N) (l : str) : bool :=
  match l with [] => false | d :: r => (c =? d) || mem c r end.
Definition in_str (s : string) (c : N) : bool := mem c (chars s).

Fixpoint str_eqb (a b : str) : bool :=
  match a, b with
  | [], [] => true
  | x :: a', y :: b' => (x =? y) && str_eqb a' b'
  | _, _ => false
  end.

(** value of a digit string in a radix (digits assumed valid) *)
Definition digit_val (c : N) : N := c - 48.
Definition radix_value (radix : N) (ds : str) : N :=
  fold_left (fun acc c => acc * radix + digit_val c) ds 0.
Definition dec_value := radix_value 10.
Definition oct_value := radix_value 8.

(** printing of naturals, as Rust's Display / {:x} / {:o} do: no leading zeros, "0" for zero.
    Fuel: the binary size of the number is more than enough. *)
Definition digit_char (d : N) : N := if d <? 10 then 48 + d else 87 + d.
Fixpoint print_radix_aux (fuel : nat) (radix n : N) (acc : str) : str :=
  match fuel with
  | O => acc
  | S f =>
      if n <? radix then digit_char n :: acc
      else print_radix_aux f radix (n / radix) (digit_char (n mod radix) :: acc)
  end.
Definition print_radix (radix n : N) : str := print_radix_aux (S (N.size_nat n)) radix n [].
Definition print_dec := print_radix 10.
Definition print_hex := print_radix 16.
(** {:02x} *)
Definition print_hex2 (n : N) : str := if n <? 16 then 48 :: print_hex n else print_hex n.

Fixpoint concat_str (l : list str) : str :=
  match l with [] => [] | a :: r => a ++ concat_str r end.
Fixpoint join (sep : str) (l : list str) : str :=
  match l with [] => [] | [a] => a | a :: r => a ++ sep ++ join sep r end.
