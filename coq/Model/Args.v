(** Argument sub-parsers: prelude.rs, size.rs, timespec.rs, filetype.rs and the comparison
    prefix of mod.rs. *)
From Coq Require Import List String NArith Bool Arith.
From FP Require Import Model.Chars Model.Winnow Model.Ast.
Import ListNotations.
Local Open Scope N_scope.

Notation sparser := (@parser str).
Definition slen (i : str) : nat := List.length i.

(** [digit1.try_map(str::parse::<uN>).context(expected("unsigned_integer"))]:
    [str::parse] on a non-empty digit string fails exactly on overflow *)
Definition parse_uint (bound : N) : sparser N :=
  context (expected "unsigned_integer")
    (try_map digit1 (fun ds => let n := dec_value ds in if n <? bound then Some n else None)).
Definition parse_u32 := parse_uint two32.
Definition parse_u64 := parse_uint two64.

(** quote_delimiter() and String::parse *)
Definition bare_char (c : N) : bool :=
  negb ((c =? 32) || (c =? 9) || (c =? 13) || (c =? 10) || (c =? 41)).
Definition quote_delimiter : sparser str :=
  alt [ delimited (literal """") (take_until0 34) (literal """");
        delimited (literal "'") (take_until0 39) (literal "'");
        take_while 1 bare_char ].
Definition parse_string : sparser str := context (expected "string") quote_delimiter.

(** word_end: peek(alt((multispace1, eof, one_of("()!,")))) *)
Definition word_end : sparser unit :=
  peek (alt [ value tt multispace1; eof; value tt (one_of (in_str "()!,")) ]).

(** parse_comp_format *)
Definition parse_cmp {T} (d : sparser T) : sparser (cmp T) :=
  context (label "comparison")
    (alt [ pmap Gt (preceded (literal "+") d);
           pmap Lt (preceded (literal "-") d);
           pmap Eq (cut_err d) ]).

(** Size::parse *)
Definition size_unit_of (c : N) : size_unit :=
  if c =? 98 then UBlock else if c =? 99 then UByte else if c =? 119 then UWord
  else if c =? 107 then UKilo else if c =? 77 then UMega else if c =? 71 then UGiga else UTera.
Definition invalid_spec {A} (what : string) : sparser A := cut_err (context (expected what) fail).
Definition parse_size : sparser size :=
  context (label "size")
    (alt [ pmap (fun '(n, u) => Size (size_unit_of u) n) (pair_ parse_u64 (one_of (in_str "bcwkMGT")));
           and_then (terminated digit1 alpha1) (invalid_spec "invalid_size_specifier");
           pmap (Size UBlock) parse_u64 ]).

(** TimeSpec::parse with its default unit *)
Definition time_unit_of (c : N) : time_unit :=
  if c =? 115 then USecond else if c =? 109 then UMinute else if c =? 104 then UHour else UDay.
Definition parse_time (dflt : time_unit) : sparser timespec :=
  context (label "timespec")
    (alt [ pmap (fun '(n, u) => Time (time_unit_of u) n) (pair_ parse_u64 (one_of (in_str "smhd")));
           and_then (terminated digit1 alpha1) (invalid_spec "invalid_time_specifier");
           pmap (Time dflt) parse_u64 ]).

(** FileType::parse and the comma-separated list *)
Definition filetype_of (c : N) : filetype :=
  if c =? 98 then FBlock else if c =? 99 then FCharacter else if c =? 100 then FDirectory
  else if c =? 112 then FPipe else if c =? 102 then FFile else if c =? 108 then FLink else FSocket.
Definition parse_filetype : sparser filetype :=
  alt [ and_then (take_while 2 is_alpha) (invalid_spec "invalid_type_specifier");
        pmap filetype_of (one_of (in_str "bcdpfls"));
        and_then alpha1 (invalid_spec "invalid_type_specifier") ].
Definition parse_filetypes : sparser (list filetype) :=
  separated1 slen parse_filetype (literal ",").
