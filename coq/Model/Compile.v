(** scheme/mod.rs, scheme/manager.rs and scheme/target_scheme.rs after the repairs. *)
From Coq Require Import List String NArith Bool Arith.
From FP Require Import Model.Chars Model.Ast Model.Sexp.
Import ListNotations.
Local Open Scope N_scope.

Inductive target := TStdout (term : option N) | TFile (f : str) (term : option N).

Definition opt_eqb (a b : option N) : bool :=
  match a, b with Some x, Some y => x =? y | None, None => true | _, _ => false end.
Definition target_eqb (a b : target) : bool :=
  match a, b with
  | TStdout x, TStdout y => opt_eqb x y
  | TFile f x, TFile g y => str_eqb f g && opt_eqb x y
  | _, _ => false
  end.

Inductive errkind := UnsupportedTest | UnsupportedAction | UnsupportedOption | UnsupportedFormat.
Inductive cres (A : Type) :=
| COk (a : A)
| CErr (k : errkind) (construct : string)
| CPanic (site : string).
Arguments COk {A}. Arguments CErr {A}. Arguments CPanic {A}.

(** * Managers *)
Definition ident (kind : string) (n : N) : lsexp := LAtom (chars "%lf3:" ++ chars kind ++ [58] ++ print_dec n).
Definition binding (name value : lsexp) : lsexp := lst [name; value].

Definition is_pattern (s : str) : bool := mem 63 s || mem 42 s || mem 91 s || mem 92 s.
Definition matcher_name (pat : str) (ci : bool) : string :=
  match is_pattern pat, ci with
  | true, true => "fnmatch-ci?" | false, true => "streq-ci?"
  | true, false => "fnmatch?" | false, false => "streq?"
  end.
Definition terminator_escape (t : option N) : lsexp :=
  match t with
  | None => atom "#f"
  | Some c => LAtom (chars "#\x" ++ print_hex2 (c mod 256))
  end.

Record port := { p_port : N; p_mutex : N }.
Definition port_eqb (a b : port) := (p_port a =? p_port b) && (p_mutex a =? p_mutex b).

Record lmgr := {
  l_idx : N;
  l_vars : list lsexp;                       (* in creation order *)
  l_fini : list lsexp;
  l_default : option port;
  l_files : list (str * port);
  l_printers : list ((port * option N) * N);
  l_matches : list ((str * bool) * N) }.
Record dmgr := {
  d_idx : N;
  d_vars : list lsexp;
  d_printers : list (target * N);
  d_matches : list ((str * bool) * N) }.
Inductive mgr := ML (m : lmgr) | MD (m : dmgr).

Definition lmgr_init : lmgr :=
  {| l_idx := 0; l_vars := []; l_fini := []; l_default := None; l_files := [];
     l_printers := []; l_matches := [] |}.

Definition frame_proc : lsexp :=
  lst [atom "lambda"; lst [atom "s"; atom "d"];
       lst [atom "with-mutex"; ident "mutex" 1;
            lst [atom "display"; atom "s"; ident "port" 0];
            lst [atom "display"; lst [atom "string"; atom "#\x1e"; atom "d"]; ident "port" 0]]].
Definition dmgr_init : dmgr :=
  {| d_idx := 2;
     d_vars := [ binding (ident "port" 0) (lst [atom "current-output-port"]);
                 binding (ident "mutex" 1) (lst [atom "make-mutex"]);
                 binding (ident "frame" 2) frame_proc ];
     d_printers := []; d_matches := [] |}.

Fixpoint assoc {K V} (eqb : K -> K -> bool) (k : K) (l : list (K * V)) : option V :=
  match l with
  | [] => None
  | (k', v) :: r => if eqb k k' then Some v else assoc eqb k r
  end.
Definition mkey_eqb (a b : str * bool) : bool := str_eqb (fst a) (fst b) && Bool.eqb (snd a) (snd b).
Definition pkey_eqb (a b : port * option N) : bool := port_eqb (fst a) (fst b) && opt_eqb (snd a) (snd b).

Definition matcher_binding (idx : N) (pat : str) (ci : bool) : lsexp :=
  binding (ident "match" (idx + 1))
    (lst [atom "lambda"; lst [ident "str" idx];
          lst [atom (matcher_name pat ci); lstr pat; ident "str" idx]]).

(** LocalSchemeManager *)
Definition l_init_default_port (m : lmgr) : port * lmgr :=
  match l_default m with
  | Some p => (p, m)
  | None =>
      let p := {| p_port := l_idx m; p_mutex := l_idx m + 1 |} in
      (p, {| l_idx := l_idx m + 2;
             l_vars := l_vars m ++ [ binding (ident "port" (l_idx m)) (lst [atom "current-output-port"]);
                                     binding (ident "mutex" (l_idx m + 1)) (lst [atom "make-mutex"]) ];
             l_fini := l_fini m; l_default := Some p; l_files := l_files m;
             l_printers := l_printers m; l_matches := l_matches m |})
  end.
Definition l_init_file_port (f : str) (m : lmgr) : port * lmgr :=
  match assoc str_eqb f (l_files m) with
  | Some p => (p, m)
  | None =>
      let p := {| p_port := l_idx m; p_mutex := l_idx m + 1 |} in
      (p, {| l_idx := l_idx m + 2;
             l_vars := l_vars m ++ [ binding (ident "port" (l_idx m)) (lst [atom "open-file"; lstr f; lstr (chars "w")]);
                                     binding (ident "mutex" (l_idx m + 1)) (lst [atom "make-mutex"]) ];
             l_fini := l_fini m ++ [lst [atom "close-port"; ident "port" (l_idx m)]];
             l_default := l_default m; l_files := l_files m ++ [(f, p)];
             l_printers := l_printers m; l_matches := l_matches m |})
  end.
Definition l_register_printer (p : port) (term : option N) (m : lmgr) : N * lmgr :=
  match assoc pkey_eqb (p, term) (l_printers m) with
  | Some i => (i, m)
  | None =>
      (l_idx m,
       {| l_idx := l_idx m + 1;
          l_vars := l_vars m ++ [ binding (ident "print" (l_idx m))
                                    (lst [atom "make-printer"; ident "port" (p_port p);
                                          ident "mutex" (p_mutex p); terminator_escape term]) ];
          l_fini := l_fini m; l_default := l_default m; l_files := l_files m;
          l_printers := l_printers m ++ [((p, term), l_idx m)]; l_matches := l_matches m |})
  end.
Definition l_register_match (pat : str) (ci : bool) (m : lmgr) : N * lmgr :=
  match assoc mkey_eqb (pat, ci) (l_matches m) with
  | Some i => (i, m)
  | None =>
      (l_idx m + 1,
       {| l_idx := l_idx m + 2;
          l_vars := l_vars m ++ [matcher_binding (l_idx m) pat ci];
          l_fini := l_fini m; l_default := l_default m; l_files := l_files m;
          l_printers := l_printers m; l_matches := l_matches m ++ [((pat, ci), l_idx m + 1)] |})
  end.

(** DistributedSchemeManager *)
Definition d_register_printer (t : target) (m : dmgr) : N * dmgr :=
  match assoc target_eqb t (d_printers m) with
  | Some i => (i, m)
  | None =>
      (d_idx m,
       {| d_idx := d_idx m + 1;
          d_vars := d_vars m ++ [ binding (ident "print" (d_idx m))
                                    (lst [atom "lambda"; lst [atom "line"];
                                          lst [ident "frame" 2; atom "line";
                                               LAtom (chars "#\x" ++ print_hex2 (d_idx m))]]) ];
          d_printers := d_printers m ++ [(t, d_idx m)]; d_matches := d_matches m |})
  end.
Definition d_register_match (pat : str) (ci : bool) (m : dmgr) : N * dmgr :=
  match assoc mkey_eqb (pat, ci) (d_matches m) with
  | Some i => (i, m)
  | None =>
      (d_idx m + 1,
       {| d_idx := d_idx m + 2;
          d_vars := d_vars m ++ [matcher_binding (d_idx m) pat ci];
          d_printers := d_printers m; d_matches := d_matches m ++ [((pat, ci), d_idx m + 1)] |})
  end.

(** the SchemeManager trait *)
Definition get_printer (term : option N) (m : mgr) : lsexp * mgr :=
  match m with
  | ML l => let (p, l1) := l_init_default_port l in
            let (i, l2) := l_register_printer p term l1 in (ident "print" i, ML l2)
  | MD d => let (i, d1) := d_register_printer (TStdout term) d in (ident "print" i, MD d1)
  end.
Definition get_file_printer (f : str) (term : option N) (m : mgr) : lsexp * mgr :=
  match m with
  | ML l => let (p, l1) := l_init_file_port f l in
            let (i, l2) := l_register_printer p term l1 in (ident "print" i, ML l2)
  | MD d => let (i, d1) := d_register_printer (TFile f term) d in (ident "print" i, MD d1)
  end.
Definition get_matcher (pat : str) (ci : bool) (m : mgr) : lsexp * mgr :=
  match m with
  | ML l => let (i, l1) := l_register_match pat ci l in (ident "match" i, ML l1)
  | MD d => let (i, d1) := d_register_match pat ci d in (ident "match" i, MD d1)
  end.

(** * Code generation (target_scheme.rs) *)
Definition num (n : N) : lsexp := LAtom (print_dec n).
Definition call0 (f : string) : lsexp := lst [atom f].
Definition cmp_op {T} (c : cmp T) : string := match c with Gt _ => ">" | Lt _ => "<" | Eq _ => "=" end.
(** format_cmp!(cmp, target): (op (target) n) *)
Definition cmp_field (c : cmp N) (field : string) : lsexp :=
  lst [atom (cmp_op c); call0 field; num (cmp_val c)].

Definition compile_size (c : cmp size) : lsexp :=
  match cmp_val c with
  | Size u n =>
      let lhs := match u with
                 | UByte => call0 "size"
                 | _ => lst [atom "round-up-power-of-2"; call0 "size"; num (size_mult u)]
                 end in
      lst [atom (cmp_op c); lhs; num (n * size_mult u)]
  end.
Definition compile_time (now : N) (field : string) (c : cmp timespec) : lsexp :=
  match cmp_val c with
  | Time u n =>
      lst [atom (cmp_op c);
           lst [atom "quotient"; lst [atom "-"; num now; call0 field]; num (time_secs u)];
           num n]
  end.

Definition filetype_bits (t : filetype) : N :=
  match t with
  | FDirectory => 16384 | FCharacter => 8192 | FBlock => 24576 | FFile => 32768
  | FPipe => 4096 | FLink => 40960 | FSocket => 49152
  end.
Definition s_ifmt : N := 61440.
Definition type_check (t : filetype) : lsexp :=
  lst [atom "="; lst [atom "logand"; call0 "mode"; num s_ifmt]; num (filetype_bits t)].
Definition compile_types (l : list filetype) : lsexp :=
  match l with
  | [t] => type_check t
  | [] => LList (LCons [] (atom "or") LNil) [32]
  | _ => LList (LCons [] (atom "or") (items_sep [32] (map type_check l))) []
  end.

Definition perm_mask : N := 4095.
Definition compile_perm (k : permkind) (bits : N) : lsexp :=
  let logand m := lst [atom "logand"; call0 "mode"; num m] in
  match k with
  | PEqual => lst [atom "="; logand perm_mask; num bits]
  | PAtLeast => lst [atom "="; logand bits; num bits]
  | PAny => lst [atom "not"; lst [atom "="; logand bits; num 0]]
  end.

(** format strings *)
(** char::from_u32(val as u32).unwrap_or('0'): a surrogate code (0xD800..0xDFFF, constructible through
    the public API only; the parser yields at most 0o777) is no scalar value and becomes '0' *)
Definition scalar_or_zero (v : N) : N := if (55296 <=? v) && (v <=? 57343) then 48 else v.
Definition special_piece (x : fspecial) : cres piece :=
  match x with
  | XAlarm => COk (PEsc 97) | XBackspace => COk (PEsc 98) | XCarriageReturn => COk (PEsc 114)
  | XForm => COk (PEsc 102) | XNewline => COk (PEsc 110) | XNull => COk (PEsc 48)
  | XTabHorizontal => COk (PEsc 116) | XTabVertical => COk (PEsc 118)
  | XBackslash => COk (PLit [92])
  | XAscii v => COk (PLit (double_tilde [scalar_or_zero v]))
  | XClear => CErr UnsupportedFormat "Clear"
  end.

Definition field_unsupported (f : ffield) : option string :=
  match f with
  | FDepth => Some "Depth" | FDeviceNumber => Some "DeviceNumber" | FFsType => Some "FsType"
  | FSymbolicTarget => Some "SymbolicTarget" | FPermissionsSymbolic => Some "PermissionsSymbolic"
  | FTypeSymlink => Some "TypeSymlink" | FSecurityContext => Some "SecurityContext"
  | _ => None
  end%string.
Definition placeholder (f : ffield) : string :=
  match f with
  | FAccess | FBasename | FChange | FFileId | FGroup | FModify | FName | FNameWithoutStartingPoint
  | FParents | FStartingPoint | FType | FUser | FXAttr _ => "~a"
  | FDiskSizeBlocks | FDiskSizeBytes | FDiskSizeKilos | FGroupId | FHardlinks | FInodeDecimal
  | FMirrorCount | FProjectId | FStripeCount | FStripeSize | FUserId => "~d"
  | FPermissionsOctal => "~o"
  | FSparseness => "~f"
  | FPercent => "%"
  | FAccessFormatted c | FChangeFormatted c | FModifyFormatted c => if (c =? 64)%N then "~d" else "~a"
  | _ => ""
  end%string.
Definition strftime (c : N) (field : string) : lsexp :=
  lst [atom "strftime"; LStr [PLit [37; c]]; lst [atom "localtime"; call0 field]].
Definition snippet (f : ffield) : option lsexp :=
  match f with
  | FPercent => None
  | FAccess => Some (call0 "atime") | FChange => Some (call0 "ctime") | FModify => Some (call0 "mtime")
  | FDiskSizeBlocks => Some (call0 "blocks") | FBasename => Some (call0 "name")
  | FGroup => Some (call0 "group") | FGroupId => Some (call0 "gid")
  | FParents => Some (lst [atom "call-with-relative-path"; atom "dirname"])
  | FStartingPoint => Some (call0 "lipe-scan-client-mount-path")
  | FInodeDecimal => Some (call0 "ino")
  | FDiskSizeKilos => Some (lst [atom "quotient"; lst [atom "+"; call0 "blocks"; num 1]; num 2])
  | FPermissionsOctal => Some (lst [atom "logand"; call0 "mode"; atom "#o07777"])
  | FHardlinks => Some (call0 "nlink") | FName => Some (call0 "absolute-path")
  | FNameWithoutStartingPoint => Some (call0 "relative-path") | FDiskSizeBytes => Some (call0 "size")
  | FSparseness => Some (lst [atom "/"; lst [atom "*"; num 512; call0 "blocks"]; call0 "size"])
  | FUser => Some (call0 "user") | FUserId => Some (call0 "uid")
  | FType => Some (lst [atom "type->char"; call0 "type"])
  | FFileId => Some (call0 "file-fid") | FStripeSize => Some (call0 "lov-stripe-size")
  | FStripeCount => Some (call0 "lov-stripe-count") | FMirrorCount => Some (call0 "lov-mirror-count")
  | FProjectId => Some (call0 "projid")
  | FAccessFormatted c => Some (if c =? 64 then call0 "atime" else strftime c "atime")
  | FChangeFormatted c => Some (if c =? 64 then call0 "ctime" else strftime c "ctime")
  | FModifyFormatted c => Some (if c =? 64 then call0 "mtime" else strftime c "mtime")
  | FXAttr a => Some (lst [atom "or"; lst [atom "xattr-ref-string"; lstr a]; LStr []])
  | _ => None
  end.

Definition elem_piece (el : felem) : cres piece :=
  match el with
  | ELit s => COk (PLit (double_tilde s))
  | EField f => match field_unsupported f with
                | Some n => CErr UnsupportedFormat n
                | None => COk (PLit (chars (placeholder f)))
                end
  | ESpecial x => special_piece x
  end.
Fixpoint template (fmt : format) : cres (list piece) :=
  match fmt with
  | [] => COk []
  | el :: r => match elem_piece el with
               | COk p => match template r with COk ps => COk (p :: ps) | CErr k c => CErr k c | CPanic s => CPanic s end
               | CErr k c => CErr k c
               | CPanic s => CPanic s
               end
  end.
Fixpoint format_items (fmt : format) : list lsexp :=
  match fmt with
  | [] => []
  | EField f :: r => match snippet f with Some s => s :: format_items r | None => format_items r end
  | _ :: r => format_items r
  end.
Definition compile_format (fmt : format) : cres lsexp :=
  match template fmt with
  | COk ps =>
      let head := LCons [] (atom "format") (LCons [32] (atom "#f") (LCons [32] (LStr ps) LNil)) in
      match format_items fmt with
      | [] => COk (LList head [32])
      | items => COk (LList (items_app head (items_sep [32] items)) [])
      end
  | CErr k c => CErr k c
  | CPanic s => CPanic s
  end.

Record cstate := { st_mgr : mgr; st_clock : list N }.
Definition tick (s : cstate) : N * cstate :=
  (hd 0 (st_clock s), {| st_mgr := st_mgr s; st_clock := tl (st_clock s) |}).
Definition with_mgr {A} (f : mgr -> A * mgr) (s : cstate) : A * cstate :=
  let (a, m) := f (st_mgr s) in (a, {| st_mgr := m; st_clock := st_clock s |}).

Definition test_unsupported (t : test) : option string :=
  match t with
  | TAccessNewer _ => Some "AccessNewer" | TChangeNewer _ => Some "ChangeNewer"
  | TFsType _ => Some "FsType" | TGroup _ => Some "Group"
  | TInsensitiveLinkName _ => Some "InsensitiveLinkName" | TInsensitiveRegex _ => Some "InsensitiveRegex"
  | TLinkName _ => Some "LinkName" | TModifyNewer _ => Some "ModifyNewer" | TNoGroup => Some "NoGroup"
  | TNoUser => Some "NoUser" | TRegex _ => Some "Regex" | TSamefile _ => Some "Samefile"
  | TUser _ => Some "User"
  | _ => None
  end%string.

Definition xattr_offending (s : str) : bool := mem 42 s || mem 63 s || mem 91 s || mem 39 s.

Definition compile_test (t : test) (s : cstate) : cres (lsexp * cstate) :=
  let pure (x : lsexp) := COk (x, s) in
  let time field c := let (now, s') := tick s in COk (compile_time now field c, s') in
  let matcher caller pat ci :=
    let (m, s') := with_mgr (get_matcher pat ci) s in COk (lst [atom caller; m], s') in
  match t with
  | TAccessTime c => time "atime"%string c
  | TChangeTime c => time "ctime"%string c
  | TModifyTime c => time "mtime"%string c
  | TEmpty => pure (call0 "empty") | TExecutable => pure (call0 "executable")
  | TFalse => pure (atom "#f") | TTrue => pure (atom "#t")
  | TReadable => pure (call0 "readable") | TWritable => pure (call0 "writable")
  | TGroupId c => pure (cmp_field c "gid") | TInodeNumber c => pure (cmp_field c "ino")
  | TLinks c => pure (cmp_field c "nlink") | TMirrorCount c => pure (cmp_field c "lov-mirror-count")
  | TStripeCount c => pure (cmp_field c "lov-stripe-count") | TUserId c => pure (cmp_field c "uid")
  | TInsensitiveName p => matcher "call-with-name"%string p true
  | TInsensitivePath p => matcher "call-with-relative-path"%string p true
  | TName p => matcher "call-with-name"%string p false
  | TPath p => matcher "call-with-relative-path"%string p false
  | TPerm k b => pure (compile_perm k b)
  | TPool p => pure (lst [atom "member"; lstr p; call0 "lov-pools"])
  | TSize c => pure (compile_size c)
  | TType l => pure (compile_types l)
  | TXattr f => pure (lst [atom "xattr?"; lstr f])
  | TXattrMatch f v =>
      if xattr_offending f || xattr_offending v
      then pure (lst [atom "xattr-match?"; lstr f; lstr v])
      else pure (lst [atom "equal?"; lst [atom "xattr-ref-string"; lstr f]; lstr v])
  | _ => match test_unsupported t with
         | Some n => CErr UnsupportedTest n
         | None => CPanic "compile_test"
         end
  end.

Definition compile_action (a : action) (s : cstate) : cres (lsexp * cstate) :=
  let path_printer (g : mgr -> lsexp * mgr) :=
    let (p, s') := with_mgr g s in COk (lst [atom "call-with-relative-path"; p], s') in
  let formatted (g : mgr -> lsexp * mgr) fmt :=
    let (p, s') := with_mgr g s in
    match compile_format fmt with
    | COk f => COk (lst [p; f], s')
    | CErr k c => CErr k c
    | CPanic m => CPanic m
    end in
  match a with
  | ADefaultPrint => COk (call0 "print-relative-path", s)
  | APrint => path_printer (get_printer (Some 10))
  | APrintNull => path_printer (get_printer (Some 0))
  | AFilePrint f => path_printer (get_file_printer f (Some 10))
  | AFilePrintNull f => path_printer (get_file_printer f (Some 0))
  | APrintFormatted fmt => formatted (get_printer None) fmt
  | AFilePrintFormatted f fmt => formatted (get_file_printer f None) fmt
  | APrintFid => let (p, s') := with_mgr (get_printer (Some 10)) s in COk (lst [p; call0 "file-fid"], s')
  | AQuit => COk (lst [atom "lipe-scan-break"; num 0], s)
  | APrune => CErr UnsupportedAction "Prune"
  | AList => CErr UnsupportedAction "List"
  | AFileList _ => CErr UnsupportedAction "FileList"
  end.

Fixpoint compile_expr (e : expr) (s : cstate) : cres (lsexp * cstate) :=
  let bin (op : string) a b :=
    match compile_expr a s with
    | COk (x, s1) =>
        match compile_expr b s1 with
        | COk (y, s2) => COk (lst [atom op; x; y], s2)
        | bad => bad
        end
    | bad => bad
    end in
  match e with
  | ETest t => compile_test t s
  | EAction a => compile_action a s
  | EAnd a b | EList a b => bin "and"%string a b
  | EOr a b => bin "or"%string a b
  | ENot a => match compile_expr a s with
              | COk (x, s1) => COk (lst [atom "not"; x], s1)
              | bad => bad
              end
  | EPrec _ => CPanic "Operator::Precedence: unreachable"
  | EGlobal _ => CPanic "Expression::Global: unreachable"
  | EPositional => CErr UnsupportedOption "XDev"
  end.

(** * compile / CompiledExpression *)
Record compiled := {
  c_framed : bool;
  c_defs : list lsexp;
  c_init : list lsexp;
  c_fini : list lsexp;
  c_body : lsexp;
  c_threads : option N;
  c_iomap : option (list (N * target)) }.

Definition wrap (e : expr) : expr := if has_action e then e else EAnd e (EAction ADefaultPrint).

Definition compile (e : expr) (o : options) (clock : list N) : cres compiled :=
  let framed := complex_frames e in
  let m0 := if framed then MD dmgr_init else ML lmgr_init in
  match compile_expr (wrap e) {| st_mgr := m0; st_clock := clock |} with
  | COk (body, s) =>
      COk match st_mgr s with
          | ML l => {| c_framed := false; c_defs := l_vars l; c_init := []; c_fini := l_fini l;
                       c_body := body; c_threads := opt_threads o; c_iomap := None |}
          | MD d => {| c_framed := true; c_defs := d_vars d; c_init := []; c_fini := [];
                       c_body := body; c_threads := opt_threads o;
                       c_iomap := Some (map (fun '(t, i) => (i, t)) (d_printers d)) |}
          end
  | CErr k c => CErr k c
  | CPanic s => CPanic s
  end.

(** CompiledExpression::scheme: the two top-level forms with their layout *)
Definition nl (n : nat) : str := 10 :: repeat 32 n.
Definition forms_or_true (l : list lsexp) : litems :=
  match l with
  | [] => LCons [32] (atom "#t") LNil
  | _ => items_sep [32] l
  end.
Definition thunk (body : litems) : lsexp :=
  LList (LCons [] (atom "lambda") (LCons [32] (LList LNil []) body)) [].

Definition render (c : compiled) (mdt : str) : lsexp * lsexp :=
  let modules :=
    LList (LCons [] (atom "use-modules")
            (LCons [32] (lst [atom "lipe"])
              (LCons [32] (lst [atom "lipe"; atom "find"])
                 (if c_framed c then LCons [32] (lst [atom "ice-9"; atom "threads"]) LNil else LNil)))) [] in
  let defs :=
    match c_defs c with
    | [] => LList LNil []
    | d :: r => LList (LCons [] d (items_sep (if c_framed c then nl 7 else [32]) r)) []
    end in
  let scan :=
    LList (LCons [] (atom "lipe-scan")
            (LCons (nl 8) (lstr mdt)
              (LCons (nl 8) (lst [atom "lipe-getopt-client-mount-path"])
                (LCons (nl 8) (thunk (LCons [32] (c_body c) LNil))
                  (LCons (nl 8) (lst [atom "lipe-getopt-required-attrs"])
                    (LCons (nl 8) (match c_threads c with
                                   | Some n => num n
                                   | None => lst [atom "lipe-getopt-thread-count"]
                                   end) LNil)))))) [] in
  let wind :=
    LList (LCons [] (atom "dynamic-wind")
            (LCons (nl 4) (thunk (forms_or_true (c_init c)))
              (LCons (nl 4) (thunk (LCons [32] scan LNil))
                (LCons (nl 4) (thunk (forms_or_true (c_fini c))) LNil)))) [] in
  (modules,
   LList (LCons [] (atom "let*") (LCons [32] defs (LCons (nl 2) wind LNil))) []).

Definition scheme_text (c : compiled) (mdt : str) : str :=
  let (a, b) := render c mdt in print a ++ [10; 10] ++ print b.

(** Display of CompileError *)
Definition compile_error_text (k : errkind) (construct : string) : str :=
  chars match k with
        | UnsupportedTest => "Although this expression is valid, LiPE does not support this test: "
        | UnsupportedAction | UnsupportedOption =>
            "Although this expression is valid, LiPE does not support this action: "
        | UnsupportedFormat =>
            "Although this format string is valid, LiPE does not support this formatting: "
        end ++ chars construct.
