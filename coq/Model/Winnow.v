(** The subset of winnow 0.6.7 used by the library, transcribed combinator by combinator.
    A parser maps an input to an outcome and to the position where the cursor is LEFT — also on
    failure: winnow does not rewind on error except where a combinator explicitly resets
    ([alt] before each alternative, [try_map]/[verify]/[and_then] on failure, [repeat] and
    [separated] on the terminating backtrack, [peek] always).  The context stack is the one
    [ContextError] accumulates: [add_context] pushes (we append at the end, so the list is in
    order of addition), [or] keeps the later error. *)
From Coq Require Import List String NArith Bool Arith.
From FP Require Import Model.Chars.
Import ListNotations.

Inductive ctx := Label (s : string) | Expected (s : string).

Inductive out (A : Type) :=
| Ok (a : A)
| Back (c : list ctx)      (* ErrMode::Backtrack *)
| Cut (c : list ctx)       (* ErrMode::Cut *)
| Panic (site : string).   (* a Rust panic (unwrap, unreachable!, debug assertion) *)
Arguments Ok {A}. Arguments Back {A}. Arguments Cut {A}. Arguments Panic {A}.

Section Combinators.
Context {I : Type}.   (* the stream: [str] for the lexer, a token list for the climber *)

Definition parser (A : Type) := I -> out A * I.

Definition pmap {A B} (f : A -> B) (p : parser A) : parser B :=
  fun i => match p i with
           | (Ok a, r) => (Ok (f a), r)
           | (Back c, r) => (Back c, r) | (Cut c, r) => (Cut c, r) | (Panic s, r) => (Panic s, r)
           end.
Definition value {A B} (b : B) (p : parser A) : parser B := pmap (fun _ => b) p.
Definition bind {A B} (p : parser A) (f : A -> parser B) : parser B :=
  fun i => match p i with
           | (Ok a, r) => f a r
           | (Back c, r) => (Back c, r) | (Cut c, r) => (Cut c, r) | (Panic s, r) => (Panic s, r)
           end.
Definition preceded {A B} (p : parser A) (q : parser B) : parser B := bind p (fun _ => q).
Definition terminated {A B} (p : parser A) (q : parser B) : parser A :=
  bind p (fun a => pmap (fun _ => a) q).
Definition pair_ {A B} (p : parser A) (q : parser B) : parser (A * B) :=
  bind p (fun a => pmap (fun b => (a, b)) q).
Definition delimited {A B C} (p : parser A) (q : parser B) (r : parser C) : parser B :=
  preceded p (terminated q r).
Definition separated_pair {A B C} (p : parser A) (s : parser B) (q : parser C) : parser (A * C) :=
  bind p (fun a => preceded s (pmap (fun c => (a, c)) q)).

Definition cut_err {A} (p : parser A) : parser A :=
  fun i => match p i with (Back c, r) => (Cut c, r) | x => x end.
Definition context {A} (c : ctx) (p : parser A) : parser A :=
  fun i => match p i with
           | (Back l, r) => (Back (l ++ [c]), r)
           | (Cut l, r) => (Cut (l ++ [c]), r)
           | x => x
           end.
Definition fail {A} : parser A := fun i => (Back [], i).
(** [peek]: always restore the cursor *)
Definition peek {A} (p : parser A) : parser A := fun i => (fst (p i), i).

(** [opt]: a Backtrack becomes [None] with the cursor restored *)
Definition opt {A} (p : parser A) : parser (option A) :=
  fun i => match p i with
           | (Ok a, r) => (Ok (Some a), r)
           | (Back _, _) => (Ok None, i)
           | (Cut c, r) => (Cut c, r) | (Panic s, r) => (Panic s, r)
           end.

(** [alt]: the input is reset before every alternative; the error of the last alternative tried
    wins ([ContextError::or] returns the later one) and the cursor stays where that last
    alternative left it. A Cut or Panic stops the search. *)
Fixpoint alt {A} (ps : list (parser A)) : parser A :=
  fun i => match ps with
           | [] => (Back [], i)
           | [p] => p i
           | p :: ps' => match p i with (Back _, _) => alt ps' i | x => x end
           end.

(** [try_map] / [verify_map] / [verify]: on a failed conversion the input is reset to the start
    and a Backtrack with an empty context is produced *)
Definition try_map {A B} (p : parser A) (f : A -> option B) : parser B :=
  fun i => match p i with
           | (Ok a, r) => match f a with Some b => (Ok b, r) | None => (Back [], i) end
           | (Back c, r) => (Back c, r) | (Cut c, r) => (Cut c, r) | (Panic s, r) => (Panic s, r)
           end.
Definition verify {A} (p : parser A) (f : A -> bool) : parser A :=
  try_map p (fun a => if f a then Some a else None).

(** [repeat(0.., p)]: stops at the first Backtrack of [p], resetting to before that attempt.
    winnow asserts that each successful iteration consumed input; with fuel = length of the
    input + 1 that assertion and fuel exhaustion coincide, and both are reported as a Panic
    (a debug assertion in debug builds, an [ErrMode::assert] Cut in release builds; neither
    is reachable, see Proofs). [len] measures the stream. *)
Variable len : I -> nat.
Fixpoint repeat_fuel {A} (fuel : nat) (p : parser A) (i : I) : out (list A) * I :=
  match fuel with
  | O => (Panic "repeat: parser did not consume", i)
  | S n =>
      match p i with
      | (Ok a, r) =>
          if Nat.leb (len i) (len r) then (Panic "repeat: parser did not consume", r) else
          match repeat_fuel n p r with (Ok l, r') => (Ok (a :: l), r') | x => x end
      | (Back _, _) => (Ok [], i)
      | (Cut c, r) => (Cut c, r)
      | (Panic s, r) => (Panic s, r)
      end
  end.
Definition repeat0 {A} (p : parser A) : parser (list A) := fun i => repeat_fuel (S (len i)) p i.

(** [repeat_till(0.., f, g)]: try [g] first; on its Backtrack reset and run [f] (whose error is
    final). [repeat_till(1.., f, g)] runs [f] once unconditionally (no consumption check) and
    then behaves like the 0.. form. *)
Fixpoint rtill_fuel {A B} (fuel : nat) (f : parser A) (g : parser B) (i : I)
  : out (list A * B) * I :=
  match fuel with
  | O => (Panic "repeat_till: parser did not consume", i)
  | S n =>
      match g i with
      | (Ok b, r) => (Ok ([], b), r)
      | (Cut c, r) => (Cut c, r)
      | (Panic s, r) => (Panic s, r)
      | (Back _, _) =>
          match f i with
          | (Ok a, r) =>
              if Nat.leb (len i) (len r) then (Panic "repeat_till: parser did not consume", r) else
              match rtill_fuel n f g r with
              | (Ok (l, b), r') => (Ok (a :: l, b), r')
              | (Back c, r') => (Back c, r') | (Cut c, r') => (Cut c, r') | (Panic s, r') => (Panic s, r')
              end
          | (Back c, r) => (Back c, r) | (Cut c, r) => (Cut c, r) | (Panic s, r) => (Panic s, r)
          end
      end
  end.
Definition repeat_till0 {A B} (f : parser A) (g : parser B) : parser (list A * B) :=
  fun i => rtill_fuel (S (len i)) f g i.
Definition repeat_till1 {A B} (f : parser A) (g : parser B) : parser (list A * B) :=
  fun i => match f i with
           | (Ok a, r) =>
               match repeat_till0 f g r with
               | (Ok (l, b), r') => (Ok (a :: l, b), r')
               | (Back c, r') => (Back c, r') | (Cut c, r') => (Cut c, r') | (Panic s, r') => (Panic s, r')
               end
           | (Back c, r) => (Back c, r) | (Cut c, r) => (Cut c, r) | (Panic s, r) => (Panic s, r)
           end.

(** [separated(1.., p, sep)]: first element mandatory; then (sep p)*; a Backtrack of [sep] or of
    [p] after a separator ends the list, resetting to before the separator. *)
Fixpoint sep_fuel {A B} (fuel : nat) (p : parser A) (s : parser B) (i : I) : out (list A) * I :=
  match fuel with
  | O => (Panic "separated: parser did not consume", i)
  | S n =>
      match s i with
      | (Back _, _) => (Ok [], i)
      | (Cut c, r) => (Cut c, r)
      | (Panic m, r) => (Panic m, r)
      | (Ok _, r1) =>
          if Nat.leb (len i) (len r1) then (Panic "separated: separator did not consume", r1) else
          match p r1 with
          | (Back _, _) => (Ok [], i)
          | (Cut c, r) => (Cut c, r)
          | (Panic m, r) => (Panic m, r)
          | (Ok a, r2) =>
              match sep_fuel n p s r2 with (Ok l, r') => (Ok (a :: l), r') | x => x end
          end
      end
  end.
Definition separated1 {A B} (p : parser A) (s : parser B) : parser (list A) :=
  fun i => match p i with
           | (Ok a, r) => match sep_fuel (S (len r)) p s r with (Ok l, r') => (Ok (a :: l), r') | x => x end
           | (Back c, r) => (Back c, r) | (Cut c, r) => (Cut c, r) | (Panic s, r) => (Panic s, r)
           end.
End Combinators.

(** * Primitives on character streams *)
Fixpoint lit_ (k i : str) : option str :=
  match k, i with
  | [], _ => Some i
  | c :: k', d :: i' => if N.eqb c d then lit_ k' i' else None
  | _, [] => None
  end.
Definition literal (s : string) : parser unit :=
  fun i => match lit_ (chars s) i with Some r => (Ok tt, r) | None => (Back [], i) end.

Fixpoint span (p : N -> bool) (i : str) : str * str :=
  match i with
  | c :: r => if p c then let (a, b) := span p r in (c :: a, b) else ([], i)
  | [] => ([], [])
  end.
(** take_while(m.., p) *)
Definition take_while (m : nat) (p : N -> bool) : parser str :=
  fun i => let (a, b) := span p i in if Nat.leb m (List.length a) then (Ok a, b) else (Back [], i).
(** take_while(m..=n, p): at most n characters *)
Fixpoint span_max (n : nat) (p : N -> bool) (i : str) : str * str :=
  match n with
  | O => ([], i)
  | S n' => match i with
            | c :: r => if p c then let (a, b) := span_max n' p r in (c :: a, b) else ([], i)
            | [] => ([], [])
            end
  end.
Definition take_while_mn (m n : nat) (p : N -> bool) : parser str :=
  fun i => let (a, b) := span_max n p i in if Nat.leb m (List.length a) then (Ok a, b) else (Back [], i).
(** take_until(0.., c): everything up to (not including) the first [c]; fails if there is none *)
Fixpoint until_ (c : N) (i : str) : option (str * str) :=
  match i with
  | [] => None
  | d :: r => if N.eqb d c then Some ([], i)
              else match until_ c r with Some (a, b) => Some (d :: a, b) | None => None end
  end.
Definition take_until0 (c : N) : parser str :=
  fun i => match until_ c i with Some (a, b) => (Ok a, b) | None => (Back [], i) end.

Definition multispace0 : parser str := take_while 0 is_space.
Definition multispace1 : parser str := take_while 1 is_space.
Definition digit1 : parser str := take_while 1 is_digit.
Definition alpha1 : parser str := take_while 1 is_alpha.
Definition eof {T} : @parser (list T) unit :=
  fun i => match i with [] => (Ok tt, i) | _ => (Back [], i) end.
Definition any {T} : @parser (list T) T :=
  fun i => match i with c :: r => (Ok c, r) | [] => (Back [], i) end.
Definition one_of {T} (p : T -> bool) : @parser (list T) T :=
  fun i => match i with c :: r => if p c then (Ok c, r) else (Back [], i) | [] => (Back [], i) end.

(** [outer.and_then(inner)]: run [inner] on the slice [outer] returned; what [inner] leaves
    unconsumed is dropped; on an error of [inner] the outer input is reset to the start. *)
Definition and_then {A} (outer : parser str) (inner : @parser str A) : @parser str A :=
  fun i => match outer i with
           | (Ok o, r) =>
               match inner o with
               | (Ok a, _) => (Ok a, r)
               | (Back c, _) => (Back c, i) | (Cut c, _) => (Cut c, i) | (Panic s, _) => (Panic s, i)
               end
           | (Back c, r) => (Back c, r) | (Cut c, r) => (Cut c, r) | (Panic s, r) => (Panic s, r)
           end.

Definition expected (s : string) := Expected s.
Definition label (s : string) := Label s.
