(** Canonical one-line serialisation of observations (the same format the Rust harness prints)
    and the reader of constructed trees. Glue for the correspondence check; no theorem is about it. *)
From Coq Require Import List String NArith Bool Arith.
From FP Require Import Model.Chars Model.Ast.
Import ListNotations.
Local Open Scope string_scope.
Local Open Scope list_scope.
Local Open Scope N_scope.

Definition sp : str := [32].
Definition words (l : list str) : str := join sp l.
Definition w (s : string) : str := chars s.

Definition hex_list (s : str) : list str := map print_hex s.
Definition ser_str (s : str) : str := 83 :: join [46] (hex_list s).

(** printable ASCII except backslash stays; everything else is \x<hex>; *)
Definition esc_char (c : N) : str :=
  if (32 <=? c) && (c <? 127) && negb (c =? 92) then [c]
  else w "\x" ++ print_hex c ++ w ";".
Definition esc (s : str) : str := flat_map esc_char s.

Definition ser_cmp {T} (f : T -> str) (c : cmp T) : str :=
  match c with
  | Gt v => words [w "Gt"; f v] | Lt v => words [w "Lt"; f v] | Eq v => words [w "Eq"; f v]
  end.
Definition time_unit_name (u : time_unit) : string :=
  match u with USecond => "Second" | UMinute => "Minute" | UHour => "Hour" | UDay => "Day" end.
Definition size_unit_name (u : size_unit) : string :=
  match u with
  | UByte => "Byte" | UWord => "Word" | UBlock => "Block" | UKilo => "KiloByte"
  | UMega => "MegaByte" | UGiga => "GigaByte" | UTera => "TeraByte"
  end.
Definition ser_time (t : timespec) : str :=
  match t with Time u n => words [w (time_unit_name u); print_dec n] end.
Definition ser_size (t : size) : str :=
  match t with Size u n => words [w (size_unit_name u); print_dec n] end.
Definition ft_name (t : filetype) : string :=
  match t with
  | FBlock => "Block" | FCharacter => "Character" | FDirectory => "Directory" | FPipe => "Pipe"
  | FFile => "File" | FLink => "Link" | FSocket => "Socket"
  end.
Definition kind_name (k : permkind) : string :=
  match k with PAtLeast => "AtLeast" | PAny => "Any" | PEqual => "Equal" end.

Definition ser_test (t : test) : str :=
  let s1 (n : string) (s : str) := words [w n; ser_str s] in
  match t with
  | TAccessTime c => words [w "AccessTime"; ser_cmp ser_time c]
  | TChangeTime c => words [w "ChangeTime"; ser_cmp ser_time c]
  | TModifyTime c => words [w "ModifyTime"; ser_cmp ser_time c]
  | TEmpty => w "Empty" | TExecutable => w "Executable" | TFalse => w "False"
  | TGroupId c => words [w "GroupId"; ser_cmp print_dec c]
  | TInodeNumber c => words [w "InodeNumber"; ser_cmp print_dec c]
  | TInsensitiveName s => s1 "InsensitiveName" s
  | TInsensitivePath s => s1 "InsensitivePath" s
  | TLinks c => words [w "Links"; ser_cmp print_dec c]
  | TMirrorCount c => words [w "MirrorCount"; ser_cmp print_dec c]
  | TName s => s1 "Name" s
  | TPath s => s1 "Path" s
  | TPerm k b => words [w "Perm"; w (kind_name k); print_dec b]
  | TPool s => s1 "Pool" s
  | TReadable => w "Readable"
  | TSize c => words [w "Size"; ser_cmp ser_size c]
  | TStripeCount c => words [w "StripeCount"; ser_cmp print_dec c]
  | TTrue => w "True"
  | TType l => words (w "Type" :: print_dec (N.of_nat (List.length l)) :: map (fun t => w (ft_name t)) l)
  | TUserId c => words [w "UserId"; ser_cmp print_dec c]
  | TWritable => w "Writable"
  | TXattr s => s1 "Xattr" s
  | TXattrMatch a b => words [w "XattrMatch"; ser_str a; ser_str b]
  | TAccessNewer s => s1 "AccessNewer" s
  | TChangeNewer s => s1 "ChangeNewer" s
  | TFsType s => s1 "FsType" s
  | TGroup s => s1 "Group" s
  | TInsensitiveLinkName s => s1 "InsensitiveLinkName" s
  | TInsensitiveRegex s => s1 "InsensitiveRegex" s
  | TLinkName s => s1 "LinkName" s
  | TModifyNewer s => s1 "ModifyNewer" s
  | TNoGroup => w "NoGroup" | TNoUser => w "NoUser"
  | TRegex s => s1 "Regex" s
  | TSamefile s => s1 "Samefile" s
  | TUser s => s1 "User" s
  end.

Definition field_name (f : ffield) : string :=
  match f with
  | FPercent => "Percent" | FAccess => "Access" | FAccessFormatted _ => "AccessFormatted"
  | FDiskSizeBlocks => "DiskSizeBlocks" | FChange => "Change" | FChangeFormatted _ => "ChangeFormatted"
  | FDepth => "Depth" | FDeviceNumber => "DeviceNumber" | FBasename => "Basename" | FFsType => "FsType"
  | FGroup => "Group" | FGroupId => "GroupId" | FParents => "Parents" | FStartingPoint => "StartingPoint"
  | FInodeDecimal => "InodeDecimal" | FDiskSizeKilos => "DiskSizeKilos"
  | FSymbolicTarget => "SymbolicTarget" | FPermissionsOctal => "PermissionsOctal"
  | FPermissionsSymbolic => "PermissionsSymbolic" | FHardlinks => "Hardlinks" | FName => "Name"
  | FNameWithoutStartingPoint => "NameWithoutStartingPoint" | FDiskSizeBytes => "DiskSizeBytes"
  | FSparseness => "Sparseness" | FModify => "Modify" | FModifyFormatted _ => "ModifyFormatted"
  | FUser => "User" | FUserId => "UserId" | FType => "Type" | FTypeSymlink => "TypeSymlink"
  | FSecurityContext => "SecurityContext" | FFileId => "FileId" | FProjectId => "ProjectId"
  | FMirrorCount => "MirrorCount" | FStripeCount => "StripeCount" | FStripeSize => "StripeSize"
  | FXAttr _ => "XAttr"
  end.
Definition ser_field (f : ffield) : str :=
  match f with
  | FAccessFormatted c | FChangeFormatted c | FModifyFormatted c => words [w (field_name f); print_hex c]
  | FXAttr s => words [w "XAttr"; ser_str s]
  | _ => w (field_name f)
  end.
Definition special_name (x : fspecial) : string :=
  match x with
  | XAlarm => "Alarm" | XBackspace => "Backspace" | XClear => "Clear" | XForm => "Form"
  | XNewline => "Newline" | XCarriageReturn => "CarriageReturn" | XTabHorizontal => "TabHorizontal"
  | XTabVertical => "TabVertical" | XNull => "Null" | XBackslash => "Backslash" | XAscii _ => "Ascii"
  end.
Definition ser_special (x : fspecial) : str :=
  match x with XAscii n => words [w "Ascii"; print_dec n] | _ => w (special_name x) end.
Definition ser_elem (e : felem) : str :=
  match e with
  | ELit s => words [w "L"; ser_str s]
  | EField f => words [w "F"; ser_field f]
  | ESpecial x => words [w "X"; ser_special x]
  end.
Definition ser_fmt (l : format) : str :=
  words (print_dec (N.of_nat (List.length l)) :: map ser_elem l).

Definition ser_action (a : action) : str :=
  match a with
  | AFileList s => words [w "FileList"; ser_str s]
  | AFilePrint s => words [w "FilePrint"; ser_str s]
  | AFilePrintNull s => words [w "FilePrintNull"; ser_str s]
  | AFilePrintFormatted s f => words [w "FilePrintFormatted"; ser_str s; ser_fmt f]
  | AList => w "List" | APrint => w "Print" | APrintNull => w "PrintNull"
  | APrintFormatted f => words [w "PrintFormatted"; ser_fmt f]
  | APrintFid => w "PrintFid" | APrune => w "Prune" | AQuit => w "Quit"
  | ADefaultPrint => w "DefaultPrint"
  end.
Definition ser_global (g : gopt) : str :=
  match g with
  | GDepth => w "Depth"
  | GMaxDepth n => words [w "MaxDepth"; print_dec n]
  | GMinDepth n => words [w "MinDepth"; print_dec n]
  | GThreads n => words [w "Threads"; print_dec n]
  end.
Fixpoint ser_expr (e : expr) : str :=
  match e with
  | EPrec a => words [w "Prec"; ser_expr a]
  | ENot a => words [w "Not"; ser_expr a]
  | EAnd a b => words [w "And"; ser_expr a; ser_expr b]
  | EOr a b => words [w "Or"; ser_expr a; ser_expr b]
  | EList a b => words [w "List"; ser_expr a; ser_expr b]
  | ETest t => words [w "T"; ser_test t]
  | EAction a => words [w "A"; ser_action a]
  | EGlobal g => words [w "G"; ser_global g]
  | EPositional => w "P XDev"
  end.

Definition ser_options (o : options) : str :=
  words [ (if opt_depth o then w "1" else w "0");
          match opt_threads o with Some n => print_dec n | None => w "-" end ].

(** * Reader of constructed trees (prefix notation, fixed arities) *)
Fixpoint split_on (c : N) (s : str) (cur : str) : list str :=
  match s with
  | [] => [rev_append cur []]
  | d :: r => if d =? c then rev_append cur [] :: split_on c r [] else split_on c r (d :: cur)
  end.
Definition tokens_of (s : str) : list str := split_on 32 s [].

Definition hexdigit (c : N) : N := if c <? 58 then c - 48 else c - 87.
Definition hex_value (s : str) : N := fold_left (fun acc c => acc * 16 + hexdigit c) s 0.
Definition de_str (t : str) : str :=
  match t with
  | _ :: [] => []
  | _ :: r => map hex_value (split_on 46 r [])
  | [] => []
  end.
Definition tok_is (t : str) (s : string) : bool := str_eqb t (chars s).

Definition de_cmp {T} (f : list str -> option (T * list str)) (ts : list str) : option (cmp T * list str) :=
  match ts with
  | k :: r =>
      match f r with
      | Some (v, r') =>
          if tok_is k "Gt" then Some (Gt v, r') else if tok_is k "Lt" then Some (Lt v, r')
          else if tok_is k "Eq" then Some (Eq v, r') else None
      | None => None
      end
  | [] => None
  end.
Definition de_num (ts : list str) : option (N * list str) :=
  match ts with n :: r => Some (dec_value n, r) | [] => None end.
Definition de_time (ts : list str) : option (timespec * list str) :=
  match ts with
  | u :: n :: r =>
      let v := dec_value n in
      if tok_is u "Second" then Some (Time USecond v, r) else if tok_is u "Minute" then Some (Time UMinute v, r)
      else if tok_is u "Hour" then Some (Time UHour v, r) else if tok_is u "Day" then Some (Time UDay v, r) else None
  | _ => None
  end.
Definition size_unit_of_name (u : str) : option size_unit :=
  if tok_is u "Byte" then Some UByte else if tok_is u "Word" then Some UWord
  else if tok_is u "Block" then Some UBlock else if tok_is u "KiloByte" then Some UKilo
  else if tok_is u "MegaByte" then Some UMega else if tok_is u "GigaByte" then Some UGiga
  else if tok_is u "TeraByte" then Some UTera else None.
Definition de_size (ts : list str) : option (size * list str) :=
  match ts with
  | u :: n :: r => match size_unit_of_name u with Some su => Some (Size su (dec_value n), r) | None => None end
  | _ => None
  end.
Definition de_ft (t : str) : option filetype :=
  if tok_is t "Block" then Some FBlock else if tok_is t "Character" then Some FCharacter
  else if tok_is t "Directory" then Some FDirectory else if tok_is t "Pipe" then Some FPipe
  else if tok_is t "File" then Some FFile else if tok_is t "Link" then Some FLink
  else if tok_is t "Socket" then Some FSocket else None.
Fixpoint de_fts (n : nat) (ts : list str) : option (list filetype * list str) :=
  match n with
  | O => Some ([], ts)
  | S n' => match ts with
            | t :: r => match de_ft t, de_fts n' r with
                        | Some f, Some (l, r') => Some (f :: l, r')
                        | _, _ => None
                        end
            | [] => None
            end
  end.
Definition de_s1 {T} (f : str -> T) (ts : list str) : option (T * list str) :=
  match ts with s :: r => Some (f (de_str s), r) | [] => None end.
Definition omap {A B} (f : A -> B) (o : option (A * list str)) : option (B * list str) :=
  match o with Some (a, r) => Some (f a, r) | None => None end.

Definition de_test (ts : list str) : option (test * list str) :=
  match ts with
  | [] => None
  | k :: r =>
      if tok_is k "AccessTime" then omap TAccessTime (de_cmp de_time r)
      else if tok_is k "ChangeTime" then omap TChangeTime (de_cmp de_time r)
      else if tok_is k "ModifyTime" then omap TModifyTime (de_cmp de_time r)
      else if tok_is k "Empty" then Some (TEmpty, r)
      else if tok_is k "Executable" then Some (TExecutable, r)
      else if tok_is k "False" then Some (TFalse, r)
      else if tok_is k "GroupId" then omap TGroupId (de_cmp de_num r)
      else if tok_is k "InodeNumber" then omap TInodeNumber (de_cmp de_num r)
      else if tok_is k "InsensitiveName" then de_s1 TInsensitiveName r
      else if tok_is k "InsensitivePath" then de_s1 TInsensitivePath r
      else if tok_is k "Links" then omap TLinks (de_cmp de_num r)
      else if tok_is k "MirrorCount" then omap TMirrorCount (de_cmp de_num r)
      else if tok_is k "Name" then de_s1 TName r
      else if tok_is k "Path" then de_s1 TPath r
      else if tok_is k "Perm" then
        match r with
        | kd :: b :: r' =>
            let bits := N.land (dec_value b) 4294967295 in
            if tok_is kd "AtLeast" then Some (TPerm PAtLeast bits, r')
            else if tok_is kd "Any" then Some (TPerm PAny bits, r')
            else if tok_is kd "Equal" then Some (TPerm PEqual bits, r') else None
        | _ => None
        end
      else if tok_is k "Pool" then de_s1 TPool r
      else if tok_is k "Readable" then Some (TReadable, r)
      else if tok_is k "Size" then omap TSize (de_cmp de_size r)
      else if tok_is k "StripeCount" then omap TStripeCount (de_cmp de_num r)
      else if tok_is k "True" then Some (TTrue, r)
      else if tok_is k "Type" then
        match r with n :: r' => omap TType (de_fts (N.to_nat (dec_value n)) r') | [] => None end
      else if tok_is k "UserId" then omap TUserId (de_cmp de_num r)
      else if tok_is k "Writable" then Some (TWritable, r)
      else if tok_is k "Xattr" then de_s1 TXattr r
      else if tok_is k "XattrMatch" then
        match r with a :: b :: r' => Some (TXattrMatch (de_str a) (de_str b), r') | _ => None end
      else if tok_is k "AccessNewer" then de_s1 TAccessNewer r
      else if tok_is k "ChangeNewer" then de_s1 TChangeNewer r
      else if tok_is k "FsType" then de_s1 TFsType r
      else if tok_is k "Group" then de_s1 TGroup r
      else if tok_is k "InsensitiveLinkName" then de_s1 TInsensitiveLinkName r
      else if tok_is k "InsensitiveRegex" then de_s1 TInsensitiveRegex r
      else if tok_is k "LinkName" then de_s1 TLinkName r
      else if tok_is k "ModifyNewer" then de_s1 TModifyNewer r
      else if tok_is k "NoGroup" then Some (TNoGroup, r)
      else if tok_is k "NoUser" then Some (TNoUser, r)
      else if tok_is k "Regex" then de_s1 TRegex r
      else if tok_is k "Samefile" then de_s1 TSamefile r
      else if tok_is k "User" then de_s1 TUser r
      else None
  end.

Definition simple_fields : list ffield :=
  [FPercent; FAccess; FDiskSizeBlocks; FChange; FDepth; FDeviceNumber; FBasename; FFsType; FGroup;
   FGroupId; FParents; FStartingPoint; FInodeDecimal; FDiskSizeKilos; FSymbolicTarget;
   FPermissionsOctal; FPermissionsSymbolic; FHardlinks; FName; FNameWithoutStartingPoint;
   FDiskSizeBytes; FSparseness; FModify; FUser; FUserId; FType; FTypeSymlink; FSecurityContext;
   FFileId; FProjectId; FMirrorCount; FStripeCount; FStripeSize].
Definition de_field (ts : list str) : option (ffield * list str) :=
  match ts with
  | [] => None
  | k :: r =>
      if tok_is k "AccessFormatted" then match r with c :: r' => Some (FAccessFormatted (hex_value c), r') | [] => None end
      else if tok_is k "ChangeFormatted" then match r with c :: r' => Some (FChangeFormatted (hex_value c), r') | [] => None end
      else if tok_is k "ModifyFormatted" then match r with c :: r' => Some (FModifyFormatted (hex_value c), r') | [] => None end
      else if tok_is k "XAttr" then de_s1 FXAttr r
      else match find (fun f => tok_is k (field_name f)) simple_fields with
           | Some f => Some (f, r)
           | None => None
           end
  end.
Definition simple_specials : list fspecial :=
  [XAlarm; XBackspace; XClear; XForm; XNewline; XCarriageReturn; XTabHorizontal; XTabVertical; XNull; XBackslash].
Definition de_special (ts : list str) : option (fspecial * list str) :=
  match ts with
  | [] => None
  | k :: r =>
      if tok_is k "Ascii" then match r with n :: r' => Some (XAscii (dec_value n), r') | [] => None end
      else match find (fun f => tok_is k (special_name f)) simple_specials with
           | Some f => Some (f, r)
           | None => None
           end
  end.
Definition de_elem (ts : list str) : option (felem * list str) :=
  match ts with
  | [] => None
  | k :: r =>
      if tok_is k "L" then de_s1 ELit r
      else if tok_is k "F" then omap EField (de_field r)
      else if tok_is k "X" then omap ESpecial (de_special r)
      else None
  end.
Fixpoint de_elems (n : nat) (ts : list str) : option (format * list str) :=
  match n with
  | O => Some ([], ts)
  | S n' => match de_elem ts with
            | Some (e, r) => match de_elems n' r with Some (l, r') => Some (e :: l, r') | None => None end
            | None => None
            end
  end.
Definition de_fmt (ts : list str) : option (format * list str) :=
  match ts with n :: r => de_elems (N.to_nat (dec_value n)) r | [] => None end.

Definition de_action (ts : list str) : option (action * list str) :=
  match ts with
  | [] => None
  | k :: r =>
      if tok_is k "FileList" then de_s1 AFileList r
      else if tok_is k "FilePrint" then de_s1 AFilePrint r
      else if tok_is k "FilePrintNull" then de_s1 AFilePrintNull r
      else if tok_is k "FilePrintFormatted" then
        match r with s :: r' => omap (AFilePrintFormatted (de_str s)) (de_fmt r') | [] => None end
      else if tok_is k "List" then Some (AList, r)
      else if tok_is k "Print" then Some (APrint, r)
      else if tok_is k "PrintNull" then Some (APrintNull, r)
      else if tok_is k "PrintFormatted" then omap APrintFormatted (de_fmt r)
      else if tok_is k "PrintFid" then Some (APrintFid, r)
      else if tok_is k "Prune" then Some (APrune, r)
      else if tok_is k "Quit" then Some (AQuit, r)
      else if tok_is k "DefaultPrint" then Some (ADefaultPrint, r)
      else None
  end.
Definition de_global (ts : list str) : option (gopt * list str) :=
  match ts with
  | [] => None
  | k :: r =>
      if tok_is k "Depth" then Some (GDepth, r)
      else if tok_is k "MaxDepth" then omap GMaxDepth (de_num r)
      else if tok_is k "MinDepth" then omap GMinDepth (de_num r)
      else if tok_is k "Threads" then omap GThreads (de_num r)
      else None
  end.
Fixpoint de_expr (fuel : nat) (ts : list str) : option (expr * list str) :=
  match fuel with
  | O => None
  | S f =>
      match ts with
      | [] => None
      | k :: r =>
          let bin (c : expr -> expr -> expr) :=
            match de_expr f r with
            | Some (a, r1) => match de_expr f r1 with Some (b, r2) => Some (c a b, r2) | None => None end
            | None => None
            end in
          if tok_is k "And" then bin EAnd
          else if tok_is k "Or" then bin EOr
          else if tok_is k "List" then bin EList
          else if tok_is k "Not" then omap ENot (de_expr f r)
          else if tok_is k "Prec" then omap EPrec (de_expr f r)
          else if tok_is k "T" then omap ETest (de_test r)
          else if tok_is k "A" then omap EAction (de_action r)
          else if tok_is k "G" then omap EGlobal (de_global r)
          else if tok_is k "P" then match r with _ :: r' => Some (EPositional, r') | [] => None end
          else None
      end
  end.
Definition read_expr (ts : list str) : option expr :=
  match de_expr (S (List.length ts)) ts with Some (e, []) => Some e | _ => None end.
