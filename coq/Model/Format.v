(** format.rs after the repairs (octal escapes take exactly three digits, \f is recognised) *)
From Coq Require Import List String NArith Bool Arith.
From FP Require Import Model.Chars Model.Winnow Model.Ast Model.Args.
Import ListNotations.
Local Open Scope N_scope.

Definition parse_special : sparser fspecial :=
  alt [ preceded (literal "\")
          (alt [ pmap (fun oct => XAscii (oct_value oct)) (take_while_mn 3 3 is_oct);
                 value XNull (literal "0");
                 value XBackslash (literal "\");
                 value XAlarm (literal "a");
                 value XBackspace (literal "b");
                 value XClear (literal "c");
                 value XForm (literal "f");
                 value XNewline (literal "n");
                 value XCarriageReturn (literal "r");
                 value XTabHorizontal (literal "t");
                 value XTabVertical (literal "v") ]);
        value XBackslash (literal "\") ].

Definition parse_field : sparser ffield :=
  preceded (literal "%")
    (alt [ alt [ value FPercent (literal "%");
                 value FAccess (literal "a");
                 value FDiskSizeBlocks (literal "b");
                 value FChange (literal "c");
                 value FDepth (literal "d");
                 value FDeviceNumber (literal "D");
                 value FBasename (literal "f");
                 value FFsType (literal "F");
                 value FGroup (literal "g");
                 value FGroupId (literal "G");
                 value FParents (literal "h");
                 value FStartingPoint (literal "H");
                 value FInodeDecimal (literal "i");
                 value FDiskSizeKilos (literal "k");
                 value FSymbolicTarget (literal "l");
                 value FPermissionsOctal (literal "m");
                 value FPermissionsSymbolic (literal "M");
                 value FHardlinks (literal "n");
                 value FName (literal "p");
                 value FNameWithoutStartingPoint (literal "P");
                 value FDiskSizeBytes (literal "s") ];
           alt [ value FSparseness (literal "S");
                 value FModify (literal "t");
                 value FUser (literal "u");
                 value FUserId (literal "U");
                 value FType (literal "y");
                 value FTypeSymlink (literal "Y");
                 value FSecurityContext (literal "Z");
                 value FFileId (literal "{fid}");
                 value FProjectId (literal "{projid}");
                 value FMirrorCount (literal "{mirror-count}");
                 value FStripeCount (literal "{stripe-count}");
                 value FStripeSize (literal "{stripe-size}");
                 pmap FAccessFormatted (preceded (literal "A") any);
                 pmap FChangeFormatted (preceded (literal "C") any);
                 pmap FModifyFormatted (preceded (literal "T") any);
                 pmap FXAttr (delimited (literal "{xattr:") alpha1 (literal "}")) ];
           cut_err (context (expected "invalid_format_specifier") fail) ]).

Definition parse_element : sparser felem :=
  alt [ pmap EField parse_field; pmap ESpecial parse_special ].

(** (repeat(0.., repeat_till(0.., any, element).map(..)).fold(..), repeat(0.., any)).map(..) *)
Definition parse_format : sparser format :=
  context (expected "format_string")
    (bind (repeat0 slen
             (pmap (fun '(lit, el) => match lit with [] => [el] | _ => [ELit lit; el] end)
                   (repeat_till0 slen any parse_element)))
          (fun chunks =>
             pmap (fun suffix => match suffix with
                                 | [] => List.concat chunks
                                 | _ => List.concat chunks ++ [ELit suffix]
                                 end)
                  (repeat0 slen any))).

(** the argument of -printf / second argument of -fprintf *)
Definition parse_format_arg : sparser format := and_then quote_delimiter parse_format.
