(** C16 — interleaving semantics of scanner threads writing records to shared ports.
    Definitions only; the proofs are in Proofs/Mutex.v.
    Mutexes, ports and thread indices are natural numbers. *)
From Coq Require Import List Arith Relations Permutation.
From FP Require Import Model.Chars.
Import ListNotations.

(** * Atomic steps, threads, states *)
Inductive astep := Lock (m : nat) | Unlock (m : nat) | Write (p : nat) (cs : str).
Definition thread := list astep.

Record state := mkState {
  thr : list thread;               (* remaining steps of every thread *)
  owner : nat -> option nat;       (* mutex -> index of the thread holding it *)
  out : nat -> str                 (* port -> everything written to it so far *)
}.

Definition upd {A} (f : nat -> A) (k : nat) (v : A) : nat -> A :=
  fun x => if Nat.eqb x k then v else f x.

Fixpoint set_nth {A} (i : nat) (x : A) (l : list A) : list A :=
  match l, i with
  | [], _ => []
  | _ :: r, O => x :: r
  | y :: r, S j => y :: set_nth j x r
  end.

(** thread [i] takes its next step: a [Write] always, an [Unlock m] if it owns [m], a [Lock m]
    if [m] is free *)
Inductive step : state -> state -> Prop :=
| step_lock st i m rest :
    nth_error (thr st) i = Some (Lock m :: rest) -> owner st m = None ->
    step st (mkState (set_nth i rest (thr st)) (upd (owner st) m (Some i)) (out st))
| step_unlock st i m rest :
    nth_error (thr st) i = Some (Unlock m :: rest) -> owner st m = Some i ->
    step st (mkState (set_nth i rest (thr st)) (upd (owner st) m None) (out st))
| step_write st i p cs rest :
    nth_error (thr st) i = Some (Write p cs :: rest) ->
    step st (mkState (set_nth i rest (thr st)) (owner st) (upd (out st) p (out st p ++ cs))).

(** a schedule is any finite sequence of steps *)
Definition steps : state -> state -> Prop := clos_refl_trans state step.
Definition final (st : state) : Prop := Forall (fun t => t = []) (thr st).
(** number of atomic steps still to be taken *)
Definition remaining (st : state) : nat := length (concat (thr st)).

(** * Programs: calls per thread *)
Inductive call :=
| Crit (m p : nat) (ws : list str)   (* printer call: the successive writes of ONE record *)
| Atomic (p : nat) (cs : str).       (* one whole record in a single write *)

Definition call_steps (c : call) : thread :=
  match c with
  | Crit m p ws => Lock m :: map (Write p) ws ++ [Unlock m]
  | Atomic p cs => [Write p cs]
  end.
Definition call_port (c : call) : nat := match c with Crit _ p _ => p | Atomic p _ => p end.
Definition call_record (c : call) : str :=
  match c with Crit _ _ ws => concat ws | Atomic _ cs => cs end.

Definition flatten (cs : list call) : thread := flat_map call_steps cs.

Definition init (prog : list (list call)) : state :=
  mkState (map flatten prog) (fun _ => None) (fun _ => []).

(** locking discipline: a port is either guarded by one mutex that every printer on it takes,
    or unguarded and only ever written a whole record at a time *)
Definition call_ok (guard : nat -> option nat) (c : call) : Prop :=
  match c with
  | Crit m p _ => guard p = Some m
  | Atomic p _ => guard p = None
  end.
Definition disciplined (guard : nat -> option nat) (cs : list call) : Prop :=
  Forall (call_ok guard) cs.

(** the calls / records addressed to port [p], in list order *)
Definition calls_on (p : nat) (cs : list call) : list call :=
  filter (fun c => Nat.eqb (call_port c) p) cs.
Definition records_on (p : nat) (cs : list call) : list str := map call_record (calls_on p cs).

(** * Being inside a critical section *)
(** thread [i] is inside the call [Crit m p (wd ++ wl)] of its program, having done the writes
    [wd] and with [wl] still to do *)
Definition in_section (prog : list (list call)) (st : state) (i m p : nat) (wd wl : list str)
  : Prop :=
  exists pre todo,
    nth_error prog i = Some (pre ++ Crit m p (wd ++ wl) :: todo)
    /\ nth_error (thr st) i = Some (map (Write p) wl ++ Unlock m :: flatten todo).

(** [partial] is what the thread currently holding the guard of [p] (if any) has written to [p]
    in its unfinished section; empty if [p] is unguarded, the guard is free, or its holder is
    in a section on another port *)
Definition partial_on (guard : nat -> option nat) (prog : list (list call)) (st : state)
    (p : nat) (partial : str) : Prop :=
  match guard p with
  | None => partial = []
  | Some m =>
      match owner st m with
      | None => partial = []
      | Some i => exists p' wd wl, in_section prog st i m p' wd wl
                    /\ partial = if Nat.eqb p' p then concat wd else []
      end
  end.
