(** C11 — scoping of generated names in an emitted program, as a checker over the ERASED binding
    list of the [let*] and the erased policy body.  Definitions only; nothing here mentions the
    compiler.  The program is  (let* (b1 ... bn) ... body ...)  with [let*] semantics: the value
    of binding k sees the names of bindings 1..k-1. *)
From Coq Require Import List String NArith Bool.
From FP Require Import Model.Chars Model.Sexp.
Import ListNotations.
Local Open Scope N_scope.

Fixpoint is_prefix (p s : str) : bool :=
  match p, s with
  | [], _ => true
  | x :: p', y :: s' => (x =? y) && is_prefix p' s'
  | _ :: _, [] => false
  end.
(** a generated name: an atom starting with "%lf3:" *)
Definition is_gen (a : str) : bool := is_prefix (chars "%lf3:") a.

Fixpoint in_strs (a : str) (l : list str) : bool :=
  match l with [] => false | b :: r => str_eqb a b || in_strs a r end.
Fixpoint nodup_strs (l : list str) : bool :=
  match l with [] => true | a :: r => negb (in_strs a r) && nodup_strs r end.

Definition atoms_of (l : list sexp) : list str :=
  flat_map (fun x => match x with SAtom a => [a] | _ => [] end) l.
(** the parameters of a form (lambda (p1 ... pk) body ...), given the elements of the form *)
Definition lambda_head (l : list sexp) : option (list str) :=
  match l with
  | SAtom h :: SList ps :: _ => if str_eqb h (chars "lambda") then Some (atoms_of ps) else None
  | _ => None
  end.

(** every generated name occurring in [x] is in [env] or is a parameter of an enclosing lambda
    of [x] *)
Fixpoint uses_ok (env : list str) (x : sexp) : bool :=
  match x with
  | SAtom a => negb (is_gen a) || in_strs a env
  | SStr _ => true
  | SList l =>
      let env' := match lambda_head l with Some ps => ps ++ env | None => env end in
      forallb (uses_ok env') l
  end.

(** all lambda parameters occurring anywhere in [x] *)
Fixpoint lambda_params (x : sexp) : list str :=
  match x with
  | SList l => match lambda_head l with Some ps => ps | None => [] end ++ flat_map lambda_params l
  | _ => []
  end.

(** a binding has the shape (name value) *)
Definition binding_parts (b : sexp) : option (str * sexp) :=
  match b with SList [SAtom n; v] => Some (n, v) | _ => None end.
Fixpoint split_bindings (bs : list sexp) : option (list (str * sexp)) :=
  match bs with
  | [] => Some []
  | b :: r => match binding_parts b, split_bindings r with
              | Some p, Some ps => Some (p :: ps)
              | _, _ => None
              end
  end.

(** each value uses only names bound EARLIER (or its own lambda parameters) *)
Fixpoint scoped_from (earlier : list str) (bs : list (str * sexp)) : bool :=
  match bs with
  | [] => true
  | (n, v) :: r => uses_ok earlier v && scoped_from (earlier ++ [n]) r
  end.

(** lambda parameters that are generated names are not bound by any binding: no reference to a
    binding can be captured *)
Definition fresh_params (names : list str) (x : sexp) : bool :=
  forallb (fun p => negb (is_gen p) || negb (in_strs p names)) (lambda_params x).

Definition well_scoped (defs : list sexp) (body : sexp) : bool :=
  match split_bindings defs with
  | None => false
  | Some bs =>
      let names := map fst bs in
      forallb is_gen names              (* every binding binds a generated name *)
      && nodup_strs names               (* bound exactly once *)
      && scoped_from [] bs              (* before use *)
      && forallb (fresh_params names) (body :: map snd bs)   (* never captured *)
      && uses_ok names body             (* every use in the body is bound *)
  end.
