(** Meaning of the [let*] prelude of an emitted policy: each binding is read by its shape and adds
    one named object to the environment (Spec/SchemeSem.v); a binding of any other shape has no
    meaning.  Then the meaning of a compiled policy on one file.  Definitions only. *)
From Coq Require Import List String NArith Bool.
From FP Require Import Model.Chars Model.Sexp Model.Compile Spec.FileRecord Spec.SchemeSem.
Import ListNotations.
Local Open Scope N_scope.

(** character syntax #\xHH.. (lower-case hexadecimal) *)
Definition is_hex (c : N) : bool := ((48 <=? c) && (c <=? 57)) || ((97 <=? c) && (c <=? 102)).
Definition hex_digit (c : N) : N := if c <=? 57 then c - 48 else c - 87.
Definition hex_value (ds : str) : N := fold_left (fun acc c => acc * 16 + hex_digit c) ds 0.
Definition char_literal (a : str) : option N :=
  match a with
  | 35 :: 92 :: 120 :: ds => if all is_hex ds then Some (hex_value ds) else None
  | _ => None
  end.
(** a terminator argument: #f or a character *)
Definition term_literal (a : str) : option (option N) :=
  if is "#f" a then Some None else option_map Some (char_literal a).

Definition matcher_kind (g : str) : option (bool * bool) :=   (* glob?, case-insensitive? *)
  if is "fnmatch?" g then Some (true, false) else if is "fnmatch-ci?" g then Some (true, true)
  else if is "streq?" g then Some (false, false) else if is "streq-ci?" g then Some (false, true)
  else None.

Definition target_of (d : dest) (term : option N) : target :=
  match d with DStdout => TStdout term | DFile p => TFile p term end.

(** [io]: the io-map of the distributed mode, frame tag |-> target, absent in the local mode *)
Definition sem_lambda (io : option (list (N * target))) (e : env) (params : list sexp) (body : sexp)
  : option entry :=
  match params, body with
  | [SAtom s], SList [SAtom g; SStr pat; SAtom s'] =>
      (* (lambda (s) (fnmatch? "pat" s)) *)
      if str_eqb s s'
      then match matcher_kind g with Some (glob, ci) => Some (EMatcher glob ci pat) | None => None end
      else None
  | [SAtom s], SList [SAtom fr; SAtom s'; SAtom tag] =>
      (* (lambda (line) (FRAME line #\xNN)): the consumer routes tag NN by the io-map *)
      if str_eqb s s'
      then match lookup e fr, char_literal tag, io with
           | Some EFrame, Some n, Some m => option_map EPrinter (assoc N.eqb n m)
           | _, _, _ => None
           end
      else None
  | [SAtom s; SAtom d],
    SList [SAtom wm; SAtom mx;
           SList [SAtom d1; SAtom s1; SAtom p1];
           SList [SAtom d2; SList [SAtom st; SAtom rs; SAtom d']; SAtom p2]] =>
      (* (lambda (s d) (with-mutex M (display s P) (display (string #\x1e d) P))), P standard output *)
      if is "with-mutex" wm && is "display" d1 && is "display" d2 && is "string" st
         && is "#\x1e" rs && str_eqb s s1 && str_eqb d d' && str_eqb p1 p2
      then match lookup e mx, lookup e p1 with
           | Some EMutex, Some (EPort DStdout) => Some EFrame
           | _, _ => None
           end
      else None
  | _, _ => None
  end.

Definition sem_bound (io : option (list (N * target))) (e : env) (v : sexp) : option entry :=
  match v with
  | SList [SAtom g] =>
      if is "current-output-port" g then Some (EPort DStdout)
      else if is "make-mutex" g then Some EMutex else None
  | SList [SAtom g; SStr p; SStr m] =>
      if is "open-file" g && is "w" m then Some (EPort (DFile p)) else None
  | SList [SAtom g; SAtom port; SAtom mutex; SAtom term] =>
      if is "make-printer" g
      then match lookup e port, lookup e mutex, term_literal term with
           | Some (EPort d), Some EMutex, Some t => Some (EPrinter (target_of d t))
           | _, _, _ => None
           end
      else None
  | SList [SAtom g; SList params; body] =>
      if is "lambda" g then sem_lambda io e params body else None
  | _ => None
  end.

Definition sem_binding (io : option (list (N * target))) (e : env) (b : sexp) : option (str * entry) :=
  match b with
  | SList [SAtom name; v] => option_map (pair name) (sem_bound io e v)
  | _ => None
  end.

(** [let*]: in order, later bindings see (and would shadow) earlier ones *)
Fixpoint sem_defs (io : option (list (N * target))) (e : env) (defs : list sexp) : option env :=
  match defs with
  | [] => Some e
  | b :: r => match sem_binding io e b with
              | Some ne => sem_defs io (ne :: e) r
              | None => None
              end
  end.

(** the meaning of a compiled policy on a file: the body under the prelude's environment *)
Definition sem_policy (h : host) (c : compiled) (f : file) : option result :=
  match sem_defs (c_iomap c) [] (map erase (c_defs c)) with
  | Some e => sem_bool h e (erase (c_body c)) f
  | None => None
  end.

(** the same, starting from the emitted TEXT: the second top-level form is
    (let* (binding ...) (dynamic-wind INIT (lambda () (lipe-scan DEV MOUNT (lambda () BODY) ...)) FINI));
    the prelude is the binding list and the policy is BODY, called by the scan on every file *)
Definition program_policy (p : sexp) : option (list sexp * sexp) :=
  match p with
  | SList [SAtom l; SList defs;
           SList [SAtom w; _;
                  SList [SAtom lam; SList [];
                         SList (SAtom scan :: _ :: _ :: SList [SAtom lam'; SList []; body] :: _)];
                  _]] =>
      if is "let*" l && is "dynamic-wind" w && is "lambda" lam && is "lipe-scan" scan && is "lambda" lam'
      then Some (defs, body) else None
  | _ => None
  end.

Definition sem_forms (h : host) (io : option (list (N * target))) (forms : list sexp) (f : file)
  : option result :=
  match forms with
  | [_; p] =>
      match program_policy p with
      | Some (defs, body) =>
          match sem_defs io [] defs with
          | Some e => sem_bool h e body f
          | None => None
          end
      | None => None
      end
  | _ => None
  end.
