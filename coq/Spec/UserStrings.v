(** C04w — where the strings and the atoms of a WHOLE emitted program may come from.
    Definitions only.  [strings_of]/[atoms_of] collect every string node / atom node of a read
    result; [direct_strings], [literal_strings], [selectors], [formats] say what an expression
    tree carries; [string_origin] and [atom_shape] are the two classifications the theorems of
    Properties/C04w.v establish for every node of every program. *)
From Coq Require Import List String NArith Bool.
From FP Require Import Model.Chars Model.Ast Model.Sexp Model.Compile Spec.GuileFormat.
Import ListNotations.
Local Open Scope N_scope.

(** * Every node of a read result *)
Fixpoint strings_of (x : sexp) : list str :=
  match x with
  | SAtom _ => []
  | SStr s => [s]
  | SList l => flat_map strings_of l
  end.
Fixpoint atoms_of (x : sexp) : list str :=
  match x with
  | SAtom a => [a]
  | SStr _ => []
  | SList l => flat_map atoms_of l
  end.

(** * What the tree carries *)

(** every string argument of a test (supported by the target or not) *)
Definition test_strings (t : test) : list str :=
  match t with
  | TName s | TInsensitiveName s | TPath s | TInsensitivePath s | TPool s | TXattr s
  | TAccessNewer s | TChangeNewer s | TFsType s | TGroup s | TInsensitiveLinkName s
  | TInsensitiveRegex s | TLinkName s | TModifyNewer s | TRegex s | TSamefile s | TUser s => [s]
  | TXattrMatch a b => [a; b]
  | _ => []
  end.
(** the output file of an action *)
Definition action_files (a : action) : list str :=
  match a with
  | AFileList f | AFilePrint f | AFilePrintNull f | AFilePrintFormatted f _ => [f]
  | _ => []
  end.
Definition action_formats (a : action) : list format :=
  match a with
  | APrintFormatted fmt | AFilePrintFormatted _ fmt => [fmt]
  | _ => []
  end.
(** per format element: the attribute name of %{xattr:NAME}, the literal text, the selector
    character of %Ac / %Cc / %Tc *)
Definition elem_names (el : felem) : list str :=
  match el with EField (FXAttr a) => [a] | _ => [] end.
Definition elem_literals (el : felem) : list str :=
  match el with ELit s => [s] | _ => [] end.
Definition elem_selectors (el : felem) : list N :=
  match el with
  | EField (FAccessFormatted c) | EField (FChangeFormatted c) | EField (FModifyFormatted c) => [c]
  | _ => []
  end.

Fixpoint formats (e : expr) : list format :=
  match e with
  | EAction a => action_formats a
  | EPrec a | ENot a => formats a
  | EAnd a b | EOr a b | EList a b => formats a ++ formats b
  | _ => []
  end.
(** strings that are emitted as a string literal of their own: patterns, pool, attribute names
    and values, output files *)
Fixpoint tree_strings (e : expr) : list str :=
  match e with
  | ETest t => test_strings t
  | EAction a => action_files a
  | EPrec a | ENot a => tree_strings a
  | EAnd a b | EOr a b | EList a b => tree_strings a ++ tree_strings b
  | _ => []
  end.
Definition direct_strings (e : expr) : list str :=
  tree_strings e ++ flat_map (flat_map elem_names) (formats e).
(** literal text of the formats: emitted only inside a template *)
Definition literal_strings (e : expr) : list str := flat_map (flat_map elem_literals) (formats e).
Definition selectors (e : expr) : list N := flat_map (flat_map elem_selectors) (formats e).

(** every string carried by the tree *)
Definition user_strings (e : expr) : list str := direct_strings e ++ literal_strings e.

(** * Format templates *)

(** the characters an escape of a format stands for ([XClear] is not supported by the target) *)
Definition special_text (x : fspecial) : str :=
  match x with
  | XAlarm => [7] | XBackspace => [8] | XForm => [12] | XNewline => [10] | XCarriageReturn => [13]
  | XTabHorizontal => [9] | XTabVertical => [11] | XNull => [0] | XBackslash => [92]
  | XAscii v => double_tilde [scalar_or_zero v]   (* a surrogate code is printed as '0' *)
  | XClear => []
  end.
(** what one element contributes to the (decoded) template: literal text with its tildes
    doubled, the fixed directive of a field, the character of an escape *)
Definition elem_text (el : felem) : str :=
  match el with
  | ELit t => double_tilde t
  | EField f => chars (placeholder f)
  | ESpecial x => special_text x
  end.
Definition template_text (fmt : format) : str := flat_map elem_text fmt.
(** the directives [placeholder] ranges over *)
Definition directive_texts : list string := ["~a"; "~d"; "~o"; "~f"; "%"; ""]%string.

(** * Where a string node may come from *)

(** strings that do not depend on the input: the mode of open-file and the empty default of
    %{xattr:..} *)
Definition fixed_strings : list str := [chars "w"; []].

Definition string_origin (e : expr) (mdt v : str) : Prop :=
  In v (direct_strings e ++ [mdt])
  \/ In v fixed_strings
  \/ (exists c, In c (selectors e) /\ v = [37; c])
  \/ (exists fmt, In fmt (formats e) /\ v = template_text fmt).

(** * What an atom may be *)

Definition fixed_symbols : list string :=
  [ "use-modules"; "lipe"; "find"; "ice-9"; "threads"; "let*"; "dynamic-wind"; "lambda";
    "lipe-scan"; "lipe-getopt-client-mount-path"; "lipe-getopt-required-attrs";
    "lipe-getopt-thread-count"; "#t"; "#f";
    "s"; "d"; "line"; "with-mutex"; "display"; "string"; "#\x1e";
    "current-output-port"; "make-mutex"; "open-file"; "close-port"; "make-printer";
    "fnmatch-ci?"; "streq-ci?"; "fnmatch?"; "streq?";
    "and"; "or"; "not"; ">"; "<"; "="; "-"; "+"; "/"; "*";
    "quotient"; "logand"; "round-up-power-of-2"; "#o07777";
    "size"; "mode"; "atime"; "ctime"; "mtime"; "blocks"; "name"; "group"; "gid"; "uid"; "user";
    "ino"; "nlink"; "type"; "type->char"; "file-fid"; "projid"; "dirname";
    "absolute-path"; "relative-path"; "lipe-scan-client-mount-path";
    "lov-stripe-size"; "lov-stripe-count"; "lov-mirror-count"; "lov-pools";
    "empty"; "executable"; "readable"; "writable";
    "call-with-name"; "call-with-relative-path"; "print-relative-path"; "lipe-scan-break";
    "member"; "xattr?"; "xattr-match?"; "equal?"; "xattr-ref-string";
    "format"; "strftime"; "localtime" ]%string.
Definition ident_kinds : list string := ["port"; "mutex"; "frame"; "print"; "match"; "str"]%string.

(** the text of a generated identifier: %lf3:KIND:N *)
Definition ident_text (kind : string) (n : N) : str :=
  chars "%lf3:" ++ chars kind ++ chars ":" ++ print_dec n.
(** the text of a character literal given by its code in hexadecimal (two digits at least) *)
Definition charlit_text (n : N) : str := chars "#\x" ++ print_hex2 n.

Inductive atom_shape (a : str) : Prop :=
| AtomFixed : In a (map chars fixed_symbols) -> atom_shape a
| AtomIdent : forall kind n, In kind ident_kinds -> a = ident_text kind n -> atom_shape a
| AtomNumber : forall n, a = print_dec n -> atom_shape a
| AtomChar : forall n, a = charlit_text n -> atom_shape a.

(** * What Guile's format sees in a template (Spec/GuileFormat.v) *)

(** the tokens one element stands for: literal text and escapes are copied characters, a field
    is the directive of its placeholder *)
Definition elem_tokens (el : felem) : list ftok :=
  match el with
  | ELit t => map FChar t
  | EField f => match format_tokens (chars (placeholder f)) with Some l => l | None => [] end
  | ESpecial (XAscii v) => [FChar (scalar_or_zero v)]
  | ESpecial x => map FChar (special_text x)
  end.
