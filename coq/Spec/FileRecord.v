(** What a policy can observe of one file, and the host primitives whose behaviour is not
    modelled.  Definitions only.  Nothing here refers to the compiler. *)
From Coq Require Import List NArith Bool.
From FP Require Import Model.Chars.
Import ListNotations.
Local Open Scope N_scope.

(** one file as the scan presents it; times are seconds since the epoch *)
Record file := {
  f_size : N; f_mode : N; f_uid : N; f_gid : N; f_ino : N; f_nlink : N;
  f_atime : N; f_ctime : N; f_mtime : N; f_blocks : N; f_projid : N;
  f_stripe_count : N; f_stripe_size : N; f_mirror_count : N;
  f_name : str; f_relative_path : str; f_absolute_path : str; f_fid : str;
  f_user : str; f_group : str; f_mount_path : str;
  f_pools : list str;
  f_xattrs : list (str * str);
  (* answered by the host from the file and the calling process; opaque here *)
  f_empty : bool; f_executable : bool; f_readable : bool; f_writable : bool }.

(** host primitives, uninterpreted.  (The design note gave [xattr_match : str -> str -> bool];
    the primitive also sees the attributes of the file, so they are passed as well.) *)
Record host := {
  fnmatch : bool -> str -> str -> bool;      (* case-insensitive?  pattern  text *)
  streq_ci : str -> str -> bool;             (* case-insensitive string equality *)
  xattr_match : list (str * str) -> str -> str -> bool;  (* attributes, name pattern, value pattern *)
  strftime_text : N -> N -> str;             (* conversion character, time *)
  dirname : str -> str;
  type_char : N -> str;                      (* mode *)
  ratio_text : N -> N -> str;                (* numerator, denominator (non-zero) *)
  ctime_text : N -> str }.                   (* time in ctime(3) layout *)

(** a glob pattern with none of the characters ? * [ \ *)
Definition plain_pattern (p : str) : bool :=
  negb (mem 63 p || mem 42 p || mem 91 p || mem 92 p).

(** the ONE law assumed of the host: such a pattern matches exactly the equal string, and, case
    insensitively, exactly the strings equal to it up to case *)
Definition host_law (h : host) : Prop :=
  forall p s, plain_pattern p = true ->
    fnmatch h false p s = str_eqb p s /\ fnmatch h true p s = streq_ci h p s.

(** value of an extended attribute, if present (first entry wins) *)
Fixpoint xattr_ref (a : str) (l : list (str * str)) : option str :=
  match l with
  | [] => None
  | (k, v) :: r => if str_eqb a k then Some v else xattr_ref a r
  end.

(** where output goes, and one write: destination, payload, terminator character if any *)
Inductive dest := DStdout | DFile (path : str).
Definition output : Type := dest * str * option N.

(** truth value, writes in order, stop-the-scan requested *)
Definition result : Type := bool * list output * bool.
