(** Vocabulary of C13r: the two option words the parser always refuses, and the two
    explanations a refusal can carry. Definitions only. *)
From Coq Require Import String.
Local Open Scope string_scope.

Definition refused_word (K : string) : Prop := K = "-maxdepth" \/ K = "-mindepth".

Definition not_supported : option string := Some "This option is not supported by LiPE".
Definition not_a_number : option string := Some "Expected an unsigned integer".
