(** C03u — STRICT twins of the model parsers whose Rust originals contain [unreachable!()] /
    [unwrap()] arms.  Where the model substitutes a default value, the strict twin returns
    [None] from the conversion, and [pmap_strict] turns that into a [Panic] outcome.
    Definitions only; the proofs that the twins equal the model parsers (so that the arm is
    dead) are in Proofs/DefaultsUnreachable.v. *)
From Coq Require Import List String NArith Bool Arith.
From FP Require Import Model.Chars Model.Winnow Model.Ast Model.Args Model.Perm Model.Format
  Model.Lex Model.Prec.
Import ListNotations.
Local Open Scope N_scope.

(** * A map whose conversion may hit an unreachable arm *)
Definition pmap_strict {I A B} (site : string) (f : A -> option B) (p : @parser I A)
  : @parser I B :=
  fun i => match p i with
           | (Ok a, r) => match f a with Some b => (Ok b, r) | None => (Panic site, r) end
           | (Back c, r) => (Back c, r) | (Cut c, r) => (Cut c, r) | (Panic s, r) => (Panic s, r)
           end.

(** * Site 1: size.rs — the unit letter *)
Definition size_unit_strict (c : N) : option size_unit :=
  if c =? 98 then Some UBlock else if c =? 99 then Some UByte else if c =? 119 then Some UWord
  else if c =? 107 then Some UKilo else if c =? 77 then Some UMega else if c =? 71 then Some UGiga
  else if c =? 84 then Some UTera else None.

Definition parse_size_strict : sparser size :=
  context (label "size")
    (alt [ pmap_strict "size.rs: unreachable!()"
             (fun '(n, u) => match size_unit_strict u with
                             | Some su => Some (Size su n) | None => None end)
             (pair_ parse_u64 (one_of (in_str "bcwkMGT")));
           and_then (terminated digit1 alpha1) (invalid_spec "invalid_size_specifier");
           pmap (Size UBlock) parse_u64 ]).

(** * Site 2: timespec.rs — the unit letter *)
Definition time_unit_strict (c : N) : option time_unit :=
  if c =? 115 then Some USecond else if c =? 109 then Some UMinute
  else if c =? 104 then Some UHour else if c =? 100 then Some UDay else None.

Definition parse_time_strict (dflt : time_unit) : sparser timespec :=
  context (label "timespec")
    (alt [ pmap_strict "timespec.rs: unreachable!()"
             (fun '(n, u) => match time_unit_strict u with
                             | Some tu => Some (Time tu n) | None => None end)
             (pair_ parse_u64 (one_of (in_str "smhd")));
           and_then (terminated digit1 alpha1) (invalid_spec "invalid_time_specifier");
           pmap (Time dflt) parse_u64 ]).

(** * Site 3: filetype.rs — the type letter *)
Definition filetype_strict (c : N) : option filetype :=
  if c =? 98 then Some FBlock else if c =? 99 then Some FCharacter
  else if c =? 100 then Some FDirectory else if c =? 112 then Some FPipe
  else if c =? 102 then Some FFile else if c =? 108 then Some FLink
  else if c =? 115 then Some FSocket else None.

Definition parse_filetype_strict : sparser filetype :=
  alt [ and_then (take_while 2 is_alpha) (invalid_spec "invalid_type_specifier");
        pmap_strict "filetype.rs: unreachable!()" filetype_strict (one_of (in_str "bcdpfls"));
        and_then alpha1 (invalid_spec "invalid_type_specifier") ].
Definition parse_filetypes_strict : sparser (list filetype) :=
  separated1 slen parse_filetype_strict (literal ",").

(** * Sites 4 and 5: permission.rs — [Permission::value], the [unwrap()] of
    [from_symbolic_str] (None on the empty string) and the operator match *)
Definition sym_value_strict (c : N) : option N :=
  if c =? 117 then Some 448 else if c =? 103 then Some 56 else if c =? 111 then Some 7
  else if c =? 97 then Some 511 else if c =? 114 then Some 292 else if c =? 119 then Some 146
  else if c =? 120 then Some 73 else None.

Definition or_strict (acc : option N) (c : N) : option N :=
  match acc, sym_value_strict c with Some a, Some v => Some (N.lor a v) | _, _ => None end.
Definition from_symbolic_strict (s : str) : option N :=
  match s with [] => None | _ => fold_left or_strict s (Some 0) end.

Definition partial_strict (target : str) (op : N) (level : str) : option partial :=
  match from_symbolic_strict target, from_symbolic_strict level with
  | Some t, Some l =>
      if op =? 61 then Some (PSet t l)
      else if op =? 43 then Some (PAdd (N.land t l))
      else if op =? 45 then Some (PDel (N.land t (N.ldiff all_bits l)))
      else None
  | _, _ => None
  end.

Definition parse_partial_strict : sparser partial :=
  bind (take_while 1 (in_str "ugoa")) (fun target =>
  bind (cut_err (context (expected "symbolic_permission_symbol") (one_of (in_str "+=-")))) (fun op =>
  pmap_strict "permission.rs: unreachable!() / unwrap()" (partial_strict target op)
       (cut_err (context (expected "symbolic_permission_level") (take_while 1 (in_str "rwx")))))).

Definition parse_permission_strict : sparser N :=
  context (label "permission")
    (alt [ try_map (try_map (take_while 3 is_oct)
                      (fun oct => let n := oct_value oct in if n <? two32 then Some n else None))
                   (fun bits => if bits <=? all_bits then Some bits else None);
           pmap (fun v => fold_left (fun acc e => partial_update e acc) v 0)
                (separated1 slen parse_partial_strict (literal ","));
           context (expected "invalid_permission_format") fail ]).

(** * Site 6: format.rs — [u16::from_str_radix(oct, 8).unwrap()]: [None] on the empty string, on
    a character that is not an octal digit, and on overflow of the result type *)
Definition digit_strict (radix c : N) : option N :=
  if (48 <=? c) && (c <? 48 + radix) then Some (c - 48) else None.
Definition radix_step_strict (radix bound : N) (acc : option N) (c : N) : option N :=
  match acc, digit_strict radix c with
  | Some a, Some d => if a * radix + d <? bound then Some (a * radix + d) else None
  | _, _ => None
  end.
Definition from_str_radix_strict (radix bound : N) (ds : str) : option N :=
  match ds with [] => None | _ => fold_left (radix_step_strict radix bound) ds (Some 0) end.
Definition oct_u16_strict : str -> option N := from_str_radix_strict 8 65536.

Definition special_rest : list (sparser fspecial) :=
  [ value XNull (literal "0");
    value XBackslash (literal "\");
    value XAlarm (literal "a");
    value XBackspace (literal "b");
    value XClear (literal "c");
    value XForm (literal "f");
    value XNewline (literal "n");
    value XCarriageReturn (literal "r");
    value XTabHorizontal (literal "t");
    value XTabVertical (literal "v") ].

Definition parse_special_strict : sparser fspecial :=
  alt [ preceded (literal "\")
          (alt (pmap_strict "format.rs: from_str_radix(..).unwrap()"
                  (fun oct => match oct_u16_strict oct with
                              | Some n => Some (XAscii n) | None => None end)
                  (take_while_mn 3 3 is_oct) :: special_rest));
        value XBackslash (literal "\") ].

(** * Site 7: precedence.rs — [out.first().unwrap()] and the leaf match of [atom] *)
Definition is_primary (t : token) : bool := match t with KPrim _ => true | _ => false end.
Definition prim_expr_strict (t : token) : option expr :=
  match t with
  | KPrim (LTest v) => Some (ETest v)
  | KPrim (LAction v) => Some (EAction v)
  | KPrim (LGlobal v) => Some (EGlobal v)
  | KPrim LPositional => Some EPositional
  | _ => None
  end.

(** [repeat_till(1.., list, eof)] with the list of results kept, as the Rust code has it *)
Fixpoint rt_collect (f : list token -> pres) (k : nat) (ts : list token) : option (list expr) :=
  match ts with
  | [] => Some []
  | _ => match k with
         | O => None
         | S k => match f ts with
                  | POk e r => match rt_collect f k r with Some l => Some (e :: l) | None => None end
                  | _ => None
                  end
         end
  end.
Definition prec_collect (ts : list token) : option (list expr) :=
  let f := list_ (atom (S (List.length ts))) in
  match f ts with
  | POk e r => match rt_collect f (List.length r) r with Some l => Some (e :: l) | None => None end
  | _ => None
  end.
(** outer [None]: the parser failed; inner [None]: [first()] was [None], i.e. the [unwrap()]
    panicked *)
Definition prec_parser_strict (ts : list token) : option (option expr) :=
  match prec_collect ts with Some l => Some (hd_error l) | None => None end.

