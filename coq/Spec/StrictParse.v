(** C03v -- STRICT twins of every parser that USES one of the argument parsers of
    Spec/StrictArms.v, up to [parse] itself.  Each definition is the text of the model's
    definition (Model/Perm.v, Model/Format.v, Model/Lex.v, Model/Parse.v) with the argument
    parser replaced by its strict twin, in which the Rust [unreachable!()] / [unwrap()] arm is a
    [Panic] outcome.  Definitions only; proofs are in Proofs/StrictParse.v. *)
From Coq Require Import List String NArith Bool Arith.
From FP Require Import Model.Chars Model.Winnow Model.Ast Model.Args Model.Perm Model.Format
  Model.Lex Model.Prec Model.Parse Spec.StrictArms.
Import ListNotations.
Local Open Scope N_scope.

(** * permission.rs: PermCheck::parse and the argument of -perm *)
Definition parse_permcheck_strict : sparser (permkind * N) :=
  context (label "permission_comparison")
    (alt [ pmap (fun b => (PAny, b)) (preceded (literal "/") (cut_err parse_permission_strict));
           pmap (fun b => (PAtLeast, b)) (preceded (literal "-") (cut_err parse_permission_strict));
           pmap (fun b => (PEqual, b)) (cut_err parse_permission_strict) ]).
Definition parse_perm_arg_strict : sparser (permkind * N) :=
  and_then quote_delimiter
    (terminated parse_permcheck_strict (context (expected "invalid_permission_format") eof)).

(** * format.rs: elements, the format string and the argument of -printf / -fprintf *)
Definition parse_element_strict : sparser felem :=
  alt [ pmap EField parse_field; pmap ESpecial parse_special_strict ].
Definition parse_format_strict : sparser format :=
  context (expected "format_string")
    (bind (repeat0 slen
             (pmap (fun '(lit, el) => match lit with [] => [el] | _ => [ELit lit; el] end)
                   (repeat_till0 slen any parse_element_strict)))
          (fun chunks =>
             pmap (fun suffix => match suffix with
                                 | [] => List.concat chunks
                                 | _ => List.concat chunks ++ [ELit suffix]
                                 end)
                  (repeat0 slen any))).
Definition parse_format_arg_strict : sparser format := and_then quote_delimiter parse_format_strict.

(** * mod.rs: the action and test tables, the tokenizer *)
Definition parse_action_strict : sparser action :=
  context (label "action")
    (alt [ unary "-fls" AFileList parse_string;
           binary "-fprintf" (fun '(f, t) => AFilePrintFormatted f t)
                  (context (expected "filename") parse_string)
                  (context (expected "format_string") parse_format_arg_strict)
                  "filename_and_format";
           unary "-fprint0" AFilePrintNull parse_string;
           unary "-fprint" AFilePrint parse_string;
           value AList (literal "-ls");
           value APrintFid (literal "-print-file-fid");
           unary "-printf" APrintFormatted parse_format_arg_strict;
           value APrintNull (literal "-print0");
           value APrint (literal "-print");
           value APrune (literal "-prune");
           value AQuit (literal "-quit") ]).

Definition parse_test_strict : sparser test :=
  context (label "test")
    (alt [ alt [ unary "-amin" TAccessTime (parse_cmp (parse_time_strict UMinute));
                 unary "-anewer" TAccessNewer parse_string;
                 unary "-atime" TAccessTime (parse_cmp (parse_time_strict UDay));
                 unary "-cmin" TChangeTime (parse_cmp (parse_time_strict UMinute));
                 unary "-cnewer" TChangeNewer parse_string;
                 unary "-ctime" TChangeTime (parse_cmp (parse_time_strict UDay));
                 value TEmpty (literal "-empty");
                 value TExecutable (literal "-executable");
                 value TFalse (literal "-false");
                 unary "-fstype" TFsType parse_string;
                 unary "-gid" TGroupId (parse_cmp parse_u32);
                 unary "-group" TGroup parse_string;
                 unary "-ilname" TInsensitiveLinkName parse_string;
                 unary "-iname" TInsensitiveName parse_string;
                 unary "-inum" TInodeNumber (parse_cmp parse_u32);
                 unary "-ipath" TInsensitivePath parse_string;
                 unary "-iregex" TInsensitiveRegex parse_string;
                 unary "-links" TLinks (parse_cmp parse_u64);
                 unary "-mirror-count" TMirrorCount (parse_cmp parse_u32);
                 unary "-mmin" TModifyTime (parse_cmp (parse_time_strict UMinute));
                 unary "-mnewer" TModifyNewer parse_string ];
           alt [ unary "-mtime" TModifyTime (parse_cmp (parse_time_strict UDay));
                 unary "-name" TName parse_string;
                 value TNoUser (literal "-nouser");
                 value TNoGroup (literal "-nogroup");
                 unary "-path" TPath parse_string;
                 unary "-perm" (fun '(k, b) => TPerm k b) parse_perm_arg_strict;
                 unary "-pool" TPool parse_string;
                 value TReadable (literal "-readable");
                 unary "-regex" TRegex parse_string;
                 unary "-samefile" TSamefile parse_string;
                 unary "-size" TSize (parse_cmp parse_size_strict);
                 unary "-stripe-count" TStripeCount (parse_cmp parse_u32);
                 value TTrue (literal "-true");
                 unary "-type" TType parse_filetypes_strict;
                 unary "-uid" TUserId (parse_cmp parse_u32);
                 unary "-user" TUser parse_string;
                 binary "-xattr-match" (fun '(f, v) => TXattrMatch f v)
                        (context (expected "attribute") parse_string)
                        (context (expected "value") parse_string)
                        "attribute_and_value";
                 unary "-xattr" TXattr parse_string;
                 value TWritable (literal "-writable") ] ]).

Definition parse_token_strict : sparser token :=
  context (label "syntax")
    (alt [ value KLParen (literal "(");
           value KRParen (literal ")");
           value KNot (literal "!");
           value KComma (literal ",");
           value KOr (terminated (alt [literal "-or"; literal "-o"]) blank_or_eof);
           value KAnd (terminated (alt [literal "-and"; literal "-a"]) blank_or_eof);
           terminated
             (alt [ pmap (fun t => KPrim (LTest t)) parse_test_strict;
                    pmap (fun a => KPrim (LAction a)) parse_action_strict;
                    pmap (fun g => KPrim (LGlobal g)) parse_global ])
             word_end;
           context (expected "invalid_token") fail ]).

Definition lex_strict : sparser (list token) :=
  pmap fst (preceded multispace0
              (repeat_till1 slen (terminated parse_token_strict multispace0) eof)).

(** * mod.rs: _parse / parse.  [leading_options] only uses [parse_global], which mentions none of
    the argument parsers.  Site 7 ([out.first().unwrap()] of precedence.rs) is made explicit with
    [prec_parser_strict]: [Some None] is the panic of the [unwrap()]. *)
Definition parse_strict (input : str) : presult :=
  match leading_options input with
  | (Ok gs, rest) =>
      match update_all default_options gs with
      | None => ParsePanic "RunOptions::update: unreachable"
      | Some o =>
          let lexed := match rest with
                       | [] => (Ok [KPrim (LTest TTrue)], rest)
                       | _ => lex_strict rest
                       end in
          match lexed with
          | (Ok tokens, _) =>
              match replace_globals o tokens with
              | None => ParsePanic "RunOptions::update: unreachable"
              | Some (o', tokens') =>
                  match prec_parser_strict tokens' with
                  | Some (Some e) => ParseOk o' e
                  | Some None => ParsePanic "precedence.rs: first().unwrap()"
                  | None => grammar_error
                  end
              end
          | (bad, rest') => err_of bad rest'
          end
      end
  | (bad, rest) => err_of bad rest
  end.
