(** What the reader of constructed trees (Model/Ser.v, [read_expr]) returns for a serialised
    tree: the tree itself, except that the bits of every -perm test are truncated to 32 bits, the
    width of [Mode] ([Mode::from_bits_retain] in the harness keeps every bit of the u32).  Definitions only. *)
From Coq Require Import List NArith Bool.
From FP Require Import Model.Chars Model.Ast.
Import ListNotations.
Local Open Scope N_scope.

Definition mask_test (t : test) : test :=
  match t with TPerm k bits => TPerm k (N.land bits 4294967295) | _ => t end.

Fixpoint mask_perm (e : expr) : expr :=
  match e with
  | EPrec a => EPrec (mask_perm a)
  | ENot a => ENot (mask_perm a)
  | EAnd a b => EAnd (mask_perm a) (mask_perm b)
  | EOr a b => EOr (mask_perm a) (mask_perm b)
  | EList a b => EList (mask_perm a) (mask_perm b)
  | ETest t => ETest (mask_test t)
  | EAction _ | EGlobal _ | EPositional => e
  end.

(** every -perm test of the tree has its bits below 2^32 *)
Fixpoint perm_bits_small (e : expr) : Prop :=
  match e with
  | EPrec a | ENot a => perm_bits_small a
  | EAnd a b | EOr a b | EList a b => perm_bits_small a /\ perm_bits_small b
  | ETest (TPerm _ bits) => bits < 4294967296
  | _ => True
  end.
