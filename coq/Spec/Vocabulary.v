(** The vocabulary of find expressions supported by the library, as a table written from
    find(1) and the project's documentation: which WORDS spell a primary, and the tree leaf the
    primary denotes.  Nothing here mentions the parser.  Definitions only.

    Characters are code points; [chars "-name"] is the list of the characters of a literal.
    Sub-languages reused from other specification files: decimal digit strings and their
    positional value (Spec/Decimal.v), the sign prefix of a comparison and the unit letters
    (Spec/Numeric.v), -perm arguments (Spec/Chmod.v), -printf format strings (Spec/FormatSpec.v). *)
From Coq Require Import List String Ascii NArith.
From FP Require Import Model.Chars Model.Ast Model.Lex.
From FP Require Import Spec.Decimal Spec.Numeric Spec.Chmod Spec.FormatSpec.
Import ListNotations.
Local Open Scope N_scope.

(** * Characters *)
(** blank space: space, TAB, CR, LF *)
Definition Blank (c : N) : Prop := c = 32 \/ c = 9 \/ c = 13 \/ c = 10.
Definition dquote : N := 34.   (* the double quote *)
Definition squote : N := 39.   (* the single quote *)
Definition lparen : N := 40.
Definition rparen : N := 41.
Definition bang : N := 33.
Definition comma : N := 44.
Definition Quote (c : N) : Prop := c = dquote \/ c = squote.
(** a character of an unquoted word: anything but a blank and ')' *)
Definition BareChar (c : N) : Prop := ~ Blank c /\ c <> rparen.

(** * String arguments: [WordArg w v], the word [w] spells the string [v] *)
Inductive WordArg : str -> str -> Prop :=
| W_bare v : v <> [] -> Forall BareChar v -> not_starting_with Quote v -> WordArg v v
| W_single v : ~ In squote v -> WordArg (squote :: v ++ [squote]) v
| W_double v : ~ In dquote v -> WordArg (dquote :: v ++ [dquote]) v.
(** in particular the empty string can only be written quoted, a string containing a blank or
    ')' or starting with a quote only quoted, and a string containing both quote characters
    cannot be written at all *)

(** * Numeric arguments (finding D15: these are bare words only; the quoted spellings
    -uid '5', -type "f", -size '1k' are NOT in the vocabulary and are rejected by the code) *)
(** an unsigned decimal count below [bound]; leading zeros are allowed *)
Definition Count (bound : N) (w : str) (n : N) : Prop :=
  digits w /\ w <> [] /\ pos_value w = n /\ n < bound.

(** a comparison: an optional '+' (more than) or '-' (less than), then the inner language *)
Inductive CmpArg {T : Type} (Inner : str -> T -> Prop) : str -> cmp T -> Prop :=
| Cmp_arg p w v : Inner w v -> CmpArg Inner (Numeric.prefix_str p ++ w) (prefix_cmp p v).

(** a size: a count below 2^64 and an optional unit letter b c w k M G T (default: blocks) *)
Inductive SizeArg : str -> size -> Prop :=
| Size_unit ds n u : Count (2 ^ 64) ds n -> SizeArg (ds ++ [size_letter u]) (Size u n)
| Size_plain ds n : Count (2 ^ 64) ds n -> SizeArg ds (Size UBlock n).

(** a time: a count below 2^64 and an optional unit letter s m h d; without a letter the unit
    is the keyword's default *)
Inductive TimeArg (dflt : time_unit) : str -> timespec -> Prop :=
| Time_unit ds n u : Count (2 ^ 64) ds n -> TimeArg dflt (ds ++ [time_letter u]) (Time u n)
| Time_plain ds n : Count (2 ^ 64) ds n -> TimeArg dflt ds (Time dflt n).

(** a type list: one or more of the letters b c d p f l s separated by single commas *)
Definition type_letter (t : filetype) : N :=
  match t with
  | FBlock => ch "b" | FCharacter => ch "c" | FDirectory => ch "d" | FPipe => ch "p"
  | FFile => ch "f" | FLink => ch "l" | FSocket => ch "s"
  end.
Inductive TypeList : str -> list filetype -> Prop :=
| TL_one t : TypeList [type_letter t] [t]
| TL_more t w ts : TypeList w ts -> TypeList (type_letter t :: comma :: w) (t :: ts).

(** * -perm: an optional '-' or '/' and then three or more octal digits (value at most 07777)
    or a comma-separated list of symbolic clauses.  The value of a clause list is the CODE's
    reading [code_chmod], which is chmod's except for '-' clauses (finding D14, Spec/Chmod.v). *)
Inductive PermArg : str -> permkind -> N -> Prop :=
| Perm_octal p ds : oct_digits ds -> (3 <= List.length ds)%nat -> pos_value8 ds <= 4095 ->
    PermArg (Chmod.prefix_str p ++ ds) (kind_of p) (pos_value8 ds)
| Perm_symbolic p cls : cls <> [] ->
    PermArg (Chmod.prefix_str p ++ render_clauses cls) (kind_of p) (code_chmod cls).

(** * The keyword tables *)
(** primaries without argument *)
Definition nullary_table : list (string * leaf) :=
  [ ("-empty", LTest TEmpty); ("-executable", LTest TExecutable); ("-false", LTest TFalse);
    ("-nogroup", LTest TNoGroup); ("-nouser", LTest TNoUser); ("-readable", LTest TReadable);
    ("-true", LTest TTrue); ("-writable", LTest TWritable);
    ("-ls", LAction AList); ("-print", LAction APrint); ("-print0", LAction APrintNull);
    ("-print-file-fid", LAction APrintFid); ("-prune", LAction APrune); ("-quit", LAction AQuit);
    ("-depth", LGlobal GDepth) ]%string.

(** primaries with one string argument (pattern, name, file) *)
Definition string_table : list (string * (str -> leaf)) :=
  [ ("-anewer", fun s => LTest (TAccessNewer s)); ("-cnewer", fun s => LTest (TChangeNewer s));
    ("-fstype", fun s => LTest (TFsType s)); ("-group", fun s => LTest (TGroup s));
    ("-ilname", fun s => LTest (TInsensitiveLinkName s)); ("-iname", fun s => LTest (TInsensitiveName s));
    ("-ipath", fun s => LTest (TInsensitivePath s)); ("-iregex", fun s => LTest (TInsensitiveRegex s));
    ("-mnewer", fun s => LTest (TModifyNewer s)); ("-name", fun s => LTest (TName s));
    ("-path", fun s => LTest (TPath s)); ("-pool", fun s => LTest (TPool s));
    ("-regex", fun s => LTest (TRegex s)); ("-samefile", fun s => LTest (TSamefile s));
    ("-user", fun s => LTest (TUser s)); ("-xattr", fun s => LTest (TXattr s));
    ("-fls", fun s => LAction (AFileList s)); ("-fprint", fun s => LAction (AFilePrint s));
    ("-fprint0", fun s => LAction (AFilePrintNull s)) ]%string.

(** primaries comparing a 32-bit count *)
Definition count32_table : list (string * (cmp N -> leaf)) :=
  [ ("-gid", fun c => LTest (TGroupId c)); ("-inum", fun c => LTest (TInodeNumber c));
    ("-mirror-count", fun c => LTest (TMirrorCount c));
    ("-stripe-count", fun c => LTest (TStripeCount c)); ("-uid", fun c => LTest (TUserId c)) ]%string.

(** primaries comparing an age, with the unit a bare number is in *)
Definition time_table : list (string * time_unit * (cmp timespec -> leaf)) :=
  [ ("-amin", UMinute, fun c => LTest (TAccessTime c)); ("-atime", UDay, fun c => LTest (TAccessTime c));
    ("-cmin", UMinute, fun c => LTest (TChangeTime c)); ("-ctime", UDay, fun c => LTest (TChangeTime c));
    ("-mmin", UMinute, fun c => LTest (TModifyTime c)); ("-mtime", UDay, fun c => LTest (TModifyTime c)) ]%string.

(** * [Primary ws l]: the words [ws] (keyword, then its arguments) denote the leaf [l].
    40 tests, 11 actions and the options -depth and -threads.  (-maxdepth and -mindepth are not
    in the vocabulary: the library refuses them.) *)
Inductive Primary : list str -> leaf -> Prop :=
| P_nullary k l : In (k, l) nullary_table -> Primary [chars k] l
| P_string k f w v : In (k, f) string_table -> WordArg w v -> Primary [chars k; w] (f v)
| P_count32 k f w c : In (k, f) count32_table -> CmpArg (Count (2 ^ 32)) w c ->
    Primary [chars k; w] (f c)
| P_links w c : CmpArg (Count (2 ^ 64)) w c -> Primary [chars "-links"; w] (LTest (TLinks c))
| P_time k u f w c : In (k, u, f) time_table -> CmpArg (TimeArg u) w c -> Primary [chars k; w] (f c)
| P_size w c : CmpArg SizeArg w c -> Primary [chars "-size"; w] (LTest (TSize c))
| P_type w ts : TypeList w ts -> Primary [chars "-type"; w] (LTest (TType ts))
| P_perm w v k b : WordArg w v -> PermArg v k b -> Primary [chars "-perm"; w] (LTest (TPerm k b))
| P_xattr_match w1 v1 w2 v2 : WordArg w1 v1 -> WordArg w2 v2 ->
    Primary [chars "-xattr-match"; w1; w2] (LTest (TXattrMatch v1 v2))
| P_printf w v fmt : WordArg w v -> Seg v fmt ->
    Primary [chars "-printf"; w] (LAction (APrintFormatted fmt))
| P_fprintf w1 v1 w2 v2 fmt : WordArg w1 v1 -> WordArg w2 v2 -> Seg v2 fmt ->
    Primary [chars "-fprintf"; w1; w2] (LAction (AFilePrintFormatted v1 fmt))
| P_threads w n : Count (2 ^ 32) w n -> Primary [chars "-threads"; w] (LGlobal (GThreads n)).

(** * The operator words *)
Inductive opword := OLParen | ORParen | ONot | OComma | OAndA | OAndAnd | OOrO | OOrOr.
Definition op_text (o : opword) : str :=
  match o with
  | OLParen => chars "(" | ORParen => chars ")" | ONot => chars "!" | OComma => chars ","
  | OAndA => chars "-a" | OAndAnd => chars "-and" | OOrO => chars "-o" | OOrOr => chars "-or"
  end.
Definition op_token (o : opword) : token :=
  match o with
  | OLParen => KLParen | ORParen => KRParen | ONot => KNot | OComma => KComma
  | OAndA | OAndAnd => KAnd | OOrO | OOrOr => KOr
  end.
(** the one-character operators need no blank around them *)
Definition single_char (o : opword) : bool :=
  match o with OLParen | ORParen | ONot | OComma => true | _ => false end.
