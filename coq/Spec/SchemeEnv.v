(** When an environment (the meaning of the [let*] prelude) agrees with the tables of the
    compiler's manager: each table entry is bound, under its generated name, to the object the
    entry stands for.  Definitions only. *)
From Coq Require Import List String NArith Bool.
From FP Require Import Model.Chars Model.Sexp Model.Compile Spec.FileRecord Spec.SchemeSem.
Import ListNotations.
Local Open Scope N_scope.

(** the text of a generated name, e.g. %lf3:match:3 *)
Definition idname (kind : string) (n : N) : str := chars "%lf3:" ++ chars kind ++ [58] ++ print_dec n.

Definition mgr_matches (m : mgr) : list ((str * bool) * N) :=
  match m with ML l => l_matches l | MD d => d_matches d end.

(** the local manager keys printers by port; a port stands for standard output or a file *)
Definition port_dest (l : lmgr) (p : port) (d : dest) : Prop :=
  match d with
  | DStdout => l_default l = Some p
  | DFile path => In (path, p) (l_files l)
  end.
Definition mk_target (d : dest) (term : option N) : target :=
  match d with DStdout => TStdout term | DFile path => TFile path term end.

(** the printers table holds an entry for target [t] with index [i] *)
Definition printer_entry (m : mgr) (t : target) (i : N) : Prop :=
  match m with
  | MD d => In (t, i) (d_printers d)
  | ML l => exists p d term,
      In ((p, term), i) (l_printers l) /\ port_dest l p d /\ t = mk_target d term
  end.

Definition env_agrees (e : env) (m : mgr) : Prop :=
  (forall pat ci i, In ((pat, ci), i) (mgr_matches m) ->
     lookup e (idname "match" i) = Some (EMatcher (is_pattern pat) ci pat))
  /\ (forall t i, printer_entry m t i -> lookup e (idname "print" i) = Some (EPrinter t)).

(** [m'] is a later state of [m]: the tables only grow *)
Definition mgr_le (m m' : mgr) : Prop :=
  (forall k i, In (k, i) (mgr_matches m) -> In (k, i) (mgr_matches m'))
  /\ (forall t i, printer_entry m t i -> printer_entry m' t i).
