(** One-hole contexts over read results: [plug k x] is the S-expression [k] with [x] put in its
    hole.  A context is plain data, so it cannot inspect what is plugged into it: two pluggings of
    the same context differ exactly at the hole. *)
From Coq Require Import List NArith.
From FP Require Import Model.Chars Model.Sexp.
Import ListNotations.

Inductive ctx :=
| CHole
| CList (before : list sexp) (inner : ctx) (after : list sexp).

Fixpoint plug (k : ctx) (x : sexp) : sexp :=
  match k with
  | CHole => x
  | CList before inner after => SList (before ++ plug inner x :: after)
  end.
