(** Spec for C08: what a -perm argument denotes, written without reference to the parser.
    Definitions only.  Numbers are written in decimal with the octal value in a comment. *)
From Coq Require Import List String NArith Bool.
From FP Require Import Model.Chars Model.Ast.
Import ListNotations.
Local Open Scope N_scope.

(** * Symbolic clauses: who+ op perm+ *)
Inductive who := Wu | Wg | Wo | Wa.
Inductive op := OAdd | ODel | OSet.
Inductive perm := Pr | Pw | Px.
(** both lists are non-empty by construction: a head and a tail *)
Inductive clause := Clause (w : who) (ws : list who) (o : op) (p : perm) (ps : list perm).

Definition who_mask (w : who) : N :=
  match w with Wu => 448 (* 0o700 *) | Wg => 56 (* 0o070 *) | Wo => 7 (* 0o007 *) | Wa => 511 (* 0o777 *) end.
Definition perm_mask (p : perm) : N :=
  match p with Pr => 292 (* 0o444 *) | Pw => 146 (* 0o222 *) | Px => 73 (* 0o111 *) end.
Fixpoint who_masks (l : list who) : N :=
  match l with [] => 0 | w :: r => N.lor (who_mask w) (who_masks r) end.
Fixpoint perm_masks (l : list perm) : N :=
  match l with [] => 0 | p :: r => N.lor (perm_mask p) (perm_masks r) end.
Definition clause_W (c : clause) : N := match c with Clause w ws _ _ _ => who_masks (w :: ws) end.
Definition clause_P (c : clause) : N := match c with Clause _ _ _ p ps => perm_masks (p :: ps) end.
Definition clause_op (c : clause) : op := match c with Clause _ _ o _ _ => o end.

(** chmod's rule for one clause applied to mode [m]; [N.ldiff a b] is a AND NOT b *)
Definition apply_clause (m : N) (c : clause) : N :=
  let W := clause_W c in let P := clause_P c in
  match clause_op c with
  | OAdd => N.lor m (N.land W P)
  | ODel => N.ldiff m (N.land W P)
  | OSet => N.lor (N.ldiff m W) (N.land W P)
  end.
Definition chmod (cls : list clause) : N := fold_left apply_clause cls 0.

(** what the CODE does (finding D14, pinned by a unit test of the crate): a '-' clause clears
    the bits of the named classes that are NOT named; '+' and '=' are chmod's *)
Definition code_apply (m : N) (c : clause) : N :=
  let W := clause_W c in let P := clause_P c in
  match clause_op c with
  | OAdd => N.lor m (N.land W P)
  | ODel => N.ldiff m (N.land W (N.ldiff 4095 P))
  | OSet => N.lor (N.ldiff m W) (N.land W P)
  end.
Definition code_chmod (cls : list clause) : N := fold_left code_apply cls 0.
Definition no_minus (cls : list clause) : Prop := Forall (fun c => clause_op c <> ODel) cls.

(** * Text *)
Definition who_char (w : who) : N :=
  match w with Wu => 117 (* u *) | Wg => 103 (* g *) | Wo => 111 (* o *) | Wa => 97 (* a *) end.
Definition op_char (o : op) : N :=
  match o with OAdd => 43 (* + *) | ODel => 45 (* - *) | OSet => 61 (* = *) end.
Definition perm_char (p : perm) : N :=
  match p with Pr => 114 (* r *) | Pw => 119 (* w *) | Px => 120 (* x *) end.
Definition render_clause (c : clause) : str :=
  match c with
  | Clause w ws o p ps => map who_char (w :: ws) ++ [op_char o] ++ map perm_char (p :: ps)
  end.
Definition render_clauses (cls : list clause) : str := join (chars ","%string) (map render_clause cls).

(** * Octal: positional base-8 value, most significant digit first *)
Fixpoint pos_value8 (ds : str) : N :=
  match ds with
  | [] => 0
  | d :: r => (d - 48) * 8 ^ N.of_nat (List.length r) + pos_value8 r
  end.
Definition oct_digits (ds : str) : Prop := Forall (fun c => 48 <= c <= 55) ds.

(** * The prefix and the check it selects *)
Inductive prefix := NoPrefix | Dash | Slash.
Definition prefix_str (p : prefix) : str :=
  match p with NoPrefix => [] | Dash => chars "-"%string | Slash => chars "/"%string end.
Definition kind_of (p : prefix) : permkind :=
  match p with NoPrefix => PEqual | Dash => PAtLeast | Slash => PAny end.
(** the check on a file mode; 4095 = 0o7777, the twelve permission bits *)
Definition perm_holds (k : permkind) (bits mode : N) : bool :=
  match k with
  | PEqual => N.land mode 4095 =? bits
  | PAtLeast => N.land mode bits =? bits
  | PAny => negb (N.land mode bits =? 0)
  end.
