(** Reference semantics of find expressions on one file, by find's rules and the project's
    documented choices.  Definitions only; written from the find manual and the LiPE field names,
    without reference to the code generator. *)
From Coq Require Import List NArith ZArith Bool.
From FP Require Import Model.Chars Model.Ast Spec.Chmod Spec.FileRecord.
Import ListNotations.
Local Open Scope N_scope.

(** * Comparisons: N means exactly, +N more than, -N less than *)
Definition cmp_rel {T} (c : cmp T) (x v : Z) : bool :=
  match c with Gt _ => (v <? x)%Z | Lt _ => (x <? v)%Z | Eq _ => (x =? v)%Z end.
Definition count_test (c : cmp N) (field : N) : bool := cmp_rel c (Z.of_N field) (Z.of_N (cmp_val c)).

(** times: the age (possibly negative) in whole units, fraction dropped towards zero *)
Definition unit_seconds (u : time_unit) : Z :=
  match u with USecond => 1 | UMinute => 60 | UHour => 3600 | UDay => 86400 end%Z.
Definition time_test (c : cmp timespec) (now stamp : N) : bool :=
  match cmp_val c with
  | Time u n => cmp_rel c (Z.quot (Z.of_N now - Z.of_N stamp) (unit_seconds u)) (Z.of_N n)
  end.

(** sizes: the number of units needed to hold the file, i.e. size/unit rounded UP *)
Definition unit_bytes (u : size_unit) : N :=
  match u with
  | UByte => 1 | UWord => 2 | UBlock => 512 | UKilo => 2 ^ 10 | UMega => 2 ^ 20
  | UGiga => 2 ^ 30 | UTera => 2 ^ 40
  end.
Definition ceil_div (a b : N) : N := a / b + (if a mod b =? 0 then 0 else 1).
Definition size_test (c : cmp size) (bytes : N) : bool :=
  match cmp_val c with
  | Size u n => cmp_rel c (Z.of_N (ceil_div bytes (unit_bytes u))) (Z.of_N n)
  end.

(** -type: the file-type bits of the mode (S_IFMT = 0o170000) *)
Definition type_bits (t : filetype) : N :=
  match t with
  | FPipe => 4096 (* 0o010000 *) | FCharacter => 8192 (* 0o020000 *) | FDirectory => 16384 (* 0o040000 *)
  | FBlock => 24576 (* 0o060000 *) | FFile => 32768 (* 0o100000 *) | FLink => 40960 (* 0o120000 *)
  | FSocket => 49152 (* 0o140000 *)
  end.
Definition type_test (l : list filetype) (mode : N) : bool :=
  existsb (fun t => N.land mode 61440 =? type_bits t) l.

(** the characters after which the code hands -xattr-match to the host's matcher *)
Definition xattr_special (s : str) : bool := mem 42 s || mem 63 s || mem 91 s || mem 39 s.

Definition octal (n : N) : str := print_radix 8 n.

Section WithHost.
Variable h : host.

(** * Tests *)
Definition test_holds (t : test) (now : N) (f : file) : bool :=
  match t with
  | TAccessTime c => time_test c now (f_atime f)
  | TChangeTime c => time_test c now (f_ctime f)
  | TModifyTime c => time_test c now (f_mtime f)
  | TEmpty => f_empty f | TExecutable => f_executable f
  | TReadable => f_readable f | TWritable => f_writable f
  | TFalse => false | TTrue => true
  | TGroupId c => count_test c (f_gid f) | TUserId c => count_test c (f_uid f)
  | TInodeNumber c => count_test c (f_ino f) | TLinks c => count_test c (f_nlink f)
  | TMirrorCount c => count_test c (f_mirror_count f)
  | TStripeCount c => count_test c (f_stripe_count f)
  | TName p => fnmatch h false p (f_name f)
  | TInsensitiveName p => fnmatch h true p (f_name f)
  | TPath p => fnmatch h false p (f_relative_path f)
  | TInsensitivePath p => fnmatch h true p (f_relative_path f)
  | TPerm k bits => perm_holds k bits (f_mode f)
  | TPool p => existsb (str_eqb p) (f_pools f)
  | TSize c => size_test c (f_size f)
  | TType l => type_test l (f_mode f)
  | TXattr a => match xattr_ref a (f_xattrs f) with Some _ => true | None => false end
  | TXattrMatch a v =>
      if xattr_special a || xattr_special v then xattr_match h (f_xattrs f) a v
      else match xattr_ref a (f_xattrs f) with Some x => str_eqb x v | None => false end
  | _ => false   (* not supported by the target: excluded by the theorems *)
  end.

(** * Format strings *)
Definition time_text (c : N) (stamp : N) : str :=
  if c =? 64 (* @ *) then print_dec stamp else strftime_text h c stamp.

Definition field_text (fd : ffield) (f : file) : str :=
  match fd with
  | FPercent => [37]
  | FAccess => ctime_text h (f_atime f) | FChange => ctime_text h (f_ctime f)
  | FModify => ctime_text h (f_mtime f)
  | FAccessFormatted c => time_text c (f_atime f) | FChangeFormatted c => time_text c (f_ctime f)
  | FModifyFormatted c => time_text c (f_mtime f)
  | FDiskSizeBlocks => print_dec (f_blocks f)                      (* 512-byte blocks *)
  | FDiskSizeKilos => print_dec (ceil_div (f_blocks f) 2)          (* 1 KiB blocks *)
  | FDiskSizeBytes => print_dec (f_size f)
  | FSparseness => ratio_text h (512 * f_blocks f) (f_size f)
  | FBasename => f_name f
  | FParents => dirname h (f_relative_path f)
  | FStartingPoint => f_mount_path f
  | FName => f_absolute_path f
  | FNameWithoutStartingPoint => f_relative_path f
  | FGroup => f_group f | FGroupId => print_dec (f_gid f)
  | FUser => f_user f | FUserId => print_dec (f_uid f)
  | FInodeDecimal => print_dec (f_ino f) | FHardlinks => print_dec (f_nlink f)
  | FPermissionsOctal => octal (N.land (f_mode f) 4095 (* 0o7777 *))
  | FType => type_char h (f_mode f)
  | FFileId => f_fid f | FProjectId => print_dec (f_projid f)
  | FMirrorCount => print_dec (f_mirror_count f) | FStripeCount => print_dec (f_stripe_count f)
  | FStripeSize => print_dec (f_stripe_size f)
  | FXAttr a => match xattr_ref a (f_xattrs f) with Some v => v | None => [] end
  | _ => []   (* not supported by the target: excluded by the theorems *)
  end.

(** the character an octal escape stands for: a code in the surrogate range 0xD800..0xDFFF is
    not a character (find has no behaviour for it; the parser yields at most 0o777 = 511), and
    the library prints '0' (48) for it.  Restated here; Proofs/TransFormat.v shows that it is
    the function of the same name in Model/Compile.v. *)
Definition scalar_or_zero (v : N) : N := if (55296 <=? v) && (v <=? 57343) then 48 else v.

Definition special_text (x : fspecial) : str :=
  match x with
  | XAlarm => [7] | XBackspace => [8] | XForm => [12] | XNewline => [10] | XCarriageReturn => [13]
  | XTabHorizontal => [9] | XTabVertical => [11] | XNull => [0] | XBackslash => [92]
  | XAscii n => [scalar_or_zero n]
  | XClear => []   (* not supported by the target *)
  end.

Definition elem_text (f : file) (el : felem) : str :=
  match el with ELit s => s | EField fd => field_text fd f | ESpecial x => special_text x end.
Definition format_text (fmt : format) (f : file) : str := flat_map (elem_text f) fmt.

(** * Actions: each writes what it names and yields true *)
Definition emit (d : dest) (payload : str) (term : option N) : result :=
  (true, [(d, payload, term)], false).

Definition action_result (a : action) (f : file) : result :=
  match a with
  | APrint | ADefaultPrint => emit DStdout (f_relative_path f) (Some 10)
  | APrintNull => emit DStdout (f_relative_path f) (Some 0)
  | AFilePrint p => emit (DFile p) (f_relative_path f) (Some 10)
  | AFilePrintNull p => emit (DFile p) (f_relative_path f) (Some 0)
  | APrintFormatted fmt => emit DStdout (format_text fmt f) None
  | AFilePrintFormatted p fmt => emit (DFile p) (format_text fmt f) None
  | APrintFid => emit DStdout (f_fid f) (Some 10)
  | AQuit => (true, [], true)
  | _ => (true, [], false)   (* not supported by the target *)
  end.

(** * Expressions *)
Definition seq_and (r : result) (k : result) : result :=
  let '(b, o, q) := r in
  if b then let '(b', o', q') := k in (b', o ++ o', q || q') else (false, o, q).
Definition seq_or (r : result) (k : result) : result :=
  let '(b, o, q) := r in
  if b then (true, o, q) else let '(b', o', q') := k in (b', o ++ o', q || q').
Definition neg (r : result) : result := let '(b, o, q) := r in (negb b, o, q).

(** every time test reads one clock value when the policy is built, in left-to-right order *)
Fixpoint clock_reads (e : expr) : nat :=
  match e with
  | ETest (TAccessTime _) | ETest (TChangeTime _) | ETest (TModifyTime _) => 1
  | EPrec a | ENot a => clock_reads a
  | EAnd a b | EOr a b | EList a b => clock_reads a + clock_reads b
  | _ => 0
  end.

(** [clock]: the readings still to be consumed.  ',' is AND (the project's documented choice). *)
Fixpoint feval (e : expr) (clock : list N) (f : file) : result :=
  match e with
  | ETest t => (test_holds t (hd 0 clock) f, [], false)
  | EAction a => action_result a f
  | ENot a => neg (feval a clock f)
  | EAnd a b | EList a b => seq_and (feval a clock f) (feval b (skipn (clock_reads a) clock) f)
  | EOr a b => seq_or (feval a clock f) (feval b (skipn (clock_reads a) clock) f)
  | EPrec a => feval a clock f
  | EGlobal _ | EPositional => (true, [], false)
  end.

End WithHost.

(** * Where the expression is defined: %S divides by the size *)
Definition elem_defined (f : file) (el : felem) : bool :=
  match el with EField FSparseness => negb (f_size f =? 0) | _ => true end.
Definition action_defined (a : action) (f : file) : bool :=
  match a with
  | APrintFormatted fmt | AFilePrintFormatted _ fmt => forallb (elem_defined f) fmt
  | _ => true
  end.
Fixpoint defined (e : expr) (f : file) : bool :=
  match e with
  | EAction a => action_defined a f
  | EPrec a | ENot a => defined a f
  | EAnd a b | EOr a b | EList a b => defined a f && defined b f
  | _ => true
  end.

(** * Formats free of %a %c %t (known finding D17: the code prints the raw seconds there) *)
Definition elem_ctime_free (el : felem) : bool :=
  match el with EField FAccess | EField FChange | EField FModify => false | _ => true end.
Definition action_ctime_free (a : action) : bool :=
  match a with
  | APrintFormatted fmt | AFilePrintFormatted _ fmt => forallb elem_ctime_free fmt
  | _ => true
  end.
Fixpoint ctime_free (e : expr) : bool :=
  match e with
  | EAction a => action_ctime_free a
  | EPrec a | ENot a => ctime_free a
  | EAnd a b | EOr a b | EList a b => ctime_free a && ctime_free b
  | _ => true
  end.
