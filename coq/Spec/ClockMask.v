(** Erasing the compile-time clock readings from a compiled body.
    [mask_clock] walks a form exactly as [clock_atoms] (Spec/ClockForm.v) does: where [time_form]
    recognises  (OP (quotient (- NOW (FIELD)) SECS) N)  the numeral NOW -- and nothing else, layout
    included -- is replaced by the fixed atom [now_mark]; elsewhere the form is kept and its items
    are walked.  [same_but_clock] is the relation "equal in everything but the readings".
    Definitions only. *)
From Coq Require Import List String NArith Bool.
From FP Require Import Model.Chars Model.Ast Model.Sexp Model.Compile Spec.ClockForm.
Import ListNotations.
Local Open Scope N_scope.

Definition now_mark : str := chars "NOW".

(** (- NOW (FIELD)): the second item, when an atom, becomes the mark *)
Definition mask_diff (x : lsexp) : lsexp :=
  match x with
  | LList (LCons w1 m (LCons w2 (LAtom _) r)) t => LList (LCons w1 m (LCons w2 (LAtom now_mark) r)) t
  | _ => x
  end.
(** (quotient D SECS): mask inside the second item *)
Definition mask_second (f : lsexp -> lsexp) (x : lsexp) : lsexp :=
  match x with
  | LList (LCons w1 a (LCons w2 d r)) t => LList (LCons w1 a (LCons w2 (f d) r)) t
  | _ => x
  end.
(** (OP (quotient (- NOW (FIELD)) SECS) N), used only where [time_form] answers [Some] *)
Definition mask_time (x : lsexp) : lsexp := mask_second (mask_second mask_diff) x.

Fixpoint mask_clock (x : lsexp) : lsexp :=
  match time_form x with
  | Some _ => mask_time x
  | None => match x with
            | LList items t => LList (mask_clock_items items) t
            | _ => x
            end
  end
with mask_clock_items (l : litems) : litems :=
  match l with
  | LNil => LNil
  | LCons ws x r => LCons ws (mask_clock x) (mask_clock_items r)
  end.

(** two compile results that differ at most in the embedded clock readings *)
Definition same_but_clock (r1 r2 : cres compiled) : Prop :=
  match r1, r2 with
  | COk p1, COk p2 =>
      c_framed p1 = c_framed p2 /\ c_defs p1 = c_defs p2 /\ c_init p1 = c_init p2
      /\ c_fini p1 = c_fini p2 /\ c_threads p1 = c_threads p2 /\ c_iomap p1 = c_iomap p2
      /\ mask_clock (c_body p1) = mask_clock (c_body p2)
  | CErr k1 n1, CErr k2 n2 => k1 = k2 /\ n1 = n2
  | CPanic s1, CPanic s2 => s1 = s2
  | _, _ => False
  end.
