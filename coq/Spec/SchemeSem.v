(** Meaning of the emitted policy fragment: a SPECIFICATION of the Guile/LiPE forms the compiler
    uses, by structural recursion over read S-expressions (there is no general evaluator: a form
    that is not listed here has no meaning, [None], which also stands for a run-time error).
    Definitions only. *)
From Coq Require Import List String NArith ZArith Bool.
From FP Require Import Model.Chars Model.Sexp Model.Compile Spec.FileRecord.
Import ListNotations.
Local Open Scope N_scope.

(** what a [let*]-bound name of the prelude denotes *)
Inductive entry :=
| EMatcher (glob ci : bool) (pat : str)   (* string -> boolean *)
| EPrinter (t : target)                   (* string -> writes it to [t], with [t]'s terminator *)
| EPort (d : dest)
| EMutex
| EFrame.                                 (* the framing procedure of the distributed mode *)
Definition env := list (str * entry).
Definition lookup (e : env) (name : str) : option entry := assoc str_eqb name e.

Definition is (s : string) (a : str) : bool := str_eqb a (chars s).
Definition all (p : N -> bool) (s : str) : bool := match s with [] => false | _ => forallb p s end.

(** * Numbers *)
Definition int_literal (a : str) : option Z :=
  match a with
  | 35 :: 111 :: ds (* #o *) => if all is_oct ds then Some (Z.of_N (oct_value ds)) else None
  | _ => if all is_digit a then Some (Z.of_N (dec_value a)) else None
  end.

Definition num_field (g : str) (f : file) : option N :=
  if is "size" g then Some (f_size f) else if is "mode" g then Some (f_mode f)
  else if is "uid" g then Some (f_uid f) else if is "gid" g then Some (f_gid f)
  else if is "ino" g then Some (f_ino f) else if is "nlink" g then Some (f_nlink f)
  else if is "atime" g then Some (f_atime f) else if is "ctime" g then Some (f_ctime f)
  else if is "mtime" g then Some (f_mtime f) else if is "blocks" g then Some (f_blocks f)
  else if is "projid" g then Some (f_projid f)
  else if is "lov-stripe-count" g then Some (f_stripe_count f)
  else if is "lov-stripe-size" g then Some (f_stripe_size f)
  else if is "lov-mirror-count" g then Some (f_mirror_count f)
  else None.

(** (round-up-power-of-2 x n): the least multiple of n that is >= x *)
Definition round_up (x n : Z) : option Z :=
  if ((0 <=? x) && (0 <? n))%Z then Some ((x + n - 1) / n * n)%Z else None.

Definition arith (op : str) (u v : Z) : option Z :=
  if is "quotient" op then (if (v =? 0)%Z then None else Some (Z.quot u v))  (* truncates *)
  else if is "-" op then Some (u - v)%Z
  else if is "+" op then Some (u + v)%Z
  else if is "*" op then Some (u * v)%Z
  else if is "logand" op then Some (Z.land u v)
  else if is "round-up-power-of-2" op then round_up u v
  else None.

Fixpoint sem_num (x : sexp) (f : file) : option Z :=
  match x with
  | SAtom a => int_literal a
  | SList [SAtom g] => option_map Z.of_N (num_field g f)
  | SList [SAtom op; a; b] =>
      match sem_num a f, sem_num b f with
      | Some u, Some v => arith op u v
      | _, _ => None
      end
  | _ => None
  end.

Section WithHost.
Variable h : host.

(** * Strings and [format] *)
Definition str_field (g : str) (f : file) : option str :=
  if is "name" g then Some (f_name f) else if is "relative-path" g then Some (f_relative_path f)
  else if is "absolute-path" g then Some (f_absolute_path f) else if is "file-fid" g then Some (f_fid f)
  else if is "user" g then Some (f_user f) else if is "group" g then Some (f_group f)
  else if is "lipe-scan-client-mount-path" g then Some (f_mount_path f)
  else None.

(** string-valued forms other than [format] *)
Definition sem_text (x : sexp) (f : file) : option str :=
  match x with
  | SStr s => Some s
  | SList [SAtom g] => str_field g f
  | SList [SAtom g; SAtom a] =>
      if is "call-with-relative-path" g && is "dirname" a then Some (dirname h (f_relative_path f))
      else None
  | SList [SAtom g; SList [SAtom a]] =>
      if is "type->char" g && is "type" a then Some (type_char h (f_mode f)) else None
  | SList [SAtom g; SStr [37; c]; SList [SAtom l; t]] =>
      if is "strftime" g && is "localtime" l
      then match sem_num t f with
           | Some z => if (z <? 0)%Z then None else Some (strftime_text h c (Z.to_N z))
           | None => None
           end
      else None
  | SList [SAtom g; SList [SAtom r; SStr a]; SStr d] =>
      (* (or (xattr-ref-string "a") "d"): xattr-ref-string is #f when the attribute is absent *)
      if is "or" g && is "xattr-ref-string" r
      then Some match xattr_ref a (f_xattrs f) with Some v => v | None => d end
      else None
  | _ => None
  end.

Inductive value := VStr (s : str) | VInt (z : Z) | VRatio (a b : N).

(** an argument of [format]: a string, an integer, or the exact quotient of two naturals *)
Definition sem_val (x : sexp) (f : file) : option value :=
  match sem_text x f with
  | Some s => Some (VStr s)
  | None =>
      match sem_num x f with
      | Some z => Some (VInt z)
      | None =>
          match x with
          | SList [SAtom g; a; b] =>
              if is "/" g
              then match sem_num a f, sem_num b f with
                   | Some u, Some v =>
                       if ((0 <=? u) && (0 <? v))%Z then Some (VRatio (Z.to_N u) (Z.to_N v))
                       else None                        (* division by zero is an error *)
                   | _, _ => None
                   end
              else None
          | _ => None
          end
      end
  end.

Definition show_int (z : Z) : str :=
  if (z <? 0)%Z then 45 :: print_dec (Z.abs_N z) else print_dec (Z.to_N z).

(** the directives in use: ~a ~d ~o ~f, each consuming one argument *)
Definition directive (d : N) (v : value) : option str :=
  if d =? 97 (* a *) then match v with VStr s => Some s | VInt z => Some (show_int z) | _ => None end
  else if d =? 100 (* d *) then match v with VInt z => Some (show_int z) | _ => None end
  else if d =? 111 (* o *) then
    match v with VInt z => if (z <? 0)%Z then None else Some (print_radix 8 (Z.to_N z)) | _ => None end
  else if d =? 102 (* f *) then match v with VRatio a b => Some (ratio_text h a b) | _ => None end
  else None.

(** template characters are copied; ~~ is a tilde; a directive takes the next argument; too few
    or too many arguments is an error *)
Fixpoint format_sem (t : str) (args : list value) : option str :=
  match t with
  | [] => match args with [] => Some [] | _ => None end
  | c :: r =>
      if c =? 126 then
        match r with
        | [] => None
        | d :: r' =>
            if d =? 126 then option_map (cons 126) (format_sem r' args)
            else match args with
                 | [] => None
                 | v :: args' =>
                     match directive d v, format_sem r' args' with
                     | Some s, Some rest => Some (s ++ rest)
                     | _, _ => None
                     end
                 end
        end
      else option_map (cons c) (format_sem r args)
  end.

Fixpoint all_some {A} (l : list (option A)) : option (list A) :=
  match l with
  | [] => Some []
  | Some a :: r => option_map (cons a) (all_some r)
  | None :: _ => None
  end.

(** a string-valued form: (format #f "template" arg ...) or one of the above *)
Definition sem_str (x : sexp) (f : file) : option str :=
  match x with
  | SList (SAtom g :: SAtom d :: SStr t :: args) =>
      if is "format" g && is "#f" d
      then match all_some (map (fun a => sem_val a f) args) with
           | Some vs => format_sem t vs
           | None => None
           end
      else sem_text x f
  | _ => sem_text x f
  end.

(** * Boolean forms: truth value, writes, stop request *)
Definition pure (b : bool) : option result := Some (b, [], false).
Definition apply_printer (t : target) (payload : str) : result :=
  match t with
  | TStdout term => (true, [(DStdout, payload, term)], false)
  | TFile p term => (true, [(DFile p, payload, term)], false)
  end.
Definition apply_matcher (glob ci : bool) (pat s : str) : bool :=
  if glob then fnmatch h ci pat s else if ci then streq_ci h pat s else str_eqb pat s.

(** [a]; if its truth value is [want], then [k] as well (writes appended, stop requests joined),
    otherwise [a] alone: [k] is not run and cannot fail *)
Definition then_if (want : bool) (a k : option result) : option result :=
  match a with
  | None => None
  | Some (b, o, q) =>
      if Bool.eqb b want
      then match k with Some (b', o', q') => Some (b', o ++ o', q || q') | None => None end
      else Some (b, o, q)
  end.

(** comparison of two numeric forms *)
Definition comparison (g : str) : option (Z -> Z -> bool) :=
  if is "=" g then Some Z.eqb else if is "<" g then Some Z.ltb
  else if is ">" g then Some (fun u v => Z.ltb v u) else None.

Definition builtin (g : str) : bool :=
  existsb (fun k => is k g)
    ["empty"; "executable"; "readable"; "writable"; "print-relative-path"; "call-with-name";
     "call-with-relative-path"; "lipe-scan-break"; "xattr?"; "xattr-match?"; "member"; "equal?"]%string.

(** the LiPE and Guile forms without boolean sub-forms *)
Definition sem_builtin (e : env) (g : str) (args : list sexp) (f : file) : option result :=
  match args with
  | [] =>
      if is "empty" g then pure (f_empty f) else if is "executable" g then pure (f_executable f)
      else if is "readable" g then pure (f_readable f) else if is "writable" g then pure (f_writable f)
      else if is "print-relative-path" g
      then Some (apply_printer (TStdout (Some 10)) (f_relative_path f))
      else None
  | [SAtom m] =>
      if is "call-with-name" g then
        match lookup e m with
        | Some (EMatcher glob ci pat) => pure (apply_matcher glob ci pat (f_name f))
        | _ => None
        end
      else if is "call-with-relative-path" g then
        match lookup e m with
        | Some (EMatcher glob ci pat) => pure (apply_matcher glob ci pat (f_relative_path f))
        | Some (EPrinter t) => Some (apply_printer t (f_relative_path f))
        | _ => None
        end
      else if is "lipe-scan-break" g then
        match int_literal m with Some _ => Some (true, [], true) | None => None end
      else None
  | [SStr a] =>
      if is "xattr?" g then pure match xattr_ref a (f_xattrs f) with Some _ => true | None => false end
      else None
  | [SStr a; SStr v] =>
      if is "xattr-match?" g then pure (xattr_match h (f_xattrs f) a v) else None
  | [SStr p; SList [SAtom l]] =>
      if is "member" g && is "lov-pools" l then pure (existsb (str_eqb p) (f_pools f)) else None
  | [SList [SAtom r; SStr a]; SStr v] =>
      if is "equal?" g && is "xattr-ref-string" r
      then pure match xattr_ref a (f_xattrs f) with Some x => str_eqb x v | None => false end
      else None
  | _ => None
  end.

(** a comparison, a built-in form, or the call (P string-form) of a bound printer *)
Definition sem_leaf (e : env) (g : str) (args : list sexp) (f : file) : option result :=
  match comparison g with
  | Some rel =>
      match args with
      | [a; b] => match sem_num a f, sem_num b f with
                  | Some u, Some v => pure (rel u v)
                  | _, _ => None
                  end
      | _ => None
      end
  | None =>
      if builtin g then sem_builtin e g args f
      else match lookup e g, args with
           | Some (EPrinter t), [x] => option_map (apply_printer t) (sem_str x f)
           | _, _ => None
           end
  end.

Definition negate (r : result) : result := let '(b, o, q) := r in (negb b, o, q).

(** (and ...) and (or ...) evaluate left to right and stop at the first false / true form *)
Fixpoint sem_bool (e : env) (x : sexp) (f : file) {struct x} : option result :=
  match x with
  | SAtom a => if is "#t" a then pure true else if is "#f" a then pure false else None
  | SStr _ => None
  | SList (SAtom g :: args) =>
      if is "and" g then
        (fix conj (l : list sexp) : option result :=
           match l with
           | [] => pure true
           | a :: r => match r with
                       | [] => sem_bool e a f
                       | _ => then_if true (sem_bool e a f) (conj r)
                       end
           end) args
      else if is "or" g then
        (fix disj (l : list sexp) : option result :=
           match l with
           | [] => pure false
           | a :: r => match r with
                       | [] => sem_bool e a f
                       | _ => then_if false (sem_bool e a f) (disj r)
                       end
           end) args
      else if is "not" g then
        match args with [a] => option_map negate (sem_bool e a f) | _ => None end
      else sem_leaf e g args f
  | SList _ => None
  end.

End WithHost.
