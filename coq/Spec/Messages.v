(** The error texts of find_parser/error.rs described independently of the model's [message],
    and the vocabulary of C18 and of the rejecting half of C05: the keyword tables, what a
    "prefix that lexes fine" is, and when an argument word is invalid from its first character.
    Definitions only. *)
From Coq Require Import List String NArith Bool.
From FP Require Import Model.Chars Model.Winnow Model.Ast Model.Args Model.Perm Model.Format Model.Lex.
From FP Require Import Spec.Decimal Spec.Numeric.
Import ListNotations.
Local Open Scope N_scope.

(** ** The two message formats *)
Inductive kind := KTest | KAction | KOption.
Definition kind_text (k : kind) : string :=
  match k with KTest => "test" | KAction => "action" | KOption => "global option" end.

(** "Syntax error: Unexpected token: `W`" *)
Definition unexpected_msg (w : str) : str :=
  chars "Syntax error: Unexpected token: `" ++ w ++ chars "`".

(** "Syntax error: Failed to parse argument `W` of <kind> `K`[: <explanation>]" *)
Definition failed_msg (w : str) (k : kind) (name : string) (expl : option string) : str :=
  chars "Syntax error: Failed to parse argument `" ++ w ++ chars "` of " ++ chars (kind_text k)
    ++ chars " `" ++ chars name ++ chars "`"
    ++ match expl with Some e => chars ": " ++ chars e | None => [] end.

(** the message [m] has one of the two formats and the word it quotes is [w] *)
Definition quoted_in (m w : str) : Prop :=
  m = unexpected_msg w \/ exists k name expl, m = failed_msg w k name expl.

(** [w] occurs in [s] as a contiguous piece (the empty word occurs everywhere) *)
Definition substring (w s : str) : Prop := exists a b, s = a ++ w ++ b.

(** ** The vocabulary *)

(** the argument languages of the argument-taking primaries *)
Inductive arglang :=
| LCount        (* [+-]digits *)
| LTime         (* [+-]digits[smhd] *)
| LSize         (* [+-]digits[bcwkMGT] *)
| LString       (* a bare word or a quoted string *)
| LTypes        (* type letters separated by commas *)
| LPerm         (* a word holding an octal or symbolic mode *)
| LFormat       (* a word holding a format string *)
| LUnsigned     (* digits, no sign *)
| LRefused      (* -maxdepth/-mindepth: digits, always refused *)
| LTwoStrings   (* two string arguments *)
| LFileFormat.  (* a string argument and a format argument *)

(** the argument parser of a primary with its result forgotten *)
Definition erased {A} (p : sparser A) : sparser unit := value tt p.
(** the two arguments of a binary! primary, read as one *)
Definition two_args {A B} (pl : sparser A) (pr : sparser B) (args : string) : sparser unit :=
  erased (context (expected args) (separated_pair pl multispace1 pr)).

(** every argument-taking keyword (the unary! and binary! primaries), its kind, its argument
    language and the model's parser for its argument(s) *)
Definition arg_table : list (string * kind * arglang * sparser unit) :=
  [ ("-amin", KTest, LTime, erased (parse_cmp (parse_time UMinute)));
    ("-anewer", KTest, LString, erased parse_string);
    ("-atime", KTest, LTime, erased (parse_cmp (parse_time UDay)));
    ("-cmin", KTest, LTime, erased (parse_cmp (parse_time UMinute)));
    ("-cnewer", KTest, LString, erased parse_string);
    ("-ctime", KTest, LTime, erased (parse_cmp (parse_time UDay)));
    ("-fstype", KTest, LString, erased parse_string);
    ("-gid", KTest, LCount, erased (parse_cmp parse_u32));
    ("-group", KTest, LString, erased parse_string);
    ("-ilname", KTest, LString, erased parse_string);
    ("-iname", KTest, LString, erased parse_string);
    ("-inum", KTest, LCount, erased (parse_cmp parse_u32));
    ("-ipath", KTest, LString, erased parse_string);
    ("-iregex", KTest, LString, erased parse_string);
    ("-links", KTest, LCount, erased (parse_cmp parse_u64));
    ("-mirror-count", KTest, LCount, erased (parse_cmp parse_u32));
    ("-mmin", KTest, LTime, erased (parse_cmp (parse_time UMinute)));
    ("-mnewer", KTest, LString, erased parse_string);
    ("-mtime", KTest, LTime, erased (parse_cmp (parse_time UDay)));
    ("-name", KTest, LString, erased parse_string);
    ("-path", KTest, LString, erased parse_string);
    ("-perm", KTest, LPerm, erased parse_perm_arg);
    ("-pool", KTest, LString, erased parse_string);
    ("-regex", KTest, LString, erased parse_string);
    ("-samefile", KTest, LString, erased parse_string);
    ("-size", KTest, LSize, erased (parse_cmp parse_size));
    ("-stripe-count", KTest, LCount, erased (parse_cmp parse_u32));
    ("-type", KTest, LTypes, erased parse_filetypes);
    ("-uid", KTest, LCount, erased (parse_cmp parse_u32));
    ("-user", KTest, LString, erased parse_string);
    ("-xattr-match", KTest, LTwoStrings,
       two_args (context (expected "attribute") parse_string)
                (context (expected "value") parse_string) "attribute_and_value");
    ("-xattr", KTest, LString, erased parse_string);
    ("-fls", KAction, LString, erased parse_string);
    ("-fprintf", KAction, LFileFormat,
       two_args (context (expected "filename") parse_string)
                (context (expected "format_string") parse_format_arg) "filename_and_format");
    ("-fprint0", KAction, LString, erased parse_string);
    ("-fprint", KAction, LString, erased parse_string);
    ("-printf", KAction, LFormat, erased parse_format_arg);
    ("-maxdepth", KOption, LRefused, erased unsupported_u32);
    ("-mindepth", KOption, LRefused, erased unsupported_u32);
    ("-threads", KOption, LUnsigned, erased parse_u32) ]%string.
Definition arg_keywords : list (string * kind * arglang) := map fst arg_table.

(** the primaries that take no argument *)
Definition plain_keywords : list string :=
  [ "-empty"; "-executable"; "-false"; "-nouser"; "-nogroup"; "-readable"; "-true"; "-writable";
    "-ls"; "-print-file-fid"; "-print0"; "-print"; "-prune"; "-quit"; "-depth" ]%string.

(** the operator words (the one-character operators ( ) ! , are handled apart) *)
Definition operator_words : list string := [ "-or"; "-o"; "-and"; "-a" ]%string.

(** every keyword that starts a primary *)
Definition primary_keywords : list string :=
  map (fun x => fst (fst x)) arg_keywords ++ plain_keywords.

(** ** Word boundaries *)

(** [rest] is at a word end: end of input, a blank, or one of ( ) ! , *)
Definition at_word_end (rest : str) : bool :=
  match rest with [] => true | c :: _ => is_space c || in_str "()!," c end.
(** [rest] is at the end of an operator word: end of input or a blank *)
Definition at_blank_or_end (rest : str) : bool :=
  match rest with [] => true | c :: _ => is_space c end.

(** [Some r]: the input is the keyword followed by [r]; [None]: it does not start with it *)
Definition after_keyword (k : string) (i : str) : option str := lit_ (chars k) i.

(** the keyword stands at the start of the input as a whole word *)
Definition primary_at (i : str) (k : string) : bool :=
  match after_keyword k i with Some r => at_word_end r | None => false end.
Definition operator_at (i : str) (k : string) : bool :=
  match after_keyword k i with Some r => at_blank_or_end r | None => false end.

(** a decidable sufficient condition for "no alternative of the tokenizer accepts what stands
    at the start of [i]": it is none of ( ) ! , and no keyword stands there as a whole word *)
Definition unknown_at (i : str) : bool :=
  match i with [] => true | c :: _ => negb (in_str "()!," c) end
  && negb (existsb (operator_at i) operator_words)
  && negb (existsb (primary_at i) primary_keywords).

(** ** A prefix that lexes fine *)

(** one round of the lexer's loop: a token and the blanks after it *)
Definition token_step : sparser token := terminated parse_token multispace0.

(** starting at [i], the model's own token parser succeeds token after token and arrives at
    [r] (with its cursor exactly there) *)
Inductive lexes_to : str -> str -> Prop :=
| lexes_here : forall i, lexes_to i i
| lexes_step : forall i t i' r, token_step i = (Ok t, i') -> lexes_to i' r -> lexes_to i r.

Definition skip_blanks (i : str) : str := snd (span is_space i).

(** the text [pre], standing before [rest], consists of optional blanks and whole tokens, the
    last of which ends exactly where [rest] starts *)
Definition lexes_fine (pre rest : str) : Prop := lexes_to (skip_blanks (pre ++ rest)) rest.

(** one or more blanks *)
Definition blanks (b : str) : Prop := b <> [] /\ forallb is_space b = true.

(** ** Argument words that are invalid from their first character *)

(** a number, size or time argument without its optional sign *)
Definition strip_sign (a : str) : str :=
  match a with c :: r => if (c =? plus) || (c =? minus) then r else a | [] => [] end.

Definition head_in (p : N -> bool) (a : str) : bool :=
  match a with c :: _ => p c | [] => false end.
Definition close_paren : N := 41.
(** nothing a string argument could start with: end of input or a closing parenthesis *)
Definition no_word (a : str) : Prop := a = [] \/ exists r, a = close_paren :: r.

(** [bad_start l a e]: the text [a], standing where an argument of language [l] is expected
    (so [a] does not start with a blank), is invalid from its first character (or missing), and
    [e] is the explanation the message carries for it *)
Definition bad_start (l : arglang) (a : str) (e : option string) : Prop :=
  head_in is_space a = false /\
  match l with
  | LCount | LTime | LSize =>
      not_starting_with digit (strip_sign a) /\ e = Some "Expected an unsigned integer"%string
  | LUnsigned | LRefused =>
      not_starting_with digit a /\ e = Some "Expected an unsigned integer"%string
  | LString | LTwoStrings | LFileFormat => no_word a /\ e = Some "Expected a string"%string
  | LPerm | LFormat => no_word a /\ e = None
  | LTypes =>
      head_in (in_str "bcdpfls") a = false
      /\ e = if head_in is_alpha a then Some "Found an invalid type specifier"%string else None
  end.

(** the explanation carried when the argument is missing altogether (the keyword is the last
    thing in the input) *)
Definition missing_expl (l : arglang) : option string :=
  match l with
  | LTwoStrings => Some "Expected an attribute name and a value to compare"%string
  | LFileFormat => Some "filename_and_format"%string
  | _ => None
  end.

(** ** The word a message quotes *)

(** a bare word: non-empty, no blank and no ')' inside, not opening with a quote *)
Definition bare_word (w : str) : Prop :=
  w <> [] /\ forallb bare_char w = true /\ head_in (fun c => (c =? 34) || (c =? 39)) w = false.
(** [rest] cannot continue a bare word *)
Definition ends_word (rest : str) : Prop := head_in bare_char rest = false.

(** ** The keyword lists are sound: every listed word is recognised *)
Definition is_cut {A} (o : out A) : bool := match o with Cut _ => true | _ => false end.
Definition is_accepted {A} (o : out A) : bool := match o with Ok _ => true | _ => false end.
(** alone in the input, a plain keyword or an operator word is a token, and an argument-taking
    keyword is a final (Cut) error of that keyword: none of them is an unknown word *)
Definition vocabulary_recognised : Prop :=
  forallb (fun k => is_accepted (fst (parse_token (chars k)))) (plain_keywords ++ operator_words) = true
  /\ forallb (fun x => is_cut (fst (parse_token (chars (fst (fst (fst x))))))) arg_table = true.
