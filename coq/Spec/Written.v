(** Expressions AS WRITTEN, with the spelling choices find leaves to the writer: the words of
    each primary (quoting, gaps), implicit AND versus -a versus -and, -o versus -or, and
    parentheses around any operand.  The syntax is stratified like the grammar (! binds tighter
    than AND, AND than OR, OR than ','; binary operators nest to the left), so every value is a
    legal expression.  A whole input is a leading run of options followed by an optional
    expression.  [*_items] gives the words in order, [*_shape] the tree the expression denotes.
    Definitions only. *)
From Coq Require Import List String NArith Bool.
From FP Require Import Model.Chars Model.Ast Model.Lex Model.Prec Spec.Vocabulary Spec.Surface.
Import ListNotations.

Inductive and_sp := AndImplicit | AndA | AndAnd.
Inductive or_sp := OrO | OrOr.

Inductive watom :=
| WPrim (ws gaps : list str) (l : leaf)   (* a primary: its words, its gaps, the leaf denoted *)
| WNot (a : watom)                        (* ! a *)
| WPar (e : wlist)                        (* ( e ) *)
with wand :=
| WAnd1 (a : watom)
| WAnd (l : wand) (sp : and_sp) (r : watom)
with wor :=
| WOr1 (a : wand)
| WOr (l : wor) (sp : or_sp) (r : wand)
with wlist :=
| WList1 (o : wor)
| WList (l : wlist) (r : wor).            (* l , r *)

Definition and_words (sp : and_sp) : list item :=
  match sp with AndImplicit => [] | AndA => [IOp OAndA] | AndAnd => [IOp OAndAnd] end.
Definition or_word (sp : or_sp) : item :=
  match sp with OrO => IOp OOrO | OrOr => IOp OOrOr end.

(** the words, in order *)
Fixpoint atom_items (a : watom) : list item :=
  match a with
  | WPrim ws gaps l => [IPrim ws gaps l]
  | WNot a => IOp ONot :: atom_items a
  | WPar e => IOp OLParen :: list_items e ++ [IOp ORParen]
  end
with and_items (a : wand) : list item :=
  match a with
  | WAnd1 a => atom_items a
  | WAnd l sp r => and_items l ++ and_words sp ++ atom_items r
  end
with or_items (o : wor) : list item :=
  match o with
  | WOr1 a => and_items a
  | WOr l sp r => or_items l ++ or_word sp :: and_items r
  end
with list_items (e : wlist) : list item :=
  match e with
  | WList1 o => or_items o
  | WList l r => list_items l ++ IOp OComma :: or_items r
  end.

(** the tree denoted; parentheses group and leave no node; an option is still an option here *)
Fixpoint atom_shape (a : watom) : expr :=
  match a with
  | WPrim _ _ l => leaf_expr l
  | WNot a => ENot (atom_shape a)
  | WPar e => list_shape e
  end
with and_shape (a : wand) : expr :=
  match a with
  | WAnd1 a => atom_shape a
  | WAnd l _ r => EAnd (and_shape l) (atom_shape r)
  end
with or_shape (o : wor) : expr :=
  match o with
  | WOr1 a => and_shape a
  | WOr l _ r => EOr (or_shape l) (and_shape r)
  end
with list_shape (e : wlist) : expr :=
  match e with
  | WList1 o => or_shape o
  | WList l r => EList (list_shape l) (or_shape r)
  end.

(** an option inside the expression counts for the options and reads as -true in the tree *)
Fixpoint options_in (e : expr) : list gopt :=
  match e with
  | EGlobal g => [g]
  | EPrec a | ENot a => options_in a
  | EAnd a b | EOr a b | EList a b => options_in a ++ options_in b
  | _ => []
  end.
Fixpoint as_true (e : expr) : expr :=
  match e with
  | EGlobal _ => ETest TTrue
  | EPrec a => EPrec (as_true a)
  | ENot a => ENot (as_true a)
  | EAnd a b => EAnd (as_true a) (as_true b)
  | EOr a b => EOr (as_true a) (as_true b)
  | EList a b => EList (as_true a) (as_true b)
  | e => e
  end.

(** * A whole input: leading options, each with the AND written after it, then the expression *)
Record lead_entry := { le_words : list str; le_gaps : list str; le_opt : gopt; le_and : and_sp }.
Record written := { w_lead : list lead_entry; w_expr : option wlist }.

Definition lead_items (l : lead_entry) : list item :=
  IPrim (le_words l) (le_gaps l) (LGlobal (le_opt l)) :: and_words (le_and l).
Definition written_items (w : written) : list item :=
  List.concat (map lead_items (w_lead w)) ++ match w_expr w with Some e => list_items e | None => [] end.

(** the expression part does not itself begin with an option word (that option would belong
    to the leading run), and an AND is written after the last leading option only when an
    expression follows *)
Definition starts_with_option (its : list item) : bool :=
  match its with IPrim _ _ (LGlobal _) :: _ => true | _ => false end.
Definition written_ok (w : written) : Prop :=
  match w_expr w with
  | Some e => starts_with_option (list_items e) = false
  | None => match rev (w_lead w) with l :: _ => le_and l = AndImplicit | [] => True end
  end.

(** the abstract form: what is left when the spelling is forgotten *)
Definition abstract (w : written) : list gopt * option expr :=
  (map le_opt (w_lead w), option_map list_shape (w_expr w)).
Definition written_opts (w : written) : list gopt :=
  map le_opt (w_lead w) ++ match w_expr w with Some e => options_in (list_shape e) | None => [] end.
Definition written_tree (w : written) : expr :=
  match w_expr w with Some e => as_true (list_shape e) | None => ETest TTrue end.

(** the text: a blank string before each word (as many strings as words) and one at the end *)
Definition written_sentence (w : written) (bs : list str) (tr : str) : sentence :=
  {| body := combine bs (written_items w); trail := tr |}.
