(** Vocabulary for the whole-program half of C07 (Properties/C07e.v): the atoms of an emitted
    form, which of them Guile could read as a number, and the numbers a tree (with the clock
    readings it consumes) accounts for. Nothing here mentions the code generator.
    Definitions only. *)
From Coq Require Import List String NArith Bool.
From FP Require Import Model.Chars Model.Ast Model.Sexp.
Import ListNotations.
Local Open Scope N_scope.

(** every atom of a form, left to right (string literals are not atoms) *)
Fixpoint atoms (x : sexp) : list str :=
  match x with
  | SAtom a => [a]
  | SStr _ => []
  | SList l => flat_map atoms l
  end.

(** the token starts the way a Scheme number can start: a decimal digit, a sign, a dot, or the
    '#' of a radix/exactness prefix. Every all-digit atom qualifies. *)
Definition numeric_start (a : str) : bool :=
  match a with
  | c :: _ => is_digit c || in_str "+-.#" c
  | [] => false
  end.

(** the only emitted atoms that start that way without being decimal numerals: the two
    arithmetic procedures, the two booleans, and the octal mask of %m *)
Definition numeric_symbols : list str :=
  [chars "+"; chars "-"; chars "#f"; chars "#t"; chars "#o07777"].

(** the constants of the code generator itself: 0 (-quit, -perm /), 1 and 2 (%k), 512 (%S),
    07777 (-perm), S_IFMT and the seven file-type codes (-type) *)
Definition fixed_constants : list N :=
  [0; 1; 2; 512; 4095; 61440; 4096; 8192; 16384; 24576; 32768; 40960; 49152].

(** the numbers a test carries: a count; a size as count times unit, and the unit (bytes are
    compared as they are, without the unit); an age as count and seconds per unit; the
    permission bits *)
Definition test_numbers (t : test) : list N :=
  match t with
  | TGroupId c | TInodeNumber c | TLinks c | TMirrorCount c | TStripeCount c | TUserId c =>
      [cmp_val c]
  | TSize c =>
      match cmp_val c with
      | Size u n => n * size_mult u :: match u with UByte => [] | _ => [size_mult u] end
      end
  | TAccessTime c | TChangeTime c | TModifyTime c =>
      match cmp_val c with Time u n => [n; time_secs u] end
  | TPerm _ bits => [bits]
  | _ => []
  end.

Definition reads_clock (t : test) : bool :=
  match t with TAccessTime _ | TChangeTime _ | TModifyTime _ => true | _ => false end.

(** the numbers of a tree, left to right, and what is left of the clock: each time test takes
    the next reading (0 once the readings are used up) *)
Fixpoint tree_numbers (e : expr) (clk : list N) : list N * list N :=
  match e with
  | ETest t =>
      if reads_clock t then (hd 0 clk :: test_numbers t, tl clk) else (test_numbers t, clk)
  | EAnd a b | EOr a b | EList a b =>
      let (na, clk1) := tree_numbers a clk in
      let (nb, clk2) := tree_numbers b clk1 in (na ++ nb, clk2)
  | ENot a | EPrec a => tree_numbers a clk
  | EAction _ | EGlobal _ | EPositional => ([], clk)
  end.
