(** C03 — the shape of the trees the parser returns: built from tests, actions other than the
    implicit default print, and the operators not / and / or / list. No precedence marker, no
    global-option node, no positional placeholder. Definitions only. *)
From FP Require Import Model.Ast.

Inductive parser_tree : expr -> Prop :=
| PT_test t : parser_tree (ETest t)
| PT_action a : a <> ADefaultPrint -> parser_tree (EAction a)
| PT_not e : parser_tree e -> parser_tree (ENot e)
| PT_and a b : parser_tree a -> parser_tree b -> parser_tree (EAnd a b)
| PT_or a b : parser_tree a -> parser_tree b -> parser_tree (EOr a b)
| PT_list a b : parser_tree a -> parser_tree b -> parser_tree (EList a b).
