(** What the statements of C05s (soundness of the tokenizer: everything the model accepts is in
    the vocabulary) need beyond Spec/Vocabulary.v and Spec/Surface.v.  Definitions only.

    1. A word that begins with a quote character which never occurs again in the input.  The
       code reads such a word as an UNQUOTED word, quote character included ("-name 'abc" is
       the test -name with the pattern 'abc); Spec/Vocabulary.v has no such word ([W_bare]
       excludes a leading quote).
    2. The layout the lexer actually tolerates: [Surface.tight_ok] without its
       [self_delimiting] clause — a one-character operator may directly follow ANY primary that
       the token parser has closed (e.g. after a closing quote: "-name 'a'!-true"). *)
From Coq Require Import List String NArith Bool.
From FP Require Import Model.Chars Model.Ast Model.Lex Spec.Vocabulary Spec.Surface.
Import ListNotations.
Local Open Scope N_scope.

(** [w], followed by [rest] up to the end of the input, is a stray-quote word *)
Definition stray_word (w rest : str) : Prop :=
  exists q t, w = q :: t /\ Quote q /\ ~ In q (t ++ rest).

(** the input contains, after a blank gap, a quote character that does not occur again *)
Definition stray_quote (s : str) : Prop :=
  exists pre g q t, s = pre ++ g ++ q :: t /\ gap g /\ Quote q /\ ~ In q t.

(** [next] may follow [it] without a blank in between, as far as the lexer is concerned *)
Definition abuts_ok (it next : item) : Prop :=
  match it with
  | IOp o => single_char o = true
  | IPrim _ _ _ => exists o, next = IOp o /\ single_char o = true
  end.
Fixpoint layout_lex (prev : option item) (b : list (str * item)) : Prop :=
  match b with
  | [] => True
  | (sp, it) :: r =>
      blanks sp /\
      (sp = [] -> match prev with None => True | Some p => abuts_ok p it end) /\
      layout_lex (Some it) r
  end.
(** [Surface.wf_sentence] with [layout_lex] for [layout_ok] *)
Definition readable_sentence (s : sentence) : Prop :=
  Forall (fun x => item_ok (snd x)) (body s) /\ layout_lex None (body s) /\ blanks (trail s).
