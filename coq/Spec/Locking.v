(** C16 (emitted-code half): the shapes a binding of the [let*] can have. Definitions only. *)
From Coq Require Import List String NArith Bool.
From FP Require Import Model.Chars Model.Ast Model.Sexp Model.Compile Spec.Resources.
Import ListNotations.
Local Open Scope N_scope.

Definition is_matcher_binding (b : lsexp) : Prop := exists i pat ci, b = matcher_binding i pat ci.

(** plain mode, one output port [p_port p] guarded by one mutex [p_mutex p]:
    (%lf3:port:P (current-output-port)), (%lf3:mutex:M (make-mutex)),
    (%lf3:print:i (make-printer %lf3:port:P %lf3:mutex:M <terminator>)), or a matcher *)
Definition plain_shape (p : port) (b : lsexp) : Prop :=
  b = default_port_binding (p_port p) \/ b = mutex_binding (p_mutex p)
  \/ (exists i term, b = plain_printer_binding i p term)
  \/ is_matcher_binding b.

(** framed mode, after the three bindings of the frame procedure:
    (%lf3:print:i (lambda (line) (%lf3:frame:2 line #\x<i>))) — no mutex of its own — or a matcher *)
Definition framed_shape (b : lsexp) : Prop :=
  (exists i, b = framed_printer_binding i) \/ is_matcher_binding b.

(** the three bindings every framed program starts with *)
Definition frame_prelude : list lsexp :=
  [default_port_binding 0; mutex_binding 1; binding (ident "frame" 2) frame_proc].
