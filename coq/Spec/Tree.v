(** Specification vocabulary about expression trees, independent of the helper functions:
    the subterm relation and what makes an action need framed output. *)
From Coq Require Import List NArith.
From FP Require Import Model.Chars Model.Ast.
Import ListNotations.

Inductive Subterm (s : expr) : expr -> Prop :=
| Sub_refl : Subterm s s
| Sub_prec e : Subterm s e -> Subterm s (EPrec e)
| Sub_not e : Subterm s e -> Subterm s (ENot e)
| Sub_and_l a b : Subterm s a -> Subterm s (EAnd a b)
| Sub_and_r a b : Subterm s b -> Subterm s (EAnd a b)
| Sub_or_l a b : Subterm s a -> Subterm s (EOr a b)
| Sub_or_r a b : Subterm s b -> Subterm s (EOr a b)
| Sub_list_l a b : Subterm s a -> Subterm s (EList a b)
| Sub_list_r a b : Subterm s b -> Subterm s (EList a b).

(** an action needs framed output when it writes to a file, terminates its records with NUL, or
    is a formatted print to stdout whose last element exists and is not the newline escape *)
Inductive NeedsFrames : action -> Prop :=
| NF_fls f : NeedsFrames (AFileList f)
| NF_fprint f : NeedsFrames (AFilePrint f)
| NF_fprint0 f : NeedsFrames (AFilePrintNull f)
| NF_fprintf f fmt : NeedsFrames (AFilePrintFormatted f fmt)
| NF_print0 : NeedsFrames APrintNull
| NF_printf pre el : el <> ESpecial XNewline -> NeedsFrames (APrintFormatted (pre ++ [el])).
