(** What the target cannot express, as a table written from the documentation of the AST
    (ast.rs: "The following are not supported in the final scheme output") and of LiPE, and the
    traversal order in which constructs are met. Independent of the code generator. *)
From Coq Require Import List String NArith.
From FP Require Import Model.Chars Model.Ast Model.Compile Spec.Tree.
Import ListNotations.
Local Open Scope string_scope.

Definition bad_test (t : test) : option string :=
  match t with
  | TAccessNewer _ => Some "AccessNewer" | TChangeNewer _ => Some "ChangeNewer"
  | TModifyNewer _ => Some "ModifyNewer" | TFsType _ => Some "FsType" | TGroup _ => Some "Group"
  | TUser _ => Some "User" | TNoGroup => Some "NoGroup" | TNoUser => Some "NoUser"
  | TLinkName _ => Some "LinkName" | TInsensitiveLinkName _ => Some "InsensitiveLinkName"
  | TRegex _ => Some "Regex" | TInsensitiveRegex _ => Some "InsensitiveRegex"
  | TSamefile _ => Some "Samefile"
  | _ => None
  end.
Definition bad_field (f : ffield) : option string :=
  match f with
  | FDepth => Some "Depth" | FDeviceNumber => Some "DeviceNumber" | FFsType => Some "FsType"
  | FSymbolicTarget => Some "SymbolicTarget" | FPermissionsSymbolic => Some "PermissionsSymbolic"
  | FTypeSymlink => Some "TypeSymlink" | FSecurityContext => Some "SecurityContext"
  | _ => None
  end.
Definition bad_elem (el : felem) : option string :=
  match el with
  | EField f => bad_field f
  | ESpecial XClear => Some "Clear"
  | _ => None
  end.
Fixpoint bad_format (fmt : format) : option string :=
  match fmt with
  | [] => None
  | el :: r => match bad_elem el with Some n => Some n | None => bad_format r end
  end.
Definition bad_action (a : action) : option (errkind * string) :=
  match a with
  | APrune => Some (UnsupportedAction, "Prune")
  | AList => Some (UnsupportedAction, "List")
  | AFileList _ => Some (UnsupportedAction, "FileList")
  | APrintFormatted fmt | AFilePrintFormatted _ fmt =>
      match bad_format fmt with Some n => Some (UnsupportedFormat, n) | None => None end
  | _ => None
  end.

(** the first unsupported construct in traversal order (left operand before right operand) *)
Fixpoint first_unsupported (e : expr) : option (errkind * string) :=
  match e with
  | ETest t => match bad_test t with Some n => Some (UnsupportedTest, n) | None => None end
  | EAction a => bad_action a
  | EPositional => Some (UnsupportedOption, "XDev")
  | ENot a | EPrec a => first_unsupported a
  | EAnd a b | EOr a b | EList a b =>
      match first_unsupported a with Some r => Some r | None => first_unsupported b end
  | EGlobal _ => None
  end.

(** a construct the target cannot express occurs at some depth *)
Definition bad_leaf (e : expr) : Prop :=
  match e with
  | ETest t => bad_test t <> None
  | EAction a => bad_action a <> None
  | EPositional => True
  | _ => False
  end.
Definition has_unsupported (e : expr) : Prop := exists s, Subterm s e /\ bad_leaf s.

(** trees the compiler accepts as input: what the parser can return never contains an explicit
    precedence node or an option node *)
Fixpoint compilable_shape (e : expr) : bool :=
  match e with
  | EPrec _ | EGlobal _ => false
  | ENot a => compilable_shape a
  | EAnd a b | EOr a b | EList a b => compilable_shape a && compilable_shape b
  | _ => true
  end.
