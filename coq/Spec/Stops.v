(** Vocabulary of C12p: what stops the code generator on an arbitrary tree of the public types.
    The traversal is the one of Spec/Unsupported.v (left operand before right operand) with two
    more kinds of stopping node: an explicit precedence node and an option node, which the
    generator treats as unreachable. A precedence node stops the traversal as a whole: what is
    below it is never looked at. Definitions only. *)
From Coq Require Import List String.
From FP Require Import Model.Chars Model.Ast Model.Compile Spec.Unsupported.
Import ListNotations.
Local Open Scope string_scope.

Inductive stop :=
| StopPanic (site : string)                   (* a node the generator declares unreachable *)
| StopUnsupported (k : errkind) (n : string). (* a construct the target cannot express *)

Definition prec_site : string := "Operator::Precedence: unreachable".
Definition global_site : string := "Expression::Global: unreachable".

(** the first stopping node in traversal order *)
Fixpoint first_stop (e : expr) : option stop :=
  match e with
  | ETest t => match bad_test t with Some n => Some (StopUnsupported UnsupportedTest n) | None => None end
  | EAction a => match bad_action a with Some (k, n) => Some (StopUnsupported k n) | None => None end
  | EPositional => Some (StopUnsupported UnsupportedOption "XDev")
  | EPrec _ => Some (StopPanic prec_site)
  | EGlobal _ => Some (StopPanic global_site)
  | ENot a => first_stop a
  | EAnd a b | EOr a b | EList a b =>
      match first_stop a with Some r => Some r | None => first_stop b end
  end.
