(** C16 (link) — from one compiled policy to the calls its invocations make on the SHARED output
    port, in the vocabulary of Spec/Interleave.v.  Definitions only.

    A policy invocation means a list of outputs (destination, payload, terminator), in order
    (Spec/SchemePrelude.v [sem_policy]).  How each output reaches the shared port depends on the
    mode of the program, which is read off the emitted bindings:

    - plain mode, the prelude has (%lf3:port:P (current-output-port)): every printer is
      (make-printer %lf3:port:P %lf3:mutex:P+1 term) (C16_plain_one_mutex, C16c_plain_pair); a
      call takes mutex P+1, writes the payload, writes the terminator character if there is one,
      and releases the mutex: [Crit (P+1) P [payload; [term]]];
    - plain mode, no such binding: the program has no printer at all (C16c_bare) and the only
      writer is (print-relative-path), which writes the whole line in ONE write and takes no
      lock: [Atomic 0 (payload ++ [term])] (port 0 stands for standard output there);
    - framed mode: every printer calls (%lf3:frame:2 line #\xTAG), which inside
      (with-mutex %lf3:mutex:1 ...) displays the payload and then the two-character string
      (0x1e, TAG) on %lf3:port:0 (C16_framed_frame_proc): [Crit 1 0 [payload; [30; TAG]]], TAG
      being the key under which the (destination, terminator) of the output is listed in the
      io-map; the tag is written as the code point TAG (below 256 that is the byte).

    Ports and mutexes are the generated indices, as natural numbers. *)
From Coq Require Import List String NArith Bool Arith.
From FP Require Import Model.Chars Model.Sexp Model.Compile
  Spec.FileRecord Spec.SchemeSem Spec.SchemePrelude Spec.Interleave.
Import ListNotations.
Local Open Scope N_scope.

(** * reading the default port off the prelude *)
Fixpoint strip_prefix (p s : str) : option str :=
  match p, s with
  | [], _ => Some s
  | a :: p', b :: s' => if a =? b then strip_prefix p' s' else None
  | _ :: _, [] => None
  end.
(** the P of the generated name %lf3:port:P *)
Definition port_number (name : str) : option N :=
  match strip_prefix (chars "%lf3:port:") name with
  | Some ds => if all is_digit ds then Some (dec_value ds) else None
  | None => None
  end.
(** (%lf3:port:P (current-output-port)) *)
Definition stdout_binding (b : sexp) : option N :=
  match b with
  | SList [SAtom name; SList [SAtom g]] =>
      if is "current-output-port" g then port_number name else None
  | _ => None
  end.
(** the first such binding of a prelude, if any *)
Fixpoint default_port (defs : list sexp) : option N :=
  match defs with
  | [] => None
  | b :: r => match stdout_binding b with Some P => Some P | None => default_port r end
  end.
Definition plain_port (c : compiled) : option N := default_port (map erase (c_defs c)).

(** * one output as one call *)
Definition terminator_text (t : option N) : str := match t with Some ch => [ch] | None => [] end.
Definition terminator_writes (t : option N) : list str := match t with Some ch => [[ch]] | None => [] end.

(** the tag under which a target is listed in an io-map (first entry; C16c_tag: the only one) *)
Fixpoint tag_of (tbl : list (N * target)) (t : target) : option N :=
  match tbl with
  | [] => None
  | (i, t') :: r => if target_eqb t t' then Some i else tag_of r t
  end.

Definition printer_call (P : N) (o : output) : option call :=
  match o with
  | (DStdout, payload, term) =>
      Some (Crit (N.to_nat (P + 1)) (N.to_nat P) (payload :: terminator_writes term))
  | (DFile _, _, _) => None        (* no file port exists in plain mode *)
  end.
Definition bare_call (o : output) : option call :=
  match o with
  | (DStdout, payload, term) => Some (Atomic 0 (payload ++ terminator_text term))
  | (DFile _, _, _) => None
  end.
Definition framed_call (tbl : list (N * target)) (o : output) : option call :=
  let '(d, payload, term) := o in
  option_map (fun i => Crit 1 0 [payload; [30; i]]) (tag_of tbl (target_of d term)).

(** the calls of one invocation with outputs [outs]; [None]: some output has no route *)
Definition policy_calls (c : compiled) (outs : list output) : option (list call) :=
  if c_framed c then
    match c_iomap c with
    | Some tbl => all_some (map (framed_call tbl) outs)
    | None => None
    end
  else
    match plain_port c with
    | Some P => all_some (map (printer_call P) outs)
    | None => all_some (map bare_call outs)
    end.

(** the one shared port of a program and the mutex guarding it *)
Definition out_port (c : compiled) : nat :=
  if c_framed c then 0%nat
  else match plain_port c with Some P => N.to_nat P | None => 0%nat end.
Definition guard_of (c : compiled) : nat -> option nat :=
  fun p =>
    if c_framed c then (if Nat.eqb p 0 then Some 1%nat else None)
    else match plain_port c with
         | Some P => if Nat.eqb p (N.to_nat P) then Some (N.to_nat (P + 1)) else None
         | None => None
         end.

(** the record an output must arrive as: payload and terminator in plain mode, payload,
    separator 0x1e and tag in framed mode *)
Definition record_of (c : compiled) (o : output) : option str :=
  let '(d, payload, term) := o in
  if c_framed c then
    match c_iomap c with
    | Some tbl => option_map (fun i => payload ++ [30; i]) (tag_of tbl (target_of d term))
    | None => None
    end
  else Some (payload ++ terminator_text term).

(** * a scan: every thread runs the policy on its files, one after the other *)
Definition policy_outputs (h : host) (c : compiled) (f : file) : option (list output) :=
  option_map (fun r : result => snd (fst r)) (sem_policy h c f).
Definition file_calls (h : host) (c : compiled) (f : file) : option (list call) :=
  match policy_outputs h c f with Some outs => policy_calls c outs | None => None end.
Definition thread_calls (h : host) (c : compiled) (fs : list file) : option (list call) :=
  option_map (@List.concat call) (all_some (map (file_calls h c) fs)).
Definition scan_prog (h : host) (c : compiled) (files : list (list file)) : option (list (list call)) :=
  all_some (map (thread_calls h c) files).

(** the records of the invocations on the files [fs], in order *)
Definition file_records (h : host) (c : compiled) (f : file) : option (list str) :=
  match policy_outputs h c f with Some outs => all_some (map (record_of c) outs) | None => None end.
Definition files_records (h : host) (c : compiled) (fs : list file) : option (list str) :=
  option_map (@List.concat str) (all_some (map (file_records h c) fs)).
