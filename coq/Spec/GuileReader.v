(** A reader for the subset of Guile's datum syntax that the emitted programs use, written from
    the Guile manual (6.18.1 "Scheme Read", 6.6.5 "Strings", 6.6.3 "Characters") and not from the
    compiler: it shares with the model only the type [sexp] of read results.

    - white space (space, tab, LF, CR) separates data;
    - '(' and ')' delimit lists;
    - a string literal runs from a double quote to the next unescaped double quote; inside it
      every character stands for itself except the backslash, which must be followed by one of
      backslash, double quote, a b f n r t v 0 ; any other escape, and a missing closing quote,
      make the whole read fail;
    - an atom (symbol, number, #f, #t, #o777, #\x1e ...) is a maximal run of printable ASCII
      characters other than white space, parentheses, double quote and the characters refused
      below; it may contain a backslash only if it is character syntax (#\ followed by at least
      one character); the lone '.' is refused;
    - outside strings the characters  ; ' ` , | [ ] { }  as well as control and non-ASCII
      characters make the read fail (comments, quotation, |symbols| and bracket lists are outside
      the subset), and so does '(' or a double quote immediately after an atom starting with '#' (vector,
      bytevector and array syntax are outside the subset).

    Every refusal is conservative: a text accepted here is read by Guile as the same data.
    The reader is a state machine folded over the characters, so it needs no fuel. *)
From Coq Require Import List NArith Bool.
From FP Require Import Model.Chars Model.Sexp.
Import ListNotations.
Local Open Scope N_scope.

Definition is_blank (c : N) : bool := (c =? 32) || (c =? 9) || (c =? 10) || (c =? 13).

(** characters that may occur in an atom: printable ASCII except double quote and  ' ( ) , ; [ ] ` { | }  *)
Definition atom_char (c : N) : bool :=
  (33 <=? c) && (c <=? 126)
  && negb ((c =? 34) || (c =? 39) || (c =? 40) || (c =? 41) || (c =? 44) || (c =? 59)
           || (c =? 91) || (c =? 93) || (c =? 96) || (c =? 123) || (c =? 124) || (c =? 125)).

(** #\ followed by at least one character *)
Definition char_syntax (a : str) : bool :=
  match a with h :: b :: _ :: _ => (h =? 35) && (b =? 92) | _ => false end.
Definition starts_hash (a : str) : bool :=
  match a with h :: _ => h =? 35 | [] => false end.
(** whole-atom conditions: not the lone dot; a backslash only in character syntax *)
Definition atom_ok (a : str) : bool :=
  negb (str_eqb a [46]) && (negb (mem 92 a) || char_syntax a).

(** the value of the character after a backslash inside a string literal *)
Definition unescape (c : N) : option N :=
  if c =? 92 then Some 92 else if c =? 34 then Some 34
  else if c =? 97 then Some 7 else if c =? 98 then Some 8 else if c =? 102 then Some 12
  else if c =? 110 then Some 10 else if c =? 114 then Some 13 else if c =? 116 then Some 9
  else if c =? 118 then Some 11 else if c =? 48 then Some 0
  else None.

(** where the machine is: between data, inside an atom, inside a string literal, or just after a
    backslash inside a string literal (accumulated characters are kept in reverse) *)
Inductive mode := MTop | MAtom (acc : str) | MStr (acc : str) | MEsc (acc : str).

(** the rest of the state: [cur] holds the data already read at the current nesting level, most
    recent first; [stk] holds the same for each enclosing, still open, list *)
Definition config : Type := mode * list sexp * list (list sexp).

(** one character read between data *)
Definition step_top (c : N) (cur : list sexp) (stk : list (list sexp)) : option config :=
  if is_blank c then Some (MTop, cur, stk)
  else if c =? 40 then Some (MTop, [], cur :: stk)
  else if c =? 41 then
    match stk with
    | [] => None
    | outer :: stk' => Some (MTop, SList (rev cur) :: outer, stk')
    end
  else if c =? 34 then Some (MStr [], cur, stk)
  else if atom_char c then Some (MAtom [c], cur, stk)
  else None.

Definition close_atom (acc : str) (cur : list sexp) : option (list sexp) :=
  if atom_ok (rev acc) then Some (SAtom (rev acc) :: cur) else None.

Definition step (m : mode) (cur : list sexp) (stk : list (list sexp)) (c : N) : option config :=
  match m with
  | MTop => step_top c cur stk
  | MAtom acc =>
      if atom_char c then Some (MAtom (c :: acc), cur, stk)
      else if starts_hash (rev acc) && ((c =? 40) || (c =? 34)) then None
      else match close_atom acc cur with
           | Some cur' => step_top c cur' stk
           | None => None
           end
  | MStr acc =>
      if c =? 34 then Some (MTop, SStr (rev acc) :: cur, stk)
      else if c =? 92 then Some (MEsc acc, cur, stk)
      else Some (MStr (c :: acc), cur, stk)
  | MEsc acc =>
      match unescape c with
      | Some v => Some (MStr (v :: acc), cur, stk)
      | None => None
      end
  end.

(** end of input: no list and no string literal may be open *)
Definition finish_top (cur : list sexp) (stk : list (list sexp)) : option (list sexp) :=
  match stk with [] => Some (rev cur) | _ :: _ => None end.
Definition finish (m : mode) (cur : list sexp) (stk : list (list sexp)) : option (list sexp) :=
  match m with
  | MTop => finish_top cur stk
  | MAtom acc => match close_atom acc cur with Some cur' => finish_top cur' stk | None => None end
  | MStr _ | MEsc _ => None
  end.

Fixpoint run (m : mode) (cur : list sexp) (stk : list (list sexp)) (s : str) : option (list sexp) :=
  match s with
  | [] => finish m cur stk
  | c :: r =>
      match step m cur stk c with
      | Some (m', cur', stk') => run m' cur' stk' r
      | None => None
      end
  end.

(** all the data of a text, in order *)
Definition read_all (s : str) : option (list sexp) := run MTop [] [] s.
