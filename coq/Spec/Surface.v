(** Input texts AS WRITTEN: a sentence is a list of items (a primary given by its words, or an
    operator word) together with its layout — the blank strings between the words.
    [render] gives the text, [tokens_of] the token each item denotes.  Definitions only. *)
From Coq Require Import List String NArith Bool.
From FP Require Import Model.Chars Model.Ast Model.Lex Spec.Vocabulary.
Import ListNotations.
Local Open Scope N_scope.

(** * Blank strings *)
Definition blanks (b : str) : Prop := Forall Blank b.            (* possibly empty *)
Definition gap (g : str) : Prop := g <> [] /\ Forall Blank g.    (* at least one blank *)

(** * A primary as written: its words joined by gaps, one gap before each argument *)
Fixpoint weave_args (args gaps : list str) : str :=
  match args, gaps with
  | a :: args', g :: gaps' => g ++ a ++ weave_args args' gaps'
  | _, _ => []
  end.
Definition weave (ws gaps : list str) : str :=
  match ws with [] => [] | k :: args => k ++ weave_args args gaps end.
Definition gaps_for (ws gaps : list str) : Prop :=
  S (List.length gaps) = List.length ws /\ Forall gap gaps.

(** * What may stand directly after a word *)
(** after a keyword or a number: the end, a blank, or one of ( ) ! , *)
Definition at_word_end (rest : str) : Prop :=
  match rest with
  | [] => True
  | c :: _ => Blank c \/ c = lparen \/ c = rparen \/ c = bang \/ c = comma
  end.
(** after a string-like argument (string, -perm mode, type list, format): the end, a blank or
    ')' — an unquoted word runs on through ( ! and , *)
Definition at_arg_end (rest : str) : Prop :=
  match rest with [] => True | c :: _ => Blank c \/ c = rparen end.
(** the primaries whose last word is the keyword itself or a number *)
Definition self_delimiting (l : leaf) : bool :=
  match l with
  | LTest (TEmpty | TExecutable | TFalse | TNoGroup | TNoUser | TReadable | TTrue | TWritable) => true
  | LTest (TAccessTime _ | TChangeTime _ | TModifyTime _ | TGroupId _ | TInodeNumber _
          | TLinks _ | TMirrorCount _ | TStripeCount _ | TUserId _ | TSize _) => true
  | LAction (AList | APrint | APrintNull | APrintFid | APrune | AQuit) => true
  | LGlobal _ => true
  | _ => false
  end.
Definition ends_ok (l : leaf) (rest : str) : Prop :=
  if self_delimiting l then at_word_end rest else at_arg_end rest.

(** * Items and sentences *)
Inductive item :=
| IPrim (ws gaps : list str) (l : leaf)   (* the words, the gaps, and the leaf they denote *)
| IOp (o : opword).
Definition item_text (it : item) : str :=
  match it with IPrim ws gaps _ => weave ws gaps | IOp o => op_text o end.
Definition item_token (it : item) : token :=
  match it with IPrim _ _ l => KPrim l | IOp o => op_token o end.
Definition item_ok (it : item) : Prop :=
  match it with IPrim ws gaps l => Primary ws l /\ gaps_for ws gaps | IOp _ => True end.

(** a blank string before each item, and one at the end *)
Record sentence := { body : list (str * item); trail : str }.
Fixpoint render_body (b : list (str * item)) (trail : str) : str :=
  match b with
  | [] => trail
  | (sp, it) :: r => sp ++ item_text it ++ render_body r trail
  end.
Definition render (s : sentence) : str := render_body (body s) (trail s).
Definition tokens_of (s : sentence) : list token := map (fun x => item_token (snd x)) (body s).

(** [tight_ok it next]: [next] may follow [it] without a blank in between.
    After ( ) ! , anything may; after -a -and -o -or nothing may; after a primary only ')',
    and also ( ! , when the primary ends in a keyword or a number *)
Definition tight_ok (it next : item) : Prop :=
  match it with
  | IOp o => single_char o = true
  | IPrim _ _ l =>
      next = IOp ORParen \/
      (self_delimiting l = true /\ exists o, next = IOp o /\ single_char o = true)
  end.
Fixpoint layout_ok (prev : option item) (b : list (str * item)) : Prop :=
  match b with
  | [] => True
  | (sp, it) :: r =>
      blanks sp /\
      (sp = [] -> match prev with None => True | Some p => tight_ok p it end) /\
      layout_ok (Some it) r
  end.
Definition wf_sentence (s : sentence) : Prop :=
  Forall (fun x => item_ok (snd x)) (body s) /\ layout_ok None (body s) /\ blanks (trail s).

(** * The leading run of options, on the tokens of the sentence.
    [leading_toks false ts = (gs, rest)]: the leading options [gs] — each may be followed by
    an explicit AND provided a further token follows it — and the tokens [rest] that make up
    the expression.  The flag says that the previous token was an option. *)
Fixpoint leading_toks (after_opt : bool) (ts : list token) : list gopt * list token :=
  match ts with
  | KPrim (LGlobal g) :: r => let (gs, r') := leading_toks true r in (g :: gs, r')
  | KAnd :: ((_ :: _) as r) => if after_opt then leading_toks false r else ([], ts)
  | _ => ([], ts)
  end.
(** an empty expression means -true *)
Definition run_tokens (ts : list token) : list token :=
  match ts with [] => [KPrim (LTest TTrue)] | _ => ts end.
