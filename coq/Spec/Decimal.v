(** Decimal notation, stated without reference to any parser or printer of the model.
    Characters are code points ([N]); '0'..'9' are 48..57. Definitions only. *)
From Coq Require Import List NArith.
From FP Require Import Model.Chars.
Import ListNotations.
Local Open Scope N_scope.

(** a decimal digit character, and the number it denotes *)
Definition digit (c : N) : Prop := 48 <= c <= 57.
Definition digit_value (c : N) : N := c - 48.

(** every character of the string is a decimal digit (the empty string included) *)
Definition digits (ds : str) : Prop := Forall digit ds.

(** positional value: the leftmost digit of a string of k+1 digits weighs 10^k.
    Leading zeros contribute nothing; there is no bound on the length or on the value. *)
Fixpoint pos_value (ds : str) : N :=
  match ds with
  | [] => 0
  | c :: r => digit_value c * 10 ^ N.of_nat (length r) + pos_value r
  end.

(** canonical decimal form: at least one digit, and no leading '0' except for "0" itself *)
Definition canonical (ds : str) : Prop :=
  digits ds /\ ds <> [] /\ (forall r, ds = 48 :: r -> r = []).

(** the string does not begin with a character of the class [P] (the empty string qualifies) *)
Definition not_starting_with (P : N -> Prop) (s : str) : Prop :=
  match s with [] => True | c :: _ => ~ P c end.

(** an ASCII letter *)
Definition letter (c : N) : Prop := 65 <= c <= 90 \/ 97 <= c <= 122.
