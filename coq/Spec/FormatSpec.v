(** The printf mini-language of -printf / -fprintf, stated declaratively: which texts are
    directives, which are escapes, and what the segmentation of a format string into elements
    is.  Definitions only; nothing here mentions a parser.  ([chars] turns a Coq string literal
    into the list of its code points; a Coq string literal has no escapes, so "\" is the single
    character backslash.) *)
From Coq Require Import List String NArith.
From FP Require Import Model.Chars Model.Ast.
Import ListNotations.
Local Open Scope N_scope.

Definition pct : N := 37.   (* '%' *)
Definition bsl : N := 92.   (* '\' *)

(** a character that is neither '%' nor backslash *)
Definition Plain (c : N) : Prop := c <> pct /\ c <> bsl.
(** an ASCII letter *)
Definition Letter (c : N) : Prop := 65 <= c <= 90 \/ 97 <= c <= 122.
(** an octal digit, and its value *)
Definition Octal (c : N) : Prop := 48 <= c <= 55.
Definition oct (c : N) : N := c - 48.

(** * What may follow '%' *)
Definition directive_table : list (string * ffield) :=
  [ ("%", FPercent); ("a", FAccess); ("b", FDiskSizeBlocks); ("c", FChange); ("d", FDepth);
    ("D", FDeviceNumber); ("f", FBasename); ("F", FFsType); ("g", FGroup); ("G", FGroupId);
    ("h", FParents); ("H", FStartingPoint); ("i", FInodeDecimal); ("k", FDiskSizeKilos);
    ("l", FSymbolicTarget); ("m", FPermissionsOctal); ("M", FPermissionsSymbolic);
    ("n", FHardlinks); ("p", FName); ("P", FNameWithoutStartingPoint); ("s", FDiskSizeBytes);
    ("S", FSparseness); ("t", FModify); ("u", FUser); ("U", FUserId); ("y", FType);
    ("Y", FTypeSymlink); ("Z", FSecurityContext);
    ("{fid}", FFileId); ("{projid}", FProjectId); ("{mirror-count}", FMirrorCount);
    ("{stripe-count}", FStripeCount); ("{stripe-size}", FStripeSize) ]%string.

(** [Directive d f]: the text [d] (without the '%') is a directive and denotes the field [f] *)
Inductive Directive : str -> ffield -> Prop :=
| Dir_word w f : In (w, f) directive_table -> Directive (chars w) f
| Dir_A c : Directive (chars "A" ++ [c]) (FAccessFormatted c)      (* any one character *)
| Dir_C c : Directive (chars "C" ++ [c]) (FChangeFormatted c)
| Dir_T c : Directive (chars "T" ++ [c]) (FModifyFormatted c)
| Dir_xattr name : name <> [] -> Forall Letter name ->
    Directive (chars "{xattr:" ++ name ++ chars "}") (FXAttr name).

(** * What may follow a backslash *)
Definition escape_table : list (string * fspecial) :=
  [ ("\", XBackslash); ("a", XAlarm); ("b", XBackspace); ("c", XClear); ("f", XForm);
    ("n", XNewline); ("r", XCarriageReturn); ("t", XTabHorizontal); ("v", XTabVertical) ]%string.

(** [Escape1 e x rest]: the text [e] (without the backslash), when followed by [rest], is a
    proper escape denoting [x].  [rest] is only looked at, never consumed. *)
Inductive Escape1 : str -> fspecial -> str -> Prop :=
| Esc_octal a b c rest : Octal a -> Octal b -> Octal c ->
    Escape1 [a; b; c] (XAscii (oct a * 64 + oct b * 8 + oct c)) rest   (* exactly three digits *)
| Esc_null rest : (forall b c r, rest = b :: c :: r -> ~ (Octal b /\ Octal c)) ->
    Escape1 (chars "0") XNull rest               (* "0" not followed by two more octal digits *)
| Esc_word w x rest : In (w, x) escape_table -> Escape1 (chars w) x rest.

(** [Escape e x rest]: either a proper escape, or — when the text after the backslash starts
    with no proper escape — nothing at all: the backslash stands for itself *)
Definition Escape (e : str) (x : fspecial) (rest : str) : Prop :=
  Escape1 e x rest \/
  (e = [] /\ x = XBackslash /\ forall e' x' rest', rest = e' ++ rest' -> ~ Escape1 e' x' rest').

(** * Segmentation *)
(** what follows a literal: the end of the string, a '%' or a backslash *)
Definition Boundary (rest : str) : Prop := forall c r, rest = c :: r -> c = pct \/ c = bsl.

(** [Seg s es]: [s] is the concatenation of the source texts of the elements [es], in order;
    '%' starts a directive, a backslash starts an escape, and a literal is a non-empty, maximal
    run of plain characters *)
Inductive Seg : str -> format -> Prop :=
| Seg_nil : Seg [] []
| Seg_field d f rest es : Directive d f -> Seg rest es ->
    Seg (pct :: d ++ rest) (EField f :: es)
| Seg_special e x rest es : Escape e x rest -> Seg rest es ->
    Seg (bsl :: e ++ rest) (ESpecial x :: es)
| Seg_lit l rest es : l <> [] -> Forall Plain l -> Boundary rest -> Seg rest es ->
    Seg (l ++ rest) (ELit l :: es).

(** [SegErr s]: scanning [s] element by element reaches a '%' that no directive follows *)
Inductive SegErr : str -> Prop :=
| Err_here rest : (forall d f r, rest = d ++ r -> ~ Directive d f) -> SegErr (pct :: rest)
| Err_field d f rest : Directive d f -> SegErr rest -> SegErr (pct :: d ++ rest)
| Err_special e x rest : Escape e x rest -> SegErr rest -> SegErr (bsl :: e ++ rest)
| Err_plain c rest : Plain c -> SegErr rest -> SegErr (c :: rest).
