(** The find operator grammar as the textbook stratified grammar over token lists, together with
    the tree each derivation denotes:
      atom ::= primary | ! atom | ( list )        and  ::= atom | and [-a] atom
      or   ::= and | or -o and                     list ::= or | list , or
    Left-recursive rules build left-nested nodes; the parenthesis rule returns the inner tree
    (grouping leaves no node). This is "! binds tighter than AND, AND tighter than OR, OR tighter
    than ',', every binary operator associates to the left". *)
From Coq Require Import List.
From FP Require Import Model.Ast Model.Lex Model.Prec.
Import ListNotations.

Inductive GAtom : list token -> expr -> Prop :=
| GA_prim p : GAtom [KPrim p] (leaf_expr p)
| GA_not ts e : GAtom ts e -> GAtom (KNot :: ts) (ENot e)
| GA_par ts e : GList ts e -> GAtom (KLParen :: ts ++ [KRParen]) e
with GAnd : list token -> expr -> Prop :=
| GN_one ts e : GAtom ts e -> GAnd ts e
| GN_exp l r a b : GAnd l a -> GAtom r b -> GAnd (l ++ KAnd :: r) (EAnd a b)
| GN_imp l r a b : GAnd l a -> GAtom r b -> GAnd (l ++ r) (EAnd a b)
with GOr : list token -> expr -> Prop :=
| GO_one ts e : GAnd ts e -> GOr ts e
| GO_or l r a b : GOr l a -> GAnd r b -> GOr (l ++ KOr :: r) (EOr a b)
with GList : list token -> expr -> Prop :=
| GL_one ts e : GOr ts e -> GList ts e
| GL_cm l r a b : GList l a -> GOr r b -> GList (l ++ KComma :: r) (EList a b).
