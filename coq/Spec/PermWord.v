(** The parser entry point the C08 statements are about. Definitions only. *)
From Coq Require Import List String NArith Bool.
From FP Require Import Model.Chars Model.Winnow Model.Ast Model.Args Model.Perm.
Import ListNotations.

(** what [parse_perm_arg] runs on the delimited word:
    [parse_perm_arg = and_then quote_delimiter perm_word] holds by [eq_refl] (Proofs/PermProofs.v) *)
Definition perm_word (w : str) : out (permkind * N) * str :=
  terminated parse_permcheck (context (expected "invalid_permission_format") eof) w.

Definition is_ok {A} (o : out A) : bool := match o with Ok _ => true | _ => false end.

(** the input [rest] is empty or starts with a character outside the class [p] *)
Definition stops (p : N -> bool) (rest : str) : Prop :=
  match rest with [] => True | c :: _ => p c = false end.
