(** Vocabulary for stating C07 about the model: the unit letters, the ranges of the integer
    fields, and how a decimal constant is located in emitted code. Definitions only. *)
From Coq Require Import List String Ascii NArith.
From FP Require Import Model.Chars Model.Winnow Model.Ast Model.Sexp Spec.Decimal.
Import ListNotations.
Local Open Scope N_scope.

Definition ch (a : ascii) : N := N_of_ascii a.

(** the suffix letter of each size unit and of each time unit, as in find(1) *)
Definition size_letter (u : size_unit) : N :=
  match u with
  | UBlock => ch "b" | UByte => ch "c" | UWord => ch "w" | UKilo => ch "k"
  | UMega => ch "M" | UGiga => ch "G" | UTera => ch "T"
  end.
Definition time_letter (u : time_unit) : N :=
  match u with USecond => ch "s" | UMinute => ch "m" | UHour => ch "h" | UDay => ch "d" end.

(** the sign prefix of a comparison argument *)
Definition plus : N := ch "+".
Definition minus : N := ch "-".
Definition sign (c : N) : Prop := c = plus \/ c = minus.

(** [x] is an atom whose text is the canonical decimal numeral of [n] *)
Definition decimal_atom (x : lsexp) (n : N) : Prop :=
  exists a, x = LAtom a /\ canonical a /\ pos_value a = n.

(** the k-th element (from 0) of a list form, and the sub-form at a path of such indices *)
Fixpoint item (k : nat) (l : litems) : option lsexp :=
  match l, k with
  | LNil, _ => None
  | LCons _ x _, O => Some x
  | LCons _ _ r, S k' => item k' r
  end.
Definition child (k : nat) (x : lsexp) : option lsexp :=
  match x with LList l _ => item k l | _ => None end.
Fixpoint sub (path : list nat) (x : lsexp) : option lsexp :=
  match path with
  | [] => Some x
  | k :: p => match child k x with Some y => sub p y | None => None end
  end.

(** the optional sign of a comparison argument and the comparison it selects *)
Inductive prefix := PPlus | PMinus | PNone.
Definition prefix_str (p : prefix) : str :=
  match p with PPlus => [plus] | PMinus => [minus] | PNone => [] end.
Definition prefix_cmp {T} (p : prefix) (v : T) : cmp T :=
  match p with PPlus => Gt v | PMinus => Lt v | PNone => Eq v end.

(** the argument parser [d] never accepts a word that starts with a sign *)
Definition rejects_signs {T} (d : str -> out T * str) : Prop :=
  forall s w v r, sign s -> d (s :: w) <> (Ok v, r).
