(** The FINAL-TABLE reading of an emitted program (C11 / C10). Definitions only.

    Given the manager state at the END of compilation (only its tables matter), every reference
    to a matcher or a printer is resolved through those tables, and [expected_expr] rebuilds the
    policy body by structural recursion on the expression.  Nothing here mentions
    [compile_expr] or the order in which resources were first requested. *)
From Coq Require Import List String NArith Bool.
From FP Require Import Model.Chars Model.Ast Model.Sexp Model.Compile.
Import ListNotations.
Local Open Scope N_scope.

(** the three components the two managers have in common *)
Definition m_idx (m : mgr) : N := match m with ML l => l_idx l | MD d => d_idx d end.
Definition m_vars (m : mgr) : list lsexp := match m with ML l => l_vars l | MD d => d_vars d end.
Definition m_matches (m : mgr) : list ((str * bool) * N) :=
  match m with ML l => l_matches l | MD d => d_matches d end.

(** what an action writes to: destination and record terminator (None: the action writes
    nothing through a printer) *)
Definition action_target (a : action) : option target :=
  match a with
  | APrint => Some (TStdout (Some 10))
  | APrintNull => Some (TStdout (Some 0))
  | APrintFid => Some (TStdout (Some 10))
  | APrintFormatted _ => Some (TStdout None)
  | AFilePrint f => Some (TFile f (Some 10))
  | AFilePrintNull f => Some (TFile f (Some 0))
  | AFilePrintFormatted f _ => Some (TFile f None)
  | AFileList _ | AList | APrune | AQuit | ADefaultPrint => None
  end.

(** * resolution through the tables *)
Definition matcher_index (m : mgr) (pat : str) (ci : bool) : option N :=
  assoc mkey_eqb (pat, ci) (m_matches m).
Definition matcher_ref (m : mgr) (pat : str) (ci : bool) : option lsexp :=
  option_map (ident "match") (matcher_index m pat ci).

(** plain manager: the key of a printer is (port, terminator), the port being the default port
    for stdout and the port opened for the file otherwise *)
Definition l_printer_key (l : lmgr) (t : target) : option (port * option N) :=
  match t with
  | TStdout term => option_map (fun p => (p, term)) (l_default l)
  | TFile f term => option_map (fun p => (p, term)) (assoc str_eqb f (l_files l))
  end.
Definition printer_index (m : mgr) (t : target) : option N :=
  match m with
  | ML l => match l_printer_key l t with
            | Some k => assoc pkey_eqb k (l_printers l)
            | None => None
            end
  | MD d => assoc target_eqb t (d_printers d)
  end.
Definition printer_ref (m : mgr) (t : target) : option lsexp :=
  option_map (ident "print") (printer_index m t).

(** * the body the final tables call for *)
Definition expected_test (m : mgr) (t : test) (clk : list N) : option (lsexp * list N) :=
  let pure (x : lsexp) := Some (x, clk) in
  let time (field : string) c := Some (compile_time (hd 0 clk) field c, tl clk) in
  let matcher (caller : string) pat ci :=
    match matcher_ref m pat ci with
    | Some r => Some (lst [atom caller; r], clk)
    | None => None
    end in
  match t with
  | TAccessTime c => time "atime"%string c
  | TChangeTime c => time "ctime"%string c
  | TModifyTime c => time "mtime"%string c
  | TEmpty => pure (call0 "empty") | TExecutable => pure (call0 "executable")
  | TFalse => pure (atom "#f") | TTrue => pure (atom "#t")
  | TReadable => pure (call0 "readable") | TWritable => pure (call0 "writable")
  | TGroupId c => pure (cmp_field c "gid") | TInodeNumber c => pure (cmp_field c "ino")
  | TLinks c => pure (cmp_field c "nlink") | TMirrorCount c => pure (cmp_field c "lov-mirror-count")
  | TStripeCount c => pure (cmp_field c "lov-stripe-count") | TUserId c => pure (cmp_field c "uid")
  | TInsensitiveName p => matcher "call-with-name"%string p true
  | TInsensitivePath p => matcher "call-with-relative-path"%string p true
  | TName p => matcher "call-with-name"%string p false
  | TPath p => matcher "call-with-relative-path"%string p false
  | TPerm k b => pure (compile_perm k b)
  | TPool p => pure (lst [atom "member"; lstr p; call0 "lov-pools"])
  | TSize c => pure (compile_size c)
  | TType l => pure (compile_types l)
  | TXattr f => pure (lst [atom "xattr?"; lstr f])
  | TXattrMatch f v =>
      if xattr_offending f || xattr_offending v
      then pure (lst [atom "xattr-match?"; lstr f; lstr v])
      else pure (lst [atom "equal?"; lst [atom "xattr-ref-string"; lstr f]; lstr v])
  | _ => None
  end.

Definition action_format (a : action) : option format :=
  match a with
  | APrintFormatted fmt | AFilePrintFormatted _ fmt => Some fmt
  | _ => None
  end.

Definition expected_action (m : mgr) (a : action) : option lsexp :=
  match a with
  | ADefaultPrint => Some (call0 "print-relative-path")
  | AQuit => Some (lst [atom "lipe-scan-break"; num 0])
  | _ =>
    match action_target a with
    | None => None
    | Some t =>
      match printer_ref m t with
      | None => None
      | Some p =>
        match a with
        | APrintFid => Some (lst [p; call0 "file-fid"])
        | APrintFormatted fmt | AFilePrintFormatted _ fmt =>
            match compile_format fmt with COk f => Some (lst [p; f]) | _ => None end
        | _ => Some (lst [atom "call-with-relative-path"; p])
        end
      end
    end
  end.

Fixpoint expected_expr (m : mgr) (e : expr) (clk : list N) : option (lsexp * list N) :=
  let bin (op : string) a b :=
    match expected_expr m a clk with
    | Some (x, clk1) =>
        match expected_expr m b clk1 with
        | Some (y, clk2) => Some (lst [atom op; x; y], clk2)
        | None => None
        end
    | None => None
    end in
  match e with
  | ETest t => expected_test m t clk
  | EAction a => option_map (fun x => (x, clk)) (expected_action m a)
  | EAnd a b | EList a b => bin "and"%string a b
  | EOr a b => bin "or"%string a b
  | ENot a => match expected_expr m a clk with
              | Some (x, clk1) => Some (lst [atom "not"; x], clk1)
              | None => None
              end
  | EPrec _ | EGlobal _ | EPositional => None
  end.

Definition expected_body (m : mgr) (clk : list N) (e : expr) : option lsexp :=
  option_map fst (expected_expr m e clk).

(** * the bindings the table entries stand for *)
Definition plain_printer_binding (i : N) (p : port) (term : option N) : lsexp :=
  binding (ident "print" i)
    (lst [atom "make-printer"; ident "port" (p_port p); ident "mutex" (p_mutex p);
          terminator_escape term]).
Definition framed_printer_binding (i : N) : lsexp :=
  binding (ident "print" i)
    (lst [atom "lambda"; lst [atom "line"];
          lst [ident "frame" 2; atom "line"; LAtom (chars "#\x" ++ print_hex2 i)]]).
Definition default_port_binding (n : N) : lsexp :=
  binding (ident "port" n) (lst [atom "current-output-port"]).
Definition mutex_binding (n : N) : lsexp :=
  binding (ident "mutex" n) (lst [atom "make-mutex"]).

(** the destination table of a framed program: the printers table read from tag to target *)
Definition invert (tbl : list (target * N)) : list (N * target) := map (fun '(t, i) => (i, t)) tbl.

(** number of Test/Action leaves *)
Fixpoint leaves (e : expr) : N :=
  match e with
  | ETest _ | EAction _ => 1
  | EPrec a | ENot a => leaves a
  | EAnd a b | EOr a b | EList a b => leaves a + leaves b
  | EGlobal _ | EPositional => 0
  end.

(** * growth: tables, bindings and the counter only grow; existing entries never change *)
Definition prefix {A} (a b : list A) : Prop := exists r, b = a ++ r.
Definition lext (a b : lmgr) : Prop :=
  l_idx a <= l_idx b /\ prefix (l_vars a) (l_vars b) /\ prefix (l_fini a) (l_fini b)
  /\ (forall p, l_default a = Some p -> l_default b = Some p)
  /\ prefix (l_files a) (l_files b) /\ prefix (l_printers a) (l_printers b)
  /\ prefix (l_matches a) (l_matches b).
Definition dext (a b : dmgr) : Prop :=
  d_idx a <= d_idx b /\ prefix (d_vars a) (d_vars b)
  /\ prefix (d_printers a) (d_printers b) /\ prefix (d_matches a) (d_matches b).
Definition ext (m m' : mgr) : Prop :=
  match m, m' with
  | ML a, ML b => lext a b
  | MD a, MD b => dext a b
  | _, _ => False
  end.


(** * the final manager of a compilation
    (the only definition of this file that runs the compiler: it names the state whose tables
    the readings above are applied to) *)
Definition init_mgr (e : expr) : mgr := if complex_frames e then MD dmgr_init else ML lmgr_init.
Definition final_mgr (e : expr) (clk : list N) : option mgr :=
  match compile_expr (wrap e) {| st_mgr := init_mgr e; st_clock := clk |} with
  | COk (_, s) => Some (st_mgr s)
  | _ => None
  end.
