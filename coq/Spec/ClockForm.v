(** Where the compile-time clock readings sit in a compiled body.
    A time test compiles (Model/Compile.v, [compile_time]) to
        (OP (quotient (- NOW (FIELD)) SECS) N)
    with OP one of > < =, FIELD one of atime ctime mtime, and NOW, SECS, N decimal numerals.
    [time_form] recognises exactly this shape (any layout) and returns the numeral NOW;
    [clock_atoms] collects them over a whole form, left to right, not descending into a
    recognised time form; [clock_readings] decodes the numerals.  Definitions only. *)
From Coq Require Import List String NArith Bool.
From FP Require Import Model.Chars Model.Ast Model.Sexp.
Import ListNotations.
Local Open Scope N_scope.

Definition is_atom (s : string) (a : str) : bool := str_eqb a (chars s).
Definition is_cmp_atom (a : str) : bool := is_atom ">" a || is_atom "<" a || is_atom "=" a.
Definition is_time_field (a : str) : bool := is_atom "atime" a || is_atom "ctime" a || is_atom "mtime" a.

(** (- NOW (FIELD)) *)
Definition time_diff (x : lsexp) : option str :=
  match x with
  | LList (LCons _ (LAtom m) (LCons _ (LAtom now) (LCons _ (LList (LCons _ (LAtom f) LNil) _) LNil))) _ =>
      if is_atom "-" m && is_time_field f then Some now else None
  | _ => None
  end.
(** (quotient D SECS) *)
Definition time_quot (x : lsexp) : option str :=
  match x with
  | LList (LCons _ (LAtom q) (LCons _ d (LCons _ (LAtom _) LNil))) _ =>
      if is_atom "quotient" q then time_diff d else None
  | _ => None
  end.
(** (OP Q N) *)
Definition time_form (x : lsexp) : option str :=
  match x with
  | LList (LCons _ (LAtom op) r) _ =>
      if is_cmp_atom op
      then match r with
           | LCons _ q (LCons _ (LAtom _) LNil) => time_quot q
           | _ => None
           end
      else None
  | _ => None
  end.

Fixpoint clock_atoms (x : lsexp) : list str :=
  match time_form x with
  | Some now => [now]
  | None => match x with
            | LList items _ => clock_atoms_items items
            | _ => []
            end
  end
with clock_atoms_items (l : litems) : list str :=
  match l with
  | LNil => []
  | LCons _ x r => clock_atoms x ++ clock_atoms_items r
  end.

Definition clock_readings (x : lsexp) : list N := map dec_value (clock_atoms x).

(** the number of time tests of an expression *)
Fixpoint count_time_tests (e : expr) : nat :=
  match e with
  | ETest (TAccessTime _) | ETest (TChangeTime _) | ETest (TModifyTime _) => 1%nat
  | EPrec a | ENot a => count_time_tests a
  | EAnd a b | EOr a b | EList a b => (count_time_tests a + count_time_tests b)%nat
  | _ => 0%nat
  end.
