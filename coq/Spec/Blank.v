(** C04s: what "the structure of the program around the user strings" means.
    [blank] forgets the contents of every string literal and which of the four matcher
    primitives is called; [same_shape] relates two expressions that differ only in the
    characters of their user strings, with the same equality pattern among resource keys. *)
From Coq Require Import List String NArith Bool.
From FP Require Import Model.Chars Model.Ast Model.Sexp Model.Compile.
Import ListNotations.
Local Open Scope N_scope.

Definition matcher_atoms : list str :=
  [chars "streq?"; chars "streq-ci?"; chars "fnmatch?"; chars "fnmatch-ci?"].
Definition blank_atom (a : str) : str :=
  if existsb (str_eqb a) matcher_atoms then chars "MATCHER" else a.
Fixpoint blank (x : sexp) : sexp :=
  match x with
  | SAtom a => SAtom (blank_atom a)
  | SStr _ => SStr []
  | SList l => SList (map blank l)
  end.
(** the variant that keeps every atom (used when [is_pattern] is preserved) *)
Fixpoint blank_strings (x : sexp) : sexp :=
  match x with
  | SAtom a => SAtom a
  | SStr _ => SStr []
  | SList l => SList (map blank_strings l)
  end.

Definition blank_target (t : target) : target :=
  match t with TStdout x => TStdout x | TFile _ x => TFile [] x end.
Definition blank_iomap (m : option (list (N * target))) : option (list (N * target)) :=
  option_map (map (fun it => (fst it, blank_target (snd it)))) m.

(** a correspondence between the key strings of two trees that preserves and reflects equality *)
Definition key_rel (R : str -> str -> Prop) : Prop :=
  forall a b a' b', R a b -> R a' b' -> (a = a' <-> b = b').

Section Shape.
  Variable Rm : bool -> str -> str -> Prop.   (* matcher patterns, per case-insensitivity flag *)
  Variable Rf : str -> str -> Prop.           (* output file names *)

  Inductive elem_shape : felem -> felem -> Prop :=
  | ES_lit s t : elem_shape (ELit s) (ELit t)
  | ES_xattr a b : elem_shape (EField (FXAttr a)) (EField (FXAttr b))
  | ES_same el : elem_shape el el.

  Definition test_keyless (t : test) : bool :=
    match t with
    | TName _ | TInsensitiveName _ | TPath _ | TInsensitivePath _ => false
    | _ => true
    end.
  Inductive test_shape : test -> test -> Prop :=
  | TS_name p q : Rm false p q -> test_shape (TName p) (TName q)
  | TS_iname p q : Rm true p q -> test_shape (TInsensitiveName p) (TInsensitiveName q)
  | TS_path p q : Rm false p q -> test_shape (TPath p) (TPath q)
  | TS_ipath p q : Rm true p q -> test_shape (TInsensitivePath p) (TInsensitivePath q)
  | TS_pool p q : test_shape (TPool p) (TPool q)
  | TS_xattr p q : test_shape (TXattr p) (TXattr q)
  | TS_xattrmatch f v g w :
      xattr_offending f || xattr_offending v = xattr_offending g || xattr_offending w ->
      test_shape (TXattrMatch f v) (TXattrMatch g w)
  | TS_same t : test_keyless t = true -> test_shape t t.

  Definition action_keyless (a : action) : bool :=
    match a with
    | AFilePrint _ | AFilePrintNull _ | AFilePrintFormatted _ _ => false
    | _ => true
    end.
  Inductive action_shape : action -> action -> Prop :=
  | AS_fprint f g : Rf f g -> action_shape (AFilePrint f) (AFilePrint g)
  | AS_fprint0 f g : Rf f g -> action_shape (AFilePrintNull f) (AFilePrintNull g)
  | AS_fprintf f g fmt1 fmt2 : Rf f g -> Forall2 elem_shape fmt1 fmt2 ->
      action_shape (AFilePrintFormatted f fmt1) (AFilePrintFormatted g fmt2)
  | AS_printf fmt1 fmt2 : Forall2 elem_shape fmt1 fmt2 ->
      action_shape (APrintFormatted fmt1) (APrintFormatted fmt2)
  | AS_flist f g : action_shape (AFileList f) (AFileList g)
  | AS_same a : action_keyless a = true -> action_shape a a.

  Inductive expr_shape : expr -> expr -> Prop :=
  | XS_prec a b : expr_shape a b -> expr_shape (EPrec a) (EPrec b)
  | XS_not a b : expr_shape a b -> expr_shape (ENot a) (ENot b)
  | XS_and a b c d : expr_shape a b -> expr_shape c d -> expr_shape (EAnd a c) (EAnd b d)
  | XS_or a b c d : expr_shape a b -> expr_shape c d -> expr_shape (EOr a c) (EOr b d)
  | XS_list a b c d : expr_shape a b -> expr_shape c d -> expr_shape (EList a c) (EList b d)
  | XS_test t u : test_shape t u -> expr_shape (ETest t) (ETest u)
  | XS_action a b : action_shape a b -> expr_shape (EAction a) (EAction b)
  | XS_global g : expr_shape (EGlobal g) (EGlobal g)
  | XS_positional : expr_shape EPositional EPositional.
End Shape.

Definition same_shape (e1 e2 : expr) : Prop :=
  exists Rm Rf, (forall ci, key_rel (Rm ci)) /\ key_rel Rf /\ expr_shape Rm Rf e1 e2.
(** [same_shape] plus: corresponding matcher patterns agree on [is_pattern] *)
Definition same_shape_pat (e1 e2 : expr) : Prop :=
  exists Rm Rf, (forall ci, key_rel (Rm ci)) /\ key_rel Rf
    /\ (forall ci p q, Rm ci p q -> is_pattern p = is_pattern q)
    /\ expr_shape Rm Rf e1 e2.

(** what agrees between the two compiled programs, for a blanking function [bl] *)
Definition same_structure_by (bl : sexp -> sexp) (c1 c2 : compiled) : Prop :=
  bl (erase (c_body c1)) = bl (erase (c_body c2))
  /\ map (fun d => bl (erase d)) (c_defs c1) = map (fun d => bl (erase d)) (c_defs c2)
  /\ c_framed c1 = c_framed c2
  /\ c_init c1 = c_init c2 /\ c_fini c1 = c_fini c2 /\ c_threads c1 = c_threads c2
  /\ blank_iomap (c_iomap c1) = blank_iomap (c_iomap c2).

(** * The same hypothesis stated by positions *)
(** the resource keys of a tree in traversal order *)
Definition test_mkeys (t : test) : list (str * bool) :=
  match t with
  | TName p | TPath p => [(p, false)]
  | TInsensitiveName p | TInsensitivePath p => [(p, true)]
  | _ => []
  end.
Definition action_fkeys (a : action) : list str :=
  match a with
  | AFilePrint f | AFilePrintNull f | AFilePrintFormatted f _ => [f]
  | _ => []
  end.
Fixpoint mkeys (e : expr) : list (str * bool) :=
  match e with
  | EPrec a | ENot a => mkeys a
  | EAnd a b | EOr a b | EList a b => mkeys a ++ mkeys b
  | ETest t => test_mkeys t
  | _ => []
  end.
Fixpoint fkeys (e : expr) : list str :=
  match e with
  | EPrec a | ENot a => fkeys a
  | EAnd a b | EOr a b | EList a b => fkeys a ++ fkeys b
  | EAction a => action_fkeys a
  | _ => []
  end.
(** key i = key j in the first list iff in the second *)
Definition same_pattern {A} (l1 l2 : list A) : Prop :=
  forall i j a a' b b',
    nth_error l1 i = Some a -> nth_error l1 j = Some a' ->
    nth_error l2 i = Some b -> nth_error l2 j = Some b' -> (a = a' <-> b = b').
(** identical trees except for the contents of user strings (and the xattr-match? condition) *)
Definition same_skeleton (e1 e2 : expr) : Prop := expr_shape (fun _ _ _ => True) (fun _ _ => True) e1 e2.
Definition same_shape_pos (e1 e2 : expr) : Prop :=
  same_skeleton e1 e2 /\ same_pattern (mkeys e1) (mkeys e2) /\ same_pattern (fkeys e1) (fkeys e2).
