(** What Guile's (format #f template arg ...) does with the characters of a template, as far as
    C04 needs it (Guile manual 7.10 "Formatted Output"): a tilde introduces a directive, except
    that tilde tilde stands for one literal tilde; every other character is copied to the output.
    (Directive parameters are not modelled: the first character after the tilde is taken as the
    directive.  The theorems only ever state that NO directive is found.) *)
From Coq Require Import List NArith Bool.
From FP Require Import Model.Chars.
Import ListNotations.
Local Open Scope N_scope.

Inductive ftok :=
| FChar (c : N)      (* copied to the output *)
| FDir (c : N).      (* a directive consuming an argument or producing other output *)

(** [None]: the template ends in the middle of a directive *)
Fixpoint format_tokens (s : str) : option (list ftok) :=
  match s with
  | [] => Some []
  | c :: r =>
      if c =? 126 then
        match r with
        | [] => None
        | d :: r' => option_map (cons (if d =? 126 then FChar 126 else FDir d)) (format_tokens r')
        end
      else option_map (cons (FChar c)) (format_tokens r)
  end.

(** the text printed for a template without directives: doubled tildes become single *)
Fixpoint format_literal_value (s : str) : str :=
  match s with
  | [] => []
  | c :: r =>
      if c =? 126 then
        match r with
        | [] => [c]
        | d :: r' => if d =? 126 then 126 :: format_literal_value r' else c :: format_literal_value r
        end
      else c :: format_literal_value r
  end.
