(** Vocabulary of C18q: "the message never quotes text that does not occur in the input".
    Definitions only. *)
From Coq Require Import List String NArith Bool.
From FP Require Import Model.Chars.
Import ListNotations.
Local Open Scope N_scope.

(** the back-quote ` is code point 96 *)
Definition no_backquote (t : str) : Prop := forallb (fun c => negb (c =? 96)) t = true.

(** the thirteen descriptions error.rs has a text for *)
Definition explain_keys : list string :=
  [ "file_and_format"; "attribute_and_value"; "invalid_comparison"; "invalid_format_specifier";
    "invalid_permission_format"; "invalid_size_specifier"; "invalid_type_specifier";
    "invalid_time_specifier"; "symbolic_permission_level"; "symbolic_permission_symbol";
    "unsigned_integer"; "unsupported_option"; "string" ]%string.
