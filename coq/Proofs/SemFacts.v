(** Unfolding equations for the specification of the emitted forms (Spec/SchemeSem.v), and the
    arithmetic that relates what the code computes to what the find semantics says. *)
From Coq Require Import List String NArith ZArith Bool Lia ZifyBool ZifyN.
From FP Require Import Model.Chars Model.Ast Model.Sexp Model.Compile
  Spec.Decimal Spec.Chmod Spec.FileRecord Spec.FindSem Spec.SchemeSem Spec.SchemeEnv Proofs.Numbers.
Import ListNotations.
Local Open Scope N_scope.

(** * Erasure of the builders *)
Lemma erase_items_sep : forall sep l, erase_items (items_sep sep l) = map erase l.
Proof. intros sep l. induction l as [|x l IH]; cbn [items_sep erase_items map]; [|rewrite IH]; reflexivity. Qed.

Lemma erase_items_app : forall a b, erase_items (items_app a b) = erase_items a ++ erase_items b.
Proof.
  intros a b. induction a as [|ws x r IH]; cbn [items_app erase_items app]; [|rewrite IH]; reflexivity.
Qed.

Lemma erase_lst : forall l, erase (lst l) = SList (map erase l).
Proof.
  intros [|x l]; unfold lst; cbn [erase erase_items map]; [reflexivity|].
  rewrite erase_items_sep. reflexivity.
Qed.

Lemma erase_atom : forall s, erase (atom s) = SAtom (chars s).
Proof. reflexivity. Qed.
Lemma erase_ident : forall kind n, erase (ident kind n) = SAtom (idname kind n).
Proof. reflexivity. Qed.
Lemma erase_num : forall n, erase (num n) = SAtom (print_dec n).
Proof. reflexivity. Qed.
Lemma erase_call0 : forall g, erase (call0 g) = SList [SAtom (chars g)].
Proof. reflexivity. Qed.
Lemma erase_lstr : forall u, erase (lstr u) = SStr u.
Proof. intros u. unfold lstr. cbn [erase flat_map piece_value]. rewrite app_nil_r. reflexivity. Qed.

(** * Integer literals *)
Lemma digits_forallb : forall a, digits a -> forallb is_digit a = true.
Proof.
  intros a H. induction H as [|c a Hc Ha IH]; cbn [forallb]; [reflexivity|].
  rewrite IH. apply is_digit_true in Hc. rewrite Hc. reflexivity.
Qed.

Lemma int_literal_digits : forall a, a <> [] -> digits a -> int_literal a = Some (Z.of_N (dec_value a)).
Proof.
  intros a Hne Hd. pose proof (digits_forallb a Hd) as Hf.
  assert (Hall : all is_digit a = true) by (destruct a; [contradiction|exact Hf]).
  unfold int_literal. destruct a as [|c r]; [contradiction|].
  assert (Hc : c <> 35).
  { inversion Hd as [|c' r' Hc Hr]; subst. unfold digit in Hc. lia. }
  destruct (N.eq_dec c 35) as [->|_]; [contradiction|].
  destruct c as [|p]; [rewrite Hall; reflexivity|].
  do 6 (destruct p as [p|p|]; try (rewrite Hall; reflexivity)); contradiction Hc; reflexivity.
Qed.

Lemma int_literal_print_dec : forall n, int_literal (print_dec n) = Some (Z.of_N n).
Proof.
  intros n. rewrite int_literal_digits; [|apply print_dec_nonempty|apply print_dec_digits].
  rewrite dec_value_pos_value_all, print_dec_value. reflexivity.
Qed.

(** * Numeric forms *)
Lemma sem_num_num : forall n f, sem_num (erase (num n)) f = Some (Z.of_N n).
Proof. intros n f. rewrite erase_num. cbn [sem_num]. apply int_literal_print_dec. Qed.

Lemma sem_num_field : forall g f, sem_num (SList [SAtom g]) f = option_map Z.of_N (num_field g f).
Proof. reflexivity. Qed.

Lemma sem_num_bin : forall op a b f,
  sem_num (SList [SAtom op; a; b]) f
  = match sem_num a f, sem_num b f with Some u, Some v => arith op u v | _, _ => None end.
Proof. reflexivity. Qed.

(** * Boolean forms *)
Section WithHost.
Variable h : host.

Definition conj_list (e : env) (f : file) : list sexp -> option result :=
  fix conj (l : list sexp) : option result :=
    match l with
    | [] => pure true
    | a :: r => match r with
                | [] => sem_bool h e a f
                | _ => then_if true (sem_bool h e a f) (conj r)
                end
    end.
Definition disj_list (e : env) (f : file) : list sexp -> option result :=
  fix disj (l : list sexp) : option result :=
    match l with
    | [] => pure false
    | a :: r => match r with
                | [] => sem_bool h e a f
                | _ => then_if false (sem_bool h e a f) (disj r)
                end
    end.

Lemma sem_bool_and : forall e args f,
  sem_bool h e (SList (SAtom (chars "and") :: args)) f = conj_list e f args.
Proof. reflexivity. Qed.
Lemma sem_bool_or : forall e args f,
  sem_bool h e (SList (SAtom (chars "or") :: args)) f = disj_list e f args.
Proof. reflexivity. Qed.
Lemma sem_bool_not : forall e a f,
  sem_bool h e (SList [SAtom (chars "not"); a]) f = option_map negate (sem_bool h e a f).
Proof. reflexivity. Qed.

Lemma sem_bool_and2 : forall e a b f,
  sem_bool h e (SList [SAtom (chars "and"); a; b]) f
  = then_if true (sem_bool h e a f) (sem_bool h e b f).
Proof. reflexivity. Qed.
Lemma sem_bool_or2 : forall e a b f,
  sem_bool h e (SList [SAtom (chars "or"); a; b]) f
  = then_if false (sem_bool h e a f) (sem_bool h e b f).
Proof. reflexivity. Qed.

Lemma then_if_and : forall ra rb, then_if true (Some ra) (Some rb) = Some (seq_and ra rb).
Proof. intros [[b o] q] [[b' o'] q']. destruct b; reflexivity. Qed.
Lemma then_if_or : forall ra rb, then_if false (Some ra) (Some rb) = Some (seq_or ra rb).
Proof. intros [[b o] q] [[b' o'] q']. destruct b; reflexivity. Qed.
Lemma negate_neg : forall r, negate r = neg r.
Proof. reflexivity. Qed.

(** a comparison form *)
Lemma sem_bool_cmp : forall T (c : cmp T) e a b f,
  sem_bool h e (SList [SAtom (chars (cmp_op c)); a; b]) f
  = match sem_num a f, sem_num b f with
    | Some u, Some v => pure (cmp_rel c u v)
    | _, _ => None
    end.
Proof. intros T [v|v|v] e a b f; reflexivity. Qed.

(** a form whose head is neither a connective nor a comparison *)
Lemma sem_bool_leaf : forall e g args f,
  is "and" g = false -> is "or" g = false -> is "not" g = false ->
  sem_bool h e (SList (SAtom g :: args)) f = sem_leaf h e g args f.
Proof. intros e g args f H1 H2 H3. cbn [sem_bool]. rewrite H1, H2, H3. reflexivity. Qed.

End WithHost.

(** * Arithmetic *)
Lemma land_of_N : forall a b, Z.land (Z.of_N a) (Z.of_N b) = Z.of_N (N.land a b).
Proof. intros [|p] [|q]; reflexivity. Qed.

Lemma ceil_div_add : forall x u, 0 < u -> (x + u - 1) / u = ceil_div x u.
Proof.
  intros x u Hu. unfold ceil_div.
  pose proof (N.div_mod x u ltac:(lia)) as Hx.
  pose proof (N.mod_lt x u ltac:(lia)) as Hr.
  destruct (x mod u =? 0) eqn:E.
  - symmetry. apply (N.div_unique _ _ _ (u - 1)); lia.
  - symmetry. apply (N.div_unique _ _ _ (x mod u - 1)); lia.
Qed.

Lemma ceil_div_one : forall x, ceil_div x 1 = x.
Proof. intros x. unfold ceil_div. rewrite N.div_1_r, N.mod_1_r. cbn. lia. Qed.

Lemma round_up_ceil : forall x u, 0 < u ->
  round_up (Z.of_N x) (Z.of_N u) = Some (Z.of_N (ceil_div x u) * Z.of_N u)%Z.
Proof.
  intros x u Hu. unfold round_up.
  assert (Hc : ((0 <=? Z.of_N x) && (0 <? Z.of_N u))%Z = true) by lia.
  rewrite Hc. f_equal. f_equal.
  rewrite <- (ceil_div_add x u Hu). rewrite N2Z.inj_div. f_equal. lia.
Qed.

Lemma cmp_rel_scale : forall T (c : cmp T) a n u, (0 < u)%Z ->
  cmp_rel c (a * u) (n * u) = cmp_rel c a n.
Proof.
  intros T c a n u Hu. destruct c as [v|v|v]; cbn [cmp_rel].
  - destruct (Z.ltb_spec n a), (Z.ltb_spec (n * u) (a * u)); try reflexivity; nia.
  - destruct (Z.ltb_spec a n), (Z.ltb_spec (a * u) (n * u)); try reflexivity; nia.
  - destruct (Z.eqb_spec a n), (Z.eqb_spec (a * u) (n * u)); try reflexivity; nia.
Qed.

Lemma quot_ceil2 : forall b, Z.quot (Z.of_N b + 1) 2 = Z.of_N (ceil_div b 2).
Proof.
  intros b. rewrite <- (ceil_div_add b 2) by lia.
  rewrite N2Z.inj_quot. f_equal. lia.
Qed.

Lemma unit_seconds_secs : forall u, unit_seconds u = Z.of_N (time_secs u).
Proof. intros []; reflexivity. Qed.
Lemma unit_bytes_mult : forall u, unit_bytes u = size_mult u.
Proof. intros []; reflexivity. Qed.
Lemma type_bits_filetype : forall t, type_bits t = filetype_bits t.
Proof. intros []; reflexivity. Qed.
Lemma xattr_special_offending : forall s, xattr_special s = xattr_offending s.
Proof. reflexivity. Qed.
Lemma plain_not_pattern : forall p, plain_pattern p = negb (is_pattern p).
Proof. reflexivity. Qed.
