(** The argument parsers accept every word of the argument languages of Spec/Vocabulary.v with
    the value the word denotes, and leave exactly what follows the word. *)
From Coq Require Import List String Ascii NArith Bool Arith Lia ZifyBool ZifyN.
From FP Require Import Model.Chars Model.Winnow Model.Ast Model.Args Model.Perm Model.Format Model.Lex.
From FP Require Import Spec.Decimal Spec.Numeric Spec.Chmod Spec.PermWord Spec.FormatSpec.
From FP Require Import Spec.Vocabulary Spec.Surface.
From FP Require Import Proofs.WinnowFacts Proofs.Numbers Proofs.PermProofs Proofs.FormatSeg.
Import ListNotations.
Local Open Scope N_scope.

(** * Characters *)
Lemma Blank_space c : Blank c -> is_space c = true.
Proof. intros [H|[H|[H|H]]]; subst c; reflexivity. Qed.
Lemma space_Blank c : is_space c = true -> Blank c.
Proof. unfold is_space, Blank. intros H. lia. Qed.
Lemma blanks_forallb b : blanks b -> forallb is_space b = true.
Proof.
  intros H. induction H as [|c b Hc _ IH]; [reflexivity|].
  cbn [forallb]. rewrite (Blank_space c Hc). exact IH.
Qed.

(** the head of a non-empty word is not a blank *)
Definition nonblank_head (w : str) : Prop :=
  match w with [] => False | c :: _ => is_space c = false end.
Lemma nonblank_stops w rest : nonblank_head w -> stops is_space (w ++ rest).
Proof. destruct w as [|c w]; cbn; [intros []|intros H; exact H]. Qed.

Lemma multispace1_gap g i : gap g -> stops is_space i -> multispace1 (g ++ i) = (Ok g, i).
Proof.
  intros [Hne Hb] Hs. unfold multispace1. apply take_while_app.
  - apply blanks_forallb. exact Hb.
  - exact Hs.
  - destruct g as [|c g]; [congruence|cbn [List.length]; lia].
Qed.
Lemma multispace0_blanks b i : blanks b -> stops is_space i -> multispace0 (b ++ i) = (Ok b, i).
Proof.
  intros Hb Hs. unfold multispace0. apply take_while_app.
  - apply blanks_forallb. exact Hb.
  - exact Hs.
  - lia.
Qed.
Lemma multispace1_stop i : stops is_space i -> multispace1 i = (Back [], i).
Proof. intros H. unfold multispace1. apply take_while_stop; [lia|exact H]. Qed.

Lemma multispace1_head c r : is_space c = true -> exists a b, multispace1 (c :: r) = (Ok a, b).
Proof.
  intros H. unfold multispace1, take_while. cbn [span]. rewrite H.
  destruct (span is_space r) as [a b]. exists (c :: a), b. reflexivity.
Qed.

(** * [word_end] *)
Lemma at_arg_word_end rest : at_arg_end rest -> at_word_end rest.
Proof. destruct rest as [|c r]; cbn; [auto|]. intros [H|H]; auto. Qed.

Lemma word_end_ok i : at_word_end i -> word_end i = (Ok tt, i).
Proof.
  intros H. unfold word_end, peek. f_equal. rewrite alt_cons.
  destruct i as [|c r].
  - reflexivity.
  - cbn [at_word_end] in H. destruct H as [H|H].
    + destruct (multispace1_head c r (Blank_space c H)) as [a [b E]].
      unfold value, pmap. rewrite E. reflexivity.
    + assert (Hs : is_space c = false) by (unfold lparen, rparen, bang, comma in H; unfold is_space; lia).
      unfold value at 1, pmap at 1. rewrite (multispace1_stop (c :: r) Hs).
      rewrite alt_cons. cbn [eof]. cbn [alt].
      unfold value, pmap, one_of.
      assert (Hm : in_str "()!," c = true).
      { unfold lparen, rparen, bang, comma in H. destruct H as [H|[H|[H|H]]]; subst c; reflexivity. }
      rewrite Hm. reflexivity.
Qed.

Lemma gap_word_end g i : gap g -> at_word_end (g ++ i).
Proof.
  intros [Hne Hb]. destruct g as [|c g]; [congruence|]. cbn. left. inversion Hb; assumption.
Qed.
Lemma gap_arg_end g i : gap g -> at_arg_end (g ++ i).
Proof.
  intros [Hne Hb]. destruct g as [|c g]; [congruence|]. cbn. left. inversion Hb; assumption.
Qed.

Lemma word_end_no_digit rest : at_word_end rest -> not_starting_with digit rest.
Proof.
  destruct rest as [|c r]; cbn; [auto|]. unfold Blank, lparen, rparen, bang, comma, digit. lia.
Qed.
Lemma word_end_no_letter rest : at_word_end rest -> not_starting_with letter rest.
Proof.
  destruct rest as [|c r]; cbn; [auto|]. unfold Blank, lparen, rparen, bang, comma, letter. lia.
Qed.

(** * [accepts p E w v]: on the word [w] followed by anything [E] allows, [p] returns [v] and
    stops exactly after [w] *)
Definition accepts {A} (p : sparser A) (E : str -> Prop) (w : str) (v : A) : Prop :=
  nonblank_head w /\ forall rest, E rest -> p (w ++ rest) = (Ok v, rest).

Lemma accepts_weaken {A} (p : sparser A) (E E' : str -> Prop) w v :
  (forall r, E' r -> E r) -> accepts p E w v -> accepts p E' w v.
Proof. intros HE [H1 H2]. split; [exact H1|]. intros rest Hr. apply H2, HE, Hr. Qed.

(** * Strings *)
Lemma until_app c v rest : ~ In c v -> until_ c (v ++ c :: rest) = Some (v, c :: rest).
Proof.
  induction v as [|d v IH]; intros Hn; cbn [app until_].
  - rewrite N.eqb_refl. reflexivity.
  - destruct (N.eqb_spec d c) as [E|E].
    + exfalso. apply Hn. left. exact E.
    + rewrite IH; [reflexivity|]. intros Hin. apply Hn. right. exact Hin.
Qed.

Lemma delimited_hit q (s : string) v rest : chars s = [q] -> ~ In q v ->
  delimited (literal s) (take_until0 q) (literal s) (q :: v ++ q :: rest) = (Ok v, rest).
Proof.
  intros Hs Hn. unfold delimited, preceded, terminated, bind, pmap.
  rewrite (literal1_hit q s _ Hs). unfold take_until0. rewrite (until_app q v rest Hn).
  rewrite (literal1_hit q s _ Hs). reflexivity.
Qed.
Lemma delimited_miss q (s : string) i : chars s = [q] -> stops (N.eqb q) i ->
  delimited (literal s) (take_until0 q) (literal s) i = (Back [], i).
Proof.
  intros Hs Hn. unfold delimited, preceded, bind. rewrite (literal1_miss q s i Hs Hn). reflexivity.
Qed.

Lemma BareChar_bare c : BareChar c -> bare_char c = true.
Proof. unfold BareChar, Blank, rparen, bare_char. intros H. lia. Qed.
Lemma BareChar_nonblank c : BareChar c -> is_space c = false.
Proof. unfold BareChar, Blank, is_space. intros H. lia. Qed.
Lemma arg_end_stops_bare rest : at_arg_end rest -> stops bare_char rest.
Proof.
  destruct rest as [|c r]; cbn; [auto|]. unfold Blank, rparen, bare_char. intros H. lia.
Qed.

Lemma word_nonblank w v : WordArg w v -> nonblank_head w.
Proof.
  intros H. destruct H as [v Hne Hb Hq|v Hn|v Hn].
  - destruct v as [|c v]; [congruence|]. cbn. apply BareChar_nonblank. inversion Hb; assumption.
  - reflexivity.
  - reflexivity.
Qed.

Lemma quote_delimiter_word w v rest :
  WordArg w v -> at_arg_end rest -> quote_delimiter (w ++ rest) = (Ok v, rest).
Proof.
  intros H Hr. destruct H as [v Hne Hb Hq|v Hn|v Hn].
  - apply quote_delimiter_bare.
    + exact Hne.
    + clear Hne Hq. induction Hb as [|c v Hc _ IH]; [reflexivity|].
      cbn [forallb]. rewrite (BareChar_bare c Hc). exact IH.
    + apply arg_end_stops_bare. exact Hr.
    + destruct v as [|c v]; [exact I|]. cbn in Hq |- *. unfold Quote, dquote, squote in Hq. lia.
  - unfold squote in *. unfold quote_delimiter. rewrite alt_cons.
    change ((39 :: v ++ [39]) ++ rest) with (39 :: (v ++ [39]) ++ rest).
    rewrite <- app_assoc. cbn [app].
    rewrite (delimited_miss 34 """" _ eq_refl) by reflexivity.
    rewrite alt_cons.
    rewrite (delimited_hit 39 "'" v rest eq_refl Hn). reflexivity.
  - unfold dquote in *. unfold quote_delimiter. rewrite alt_cons.
    change ((34 :: v ++ [34]) ++ rest) with (34 :: (v ++ [34]) ++ rest).
    rewrite <- app_assoc. cbn [app].
    rewrite (delimited_hit 34 """" v rest eq_refl Hn). reflexivity.
Qed.

Lemma string_accepts w v : WordArg w v -> accepts parse_string at_arg_end w v.
Proof.
  intros H. split; [exact (word_nonblank w v H)|]. intros rest Hr.
  unfold parse_string. apply context_ok. apply quote_delimiter_word; assumption.
Qed.

Lemma ctx_accepts {A} x (p : sparser A) E w v : accepts p E w v -> accepts (context x p) E w v.
Proof. intros [H1 H2]. split; [exact H1|]. intros rest Hr. apply context_ok. apply H2, Hr. Qed.

(** * Counts and comparisons *)
Definition digit_head (w : str) : Prop := match w with [] => False | c :: _ => digit c end.
Lemma digit_head_nonblank w : digit_head w -> nonblank_head w.
Proof. destruct w as [|c w]; cbn; [auto|]. unfold digit, is_space. intros H. lia. Qed.
Lemma digits_head ds : digits ds -> ds <> [] -> digit_head ds.
Proof. intros H Hne. destruct ds as [|c ds]; [congruence|]. cbn. inversion H; assumption. Qed.
Lemma digit_head_app w x : digit_head w -> digit_head (w ++ x).
Proof. destruct w as [|c w]; cbn; [intros []|intros H; exact H]. Qed.
Lemma digit_head_no_sign w : digit_head w -> not_starting_with sign w.
Proof.
  destruct w as [|c w]; cbn; [auto|]. unfold digit, sign, plus, minus, ch. cbn. intros H. lia.
Qed.

Lemma count_accepts bound w n : Count bound w n -> accepts (parse_uint bound) at_word_end w n.
Proof.
  intros (Hd & Hne & Hv & Hb). split.
  - apply digit_head_nonblank, digits_head; assumption.
  - intros rest Hr. subst n. apply parse_uint_in_range; try assumption.
    apply word_end_no_digit. exact Hr.
Qed.
Lemma count_digit_head bound w n : Count bound w n -> digit_head w.
Proof. intros (Hd & Hne & _). apply digits_head; assumption. Qed.

Lemma cmp_accepts {T} (Inner : str -> T -> Prop) (d : sparser T) E w c :
  (forall w v, Inner w v -> digit_head w /\ accepts d E w v) ->
  CmpArg Inner w c -> accepts (parse_cmp d) E w c.
Proof.
  intros HI H. destruct H as [p w v Hw]. destruct (HI w v Hw) as [Hh [Hnb Hacc]]. split.
  - destruct p; cbn; try reflexivity. exact Hnb.
  - intros rest Hr. rewrite <- app_assoc. apply parse_cmp_prefix_ok.
    + apply digit_head_no_sign, digit_head_app, Hh.
    + apply Hacc, Hr.
Qed.

Lemma cmp_count_accepts bound w c :
  CmpArg (Count bound) w c -> accepts (parse_cmp (parse_uint bound)) at_word_end w c.
Proof.
  apply cmp_accepts. intros w' v Hc. split; [exact (count_digit_head _ _ _ Hc)|].
  apply count_accepts. exact Hc.
Qed.

(** * Sizes and times *)
Lemma size_accepts w v : SizeArg w v -> digit_head w /\ accepts parse_size at_word_end w v.
Proof.
  intros H. destruct H as [ds n u (Hd & Hne & Hv & Hb)|ds n (Hd & Hne & Hv & Hb)].
  - split; [apply digit_head_app, digits_head; assumption|]. split.
    + apply digit_head_nonblank, digit_head_app, digits_head; assumption.
    + intros rest Hr. rewrite <- app_assoc. cbn [app]. rewrite parse_size_unit by assumption.
      subst n. apply N.ltb_lt in Hb. rewrite Hb. reflexivity.
  - split; [apply digits_head; assumption|]. split.
    + apply digit_head_nonblank, digits_head; assumption.
    + intros rest Hr. rewrite parse_size_plain; try assumption.
      * subst n. apply N.ltb_lt in Hb. rewrite Hb. reflexivity.
      * apply word_end_no_digit, Hr.
      * apply word_end_no_letter, Hr.
Qed.

Lemma time_accepts dflt w v :
  TimeArg dflt w v -> digit_head w /\ accepts (parse_time dflt) at_word_end w v.
Proof.
  intros H. destruct H as [ds n u (Hd & Hne & Hv & Hb)|ds n (Hd & Hne & Hv & Hb)].
  - split; [apply digit_head_app, digits_head; assumption|]. split.
    + apply digit_head_nonblank, digit_head_app, digits_head; assumption.
    + intros rest Hr. rewrite <- app_assoc. cbn [app]. rewrite parse_time_unit by assumption.
      subst n. apply N.ltb_lt in Hb. rewrite Hb. reflexivity.
  - split; [apply digits_head; assumption|]. split.
    + apply digit_head_nonblank, digits_head; assumption.
    + intros rest Hr. rewrite parse_time_plain; try assumption.
      * subst n. apply N.ltb_lt in Hb. rewrite Hb. reflexivity.
      * apply word_end_no_digit, Hr.
      * apply word_end_no_letter, Hr.
Qed.

(** * Type lists *)
Lemma type_letter_alpha t : is_alpha (type_letter t) = true.
Proof. destruct t; reflexivity. Qed.
Lemma type_letter_of t : in_str "bcdpfls" (type_letter t) = true /\ filetype_of (type_letter t) = t.
Proof. destruct t; split; reflexivity. Qed.

Lemma parse_filetype_letter t rest :
  stops is_alpha rest -> parse_filetype (type_letter t :: rest) = (Ok t, rest).
Proof.
  intros Hs. unfold parse_filetype. rewrite alt_cons.
  assert (E : take_while 2 is_alpha (type_letter t :: rest) = (Back [], type_letter t :: rest)).
  { unfold take_while. change (type_letter t :: rest) with ([type_letter t] ++ rest).
    rewrite PermProofs.span_app; [reflexivity| |exact Hs].
    cbn [forallb]. rewrite type_letter_alpha. reflexivity. }
  unfold and_then at 1. rewrite E. rewrite alt_cons.
  destruct (type_letter_of t) as [H1 H2].
  unfold pmap, one_of. rewrite H1, H2. reflexivity.
Qed.

Lemma arg_end_stops_alpha rest : at_arg_end rest -> stops is_alpha rest.
Proof.
  destruct rest as [|c r]; cbn; [auto|]. unfold Blank, rparen.
  intros [[H|[H|[H|H]]]|H]; subst c; reflexivity.
Qed.
Lemma arg_end_stops_comma rest : at_arg_end rest -> stops (N.eqb 44) rest.
Proof.
  destruct rest as [|c r]; cbn [at_arg_end stops]; [auto|]. unfold Blank, rparen.
  intros [[H|[H|[H|H]]]|H]; subst c; reflexivity.
Qed.

Lemma typelist_length w ts : TypeList w ts -> (List.length ts <= List.length w)%nat.
Proof. intros H. induction H as [t|t w ts _ IH]; cbn [List.length]; lia. Qed.

Lemma sep_fuel_stop fuel rest : at_arg_end rest -> (0 < fuel)%nat ->
  sep_fuel slen fuel parse_filetype (literal ",") rest = (Ok [], rest).
Proof.
  intros Hr Hf. destruct fuel as [|n]; [lia|]. cbn [sep_fuel].
  rewrite (literal1_miss 44 "," rest eq_refl (arg_end_stops_comma rest Hr)). reflexivity.
Qed.

Lemma sep_fuel_types w ts : TypeList w ts -> forall fuel rest,
  at_arg_end rest -> (List.length ts < fuel)%nat ->
  sep_fuel slen fuel parse_filetype (literal ",") (44 :: w ++ rest) = (Ok ts, rest).
Proof.
  intros H. induction H as [t|t w ts _ IH]; intros fuel rest Hr Hf.
  - destruct fuel as [|n]; [cbn in Hf; lia|]. cbn [sep_fuel].
    rewrite (literal1_hit 44 "," _ eq_refl).
    destruct (Nat.leb_spec (slen (44 :: [type_letter t] ++ rest)) (slen ([type_letter t] ++ rest)))
      as [Hle|_]; [cbn in Hle; lia|].
    cbn [app]. rewrite (parse_filetype_letter t rest (arg_end_stops_alpha rest Hr)).
    rewrite sep_fuel_stop; [reflexivity|exact Hr|cbn in Hf; lia].
  - destruct fuel as [|n]; [cbn in Hf; lia|]. cbn [sep_fuel].
    rewrite (literal1_hit 44 "," _ eq_refl).
    destruct (Nat.leb_spec (slen (44 :: (type_letter t :: comma :: w) ++ rest))
                           (slen ((type_letter t :: comma :: w) ++ rest)))
      as [Hle|_]; [cbn in Hle; lia|].
    cbn [app]. rewrite parse_filetype_letter by reflexivity.
    unfold comma. rewrite IH; [reflexivity|exact Hr|cbn in Hf; lia].
Qed.

Lemma types_accepts w ts : TypeList w ts -> accepts parse_filetypes at_arg_end w ts.
Proof.
  intros H. split.
  - destruct H as [t|t w ts _]; destruct t; reflexivity.
  - intros rest Hr. unfold parse_filetypes, separated1. destruct H as [t|t w ts H].
    + cbn [app]. rewrite (parse_filetype_letter t rest (arg_end_stops_alpha rest Hr)).
      rewrite sep_fuel_stop; [reflexivity|exact Hr|lia].
    + cbn [app]. rewrite parse_filetype_letter by reflexivity.
      unfold comma. rewrite (sep_fuel_types w ts H); [reflexivity|exact Hr|].
      pose proof (typelist_length w ts H). cbn [slen List.length]. rewrite app_length. lia.
Qed.

(** * -perm and format arguments: a string word whose value is in the inner language *)
Lemma and_then_word {A} (inner : sparser A) w v a :
  WordArg w v -> inner v = (Ok a, []) -> accepts (and_then quote_delimiter inner) at_arg_end w a.
Proof.
  intros Hw Hi. split; [exact (word_nonblank w v Hw)|]. intros rest Hr.
  unfold and_then. rewrite (quote_delimiter_word w v rest Hw Hr). rewrite Hi. reflexivity.
Qed.

Lemma perm_accepts w v k b :
  WordArg w v -> PermArg v k b -> accepts parse_perm_arg at_arg_end w (k, b).
Proof.
  intros Hw Hp. rewrite parse_perm_arg_is_perm_word. apply (and_then_word perm_word w v); [exact Hw|].
  destruct Hp as [p ds Ho Hl Hv|p cls Hne].
  - apply perm_word_octal; assumption.
  - apply perm_word_symbolic; assumption.
Qed.

Lemma format_accepts w v fmt :
  WordArg w v -> Seg v fmt -> accepts parse_format_arg at_arg_end w fmt.
Proof.
  intros Hw Hs. unfold parse_format_arg. apply (and_then_word parse_format w v); [exact Hw|].
  apply parse_format_seg. exact Hs.
Qed.

(** * The keyword macros *)
Lemma literal_app (k : string) i : literal k (chars k ++ i) = (Ok tt, i).
Proof. unfold literal. rewrite lit_app. reflexivity. Qed.

Lemma keyword_then_gap (k : string) g i : gap g ->
  terminated (literal k) word_end (chars k ++ g ++ i) = (Ok tt, g ++ i).
Proof.
  intros Hg. unfold terminated, bind, pmap. rewrite literal_app.
  rewrite (word_end_ok (g ++ i) (gap_word_end g i Hg)). reflexivity.
Qed.

Lemma unary_ok {A B} id (f : A -> B) (p : sparser A) E g w v rest :
  accepts p E w v -> gap g -> E rest ->
  unary id f p (chars id ++ g ++ w ++ rest) = (Ok (f v), rest).
Proof.
  intros [Hnb Hacc] Hg Hr. unfold unary, pmap, context, preceded. unfold bind at 1.
  rewrite (keyword_then_gap id g (w ++ rest) Hg).
  unfold cut_err at 1. unfold bind.
  rewrite (multispace1_gap g (w ++ rest) Hg (nonblank_stops w rest Hnb)).
  unfold cut_err. rewrite (Hacc rest Hr). reflexivity.
Qed.

Lemma binary_ok {A B C} id (f : A * B -> C) (pl : sparser A) (pr : sparser B) args E
      g1 w1 v1 g2 w2 v2 rest :
  accepts pl at_arg_end w1 v1 -> accepts pr E w2 v2 -> gap g1 -> gap g2 -> E rest ->
  binary id f pl pr args (chars id ++ g1 ++ w1 ++ g2 ++ w2 ++ rest) = (Ok (f (v1, v2)), rest).
Proof.
  intros [Hnb1 Hacc1] [Hnb2 Hacc2] Hg1 Hg2 Hr.
  unfold binary, pmap, context at 1, preceded at 1. unfold bind at 1.
  rewrite (keyword_then_gap id g1 _ Hg1).
  unfold cut_err, context, preceded, separated_pair. unfold bind at 1.
  rewrite (multispace1_gap g1 _ Hg1 (nonblank_stops w1 _ Hnb1)).
  unfold bind at 1. rewrite (Hacc1 _ (gap_arg_end g2 _ Hg2)).
  unfold preceded, bind, pmap.
  rewrite (multispace1_gap g2 _ Hg2 (nonblank_stops w2 _ Hnb2)).
  rewrite (Hacc2 rest Hr). reflexivity.
Qed.

Lemma nullary_ok {A} (a : A) (k : string) rest : value a (literal k) (chars k ++ rest) = (Ok a, rest).
Proof. rewrite value_literal, lit_app. reflexivity. Qed.
