(** C09: the implicit print is added exactly when the expression contains no action. *)
From Coq Require Import List String NArith Bool Lia.
From FP Require Import Model.Chars Model.Ast Model.Sexp Model.Compile Spec.Tree.
Import ListNotations.
Local Open Scope N_scope.

(** does an atom with this spelling occur anywhere in the code (string literals are data, not
    atoms) *)
Fixpoint atom_occurs (a : str) (x : lsexp) : bool :=
  match x with
  | LAtom b => str_eqb a b
  | LStr _ => false
  | LList items _ => atom_occurs_items a items
  end
with atom_occurs_items (a : str) (l : litems) : bool :=
  match l with
  | LNil => false
  | LCons _ x r => atom_occurs a x || atom_occurs_items a r
  end.

Definition prp : str := chars "print-relative-path".

(** no DefaultPrint action in the tree: true of everything the parser returns *)
Fixpoint no_default (e : expr) : bool :=
  match e with
  | EAction ADefaultPrint => false
  | EPrec a | ENot a => no_default a
  | EAnd a b | EOr a b | EList a b => no_default a && no_default b
  | _ => true
  end.

Lemma occurs_items_sep a sep l :
  atom_occurs_items a (items_sep sep l) = existsb (atom_occurs a) l.
Proof. induction l as [|x l IH]; cbn; [reflexivity|now rewrite IH]. Qed.

Lemma occurs_lst a l : atom_occurs a (lst l) = existsb (atom_occurs a) l.
Proof. destruct l as [|x l]; cbn; [reflexivity|]. now rewrite occurs_items_sep. Qed.

Lemma occurs_items_app a x y :
  atom_occurs_items a (items_app x y) = atom_occurs_items a x || atom_occurs_items a y.
Proof. induction x as [|ws v r IH]; cbn; [reflexivity|]. now rewrite IH, orb_assoc. Qed.

(** digits never spell the identifier *)
Lemma digit_char_not_p d : d < 16 -> digit_char d <> 112.
Proof. unfold digit_char. intro H. destruct (d <? 10) eqn:E; [apply N.ltb_lt in E|apply N.ltb_ge in E]; lia. Qed.

Lemma print_radix_aux_head fuel radix n acc :
  0 < radix <= 16 -> (forall c, hd_error acc = Some c -> c <> 112) ->
  forall c, hd_error (print_radix_aux fuel radix n acc) = Some c -> c <> 112.
Proof.
  intro Hr. revert n acc. induction fuel as [|f IH]; intros n acc Hacc c; cbn [print_radix_aux].
  - apply Hacc.
  - destruct (n <? radix) eqn:E.
    + cbn. intro H. inversion H; subst. apply N.ltb_lt in E. apply digit_char_not_p. lia.
    + apply IH. intros d Hd. cbn in Hd. inversion Hd; subst.
      assert (n mod radix < radix) by (apply N.mod_lt; lia).
      apply digit_char_not_p. lia.
Qed.

Lemma num_not_prp n : atom_occurs prp (num n) = false.
Proof.
  unfold num, print_dec, print_radix. cbn [atom_occurs].
  pose proof (print_radix_aux_head (S (N.size_nat n)) 10 n [] ltac:(lia)
                ltac:(cbn; discriminate)) as H.
  destruct (print_radix_aux (S (N.size_nat n)) 10 n []) as [|c r] eqn:E; [reflexivity|].
  specialize (H c eq_refl). change prp with (112 :: chars "rint-relative-path").
  cbn [str_eqb]. destruct (N.eqb_spec 112 c); [congruence|reflexivity].
Qed.

Lemma ident_not_prp k n : atom_occurs prp (ident k n) = false.
Proof. unfold ident. cbn. reflexivity. Qed.

Lemma str_not_prp ps : atom_occurs prp (LStr ps) = false.
Proof. reflexivity. Qed.

Ltac occ :=
  repeat (rewrite ?occurs_lst, ?num_not_prp, ?ident_not_prp, ?occurs_items_app, ?occurs_items_sep;
          cbn [existsb atom_occurs atom_occurs_items orb call0 lstr]);
  try reflexivity.

Lemma type_check_clean t : atom_occurs prp (type_check t) = false.
Proof. unfold type_check. occ. Qed.

Lemma type_checks_clean l : existsb (atom_occurs prp) (map type_check l) = false.
Proof. induction l as [|x l IH]; cbn [map existsb]; [reflexivity|]. now rewrite type_check_clean. Qed.

Lemma compile_types_clean l : atom_occurs prp (compile_types l) = false.
Proof.
  unfold compile_types. destruct l as [|t [|t2 r]]; try reflexivity; [apply type_check_clean|].
  cbn [atom_occurs atom_occurs_items]. rewrite occurs_items_sep, type_checks_clean. reflexivity.
Qed.

Lemma snippet_clean f x : snippet f = Some x -> atom_occurs prp x = false.
Proof.
  destruct f; cbn [snippet]; intro H; inversion H; subst; try (unfold strftime; occ);
    match goal with |- context [if ?c then _ else _] => destruct c end; unfold strftime; occ.
Qed.

Lemma format_items_clean fmt : existsb (atom_occurs prp) (format_items fmt) = false.
Proof.
  induction fmt as [|el r IH]; [reflexivity|]. destruct el as [s|f|x]; cbn [format_items]; try assumption.
  destruct (snippet f) eqn:E; [|assumption]. cbn [existsb]. now rewrite (snippet_clean _ _ E).
Qed.

Lemma compile_format_clean fmt x : compile_format fmt = COk x -> atom_occurs prp x = false.
Proof.
  unfold compile_format. destruct (template fmt) as [ps| |]; try discriminate.
  pose proof (format_items_clean fmt) as Hc.
  destruct (format_items fmt) as [|i r]; intro H; inversion H; subst; [reflexivity|].
  cbn [atom_occurs atom_occurs_items items_app]. rewrite occurs_items_sep.
  cbn [existsb] in Hc. rewrite Hc. reflexivity.
Qed.

Lemma get_printer_clean t m : atom_occurs prp (fst (get_printer t m)) = false.
Proof.
  destruct m as [l|d]; cbn [get_printer].
  - destruct (l_init_default_port l) as [p l1]. destruct (l_register_printer p t l1) as [i l2]. apply ident_not_prp.
  - destruct (d_register_printer (TStdout t) d) as [i d1]. apply ident_not_prp.
Qed.
Lemma get_file_printer_clean f t m : atom_occurs prp (fst (get_file_printer f t m)) = false.
Proof.
  destruct m as [l|d]; cbn [get_file_printer].
  - destruct (l_init_file_port f l) as [p l1]. destruct (l_register_printer p t l1) as [i l2]. apply ident_not_prp.
  - destruct (d_register_printer (TFile f t) d) as [i d1]. apply ident_not_prp.
Qed.
Lemma get_matcher_clean p ci m : atom_occurs prp (fst (get_matcher p ci m)) = false.
Proof.
  destruct m as [l|d]; cbn [get_matcher].
  - destruct (l_register_match p ci l) as [i l1]. apply ident_not_prp.
  - destruct (d_register_match p ci d) as [i d1]. apply ident_not_prp.
Qed.

Ltac fin_clean :=
  let H := fresh "H" in
  intro H; inversion H; subst; clear H;
  repeat match goal with
         | c : cmp _ |- _ => destruct c
         | |- context [match ?v with _ => _ end] => destruct v
         end;
  cbn [cmp_op cmp_val]; occ.

Lemma compile_test_clean t s x s' : compile_test t s = COk (x, s') -> atom_occurs prp x = false.
Proof.
  destruct t; cbn [compile_test]; unfold with_mgr, tick, cmp_field, compile_time, compile_size, compile_perm;
    try discriminate;
    try (match goal with |- context [get_matcher ?p ?b ?m] =>
           pose proof (get_matcher_clean p b m) as Hc; destruct (get_matcher p b m) end;
         intro H; inversion H; subst; cbn [fst] in Hc; occ; now rewrite Hc);
    try (intro H; inversion H; subst; apply compile_types_clean);
    try (match goal with |- (if ?c then _ else _) = _ -> _ => destruct c end);
    fin_clean.
Qed.

Lemma compile_action_clean a s x s' :
  a <> ADefaultPrint -> compile_action a s = COk (x, s') -> atom_occurs prp x = false.
Proof.
  intro Hd. destruct a; cbn [compile_action]; unfold with_mgr; try discriminate; try contradiction;
    try (match goal with |- context [get_printer ?t ?m] =>
           pose proof (get_printer_clean t m) as Hc; destruct (get_printer t m) end);
    try (match goal with |- context [get_file_printer ?f ?t ?m] =>
           pose proof (get_file_printer_clean f t m) as Hc; destruct (get_file_printer f t m) end);
    try (intro H; inversion H; subst; cbn [fst] in *; occ; rewrite ?Hc; reflexivity).
  - destruct (compile_format fmt) eqn:E; try discriminate. intro H; inversion H; subst.
    cbn [fst] in Hc. occ. now rewrite Hc, (compile_format_clean _ _ E).
  - destruct (compile_format fmt) eqn:E; try discriminate. intro H; inversion H; subst.
    cbn [fst] in Hc. occ. now rewrite Hc, (compile_format_clean _ _ E).
Qed.

Lemma compile_expr_clean e : no_default e = true -> forall s x s',
  compile_expr e s = COk (x, s') -> atom_occurs prp x = false.
Proof.
  induction e as [e IH|e IH|a IHa b IHb|a IHa b IHb|a IHa b IHb|t|a|g|]; cbn [no_default compile_expr];
    intros Hn s x s' H; try discriminate.
  - destruct (compile_expr e s) as [[y s1]| |] eqn:E; try discriminate. inversion H; subst.
    occ. now rewrite (IH Hn _ _ _ E).
  - apply andb_true_iff in Hn as [H1 H2].
    destruct (compile_expr a s) as [[y s1]| |] eqn:Ea; try discriminate.
    destruct (compile_expr b s1) as [[z s2]| |] eqn:Eb; try discriminate. inversion H; subst.
    occ. now rewrite (IHa H1 _ _ _ Ea), (IHb H2 _ _ _ Eb).
  - apply andb_true_iff in Hn as [H1 H2].
    destruct (compile_expr a s) as [[y s1]| |] eqn:Ea; try discriminate.
    destruct (compile_expr b s1) as [[z s2]| |] eqn:Eb; try discriminate. inversion H; subst.
    occ. now rewrite (IHa H1 _ _ _ Ea), (IHb H2 _ _ _ Eb).
  - apply andb_true_iff in Hn as [H1 H2].
    destruct (compile_expr a s) as [[y s1]| |] eqn:Ea; try discriminate.
    destruct (compile_expr b s1) as [[z s2]| |] eqn:Eb; try discriminate. inversion H; subst.
    occ. now rewrite (IHa H1 _ _ _ Ea), (IHb H2 _ _ _ Eb).
  - eapply compile_test_clean; eassumption.
  - eapply compile_action_clean; [|eassumption]. intros ->. discriminate.
Qed.

Lemma compile_body e o clk c : compile e o clk = COk c ->
  exists s', compile_expr (wrap e)
    {| st_mgr := if complex_frames e then MD dmgr_init else ML lmgr_init; st_clock := clk |}
    = COk (c_body c, s').
Proof.
  unfold compile. destruct (compile_expr (wrap e) _) as [[x s]| |]; try discriminate.
  intro H. inversion H. exists s. destruct (st_mgr s); reflexivity.
Qed.

(** no action: the body is (and <code of e> (print-relative-path)), the code of e being compiled
    exactly as it would be on its own in the same (plain) manager *)
Theorem implicit_print_added e o clk c :
  has_action e = false -> compile e o clk = COk c ->
  exists x s', compile_expr e {| st_mgr := if complex_frames e then MD dmgr_init else ML lmgr_init;
                                  st_clock := clk |} = COk (x, s')
    /\ c_body c = lst [atom "and"; x; lst [atom "print-relative-path"]].
Proof.
  intros Ha H. apply compile_body in H as [s' H]. unfold wrap in H. rewrite Ha in H.
  cbn [compile_expr] in H.
  destruct (compile_expr e _) as [[x s1]| |] eqn:E; try discriminate.
  cbn [compile_action] in H. inversion H; subst. eauto.
Qed.

(** at least one action, at any depth: nothing is added *)
Theorem implicit_print_not_added e o clk c :
  has_action e = true -> no_default e = true -> compile e o clk = COk c ->
  atom_occurs prp (c_body c) = false.
Proof.
  intros Ha Hn H. apply compile_body in H as [s' H]. unfold wrap in H. rewrite Ha in H.
  eapply compile_expr_clean; eassumption.
Qed.

Lemma has_action_no_frames e : has_action e = false -> complex_frames e = false.
Proof.
  induction e; cbn; intro H; try reflexivity; try discriminate; auto;
    apply orb_false_iff in H as [H1 H2]; now rewrite IHe1, IHe2.
Qed.
