(** C03v — the strict twins of Spec/StrictParse.v are pointwise equal to the model's parsers, all
    the way up to [parse]; hence the parser in which every [unreachable!()] / [unwrap()] site of
    C03u is an explicit Panic never panics.  Parsers are functions and no extensionality axiom is
    used: [peq] is pointwise equality and every combinator is shown to respect it. *)
From Coq Require Import List String NArith Bool Arith Lia.
From FP Require Import Model.Chars Model.Winnow Model.Ast Model.Args Model.Perm Model.Format
  Model.Lex Model.Prec Model.Parse Spec.StrictArms Spec.StrictParse
  Proofs.WinnowTotal Proofs.LexTotal Proofs.DefaultsUnreachable Proofs.Totality.
Import ListNotations.
Local Open Scope N_scope.

Definition peq {I A} (p q : @parser I A) : Prop := forall i, p i = q i.

Lemma peq_refl {I A} (p : @parser I A) : peq p p.
Proof. intros i. reflexivity. Qed.

(** * Congruences of the combinators of Model/Winnow.v *)
Section Congr.
Context {I : Type}.
Notation P := (@parser I).

Lemma pmap_peq {A B} (f : A -> B) (p q : P A) : peq p q -> peq (pmap f p) (pmap f q).
Proof. intros H i. unfold pmap. rewrite (H i). reflexivity. Qed.

Lemma value_peq {A B} (b : B) (p q : P A) : peq p q -> peq (value b p) (value b q).
Proof. intros H. unfold value. apply pmap_peq. exact H. Qed.

Lemma bind_peq {A B} (p q : P A) (f g : A -> P B) :
  peq p q -> (forall a, peq (f a) (g a)) -> peq (bind p f) (bind q g).
Proof.
  intros H1 H2 i. unfold bind. rewrite (H1 i).
  destruct (q i) as [[a|c|c|s] r]; try reflexivity. apply H2.
Qed.

Lemma preceded_peq {A B} (p q : P A) (p' q' : P B) :
  peq p q -> peq p' q' -> peq (preceded p p') (preceded q q').
Proof. intros H1 H2. unfold preceded. apply bind_peq; [exact H1|intros _; exact H2]. Qed.

Lemma terminated_peq {A B} (p q : P A) (p' q' : P B) :
  peq p q -> peq p' q' -> peq (terminated p p') (terminated q q').
Proof.
  intros H1 H2. unfold terminated. apply bind_peq; [exact H1|intros a; apply pmap_peq; exact H2].
Qed.

Lemma pair_peq {A B} (p q : P A) (p' q' : P B) :
  peq p q -> peq p' q' -> peq (pair_ p p') (pair_ q q').
Proof.
  intros H1 H2. unfold pair_. apply bind_peq; [exact H1|intros a; apply pmap_peq; exact H2].
Qed.

Lemma delimited_peq {A B C} (p q : P A) (p' q' : P B) (p'' q'' : P C) :
  peq p q -> peq p' q' -> peq p'' q'' -> peq (delimited p p' p'') (delimited q q' q'').
Proof.
  intros H1 H2 H3. unfold delimited. apply preceded_peq; [exact H1|].
  apply terminated_peq; assumption.
Qed.

Lemma separated_pair_peq {A B C} (p q : P A) (s s' : P B) (p' q' : P C) :
  peq p q -> peq s s' -> peq p' q' -> peq (separated_pair p s p') (separated_pair q s' q').
Proof.
  intros H1 H2 H3. unfold separated_pair. apply bind_peq; [exact H1|intros a].
  apply preceded_peq; [exact H2|apply pmap_peq; exact H3].
Qed.

Lemma cut_err_peq {A} (p q : P A) : peq p q -> peq (cut_err p) (cut_err q).
Proof. intros H i. unfold cut_err. rewrite (H i). reflexivity. Qed.

Lemma context_peq {A} c (p q : P A) : peq p q -> peq (context c p) (context c q).
Proof. intros H i. unfold context. rewrite (H i). reflexivity. Qed.

Lemma peek_peq {A} (p q : P A) : peq p q -> peq (peek p) (peek q).
Proof. intros H i. unfold peek. rewrite (H i). reflexivity. Qed.

Lemma opt_peq {A} (p q : P A) : peq p q -> peq (opt p) (opt q).
Proof. intros H i. unfold opt. rewrite (H i). reflexivity. Qed.

Lemma try_map_peq {A B} (p q : P A) (f : A -> option B) :
  peq p q -> peq (try_map p f) (try_map q f).
Proof. intros H i. unfold try_map. rewrite (H i). reflexivity. Qed.

Lemma verify_peq {A} (p q : P A) (f : A -> bool) : peq p q -> peq (verify p f) (verify q f).
Proof. intros H. unfold verify. apply try_map_peq. exact H. Qed.

Lemma alt_peq {A} (ps qs : list (P A)) : Forall2 peq ps qs -> peq (alt ps) (alt qs).
Proof.
  intros H. induction H as [|p q ps qs Hpq Hrest IH]; intros i; [reflexivity|].
  destruct Hrest as [|p2 q2 ps2 qs2 H2 Hr2].
  - cbn [alt]. apply Hpq.
  - change (alt (p :: p2 :: ps2) i) with
      (match p i with (Back _, _) => alt (p2 :: ps2) i | x => x end).
    change (alt (q :: q2 :: qs2) i) with
      (match q i with (Back _, _) => alt (q2 :: qs2) i | x => x end).
    rewrite (Hpq i), (IH i). reflexivity.
Qed.

Variable len : I -> nat.

Lemma repeat_fuel_peq {A} (p q : P A) :
  peq p q -> forall n i, repeat_fuel len n p i = repeat_fuel len n q i.
Proof.
  intros H n. induction n as [|n IH]; intros i; cbn [repeat_fuel]; [reflexivity|].
  rewrite (H i). destruct (q i) as [[a|c|c|s] r]; try reflexivity.
  rewrite (IH r). reflexivity.
Qed.

Lemma repeat0_peq {A} (p q : P A) : peq p q -> peq (repeat0 len p) (repeat0 len q).
Proof. intros H i. unfold repeat0. apply repeat_fuel_peq. exact H. Qed.

Lemma rtill_fuel_peq {A B} (f f' : P A) (g g' : P B) :
  peq f f' -> peq g g' -> forall n i, rtill_fuel len n f g i = rtill_fuel len n f' g' i.
Proof.
  intros Hf Hg n. induction n as [|n IH]; intros i; cbn [rtill_fuel]; [reflexivity|].
  rewrite (Hg i). destruct (g' i) as [[b|c|c|s] r]; try reflexivity.
  rewrite (Hf i). destruct (f' i) as [[a|c'|c'|s] r']; try reflexivity.
  rewrite (IH r'). reflexivity.
Qed.

Lemma repeat_till0_peq {A B} (f f' : P A) (g g' : P B) :
  peq f f' -> peq g g' -> peq (repeat_till0 len f g) (repeat_till0 len f' g').
Proof. intros Hf Hg i. unfold repeat_till0. apply rtill_fuel_peq; assumption. Qed.

Lemma repeat_till1_peq {A B} (f f' : P A) (g g' : P B) :
  peq f f' -> peq g g' -> peq (repeat_till1 len f g) (repeat_till1 len f' g').
Proof.
  intros Hf Hg i. unfold repeat_till1. rewrite (Hf i).
  destruct (f' i) as [[a|c|c|s] r]; try reflexivity.
  rewrite (repeat_till0_peq f f' g g' Hf Hg r). reflexivity.
Qed.

Lemma sep_fuel_peq {A B} (p q : P A) (s s' : P B) :
  peq p q -> peq s s' -> forall n i, sep_fuel len n p s i = sep_fuel len n q s' i.
Proof.
  intros Hp Hs n. induction n as [|n IH]; intros i; cbn [sep_fuel]; [reflexivity|].
  rewrite (Hs i). destruct (s' i) as [[u|c|c|m] r1]; try reflexivity.
  destruct (Nat.leb (len i) (len r1)); [reflexivity|].
  rewrite (Hp r1). destruct (q r1) as [[a|c|c|m] r2]; try reflexivity.
  rewrite (IH r2). reflexivity.
Qed.

Lemma separated1_peq {A B} (p q : P A) (s s' : P B) :
  peq p q -> peq s s' -> peq (separated1 len p s) (separated1 len q s').
Proof.
  intros Hp Hs i. unfold separated1. rewrite (Hp i).
  destruct (q i) as [[a|c|c|m] r]; try reflexivity.
  rewrite (sep_fuel_peq p q s s' Hp Hs). reflexivity.
Qed.
End Congr.

(** * Congruences of the combinators on character streams *)
Lemma and_then_peq {A} (o o' : sparser str) (p q : sparser A) :
  peq o o' -> peq p q -> peq (and_then o p) (and_then o' q).
Proof.
  intros Ho Hp i. unfold and_then. rewrite (Ho i).
  destruct (o' i) as [[w|c|c|s] r]; try reflexivity. rewrite (Hp w). reflexivity.
Qed.

Lemma unary_peq {A B} id (f : A -> B) (p q : sparser A) :
  peq p q -> peq (unary id f p) (unary id f q).
Proof.
  intros H. unfold unary. apply pmap_peq, context_peq, preceded_peq; [apply peq_refl|].
  apply cut_err_peq, preceded_peq; [apply peq_refl|]. apply cut_err_peq. exact H.
Qed.

Lemma binary_peq {A B C} id (f : A * B -> C) (pl ql : sparser A) (pr qr : sparser B) args :
  peq pl ql -> peq pr qr -> peq (binary id f pl pr args) (binary id f ql qr args).
Proof.
  intros Hl Hr. unfold binary. apply pmap_peq, context_peq, preceded_peq; [apply peq_refl|].
  apply cut_err_peq, context_peq, preceded_peq; [apply peq_refl|].
  apply separated_pair_peq; [exact Hl|apply peq_refl|exact Hr].
Qed.

Lemma parse_cmp_peq {T} (d d' : sparser T) : peq d d' -> peq (parse_cmp d) (parse_cmp d').
Proof.
  intros H. unfold parse_cmp. apply context_peq, alt_peq.
  repeat (constructor; [apply pmap_peq|]).
  - apply preceded_peq; [apply peq_refl|exact H].
  - apply preceded_peq; [apply peq_refl|exact H].
  - apply cut_err_peq. exact H.
  - constructor.
Qed.

(** * The argument parsers of C03u, as [peq] facts *)
Lemma size_peq : peq parse_size_strict parse_size.
Proof. exact parse_size_strict_eq. Qed.
Lemma time_peq d : peq (parse_time_strict d) (parse_time d).
Proof. exact (parse_time_strict_eq d). Qed.
Lemma filetypes_peq : peq parse_filetypes_strict parse_filetypes.
Proof. exact parse_filetypes_strict_eq. Qed.
Lemma permission_peq : peq parse_permission_strict parse_permission.
Proof. exact parse_permission_strict_eq. Qed.
Lemma special_peq : peq parse_special_strict parse_special.
Proof. exact parse_special_strict_eq. Qed.

Create HintDb strictdb.
#[local] Hint Resolve size_peq time_peq filetypes_peq permission_peq special_peq : strictdb.

(** a syntax-directed congruence prover: identical subterms are closed by [peq_refl], a known
    twin by the hint database, everything else by the congruence of its head combinator *)
Ltac peq_tac :=
  lazymatch goal with
  | |- Forall2 _ [] [] => constructor
  | |- Forall2 _ (_ :: _) (_ :: _) => constructor; peq_tac
  | |- peq ?p ?q =>
    tryif constr_eq p q then exact (peq_refl p) else
    lazymatch p with
    | pmap _ _ => apply pmap_peq; peq_tac
    | value _ _ => apply value_peq; peq_tac
    | Winnow.context _ _ => apply context_peq; peq_tac
    | cut_err _ => apply cut_err_peq; peq_tac
    | peek _ => apply peek_peq; peq_tac
    | opt _ => apply opt_peq; peq_tac
    | try_map _ _ => apply try_map_peq; peq_tac
    | verify _ _ => apply verify_peq; peq_tac
    | preceded _ _ => apply preceded_peq; peq_tac
    | terminated _ _ => apply terminated_peq; peq_tac
    | pair_ _ _ => apply pair_peq; peq_tac
    | delimited _ _ _ => apply delimited_peq; peq_tac
    | separated_pair _ _ _ => apply separated_pair_peq; peq_tac
    | bind _ _ => apply bind_peq; [peq_tac|intro; peq_tac]
    | alt _ => apply alt_peq; peq_tac
    | repeat0 _ _ => apply repeat0_peq; peq_tac
    | repeat_till0 _ _ _ => apply repeat_till0_peq; peq_tac
    | repeat_till1 _ _ _ => apply repeat_till1_peq; peq_tac
    | separated1 _ _ _ => apply separated1_peq; peq_tac
    | and_then _ _ => apply and_then_peq; peq_tac
    | unary _ _ _ => apply unary_peq; peq_tac
    | binary _ _ _ _ _ => apply binary_peq; peq_tac
    | parse_cmp _ => apply parse_cmp_peq; peq_tac
    | _ => solve [auto with strictdb nocore]
    end
  end.

(** * The lift, level by level *)
Lemma parse_permcheck_strict_peq : peq parse_permcheck_strict parse_permcheck.
Proof. unfold parse_permcheck_strict, parse_permcheck. peq_tac. Qed.
#[local] Hint Resolve parse_permcheck_strict_peq : strictdb.

Lemma parse_perm_arg_strict_peq : peq parse_perm_arg_strict parse_perm_arg.
Proof. unfold parse_perm_arg_strict, parse_perm_arg. peq_tac. Qed.
#[local] Hint Resolve parse_perm_arg_strict_peq : strictdb.

Lemma parse_element_strict_peq : peq parse_element_strict parse_element.
Proof. unfold parse_element_strict, parse_element. peq_tac. Qed.
#[local] Hint Resolve parse_element_strict_peq : strictdb.

Lemma parse_format_strict_peq : peq parse_format_strict parse_format.
Proof. unfold parse_format_strict, parse_format. peq_tac. Qed.
#[local] Hint Resolve parse_format_strict_peq : strictdb.

Lemma parse_format_arg_strict_peq : peq parse_format_arg_strict parse_format_arg.
Proof. unfold parse_format_arg_strict, parse_format_arg. peq_tac. Qed.
#[local] Hint Resolve parse_format_arg_strict_peq : strictdb.

Lemma parse_action_strict_peq : peq parse_action_strict parse_action.
Proof. unfold parse_action_strict, parse_action. peq_tac. Qed.
#[local] Hint Resolve parse_action_strict_peq : strictdb.

Lemma parse_test_strict_peq : peq parse_test_strict parse_test.
Proof. unfold parse_test_strict, parse_test. peq_tac. Qed.
#[local] Hint Resolve parse_test_strict_peq : strictdb.

Lemma parse_token_strict_peq : peq parse_token_strict parse_token.
Proof. unfold parse_token_strict, parse_token. peq_tac. Qed.
#[local] Hint Resolve parse_token_strict_peq : strictdb.

Lemma lex_strict_peq : peq lex_strict lex.
Proof. unfold lex_strict, lex. peq_tac. Qed.

(** the statements in plain form *)
Lemma parse_perm_arg_strict_eq i : parse_perm_arg_strict i = parse_perm_arg i.
Proof. apply parse_perm_arg_strict_peq. Qed.
Lemma parse_format_arg_strict_eq i : parse_format_arg_strict i = parse_format_arg i.
Proof. apply parse_format_arg_strict_peq. Qed.
Lemma parse_action_strict_eq i : parse_action_strict i = parse_action i.
Proof. apply parse_action_strict_peq. Qed.
Lemma parse_test_strict_eq i : parse_test_strict i = parse_test i.
Proof. apply parse_test_strict_peq. Qed.
Lemma parse_token_strict_eq i : parse_token_strict i = parse_token i.
Proof. apply parse_token_strict_peq. Qed.
Lemma lex_strict_eq i : lex_strict i = lex i.
Proof. apply lex_strict_peq. Qed.

(** * [parse] *)
Lemma parse_strict_eq s : parse_strict s = parse s.
Proof.
  unfold parse_strict, parse.
  destruct (leading_options s) as [[gs|c|c|m] rest]; try reflexivity.
  destruct (update_all default_options gs) as [o|]; [|reflexivity].
  cbv zeta.
  assert (Hl : match rest with
               | [] => (Ok [KPrim (LTest TTrue)], rest)
               | _ :: _ => lex_strict rest
               end
             = match rest with
               | [] => (Ok [KPrim (LTest TTrue)], rest)
               | _ :: _ => lex rest
               end).
  { destruct rest as [|c0 rest']; [reflexivity|apply lex_strict_eq]. }
  rewrite Hl. clear Hl.
  destruct (match rest with
            | [] => (Ok [KPrim (LTest TTrue)], rest)
            | _ :: _ => lex rest
            end) as [[tokens|c|c|m] r']; try reflexivity.
  destruct (replace_globals o tokens) as [[o' tokens']|]; [|reflexivity].
  rewrite prec_parser_strict_eq. destruct (prec_parser tokens'); reflexivity.
Qed.

Lemma parse_strict_no_panic s site : parse_strict s <> ParsePanic site.
Proof. rewrite parse_strict_eq. apply parse_no_panic. Qed.

(** consequences for the intermediate levels: no strict twin panics *)
Lemma parse_perm_arg_strict_no_panic i site : fst (parse_perm_arg_strict i) <> Panic site.
Proof. rewrite parse_perm_arg_strict_eq. apply (no_panic_of_wf false), wf_parse_perm_arg. Qed.
Lemma parse_format_arg_strict_no_panic i site : fst (parse_format_arg_strict i) <> Panic site.
Proof. rewrite parse_format_arg_strict_eq. apply (no_panic_of_wf false), wf_parse_format_arg. Qed.
Lemma parse_action_strict_no_panic i site : fst (parse_action_strict i) <> Panic site.
Proof. rewrite parse_action_strict_eq. apply (no_panic_of_wf false), wf_parse_action. Qed.
Lemma parse_test_strict_no_panic i site : fst (parse_test_strict i) <> Panic site.
Proof. rewrite parse_test_strict_eq. apply (no_panic_of_wf false), wf_parse_test. Qed.
Lemma parse_token_strict_no_panic i site : fst (parse_token_strict i) <> Panic site.
Proof. rewrite parse_token_strict_eq. apply (no_panic_of_wf false), wf_parse_token. Qed.
Lemma lex_strict_no_panic i site : fst (lex_strict i) <> Panic site.
Proof. rewrite lex_strict_eq. apply (no_panic_of_wf false), wf_lex. Qed.
