From Coq Require Import List Arith Lia Bool.
From FP Require Import Model.Ast Model.Lex Model.Prec Spec.Grammar Proofs.PrecSound.
Import ListNotations.



Definition starts_atom (ts : list token) : Prop :=
  match ts with KPrim _ :: _ | KNot :: _ | KLParen :: _ => True | _ => False end.
Definition stop_and (ts : list token) : Prop :=
  match ts with [] | KRParen :: _ | KOr :: _ | KComma :: _ => True | _ => False end.
Definition stop_or (ts : list token) : Prop :=
  match ts with [] | KRParen :: _ | KComma :: _ => True | _ => False end.
Definition stop_list (ts : list token) : Prop :=
  match ts with [] | KRParen :: _ => True | _ => False end.

Lemma GAtom_starts pre e : GAtom pre e -> forall rest, starts_atom (pre ++ rest).
Proof. destruct 1; intros; cbn; auto. Qed.

Section Lv.
  Variable atomf : list token -> pres.
  Variable n : nat.
  Hypothesis Hatom : forall pre e rest, GAtom pre e -> length pre < n -> atomf (pre ++ rest) = POk e rest.
  Hypothesis Hback : forall ts, ~ starts_atom ts -> atomf ts = PBack.

  Lemma and_reach pre e : GAnd pre e -> length pre < n ->
    forall rest, exists k, length rest <= k /\ and_ atomf (pre ++ rest) = and_loop atomf k e rest.
  Proof.
    induction 1 as [ts e Ha | l r a b Hl IH Hr | l r a b Hl IH Hr]; intros Hlen rest.
    - exists (length rest). split; [lia|]. unfold and_. now rewrite (Hatom _ _ rest Ha Hlen).
    - rewrite app_length in Hlen; cbn in Hlen.
      destruct (IH ltac:(lia) (KAnd :: r ++ rest)) as (k & Hk & E).
      cbn in Hk. rewrite app_length in Hk. destruct k as [|k]; [lia|].
      exists k. split; [lia|]. rewrite <- app_assoc. cbn [app]. rewrite E. cbn [and_loop].
      now rewrite (Hatom _ _ rest Hr ltac:(lia)).
    - rewrite app_length in Hlen.
      destruct (IH ltac:(lia) (r ++ rest)) as (k & Hk & E).
      rewrite app_length in Hk.
      assert (0 < length r) by (destruct Hr; cbn; lia).
      destruct k as [|k]; [lia|].
      exists k. split; [lia|]. rewrite <- app_assoc. rewrite E. cbn [and_loop].
      pose proof (GAtom_starts _ _ Hr rest) as Hs.
      destruct (r ++ rest) as [|[] q] eqn:Eq; cbn in Hs; try contradiction;
        rewrite <- Eq; now rewrite (Hatom _ _ rest Hr ltac:(lia)).
  Qed.

  Lemma and_loop_stop k e rest : stop_and rest -> and_loop atomf k e rest = POk e rest.
  Proof.
    intros Hs. destruct k; cbn [and_loop]; [reflexivity|].
    destruct rest as [|[] q]; cbn in Hs; try contradiction; now rewrite Hback by (cbn; tauto).
  Qed.

  Lemma and_complete pre e rest : GAnd pre e -> length pre < n -> stop_and rest ->
    and_ atomf (pre ++ rest) = POk e rest.
  Proof.
    intros G Hl Hs. destruct (and_reach _ _ G Hl rest) as (k & _ & E). rewrite E. now apply and_loop_stop.
  Qed.

  Lemma or_reach pre e : GOr pre e -> length pre < n ->
    forall rest, stop_or rest \/ (exists q, rest = KOr :: q) ->
    exists k, length rest <= k /\ or_ atomf (pre ++ rest) = or_loop atomf k e rest.
  Proof.
    induction 1 as [ts e Ha | l r a b Hl IH Hr]; intros Hlen rest Hst.
    - exists (length rest). split; [lia|]. unfold or_. rewrite (and_complete _ _ rest Ha Hlen); [reflexivity|].
      destruct Hst as [Hst|[q ->]]; [destruct rest as [|[] ?]; cbn in *; tauto|cbn; tauto].
    - rewrite app_length in Hlen; cbn in Hlen.
      destruct (IH ltac:(lia) (KOr :: r ++ rest) ltac:(right; eauto)) as (k & Hk & E).
      cbn in Hk. rewrite app_length in Hk. destruct k as [|k]; [lia|].
      exists k. split; [lia|]. rewrite <- app_assoc. cbn [app]. rewrite E. cbn [or_loop].
      rewrite (and_complete _ _ rest Hr ltac:(lia)); [reflexivity|].
      destruct Hst as [Hst|[q ->]]; [destruct rest as [|[] ?]; cbn in *; tauto|cbn; tauto].
  Qed.

  Lemma or_complete pre e rest : GOr pre e -> length pre < n -> stop_or rest ->
    or_ atomf (pre ++ rest) = POk e rest.
  Proof.
    intros G Hl Hs. destruct (or_reach _ _ G Hl rest (or_introl Hs)) as (k & _ & E). rewrite E.
    destruct k; cbn [or_loop]; [reflexivity|]. destruct rest as [|[] ?]; cbn in Hs; tauto.
  Qed.

  Lemma list_reach pre e : GList pre e -> length pre < n ->
    forall rest, stop_list rest \/ (exists q, rest = KComma :: q) ->
    exists k, length rest <= k /\ list_ atomf (pre ++ rest) = list_loop atomf k e rest.
  Proof.
    induction 1 as [ts e Ha | l r a b Hl IH Hr]; intros Hlen rest Hst.
    - exists (length rest). split; [lia|]. unfold list_. rewrite (or_complete _ _ rest Ha Hlen); [reflexivity|].
      destruct Hst as [Hst|[q ->]]; [destruct rest as [|[] ?]; cbn in *; tauto|cbn; tauto].
    - rewrite app_length in Hlen; cbn in Hlen.
      destruct (IH ltac:(lia) (KComma :: r ++ rest) ltac:(right; eauto)) as (k & Hk & E).
      cbn in Hk. rewrite app_length in Hk. destruct k as [|k]; [lia|].
      exists k. split; [lia|]. rewrite <- app_assoc. cbn [app]. rewrite E. cbn [list_loop].
      rewrite (or_complete _ _ rest Hr ltac:(lia)); [reflexivity|].
      destruct Hst as [Hst|[q ->]]; [destruct rest as [|[] ?]; cbn in *; tauto|cbn; tauto].
  Qed.

  Lemma list_complete pre e rest : GList pre e -> length pre < n -> stop_list rest ->
    list_ atomf (pre ++ rest) = POk e rest.
  Proof.
    intros G Hl Hs. destruct (list_reach _ _ G Hl rest (or_introl Hs)) as (k & _ & E). rewrite E.
    destruct k; cbn [list_loop]; [reflexivity|]. destruct rest as [|[] ?]; cbn in Hs; tauto.
  Qed.
End Lv.

Lemma atom_back n ts : ~ starts_atom ts -> atom (S n) ts = PBack.
Proof. destruct ts as [|[] ?]; cbn; tauto. Qed.

Lemma atom_complete : forall n pre e rest, GAtom pre e -> length pre < n -> atom n (pre ++ rest) = POk e rest.
Proof.
  induction n as [|n IH]; intros pre e rest G Hl; [lia|].
  destruct G as [p | ts e G | ts e G]; cbn [atom app].
  - reflexivity.
  - cbn in Hl. now rewrite (IH _ _ rest G ltac:(lia)).
  - cbn in Hl. rewrite app_length in Hl. cbn in Hl. rewrite <- app_assoc. cbn [app].
    destruct n as [|n]; [lia|].
    rewrite (list_complete (atom (S n)) (S n) (fun p e r G L => IH p e r G L) (atom_back n) ts e (KRParen :: rest) G ltac:(lia) I).
    reflexivity.
Qed.

Theorem parser_complete ts e : GList ts e -> prec_parser ts = Some e.
Proof.
  intros G. unfold prec_parser.
  pose proof (list_complete (atom (S (length ts))) (S (length ts))
                (fun p e r G L => atom_complete _ p e r G L) (atom_back _) ts e [] G ltac:(lia) I) as E.
  rewrite app_nil_r in E. rewrite E. reflexivity.
Qed.

(* exit condition of the loops: the remaining input starts with a stop token *)
Lemma and_loop_exit atomf (Hb : forall ts e r, atomf ts = POk e r -> length r < length ts) :
  forall k acc ts e r, length ts <= k -> and_loop atomf k acc ts = POk e r ->
  (forall ts, atomf ts = PBack -> ~ starts_atom ts) -> stop_and r.
Proof.
  induction k as [|k IH]; intros acc ts e r Hk H Hnb; cbn [and_loop] in H.
  - inversion H; subst. destruct r; [exact I|cbn in Hk; lia].
  - destruct ts as [|t q].
    + destruct (atomf []) as [e' r'| |] eqn:Ea; try discriminate.
      * apply Hb in Ea. cbn in Ea. lia.
      * inversion H; subst. exact I.
    + destruct t;
      try (destruct (atomf _) as [e' r'| |] eqn:Ea; try discriminate;
           [ apply Hb in Ea as Hlt; eapply IH; [|exact H|exact Hnb]; cbn in *; lia
           | inversion H; subst; apply Hnb in Ea; cbn in *; tauto ]).
      destruct (atomf q) as [e' r'| |] eqn:Ea; try discriminate.
      apply Hb in Ea as Hlt. eapply IH; [|exact H|exact Hnb]. cbn in *; lia.
Qed.


