(** Generated names are distinct, character literals read back, and environments whose keys are
    generated names with small indices do not bind fresh names. *)
From Coq Require Import List String NArith Bool Lia ZifyBool ZifyN.
From FP Require Import Model.Chars Model.Sexp Model.Compile
  Spec.Decimal Spec.FileRecord Spec.SchemeSem Spec.SchemeEnv Spec.SchemePrelude
  Proofs.Numbers Proofs.MgrEnv.
Import ListNotations.
Local Open Scope N_scope.

(** * Hexadecimal character literals *)
Lemma hex_value_snoc : forall ds c, hex_value (ds ++ [c]) = hex_value ds * 16 + hex_digit c.
Proof. intros ds c. unfold hex_value. rewrite fold_left_app. reflexivity. Qed.

Lemma digit_char_hex : forall d, d < 16 -> is_hex (digit_char d) = true /\ hex_digit (digit_char d) = d.
Proof.
  intros d Hd. unfold digit_char, is_hex, hex_digit.
  destruct (d <? 10) eqn:E.
  - split; [lia|]. destruct (48 + d <=? 57) eqn:E2; lia.
  - split; [lia|]. destruct (87 + d <=? 57) eqn:E2; lia.
Qed.

Definition hex_of (n : N) (ds : str) : Prop :=
  ds <> [] /\ forallb is_hex ds = true /\ hex_value ds = n.

Lemma hex_aux_spec : forall fuel n acc,
  n < 16 ^ N.of_nat (S fuel) ->
  exists ds, print_radix_aux (S fuel) 16 n acc = ds ++ acc /\ hex_of n ds.
Proof.
  induction fuel as [|f IH]; intros n acc Hn; rewrite print_aux_step; destruct (n <? 16) eqn:E.
  - exists [digit_char n]. split; [reflexivity|]. destruct (digit_char_hex n ltac:(lia)) as [H1 H2].
    repeat split; [discriminate | cbn [forallb]; rewrite H1; reflexivity |].
    unfold hex_value. cbn [fold_left]. lia.
  - change (N.of_nat 1) with 1 in Hn. rewrite N.pow_1_r in Hn. lia.
  - exists [digit_char n]. split; [reflexivity|]. destruct (digit_char_hex n ltac:(lia)) as [H1 H2].
    repeat split; [discriminate | cbn [forallb]; rewrite H1; reflexivity |].
    unfold hex_value. cbn [fold_left]. lia.
  - assert (Hq : n / 16 < 16 ^ N.of_nat (S f)).
    { apply N.div_lt_upper_bound; [lia|].
      rewrite (Nat2N.inj_succ (S f)), N.pow_succ_r' in Hn. exact Hn. }
    destruct (IH (n / 16) (digit_char (n mod 16) :: acc) Hq) as (ds & Heq & Hne & Hh & Hv).
    assert (Hm : n mod 16 < 16) by (apply N.mod_lt; lia).
    destruct (digit_char_hex (n mod 16) Hm) as [H1 H2].
    exists (ds ++ [digit_char (n mod 16)]). split; [rewrite Heq, <- app_assoc; reflexivity|].
    repeat split.
    + destruct ds; discriminate.
    + rewrite forallb_app, Hh. cbn [forallb]. rewrite H1. reflexivity.
    + rewrite hex_value_snoc, Hv, H2. pose proof (N.div_mod' n 16) as Hdm. lia.
Qed.

Lemma print_hex_hex_of : forall n, hex_of n (print_hex n).
Proof.
  intros n. unfold print_hex, print_radix.
  assert (Hf : n < 16 ^ N.of_nat (S (N.size_nat n))).
  { pose proof (size_nat_gt n) as H2.
    assert (Hle : 2 ^ N.of_nat (N.size_nat n) <= 16 ^ N.of_nat (N.size_nat n))
      by (apply N.pow_le_mono_l; lia).
    rewrite Nat2N.inj_succ, N.pow_succ_r'. lia. }
  destruct (hex_aux_spec (N.size_nat n) n [] Hf) as (ds & Heq & Hds).
  rewrite Heq, app_nil_r. exact Hds.
Qed.

Lemma char_literal_hex2 : forall n, char_literal (chars "#\x" ++ print_hex2 n) = Some n.
Proof.
  intros n. destruct (print_hex_hex_of n) as (Hne & Hh & Hv).
  change (chars "#\x") with [35; 92; 120]. cbn [app char_literal].
  unfold print_hex2. destruct (n <? 16).
  - cbn [all forallb]. rewrite Hh. change (is_hex 48) with true. cbn [andb].
    unfold hex_value in *. cbn [fold_left]. change (0 * 16 + hex_digit 48) with 0. rewrite Hv. reflexivity.
  - assert (Ha : all is_hex (print_hex n) = true).
    { destruct (print_hex n); [contradiction|exact Hh]. }
    rewrite Ha, Hv. reflexivity.
Qed.

(** * Generated names *)
Inductive kind := KPort | KMutex | KPrint | KMatch | KFrame.
Definition kname (k : kind) : string :=
  match k with
  | KPort => "port" | KMutex => "mutex" | KPrint => "print" | KMatch => "match" | KFrame => "frame"
  end.

Lemma print_dec_inj : forall i j, print_dec i = print_dec j -> i = j.
Proof. intros i j H. rewrite <- (print_dec_value i), <- (print_dec_value j), H. reflexivity. Qed.

Lemma idname_inj : forall k k' i i',
  idname (kname k) i = idname (kname k') i' -> k = k' /\ i = i'.
Proof.
  intros k k' i i' H. unfold idname in H.
  destruct k, k'; cbn [kname chars app] in H; cbn in H;
    try discriminate H; injection H as H; apply print_dec_inj in H; split; try reflexivity; exact H.
Qed.

(** * Environments keyed by generated names *)
Definition key_ok (n : N) (ne : str * entry) : Prop :=
  exists k j, fst ne = idname (kname k) j /\ (j < n \/ k = KFrame).
Definition keys_ok (e : env) (n : N) : Prop := Forall (key_ok n) e.

Lemma keys_ok_mono : forall e n n', n <= n' -> keys_ok e n -> keys_ok e n'.
Proof.
  intros e n n' Hn H. unfold keys_ok in *. apply (Forall_impl (key_ok n')) in H; [exact H|].
  intros ne (k & j & Hk & Hj). exists k, j. split; [exact Hk|]. destruct Hj as [Hj|Hj]; [left; lia | right; exact Hj].
Qed.

Lemma keys_ok_cons : forall e n k j v,
  keys_ok e n -> j < n -> keys_ok ((idname (kname k) j, v) :: e) n.
Proof.
  intros e n k j v H Hj. constructor; [|exact H]. exists k, j. split; [reflexivity | left; exact Hj].
Qed.

Lemma lookup_fresh : forall e n k i,
  keys_ok e n -> n <= i -> k <> KFrame -> lookup e (idname (kname k) i) = None.
Proof.
  intros e n k i H Hi Hk. induction H as [|[name v] e Hne He IH]; [reflexivity|].
  unfold lookup in *. cbn [assoc]. destruct (str_eqb (idname (kname k) i) name) eqn:E; [|exact IH].
  apply str_eqb_eq in E. destruct Hne as (k' & j & Hname & Hj). cbn [fst] in Hname. subst name.
  apply idname_inj in E. destruct E as [-> ->]. destruct Hj as [Hj|Hj]; [lia | contradiction].
Qed.

Lemma lookup_cons_eq : forall e name v, lookup ((name, v) :: e) name = Some v.
Proof. intros e name v. unfold lookup. cbn [assoc]. rewrite str_eqb_refl. reflexivity. Qed.

(** a new binding under a name the environment does not bind leaves the bound names alone *)
Lemma lookup_cons_keep : forall e name v name' v',
  lookup e name = Some v -> lookup e name' = None -> lookup ((name', v') :: e) name = Some v.
Proof.
  intros e name v name' v' H Hn. unfold lookup in *. cbn [assoc].
  destruct (str_eqb name name') eqn:E; [|exact H].
  apply str_eqb_eq in E. subst name'. rewrite H in Hn. discriminate Hn.
Qed.

Lemma sem_defs_app : forall io e a b,
  sem_defs io e (a ++ b)
  = match sem_defs io e a with Some e' => sem_defs io e' b | None => None end.
Proof.
  intros io e a. revert e. induction a as [|x a IH]; intros e b; cbn [app sem_defs]; [reflexivity|].
  destruct (sem_binding io e x) as [ne|]; [apply IH | reflexivity].
Qed.

Lemma sem_defs_snoc : forall io defs e name v x,
  sem_defs io [] defs = Some e -> sem_binding io e x = Some (name, v) ->
  sem_defs io [] (defs ++ [x]) = Some ((name, v) :: e).
Proof. intros io defs e name v x H Hx. rewrite sem_defs_app, H. cbn [sem_defs]. rewrite Hx. reflexivity. Qed.
