(** End to end: from the TEXT the user types to the MEANING of the TEXT the library emits.
    Nothing new is proved about the model here; the theorems of C02, C03, C04, C06, C12, C13 and
    C20 are composed. *)
From Coq Require Import List String NArith ZArith Bool Lia ZifyBool ZifyN.
From FP Require Import Model.Chars Model.Winnow Model.Ast Model.Sexp Model.Lex Model.Prec Model.Parse
  Model.Compile.
From FP Require Import Spec.Vocabulary Spec.Surface Spec.Written Spec.Unsupported Spec.GuileReader
  Spec.FileRecord Spec.FindSem Spec.SchemeSem Spec.SchemePrelude.
From FP Require Import Proofs.RenderFacts Proofs.OptionsFacts Proofs.LexSentence Proofs.WrittenProofs
  Proofs.SurfaceExamples.
From FP Require Properties.C02 Properties.C03 Properties.C04 Properties.C06 Properties.C12
  Properties.C13 Properties.C20.
Import ListNotations.
Local Open Scope N_scope.

(** the thread argument of the scan call for given options *)
Definition threads_arg (o : options) : sexp :=
  match opt_threads o with
  | Some n => SAtom (print_dec n)
  | None => SList [SAtom (chars "lipe-getopt-thread-count")]
  end.

Section Written.
Variables (w : written) (bs : list str) (tr : str).
Hypothesis Hok : written_ok w.
Hypothesis Hlen : List.length bs = List.length (written_items w).
Hypothesis Hwf : wf_sentence (written_sentence w bs tr).

Let text := Surface.render (written_sentence w bs tr).
Let o := opts_for (written_opts w).
Let e := written_tree w.

Lemma written_parses : parse text = ParseOk o e.
Proof. exact (C06.C06_written w bs tr Hok Hlen Hwf). Qed.

Lemma written_shape : compilable_shape e = true.
Proof. exact (C12.C12_parser_trees text o e written_parses). Qed.

(** the strong form: the compiled program and the forms read back do not depend on the file *)
Lemma text_to_meaning_uniform : forall h, host_law h -> forall clk,
  first_unsupported e = None ->
  parse text = ParseOk o e
  /\ exists c, compile e o clk = COk c
     /\ forall mdt, exists p0 p1,
          read_all (scheme_text c mdt) = Some [p0; p1]
          /\ option_map (@hd sexp (SList [])) (scan_call p1) = Some (SStr mdt)
          /\ option_map (fun args => nth 4 args (SList [])) (scan_call p1) = Some (threads_arg o)
          /\ forall f, ctime_free e = true -> defined e f = true ->
               sem_forms h (c_iomap c) [p0; p1] f = Some (feval h (wrap e) clk f).
Proof.
  intros h Hh clk Hun. split; [exact written_parses|].
  pose proof (C12.C12_exact e o clk written_shape) as Hc. rewrite Hun in Hc.
  destruct Hc as [c Hc]. exists c. split; [exact Hc|].
  intros mdt.
  exists (erase (fst (Compile.render c mdt))), (erase (snd (Compile.render c mdt))).
  pose proof (C04.C04_reads_back e o clk c mdt Hc) as Hr.
  split; [exact Hr|]. split; [apply C20.C20_is_scan_device|].
  split; [exact (C13.C13_threads_emitted e o clk c mdt Hc)|].
  intros f Hct Hdef.
  destruct (C02.C02_text h Hh e o clk c f mdt Hc Hct Hdef) as (forms & Hforms & Hsem).
  assert (Hf : forms = [erase (fst (Compile.render c mdt)); erase (snd (Compile.render c mdt))])
    by congruence.
  subst forms. exact Hsem.
Qed.

Lemma text_to_meaning : forall h, host_law h -> forall clk mdt f,
  first_unsupported e = None -> ctime_free e = true -> defined e f = true ->
  parse text = ParseOk o e
  /\ exists c, compile e o clk = COk c
     /\ exists p0 p1,
          read_all (scheme_text c mdt) = Some [p0; p1]
          /\ sem_forms h (c_iomap c) [p0; p1] f = Some (feval h (wrap e) clk f)
          /\ option_map (@hd sexp (SList [])) (scan_call p1) = Some (SStr mdt)
          /\ option_map (fun args => nth 4 args (SList [])) (scan_call p1) = Some (threads_arg o).
Proof.
  intros h Hh clk mdt f Hun Hct Hdef.
  destruct (text_to_meaning_uniform h Hh clk Hun) as (Hp & c & Hc & Hall).
  split; [exact Hp|]. exists c. split; [exact Hc|].
  destruct (Hall mdt) as (p0 & p1 & Hr & Hdev & Hthr & Hsem).
  exists p0, p1. split; [exact Hr|]. split; [exact (Hsem f Hct Hdef)|]. split; [exact Hdev|exact Hthr].
Qed.

Lemma written_unsupported : forall clk k n,
  first_unsupported e = Some (k, n) ->
  parse text = ParseOk o e /\ compile e o clk = CErr k n.
Proof.
  intros clk k n Hun. split; [exact written_parses|].
  pose proof (C12.C12_exact e o clk written_shape) as Hc. rewrite Hun in Hc. exact Hc.
Qed.
End Written.

(** every input string, every clock: an answer, and an emitted program is two forms *)
Lemma pipeline_reads_back : forall s clk,
  (exists m, parse s = ParseErr m /\ m <> []) \/
  (exists o e, parse s = ParseOk o e /\
     ((exists k n, compile e o clk = CErr k n /\ compile_error_text k n <> []) \/
      (exists c, compile e o clk = COk c /\
         forall mdt, exists p0 p1, read_all (scheme_text c mdt) = Some [p0; p1]))).
Proof.
  intros s clk. destruct (C03.C03_pipeline_total s clk) as [Herr|(o & e & Hp & [(c & Hc)|Hce])].
  - left. exact Herr.
  - right. exists o, e. split; [exact Hp|]. right. exists c. split; [exact Hc|].
    intros mdt. eexists. eexists. exact (C04.C04_reads_back e o clk c mdt Hc).
  - right. exists o, e. split; [exact Hp|]. left. exact Hce.
Qed.

(** * Instances for the non-vacuity examples *)
(** a toy host: globs match everything, plain patterns by equality, -i by lower-casing ASCII *)
Definition toy_lower (c : N) : N := if (65 <=? c) && (c <=? 90) then c + 32 else c.
Definition toy_ci_eq (p s : str) : bool := str_eqb (map toy_lower p) (map toy_lower s).
Definition toy_host : host :=
  {| fnmatch := fun ci p s =>
       if plain_pattern p then (if ci then toy_ci_eq p s else str_eqb p s) else true;
     streq_ci := toy_ci_eq;
     xattr_match := fun _ _ _ => false;
     strftime_text := fun c t => c :: 61 :: print_dec t;
     dirname := fun s => chars "d";
     type_char := fun m => if N.land m 61440 =? 32768 then chars "f" else chars "?";
     ratio_text := fun a b => print_dec a ++ [47] ++ print_dec b;
     ctime_text := fun t => chars "ctime" |}.
Lemma toy_host_law : host_law toy_host.
Proof. intros p s Hp. unfold toy_host. cbn [fnmatch streq_ci]. rewrite Hp. split; reflexivity. Qed.

Definition toy_file : file :=
  {| f_size := 1025; f_mode := 33188; f_uid := 1000; f_gid := 100;
     f_ino := 42; f_nlink := 1; f_atime := 1000; f_ctime := 2000; f_mtime := 3000;
     f_blocks := 8; f_projid := 7; f_stripe_count := 2; f_stripe_size := 1048576;
     f_mirror_count := 1;
     f_name := chars "a b"; f_relative_path := chars "d/a b";
     f_absolute_path := chars "/mnt/d/a b"; f_fid := chars "[0x1:0x2:0x0]";
     f_user := chars "bob"; f_group := chars "users"; f_mount_path := chars "/mnt";
     f_pools := [chars "fast"]; f_xattrs := [(chars "user.k", chars "v")];
     f_empty := false; f_executable := false; f_readable := true; f_writable := true |}.

(** a written input the target cannot express:  -name 'a b' -prune *)
Definition wprune : watom := WPrim [chars "-prune"] [] (LAction APrune).
Definition prune_ : item := IPrim [chars "-prune"] [] (LAction APrune).
Lemma prune_ok : item_ok prune_.
Proof. split; [|gaps_tac]. refine (P_nullary "-prune" _ _). in_table. Qed.
Definition ex_prune : written :=
  {| w_lead := []; w_expr := Some (WList1 (WOr1 (WAnd (WAnd1 wname1) AndImplicit wprune))) |}.
Definition bs_prune : list str := [ []; chars " " ].
Lemma ex_prune_ok : written_ok ex_prune.
Proof. reflexivity. Qed.
Lemma ex_prune_len : List.length bs_prune = List.length (written_items ex_prune).
Proof. reflexivity. Qed.
Lemma ex_prune_wf : wf_sentence (written_sentence ex_prune bs_prune []).
Proof.
  split; [|split].
  - cbn. repeat (constructor; [first [exact name_sq_ok|exact prune_ok|exact I]|]). constructor.
  - cbn. layout_tac.
  - constructor.
Qed.

(** * The statements in their final form *)
Theorem e2e_text_to_meaning : forall h, host_law h -> forall w bs tr clk mdt f,
  written_ok w -> List.length bs = List.length (written_items w) ->
  wf_sentence (written_sentence w bs tr) ->
  first_unsupported (written_tree w) = None ->
  ctime_free (written_tree w) = true -> defined (written_tree w) f = true ->
  parse (Surface.render (written_sentence w bs tr))
    = ParseOk (opts_for (written_opts w)) (written_tree w)
  /\ exists c, compile (written_tree w) (opts_for (written_opts w)) clk = COk c
     /\ exists p0 p1,
          read_all (scheme_text c mdt) = Some [p0; p1]
          /\ sem_forms h (c_iomap c) [p0; p1] f = Some (feval h (wrap (written_tree w)) clk f)
          /\ option_map (@hd sexp (SList [])) (scan_call p1) = Some (SStr mdt)
          /\ option_map (fun args => nth 4 args (SList [])) (scan_call p1)
             = Some match opt_threads (opts_for (written_opts w)) with
                    | Some n => SAtom (print_dec n)
                    | None => SList [SAtom (chars "lipe-getopt-thread-count")]
                    end.
Proof.
  intros h Hh w bs tr clk mdt f Hok Hlen Hwf Hun Hct Hdef.
  exact (text_to_meaning w bs tr Hok Hlen Hwf h Hh clk mdt f Hun Hct Hdef).
Qed.

Theorem e2e_text_to_meaning_uniform : forall h, host_law h -> forall w bs tr clk,
  written_ok w -> List.length bs = List.length (written_items w) ->
  wf_sentence (written_sentence w bs tr) ->
  first_unsupported (written_tree w) = None ->
  parse (Surface.render (written_sentence w bs tr))
    = ParseOk (opts_for (written_opts w)) (written_tree w)
  /\ exists c, compile (written_tree w) (opts_for (written_opts w)) clk = COk c
     /\ forall mdt, exists p0 p1,
          read_all (scheme_text c mdt) = Some [p0; p1]
          /\ option_map (@hd sexp (SList [])) (scan_call p1) = Some (SStr mdt)
          /\ option_map (fun args => nth 4 args (SList [])) (scan_call p1)
             = Some match opt_threads (opts_for (written_opts w)) with
                    | Some n => SAtom (print_dec n)
                    | None => SList [SAtom (chars "lipe-getopt-thread-count")]
                    end
          /\ forall f, ctime_free (written_tree w) = true -> defined (written_tree w) f = true ->
               sem_forms h (c_iomap c) [p0; p1] f = Some (feval h (wrap (written_tree w)) clk f).
Proof.
  intros h Hh w bs tr clk Hok Hlen Hwf Hun.
  exact (text_to_meaning_uniform w bs tr Hok Hlen Hwf h Hh clk Hun).
Qed.

Theorem e2e_unsupported : forall w bs tr clk k n,
  written_ok w -> List.length bs = List.length (written_items w) ->
  wf_sentence (written_sentence w bs tr) ->
  first_unsupported (written_tree w) = Some (k, n) ->
  parse (Surface.render (written_sentence w bs tr))
    = ParseOk (opts_for (written_opts w)) (written_tree w)
  /\ compile (written_tree w) (opts_for (written_opts w)) clk = CErr k n.
Proof.
  intros w bs tr clk k n Hok Hlen Hwf Hun.
  exact (written_unsupported w bs tr Hok Hlen Hwf clk k n Hun).
Qed.
