(** A compiled format string means the format (C02): Guile's [format] applied to the emitted
    template and arguments yields the text find's -printf rules give. *)
From Coq Require Import List String NArith ZArith Bool Lia ZifyBool ZifyN.
From FP Require Import Model.Chars Model.Ast Model.Sexp Model.Compile
  Spec.Unsupported Spec.FileRecord Spec.FindSem Spec.SchemeSem Spec.SchemeEnv
  Proofs.SemFacts Proofs.MgrEnv.
Import ListNotations.
Local Open Scope N_scope.

(** the specification's reading of an octal escape (Spec/FindSem.v) is the model's *)
Lemma scalar_or_zero_agree : forall v, Compile.scalar_or_zero v = FindSem.scalar_or_zero v.
Proof. reflexivity. Qed.

Ltac erase_lsts := repeat (rewrite erase_lst; cbn [map]).

Section WithHost.
Variable h : host.

(** * [format] on the pieces of a template *)
Lemma format_sem_char : forall c t args, (c =? 126) = false ->
  format_sem h (c :: t) args = option_map (cons c) (format_sem h t args).
Proof. intros c t args H. cbn [format_sem]. rewrite H. reflexivity. Qed.

Lemma format_sem_tilde : forall t args,
  format_sem h (126 :: 126 :: t) args = option_map (cons 126) (format_sem h t args).
Proof. reflexivity. Qed.

Lemma format_sem_dir : forall d t v args, (d =? 126) = false ->
  format_sem h (126 :: d :: t) (v :: args)
  = match directive h d v, format_sem h t args with
    | Some s, Some rest => Some (s ++ rest)
    | _, _ => None
    end.
Proof. intros d t v args H. cbn [format_sem]. change (126 =? 126) with true. cbn iota. rewrite H. reflexivity. Qed.

Lemma option_map_cons_app : forall (c : N) (s : str) (o : option str),
  option_map (cons c) (option_map (app s) o) = option_map (app (c :: s)) o.
Proof. intros c s [x|]; reflexivity. Qed.

Lemma format_sem_literal : forall s t args,
  format_sem h (double_tilde s ++ t) args = option_map (app s) (format_sem h t args).
Proof.
  intros s t args. induction s as [|c s IH].
  - cbn [double_tilde flat_map app]. destruct (format_sem h t args); reflexivity.
  - unfold double_tilde in *. cbn [flat_map]. destruct (c =? 126) eqn:E.
    + apply N.eqb_eq in E. subst c. cbn [app]. rewrite format_sem_tilde, IH.
      apply option_map_cons_app.
    + cbn [app]. rewrite format_sem_char by exact E. rewrite IH. apply option_map_cons_app.
Qed.

(** * Values of the argument snippets *)
Lemma show_int_of_N : forall n, show_int (Z.of_N n) = print_dec n.
Proof.
  intros n. unfold show_int. destruct (Z.of_N n <? 0)%Z eqn:E; [lia|]. rewrite N2Z.id. reflexivity.
Qed.
Lemma directive_d_of_N : forall n, directive h 100 (VInt (Z.of_N n)) = Some (print_dec n).
Proof.
  intros n. unfold directive. change (100 =? 97) with false. change (100 =? 100) with true.
  cbn iota. rewrite show_int_of_N. reflexivity.
Qed.
Lemma directive_a_str : forall s, directive h 97 (VStr s) = Some s.
Proof. reflexivity. Qed.
Lemma directive_o_of_N : forall n, directive h 111 (VInt (Z.of_N n)) = Some (octal n).
Proof.
  intros n. unfold directive. change (111 =? 97) with false. change (111 =? 100) with false.
  change (111 =? 111) with true. cbn iota.
  destruct (Z.of_N n <? 0)%Z eqn:E; [lia|]. rewrite N2Z.id. reflexivity.
Qed.
Lemma directive_f_ratio : forall a b, directive h 102 (VRatio a b) = Some (ratio_text h a b).
Proof. reflexivity. Qed.

(** the argument an element contributes *)
Definition elem_items (el : felem) : list lsexp :=
  match el with
  | EField fd => match snippet fd with Some sn => [sn] | None => [] end
  | _ => []
  end.
Lemma format_items_cons : forall el r, format_items (el :: r) = elem_items el ++ format_items r.
Proof.
  intros [s|fd|x] r; cbn [format_items elem_items]; try reflexivity.
  destruct (snippet fd); reflexivity.
Qed.

Lemma sem_val_text : forall x f t, sem_text h x f = Some t -> sem_val h x f = Some (VStr t).
Proof. intros x f t H. unfold sem_val. rewrite H. reflexivity. Qed.

Lemma sem_text_strftime : forall c g t f,
  num_field (chars g) f = Some t ->
  sem_text h (erase (strftime c g)) f = Some (strftime_text h c t).
Proof.
  intros c g t f Hg.
  change (sem_text h (erase (strftime c g)) f)
    with (match sem_num (SList [SAtom (chars g)]) f with
          | Some z => if (z <? 0)%Z then None else Some (strftime_text h c (Z.to_N z))
          | None => None
          end).
  rewrite sem_num_field, Hg. cbn [option_map].
  destruct (Z.of_N t <? 0)%Z eqn:E; [lia|]. rewrite N2Z.id. reflexivity.
Qed.

Lemma time_field_sound : forall c g t f,
  num_field (chars g) f = Some t -> str_field (chars g) f = None ->
  exists d v, chars (if c =? 64 then "~d"%string else "~a"%string) = [126; d] /\ (d =? 126) = false
              /\ sem_val h (erase (if c =? 64 then call0 g else strftime c g)) f = Some v
              /\ directive h d v = Some (time_text h c t).
Proof.
  intros c g t f Hg Hs. unfold time_text. destruct (c =? 64) eqn:E.
  - exists 100, (VInt (Z.of_N t)). split; [reflexivity|]. split; [reflexivity|].
    split; [|apply directive_d_of_N].
    unfold sem_val. rewrite erase_call0.
    change (sem_text h (SList [SAtom (chars g)]) f) with (str_field (chars g) f).
    rewrite Hs, sem_num_field, Hg. reflexivity.
  - exists 97, (VStr (strftime_text h c t)). split; [reflexivity|]. split; [reflexivity|].
    split; [|apply directive_a_str]. apply sem_val_text. apply sem_text_strftime. exact Hg.
Qed.

Lemma sparseness_val : forall f, (f_size f =? 0) = false ->
  sem_val h (erase (lst [atom "/"; lst [atom "*"; num 512; call0 "blocks"]; call0 "size"])) f
  = Some (VRatio (512 * f_blocks f) (f_size f)).
Proof.
  intros f Hz.
  change (sem_val h (erase (lst [atom "/"; lst [atom "*"; num 512; call0 "blocks"]; call0 "size"])) f)
    with (if ((0 <=? 512 * Z.of_N (f_blocks f)) && (0 <? Z.of_N (f_size f)))%Z
          then Some (VRatio (Z.to_N (512 * Z.of_N (f_blocks f))) (Z.to_N (Z.of_N (f_size f))))
          else None).
  destruct ((0 <=? 512 * Z.of_N (f_blocks f)) && (0 <? Z.of_N (f_size f)))%Z eqn:E; [|lia].
  f_equal. f_equal; lia.
Qed.

Lemma field_sound : forall fd sn f,
  snippet fd = Some sn -> field_unsupported fd = None ->
  elem_ctime_free (EField fd) = true -> elem_defined f (EField fd) = true ->
  exists d v, chars (placeholder fd) = [126; d] /\ (d =? 126) = false
              /\ sem_val h (erase sn) f = Some v
              /\ directive h d v = Some (field_text h fd f).
Proof.
  intros fd sn f Hs Hu Hc Hd.
  destruct fd as [ | |c| | |c| | | | | | | | | | | | | | | | | | | |c| | | | | | | | | | |a];
    cbn [snippet field_unsupported elem_ctime_free] in Hs, Hu, Hc;
    try discriminate Hs; try discriminate Hu; try discriminate Hc;
    injection Hs as <-; cbn [placeholder].
  all: try (eexists; eexists; split; [reflexivity|]; split; [reflexivity|];
            first [ split; [reflexivity | apply directive_a_str]
                  | split; [reflexivity | apply directive_d_of_N] ]).
  - apply time_field_sound; reflexivity.
  - apply time_field_sound; reflexivity.
  - (* %k *)
    exists 100, (VInt (Z.quot (Z.of_N (f_blocks f) + 1) 2)).
    split; [reflexivity|]. split; [reflexivity|]. split; [reflexivity|].
    rewrite quot_ceil2. apply directive_d_of_N.
  - (* %m *)
    exists 111, (VInt (Z.land (Z.of_N (f_mode f)) (Z.of_N 4095))).
    split; [reflexivity|]. split; [reflexivity|]. split; [reflexivity|].
    rewrite land_of_N. apply directive_o_of_N.
  - (* %S *)
    exists 102, (VRatio (512 * f_blocks f) (f_size f)).
    split; [reflexivity|]. split; [reflexivity|]. split; [|apply directive_f_ratio].
    apply sparseness_val. cbn [elem_defined] in Hd. destruct (f_size f =? 0); [discriminate Hd|reflexivity].
  - apply time_field_sound; reflexivity.
  - (* %{xattr:a} *)
    exists 97, (VStr match xattr_ref a (f_xattrs f) with Some v => v | None => [] end).
    split; [reflexivity|]. split; [reflexivity|]. split; [|apply directive_a_str].
    cbn [erase erase_items]. rewrite erase_lstr. reflexivity.
Qed.

(** * Elements, formats *)
Lemma all_some_app : forall (A : Type) (a b : list (option A)),
  all_some (a ++ b)
  = match all_some a, all_some b with Some x, Some y => Some (x ++ y) | _, _ => None end.
Proof.
  intros A a b. induction a as [|[x|] a IH]; cbn [app all_some].
  - destruct (all_some b); reflexivity.
  - rewrite IH. destruct (all_some a), (all_some b); reflexivity.
  - reflexivity.
Qed.

Definition elem_ok (f : file) (el : felem) : bool := elem_ctime_free el && elem_defined f el.

Lemma elem_sound : forall el p f,
  elem_piece el = COk p -> elem_ok f el = true ->
  exists ws, all_some (map (fun a => sem_val h a f) (map erase (elem_items el))) = Some ws
    /\ forall t vs, format_sem h (piece_value p ++ t) (ws ++ vs)
                    = option_map (app (elem_text h f el)) (format_sem h t vs).
Proof.
  intros el p f Hp Hok. apply andb_true_iff in Hok. destruct Hok as [Hc Hd].
  destruct el as [s|fd|x]; cbn [elem_piece] in Hp.
  - injection Hp as <-. exists []. split; [reflexivity|]. intros t vs.
    cbn [piece_value elem_text app]. apply format_sem_literal.
  - destruct (field_unsupported fd) eqn:Hu; [discriminate Hp|]. injection Hp as <-.
    cbn [elem_items piece_value elem_text]. destruct (snippet fd) as [sn|] eqn:Hs.
    + destruct (field_sound fd sn f Hs Hu Hc Hd) as (d & v & Hpl & Hd126 & Hv & Hdir).
      exists [v]. split; [cbn [map all_some]; rewrite Hv; reflexivity|]. intros t vs.
      rewrite Hpl. cbn [app]. rewrite format_sem_dir by exact Hd126. rewrite Hdir.
      destruct (format_sem h t vs); reflexivity.
    + exists []. split; [reflexivity|]. intros t vs.
      destruct fd; try discriminate Hs; try discriminate Hu.
      cbn [placeholder field_text app]. change (chars "%") with [37]. cbn [app].
      rewrite format_sem_char by reflexivity. destruct (format_sem h t vs); reflexivity.
  - exists []. split; [reflexivity|]. intros t vs.
    destruct x as [ | | | | | | | | | |v]; cbn [special_piece] in Hp; try discriminate Hp;
      injection Hp as <-; cbn [piece_value elem_text special_text app];
      try (rewrite format_sem_char by reflexivity; destruct (format_sem h t vs); reflexivity).
    exact (format_sem_literal [Compile.scalar_or_zero v] t vs).
Qed.

Lemma format_sound : forall fmt ps f,
  template fmt = COk ps -> forallb (elem_ok f) fmt = true ->
  exists ws, all_some (map (fun a => sem_val h a f) (map erase (format_items fmt))) = Some ws
    /\ forall t vs, format_sem h (flat_map piece_value ps ++ t) (ws ++ vs)
                    = option_map (app (format_text h fmt f)) (format_sem h t vs).
Proof.
  induction fmt as [|el r IH]; intros ps f Ht Hok; cbn [template] in Ht.
  - injection Ht as <-. exists []. split; [reflexivity|]. intros t vs.
    cbn [flat_map app format_text]. destruct (format_sem h t vs); reflexivity.
  - destruct (elem_piece el) as [p|k c|m] eqn:Ep; try discriminate Ht.
    destruct (template r) as [ps'|k c|m] eqn:Er; try discriminate Ht. injection Ht as <-.
    cbn [forallb] in Hok. apply andb_true_iff in Hok. destruct Hok as [Hel Hr].
    destruct (elem_sound el p f Ep Hel) as (w1 & Hw1 & H1).
    destruct (IH ps' f eq_refl Hr) as (w2 & Hw2 & H2).
    exists (w1 ++ w2). split.
    + rewrite format_items_cons, !map_app, all_some_app, Hw1, Hw2. reflexivity.
    + intros t vs. cbn [flat_map]. rewrite <- !app_assoc, H1, H2.
      unfold format_text. cbn [flat_map]. destruct (format_sem h t vs); cbn [option_map];
        [rewrite app_assoc|]; reflexivity.
Qed.

Lemma compile_format_sound : forall fmt x f,
  compile_format fmt = COk x -> forallb (elem_ok f) fmt = true ->
  sem_str h (erase x) f = Some (format_text h fmt f).
Proof.
  intros fmt x f E Hok. unfold compile_format in E.
  destruct (template fmt) as [ps|k c|m] eqn:Et; try discriminate E.
  destruct (format_sound fmt ps f Et Hok) as (ws & Hws & Hf).
  assert (Hx : erase x = SList (SAtom (chars "format") :: SAtom (chars "#f")
                                 :: SStr (flat_map piece_value ps) :: map erase (format_items fmt))).
  { destruct (format_items fmt) as [|i its]; injection E as <-.
    - reflexivity.
    - cbn [erase erase_items items_app]. rewrite erase_items_sep. reflexivity. }
  rewrite Hx.
  change (sem_str h (SList (SAtom (chars "format") :: SAtom (chars "#f")
                              :: SStr (flat_map piece_value ps) :: map erase (format_items fmt))) f)
    with (match all_some (map (fun a => sem_val h a f) (map erase (format_items fmt))) with
          | Some vs => format_sem h (flat_map piece_value ps) vs
          | None => None
          end).
  rewrite Hws. specialize (Hf [] []). rewrite !app_nil_r in Hf. rewrite Hf.
  cbn [format_sem option_map]. rewrite app_nil_r. reflexivity.
Qed.

End WithHost.
