(** C18 (error attribution) and the rejecting half of C05, for the keyword standing anywhere
    after a prefix that lexes fine. *)
From Coq Require Import List String Ascii NArith Bool Arith Lia ZifyBool ZifyN.
From FP Require Import Model.Chars Model.Winnow Model.Ast Model.Args Model.Perm Model.Format Model.Lex
  Model.Prec Model.Parse.
From FP Require Import Spec.Decimal Spec.Numeric Spec.PermWord Spec.Messages.
From FP Require Spec.Chmod.
From FP Require Import Proofs.WinnowFacts Proofs.WinnowTotal Proofs.Numbers Proofs.PermProofs
  Proofs.Dispatch Proofs.FirstError Proofs.TokenView Proofs.ArgFail Proofs.ErrorSane Proofs.ErrorCtx
  Proofs.LexTotal.
Import ListNotations.
Local Open Scope N_scope.

(** * the word a message quotes *)
Lemma next_word_nil : next_word [] = [].
Proof. reflexivity. Qed.
Lemma next_word_paren r : next_word (close_paren :: r) = [].
Proof. reflexivity. Qed.
Lemma next_word_no_word a : no_word a -> next_word a = [].
Proof. intros [H|[r H]]; subst a; reflexivity. Qed.

Lemma next_word_bare w rest : bare_word w -> ends_word rest -> next_word (w ++ rest) = w.
Proof.
  intros (Hne & Hb & Hq) He. unfold next_word, parse_string, context.
  rewrite (quote_delimiter_bare w rest Hne Hb).
  - reflexivity.
  - unfold ends_word in He. destruct rest as [|c rest]; [exact I|exact He].
  - destruct w as [|c w]; [exact I|exact Hq].
Qed.

Lemma until_app q w rest : forallb (fun c => negb (c =? q)) w = true ->
  until_ q (w ++ q :: rest) = Some (w, q :: rest).
Proof.
  induction w as [|c w IH]; intros H; cbn [app until_].
  - rewrite N.eqb_refl. reflexivity.
  - cbn [forallb] in H. apply andb_true_iff in H as [Hc Hw]. apply negb_true_iff in Hc.
    rewrite Hc, (IH Hw). reflexivity.
Qed.

Lemma delimited_hit q c w rest :
  chars q = [c] -> until_ c (w ++ c :: rest) = Some (w, c :: rest) ->
  delimited (literal q) (take_until0 c) (literal q) (c :: w ++ c :: rest) = (Ok w, rest).
Proof.
  intros Hq Hu. unfold delimited, preceded, terminated, bind, pmap.
  rewrite (literal1_hit c q _ Hq). unfold take_until0. rewrite Hu.
  rewrite (literal1_hit c q _ Hq). reflexivity.
Qed.

(** a double-quoted string is quoted without its quotes *)
Lemma next_word_dquoted w rest : forallb (fun c => negb (c =? 34)) w = true ->
  next_word (34 :: w ++ 34 :: rest) = w.
Proof.
  intros H. unfold next_word, parse_string, context, quote_delimiter. rewrite alt_cons2.
  rewrite (delimited_hit """" 34 w rest eq_refl (until_app 34 w rest H)). reflexivity.
Qed.

(** * prefixes that lex fine *)
Lemma lexes_fine_nil rest : head_in is_space rest = false -> lexes_fine [] rest.
Proof. intros H. unfold lexes_fine. cbn [app]. rewrite (skip_blanks_none rest H). apply lexes_here. Qed.

Lemma skip_blanks_cons c r : is_space c = true -> skip_blanks (c :: r) = skip_blanks r.
Proof.
  intros H. unfold skip_blanks. cbn [span]. rewrite H. destruct (span is_space r); reflexivity.
Qed.

Lemma skip_blanks_app bl a : forallb is_space bl = true -> skip_blanks (bl ++ a) = skip_blanks a.
Proof.
  induction bl as [|c bl IH]; intros H; [reflexivity|].
  cbn [forallb] in H. apply andb_true_iff in H as [Hc Hb]. cbn [app].
  rewrite (skip_blanks_cons c _ Hc). exact (IH Hb).
Qed.

Lemma token_true rest : at_word_end rest = true ->
  parse_token (chars "-true" ++ rest) = (Ok (KPrim (LTest TTrue)), rest).
Proof.
  intros Hwe. rewrite (parse_token_prims (chars "-true" ++ rest) eq_refl), prims_alt_flat.
  rewrite (alt_dispatch all_table (chars "-true" ++ rest) all_table_ok 33 ("-true"%string, lift "test" wt (value TTrue (literal "-true")))
             eq_refl eq_refl I).
  cbn [snd]. change (lift "test" wt (value TTrue (literal "-true")) (chars "-true" ++ rest))
    with (Ok (KPrim (LTest TTrue)), rest). cbv beta iota. rewrite Hwe. reflexivity.
Qed.

Lemma lexes_fine_true rest :
  head_in is_space rest = false -> lexes_fine (chars "-true ") rest.
Proof.
  intros H. unfold lexes_fine. change (chars "-true " ++ rest) with (chars "-true" ++ 32 :: rest).
  rewrite skip_blanks_none by reflexivity.
  apply (lexes_step _ (KPrim (LTest TTrue)) rest); [|apply lexes_here].
  rewrite token_step_eq, (token_true (32 :: rest) eq_refl).
  rewrite (skip_blanks_cons 32 rest eq_refl), (skip_blanks_none rest H). reflexivity.
Qed.

(** * what the forty keywords have in common *)
Definition fail_ctxs (l : arglang) : list (list ctx * option string) :=
  let ui := Some "Expected an unsigned integer"%string in
  let st := Some "Expected a string"%string in
  match l with
  | LCount => [([Expected "unsigned_integer"; Label "comparison"], ui)]
  | LTime => [([Expected "unsigned_integer"; Label "timespec"; Label "comparison"], ui)]
  | LSize => [([Expected "unsigned_integer"; Label "size"; Label "comparison"], ui)]
  | LString => [([Expected "string"], st)]
  | LTypes => [([Expected "invalid_type_specifier"], Some "Found an invalid type specifier"%string);
               ([], None)]
  | LPerm | LFormat => [([], None)]
  | LUnsigned => [([Expected "unsigned_integer"], ui)]
  | LRefused => [([Expected "unsigned_integer"; Expected "unsupported_option"], ui)]
  | LTwoStrings => [([Expected "string"; Expected "attribute"; Expected "attribute_and_value"], st)]
  | LFileFormat => [([Expected "string"; Expected "filename"; Expected "filename_and_format"], st)]
  end.

Definition msg_ok (K : string) (k : kind) (ce : list ctx * option string) : Prop :=
  forall a, message (fst ce ++ primary_ctx K k) a = failed_msg (next_word a) k K (snd ce).

Lemma keyword_static K k l p : In (K, k, l, p) arg_table ->
  bare_word (chars K)
  /\ Forall (msg_ok K k) ((missing_ctx l, missing_expl l) :: fail_ctxs l).
Proof.
  intros Hin. unfold arg_table in Hin.
  repeat (destruct Hin as [Hin|Hin];
          [inversion Hin; subst; clear Hin;
           split; [repeat split; discriminate || reflexivity
                  |repeat constructor; intros a; reflexivity]|]).
  destruct Hin.
Qed.

(** the argument parser of each keyword fails in place on a text invalid from the start *)
Lemma fail_types_erased a : head_in (in_str "bcdpfls") a = false ->
  exists (b : bool) c,
    erased parse_filetypes a = ((if b then Cut c else Back c), a)
    /\ In (c, if head_in is_alpha a then Some "Found an invalid type specifier"%string else None)
          (fail_ctxs LTypes).
Proof.
  intros H. unfold erased, value, pmap. rewrite (fail_filetypes a H).
  destruct (head_in is_alpha a).
  - exists true, [Expected "invalid_type_specifier"]. split; [reflexivity|left; reflexivity].
  - exists false, []. split; [reflexivity|right; left; reflexivity].
Qed.

Ltac fail_case Hb :=
  first
    [ exists true; eexists; split;
      [apply (erased_err _ _ true);
       first [apply fail_cmp_uint | apply fail_cmp_time | apply fail_cmp_size]; exact Hb
      |left; reflexivity]
    | exists false; eexists; split;
      [first [ apply (erased_err _ _ false);
               first [apply fail_string | apply fail_perm | apply fail_format
                     | apply fail_refused | apply parse_uint_no_digit]
             | apply (fail_two_args "attribute") | apply (fail_two_args "filename") ]; exact Hb
      |left; reflexivity] ].

Lemma arg_fails K k l p a e : In (K, k, l, p) arg_table -> bad_start l a e ->
  exists (b : bool) c, p a = ((if b then Cut c else Back c), a) /\ In (c, e) (fail_ctxs l).
Proof.
  intros Hin [Hsp Hbad]. unfold arg_table in Hin.
  repeat (destruct Hin as [Hin|Hin];
    [inversion Hin; subst; clear Hin; cbn [bad_start] in Hbad; destruct Hbad as [Hb ->];
     first [ exact (fail_types_erased a Hb)
           | fail_case Hb ]|]).
  destruct Hin.
Qed.

(** * blanks between the keyword and its argument *)
Lemma blanks_facts bl a : blanks bl -> head_in is_space a = false ->
  at_word_end (bl ++ a) = true /\ head_in is_space (bl ++ a) = true /\ skip_blanks (bl ++ a) = a.
Proof.
  intros [Hne Hb] Ha. destruct bl as [|c bl]; [contradiction|].
  pose proof Hb as Hb'. cbn [forallb] in Hb'. apply andb_true_iff in Hb' as [Hc _].
  cbn [app at_word_end head_in]. rewrite Hc. repeat split.
  change (c :: bl ++ a) with ((c :: bl) ++ a).
  rewrite (skip_blanks_app (c :: bl) a Hb). exact (skip_blanks_none a Ha).
Qed.

Lemma ends_word_blanks bl a : blanks bl -> ends_word (bl ++ a).
Proof.
  intros [Hne Hb]. destruct bl as [|c bl]; [contradiction|].
  cbn [forallb] in Hb. apply andb_true_iff in Hb as [Hc _].
  unfold ends_word. cbn [app head_in]. unfold bare_char. unfold is_space in Hc. lia.
Qed.

Lemma message_invalid_token rest : message invalid_token_error rest = unexpected_msg (next_word rest).
Proof. reflexivity. Qed.

(** * the theorems *)

(** every failure of a keyword's argument parser — whatever it is — is reported as an error of
    that keyword, with the cursor where the argument parser left it *)
Theorem arg_error K k l p pre bl a (b : bool) c r2 :
  In (K, k, l, p) arg_table -> lexes_fine pre (chars K ++ bl ++ a) -> blanks bl ->
  head_in is_space a = false -> p a = ((if b then Cut c else Back c), r2) ->
  parse (pre ++ chars K ++ bl ++ a) = ParseErr (message (c ++ primary_ctx K k) r2).
Proof.
  intros Hin Hlf Hbl Ha Hp.
  destruct (keyword_static K k l p Hin) as [[Hne _] _].
  destruct (blanks_facts bl a Hbl Ha) as (Hwe & Hsp & Hsk).
  pose proof (token_view_ok K k l p (bl ++ a) Hin Hwe) as Hv.
  unfold token_view in Hv. rewrite Hsp, Hsk, Hp in Hv.
  apply (first_error (pre ++ chars K ++ bl ++ a) (chars K ++ bl ++ a) true).
  - exact Hlf.
  - destruct (chars K); [contradiction|discriminate].
  - rewrite token_step_eq. destruct b; rewrite Hv; reflexivity.
Qed.

Theorem missing_arg K k l p pre :
  In (K, k, l, p) arg_table -> lexes_fine pre (chars K) ->
  parse (pre ++ chars K) = ParseErr (failed_msg [] k K (missing_expl l)).
Proof.
  intros Hin Hlf. destruct (keyword_static K k l p Hin) as [[Hne _] Hmsg].
  pose proof (token_view_ok K k l p [] Hin eq_refl) as Hv.
  unfold token_view in Hv. cbn [head_in] in Hv. rewrite app_nil_r in Hv.
  inversion Hmsg as [|x y Hm _]; subst. specialize (Hm []). cbn [fst snd] in Hm.
  rewrite next_word_nil in Hm. rewrite <- Hm.
  apply (first_error (pre ++ chars K) (chars K) true).
  - exact Hlf.
  - exact Hne.
  - rewrite token_step_eq, Hv. reflexivity.
Qed.

Theorem invalid_arg K k l p pre bl a e :
  In (K, k, l, p) arg_table -> lexes_fine pre (chars K ++ bl ++ a) -> blanks bl ->
  bad_start l a e ->
  parse (pre ++ chars K ++ bl ++ a) = ParseErr (failed_msg (next_word a) k K e).
Proof.
  intros Hin Hlf Hbl Hbad.
  destruct (arg_fails K k l p a e Hin Hbad) as (b & c & Hp & Hc).
  destruct (keyword_static K k l p Hin) as [_ Hmsg].
  inversion Hmsg as [|x y _ Hm]; subst. rewrite Forall_forall in Hm.
  specialize (Hm (c, e) Hc a). cbn [fst snd] in Hm. rewrite <- Hm.
  destruct Hbad as [Ha _].
  exact (arg_error K k l p pre bl a b c a Hin Hlf Hbl Ha Hp).
Qed.

(** the argument parser accepts a piece of the word and stops short of a word end: the token
    parser backtracks to the start of the primary, and the input is rejected *)
Theorem token_reject_arg K k l p bl a r2 :
  In (K, k, l, p) arg_table -> blanks bl -> head_in is_space a = false ->
  p a = (Ok tt, r2) -> at_word_end r2 = false ->
  parse_token (chars K ++ bl ++ a) = (Back invalid_token_error, chars K ++ bl ++ a).
Proof.
  intros Hin Hbl Ha Hp Hr.
  destruct (blanks_facts bl a Hbl Ha) as (Hwe & Hsp & Hsk).
  pose proof (token_view_ok K k l p (bl ++ a) Hin Hwe) as Hv.
  unfold token_view in Hv. rewrite Hsp, Hsk, Hp, Hr in Hv. exact Hv.
Qed.

Theorem reject_arg K k l p pre bl a r2 :
  In (K, k, l, p) arg_table -> lexes_fine pre (chars K ++ bl ++ a) -> blanks bl ->
  head_in is_space a = false -> p a = (Ok tt, r2) -> at_word_end r2 = false ->
  parse (pre ++ chars K ++ bl ++ a) = ParseErr (unexpected_msg (chars K)).
Proof.
  intros Hin Hlf Hbl Ha Hp Hr.
  destruct (keyword_static K k l p Hin) as [Hbw _].
  pose proof (token_reject_arg K k l p bl a r2 Hin Hbl Ha Hp Hr) as Ht.
  replace (unexpected_msg (chars K)) with (message invalid_token_error (chars K ++ bl ++ a))
    by (rewrite message_invalid_token,
          (next_word_bare (chars K) (bl ++ a) Hbw (ends_word_blanks bl a Hbl)); reflexivity).
  apply (first_error (pre ++ chars K ++ bl ++ a) (chars K ++ bl ++ a) false).
  - exact Hlf.
  - destruct Hbw as [Hne _]. destruct (chars K); [contradiction|discriminate].
  - rewrite token_step_eq, Ht. reflexivity.
Qed.

(** no keyword at all *)
Theorem unknown_word pre i :
  unknown_at i = true -> i <> [] -> lexes_fine pre i ->
  parse (pre ++ i) = ParseErr (unexpected_msg (next_word i)).
Proof.
  intros Hu Hne Hlf. rewrite <- message_invalid_token.
  apply (first_error (pre ++ i) i false).
  - exact Hlf.
  - exact Hne.
  - rewrite token_step_eq, (token_unknown i Hu). reflexivity.
Qed.

(** * the two prefixes that need no hypothesis *)
Lemma bare_word_head w x : bare_word w -> head_in is_space (w ++ x) = false.
Proof.
  intros (Hne & Hb & _). destruct w as [|c w]; [contradiction|].
  cbn [forallb] in Hb. apply andb_true_iff in Hb as [Hc _]. cbn [app head_in].
  unfold bare_char in Hc. unfold is_space. lia.
Qed.

Lemma keyword_head K k l p x : In (K, k, l, p) arg_table -> head_in is_space (chars K ++ x) = false.
Proof. intros Hin. destruct (keyword_static K k l p Hin) as [Hbw _]. exact (bare_word_head _ x Hbw). Qed.

Lemma lexes_fine_first K k l p x : In (K, k, l, p) arg_table -> lexes_fine [] (chars K ++ x).
Proof. intros Hin. apply lexes_fine_nil. exact (keyword_head K k l p x Hin). Qed.
Lemma lexes_fine_after_true K k l p x :
  In (K, k, l, p) arg_table -> lexes_fine (chars "-true ") (chars K ++ x).
Proof. intros Hin. apply lexes_fine_true. exact (keyword_head K k l p x Hin). Qed.

Theorem missing_arg_first K k l p : In (K, k, l, p) arg_table ->
  parse (chars K) = ParseErr (failed_msg [] k K (missing_expl l)).
Proof.
  intros Hin. apply (missing_arg K k l p [] Hin).
  rewrite <- (app_nil_r (chars K)). exact (lexes_fine_first K k l p [] Hin).
Qed.
Theorem missing_arg_after_true K k l p : In (K, k, l, p) arg_table ->
  parse (chars "-true " ++ chars K) = ParseErr (failed_msg [] k K (missing_expl l)).
Proof.
  intros Hin. apply (missing_arg K k l p (chars "-true ") Hin).
  rewrite <- (app_nil_r (chars K)). exact (lexes_fine_after_true K k l p [] Hin).
Qed.
Theorem invalid_arg_first K k l p bl a e :
  In (K, k, l, p) arg_table -> blanks bl -> bad_start l a e ->
  parse (chars K ++ bl ++ a) = ParseErr (failed_msg (next_word a) k K e).
Proof.
  intros Hin Hbl Hbad. exact (invalid_arg K k l p [] bl a e Hin (lexes_fine_first K k l p _ Hin) Hbl Hbad).
Qed.
Theorem invalid_arg_after_true K k l p bl a e :
  In (K, k, l, p) arg_table -> blanks bl -> bad_start l a e ->
  parse (chars "-true " ++ chars K ++ bl ++ a) = ParseErr (failed_msg (next_word a) k K e).
Proof.
  intros Hin Hbl Hbad.
  exact (invalid_arg K k l p _ bl a e Hin (lexes_fine_after_true K k l p _ Hin) Hbl Hbad).
Qed.

(** * trailing junk after a number *)
Lemma prefix_digits_head sg ds j : digits ds -> ds <> [] ->
  head_in is_space (prefix_str sg ++ ds ++ j) = false.
Proof.
  intros Hd Hne. destruct sg; try reflexivity. cbn [prefix_str app].
  destruct ds as [|c ds]; [contradiction|]. inversion Hd as [|x y Hc _]; subst.
  cbn [app head_in]. unfold digit in Hc. unfold is_space. lia.
Qed.

Lemma count_junk K k p sg ds j : In (K, k, LCount, p) arg_table ->
  digits ds -> ds <> [] -> pos_value ds < 2 ^ 32 -> not_starting_with digit j ->
  p (prefix_str sg ++ ds ++ j) = (Ok tt, j).
Proof.
  intros Hin Hd Hne Hv Hj.
  assert (H32 : erased (parse_cmp parse_u32) (prefix_str sg ++ ds ++ j) = (Ok tt, j)).
  { unfold erased, value, pmap, parse_u32. rewrite (parse_cmp_uint_exact two32 sg ds j Hd Hne Hj).
    rewrite two32_pow. destruct (N.ltb_spec (pos_value ds) (2 ^ 32)) as [_|Hge]; [reflexivity|lia]. }
  assert (H64 : erased (parse_cmp parse_u64) (prefix_str sg ++ ds ++ j) = (Ok tt, j)).
  { unfold erased, value, pmap, parse_u64. rewrite (parse_cmp_uint_exact two64 sg ds j Hd Hne Hj).
    rewrite two64_pow. destruct (N.ltb_spec (pos_value ds) (2 ^ 64)) as [_|Hge]; [reflexivity|].
    assert (2 ^ 32 < 2 ^ 64) by reflexivity. lia. }
  unfold arg_table in Hin.
  repeat (destruct Hin as [Hin|Hin]; [inversion Hin; subst; clear Hin; first [exact H32|exact H64]|]).
  destruct Hin.
Qed.

(** a count followed by junk: "-uid 12x", "-links +3=" ... *)
Theorem reject_count_junk K k p pre bl sg ds j :
  In (K, k, LCount, p) arg_table -> lexes_fine pre (chars K ++ bl ++ prefix_str sg ++ ds ++ j) ->
  blanks bl -> digits ds -> ds <> [] -> pos_value ds < 2 ^ 32 ->
  not_starting_with digit j -> at_word_end j = false ->
  parse (pre ++ chars K ++ bl ++ prefix_str sg ++ ds ++ j) = ParseErr (unexpected_msg (chars K)).
Proof.
  intros Hin Hlf Hbl Hd Hne Hv Hj Hwe.
  exact (reject_arg K k LCount p pre bl _ j Hin Hlf Hbl (prefix_digits_head sg ds j Hd Hne)
           (count_junk K k p sg ds j Hin Hd Hne Hv Hj) Hwe).
Qed.

(** a size with its unit followed by junk: "-size 5k9" *)
Theorem reject_size_junk pre bl sg ds u j :
  lexes_fine pre (chars "-size" ++ bl ++ prefix_str sg ++ ds ++ size_letter u :: j) ->
  blanks bl -> digits ds -> ds <> [] -> pos_value ds < 2 ^ 64 -> at_word_end j = false ->
  parse (pre ++ chars "-size" ++ bl ++ prefix_str sg ++ ds ++ size_letter u :: j)
  = ParseErr (unexpected_msg (chars "-size")).
Proof.
  intros Hlf Hbl Hd Hne Hv Hwe.
  assert (Hin : In ("-size"%string, KTest, LSize, erased (parse_cmp parse_size)) arg_table).
  { unfold arg_table. do 25 right. left. reflexivity. }
  apply (reject_arg _ _ _ _ pre bl _ j Hin Hlf Hbl).
  - exact (prefix_digits_head sg ds _ Hd Hne).
  - unfold erased, value, pmap.
    rewrite (parse_cmp_prefix_ok parse_size sg (ds ++ size_letter u :: j) (Size u (pos_value ds)) j).
    + reflexivity.
    + exact (digits_not_starting_with_sign ds _ Hd Hne).
    + rewrite (parse_size_unit u ds j Hd Hne).
      destruct (N.ltb_spec (pos_value ds) (2 ^ 64)) as [_|Hge]; [reflexivity|lia].
  - exact Hwe.
Qed.

(** * every failure of an argument parser names the keyword *)
Theorem arg_error_named K k l p pre bl a (b : bool) c r2 :
  In (K, k, l, p) arg_table -> lexes_fine pre (chars K ++ bl ++ a) -> blanks bl ->
  head_in is_space a = false -> p a = ((if b then Cut c else Back c), r2) ->
  exists e, parse (pre ++ chars K ++ bl ++ a) = ParseErr (failed_msg (next_word r2) k K e).
Proof.
  intros Hin Hlf Hbl Ha Hp.
  rewrite (arg_error K k l p pre bl a b c r2 Hin Hlf Hbl Ha Hp).
  destruct (keyword_benign K k l p Hin) as [HK HB].
  assert (Hc : Forall benign c).
  { pose proof (arg_table_ectx K k l p Hin a) as H. rewrite Hp in H. destruct b; exact H. }
  destruct (message_primary c K k r2 HK HB Hc) as [e He]. exists e. rewrite He. reflexivity.
Qed.

(** a -perm word that is not a mode as a whole (embedded or trailing junk included) *)
Theorem reject_perm_word pre bl o rest :
  lexes_fine pre (chars "-perm" ++ bl ++ o ++ rest) -> blanks bl ->
  bare_word o -> ends_word rest -> is_ok (fst (perm_word o)) = false ->
  exists e, parse (pre ++ chars "-perm" ++ bl ++ o ++ rest)
            = ParseErr (failed_msg o KTest "-perm" e).
Proof.
  intros Hlf Hbl Hbw Hend Hnok.
  assert (Hin : In ("-perm"%string, KTest, LPerm, erased parse_perm_arg) arg_table).
  { unfold arg_table. do 21 right. left. reflexivity. }
  assert (Ha : head_in is_space (o ++ rest) = false) by exact (bare_word_head o rest Hbw).
  assert (Hq : quote_delimiter (o ++ rest) = (Ok o, rest)).
  { destruct Hbw as (Hne & Hb & Hq). apply quote_delimiter_bare; try assumption.
    - unfold ends_word in Hend. destruct rest as [|ch rest]; [exact I|exact Hend].
    - destruct o as [|ch o]; [exact I|exact Hq]. }
  assert (Hp : exists (b : bool) c,
             erased parse_perm_arg (o ++ rest) = ((if b then Cut c else Back c), o ++ rest)).
  { unfold erased, value, pmap. rewrite parse_perm_arg_is_perm_word. unfold and_then. rewrite Hq.
    pose proof (wf_parse_perm_arg false (o ++ rest)) as Hw.
    rewrite parse_perm_arg_is_perm_word in Hw. unfold and_then in Hw. rewrite Hq in Hw.
    destruct (perm_word o) as [[v|c|c|s] r]; cbn [fst is_ok] in Hnok.
    - discriminate.
    - exists false, c. reflexivity.
    - exists true, c. reflexivity.
    - destruct Hw. }
  destruct Hp as (b & c & Hp).
  destruct (arg_error_named _ _ _ _ pre bl (o ++ rest) b c (o ++ rest) Hin Hlf Hbl Ha Hp) as [e He].
  exists e. rewrite He, (next_word_bare o rest Hbw Hend). reflexivity.
Qed.

(** a -perm word invalid from the first character of its body: after the optional '/' or '-'
    comes neither an octal digit nor one of u, g, o, a *)
Lemma perm_word_bad_start (sg : Chmod.prefix) body :
  stops is_oct body -> stops (in_str "ugoa") body -> no_prefix_head body ->
  perm_word (Chmod.prefix_str sg ++ body) = (Cut perm_format_error, body).
Proof.
  intros Ho Hu Hn. apply perm_word_cut. rewrite (permcheck_prefix sg body Hn).
  assert (H : parse_permission body
              = (Back [Expected "invalid_permission_format"; Label "permission"], body)).
  { unfold parse_permission. erewrite context_back; cycle 1.
    { erewrite alt_back; cycle 1.
      { apply try_map_back, try_map_back, take_while_stop; [lia|exact Ho]. }
      apply symbolic_alts_fail. exact Hu. }
    reflexivity. }
  rewrite H. reflexivity.
Qed.

Theorem invalid_perm_start pre bl (sg : Chmod.prefix) body rest :
  lexes_fine pre (chars "-perm" ++ bl ++ (Chmod.prefix_str sg ++ body) ++ rest) -> blanks bl ->
  bare_word (Chmod.prefix_str sg ++ body) -> ends_word rest ->
  stops is_oct body -> stops (in_str "ugoa") body -> no_prefix_head body ->
  parse (pre ++ chars "-perm" ++ bl ++ (Chmod.prefix_str sg ++ body) ++ rest)
  = ParseErr (failed_msg (Chmod.prefix_str sg ++ body) KTest "-perm" (Some "Invalid permission format"%string)).
Proof.
  intros Hlf Hbl Hbw Hend Ho Hu Hn. set (o := Chmod.prefix_str sg ++ body) in *.
  assert (Hin : In ("-perm"%string, KTest, LPerm, erased parse_perm_arg) arg_table).
  { unfold arg_table. do 21 right. left. reflexivity. }
  assert (Ha : head_in is_space (o ++ rest) = false) by exact (bare_word_head o rest Hbw).
  assert (Hq : quote_delimiter (o ++ rest) = (Ok o, rest)).
  { destruct Hbw as (Hne & Hb & Hq). apply quote_delimiter_bare; try assumption.
    - unfold ends_word in Hend. destruct rest as [|ch rest]; [exact I|exact Hend].
    - destruct o as [|ch o']; [exact I|exact Hq]. }
  assert (Hp : erased parse_perm_arg (o ++ rest) = (Cut perm_format_error, o ++ rest)).
  { unfold erased, value, pmap. rewrite parse_perm_arg_is_perm_word. unfold and_then. rewrite Hq.
    unfold o. rewrite (perm_word_bad_start sg body Ho Hu Hn). reflexivity. }
  rewrite (arg_error _ _ _ _ pre bl (o ++ rest) true perm_format_error (o ++ rest) Hin Hlf Hbl Ha Hp).
  rewrite <- (next_word_bare o rest Hbw Hend) at 2. reflexivity.
Qed.

Lemma vocabulary_ok : vocabulary_recognised.
Proof. split; vm_compute; reflexivity. Qed.
