(** Characterising lemmas for the combinators of Model/Winnow.v that the format-string proofs
    need: [alt] over a table of keyword parsers, and fuel-free unfolding equations for
    [repeat0] and [repeat_till0] (fuel [S (len i)] suffices because every iteration consumes). *)
From Coq Require Import List String NArith Bool Arith Lia.
From FP Require Import Model.Chars Model.Winnow.
Import ListNotations.

(** * [lit_] and [literal] *)
Lemma lit_app : forall k r, lit_ k (k ++ r) = Some r.
Proof.
  intros k r. induction k as [|c k IH]; cbn [lit_ app]; [reflexivity|].
  rewrite N.eqb_refl. exact IH.
Qed.

Lemma lit_some : forall k i r, lit_ k i = Some r -> i = k ++ r.
Proof.
  intros k. induction k as [|c k IH]; intros i r H; cbn [lit_] in H.
  - injection H as H. subst. reflexivity.
  - destruct i as [|d i]; [discriminate|].
    destruct (N.eqb_spec c d) as [E|E]; [|discriminate].
    subst d. cbn [app]. f_equal. apply IH. exact H.
Qed.

Lemma value_literal : forall {A} (a : A) w i,
  value a (literal w) i =
  match lit_ (chars w) i with Some r => (Ok a, r) | None => (Back [], i) end.
Proof.
  intros A a w i. unfold value, pmap, literal. destruct (lit_ (chars w) i); reflexivity.
Qed.

(** * [alt] *)
Section Alt.
Context {I A : Type}.

Lemma alt_cons : forall (p : @parser I A) ps i,
  alt (p :: ps) i =
  match p i with
  | (Back c, r) => match ps with [] => (Back c, r) | _ => alt ps i end
  | x => x
  end.
Proof.
  intros p ps i. destruct ps as [|q qs]; cbn [alt].
  - destruct (p i) as [[a|c|c|m] r]; reflexivity.
  - destruct (p i) as [[a|c|c|m] r]; reflexivity.
Qed.
End Alt.

(** a table of keyword parsers [value a (literal w)] tried in order *)
Definition tblp {A} (tbl : list (string * A)) : list (@parser str A) :=
  map (fun wa => value (snd wa) (literal (fst wa))) tbl.

Fixpoint lookup {A} (tbl : list (string * A)) (i : str) : option (A * str) :=
  match tbl with
  | [] => None
  | (w, a) :: t => match lit_ (chars w) i with Some r => Some (a, r) | None => lookup t i end
  end.

Lemma alt_tbl : forall {A} (tbl : list (string * A)) ps i,
  alt (tblp tbl ++ ps) i =
  match lookup tbl i with Some (a, r) => (Ok a, r) | None => alt ps i end.
Proof.
  intros A tbl ps i. induction tbl as [|[w a] t IH]; [reflexivity|].
  cbn [tblp map app lookup fst snd]. rewrite alt_cons, value_literal.
  destruct (lit_ (chars w) i) as [r|]; [reflexivity|].
  fold (tblp t). destruct (tblp t ++ ps) as [|q qs] eqn:E.
  - rewrite <- IH. reflexivity.
  - exact IH.
Qed.

Lemma alt_tbl0 : forall {A} (tbl : list (string * A)) i,
  alt (tblp tbl) i =
  match lookup tbl i with Some (a, r) => (Ok a, r) | None => (Back [], i) end.
Proof.
  intros A tbl i. rewrite <- (app_nil_r (tblp tbl)). rewrite alt_tbl. reflexivity.
Qed.

Lemma lookup_some : forall {A} (tbl : list (string * A)) i a r,
  lookup tbl i = Some (a, r) -> exists w, In (w, a) tbl /\ i = chars w ++ r.
Proof.
  intros A tbl i a r. induction tbl as [|[w b] t IH]; intros H; cbn [lookup] in H; [discriminate|].
  destruct (lit_ (chars w) i) as [r'|] eqn:E.
  - injection H as H1 H2. subst b r'. exists w. split; [left; reflexivity|].
    apply lit_some. exact E.
  - destruct (IH H) as [w' [Hin Hi]]. exists w'. split; [right; exact Hin|exact Hi].
Qed.

(** * [repeat0] and [repeat_till0] without fuel *)
Section Repeat.
Context {I : Type}.
Variable len : I -> nat.

Section Repeat0.
Context {A : Type}.
Variable p : @parser I A.
Hypothesis Hcons : forall i a r, p i = (Ok a, r) -> len r < len i.

Lemma repeat_fuel_stable : forall n m i, len i < n -> len i < m ->
  repeat_fuel len n p i = repeat_fuel len m p i.
Proof.
  induction n as [|n IH]; intros m i Hn Hm; [lia|].
  destruct m as [|m]; [lia|].
  cbn [repeat_fuel]. destruct (p i) as [[a|c|c|s] r] eqn:E; try reflexivity.
  pose proof (Hcons _ _ _ E) as Hlt.
  destruct (Nat.leb_spec (len i) (len r)) as [Hle|_]; [lia|].
  rewrite (IH m r) by lia. reflexivity.
Qed.

(** the unfolding equation of [repeat(0.., p)]: no fuel, no consumption assertion *)
Lemma repeat0_unfold : forall i,
  repeat0 len p i =
  match p i with
  | (Ok a, r) => match repeat0 len p r with (Ok l, r') => (Ok (a :: l), r') | x => x end
  | (Back _, _) => (Ok [], i)
  | (Cut c, r) => (Cut c, r)
  | (Panic s, r) => (Panic s, r)
  end.
Proof.
  intros i. unfold repeat0 at 1. cbn [repeat_fuel].
  destruct (p i) as [[a|c|c|s] r] eqn:E; try reflexivity.
  pose proof (Hcons _ _ _ E) as Hlt.
  destruct (Nat.leb_spec (len i) (len r)) as [Hle|_]; [lia|].
  unfold repeat0. rewrite (repeat_fuel_stable (len i) (S (len r)) r) by lia. reflexivity.
Qed.
End Repeat0.

Section RepeatTill0.
Context {A B : Type}.
Variable f : @parser I A.
Variable g : @parser I B.
Hypothesis Hcons : forall i a r, f i = (Ok a, r) -> len r < len i.

Lemma rtill_fuel_stable : forall n m i, len i < n -> len i < m ->
  rtill_fuel len n f g i = rtill_fuel len m f g i.
Proof.
  induction n as [|n IH]; intros m i Hn Hm; [lia|].
  destruct m as [|m]; [lia|].
  cbn [rtill_fuel]. destruct (g i) as [[b|cg|cg|sg] rg]; try reflexivity.
  destruct (f i) as [[a|c|c|s] r] eqn:E; try reflexivity.
  pose proof (Hcons _ _ _ E) as Hlt.
  destruct (Nat.leb_spec (len i) (len r)) as [Hle|_]; [lia|].
  rewrite (IH m r) by lia. reflexivity.
Qed.

(** the unfolding equation of [repeat_till(0.., f, g)] *)
Lemma repeat_till0_unfold : forall i,
  repeat_till0 len f g i =
  match g i with
  | (Ok b, r) => (Ok ([], b), r)
  | (Cut c, r) => (Cut c, r)
  | (Panic s, r) => (Panic s, r)
  | (Back _, _) =>
      match f i with
      | (Ok a, r) =>
          match repeat_till0 len f g r with
          | (Ok (l, b), r') => (Ok (a :: l, b), r')
          | (Back c, r') => (Back c, r') | (Cut c, r') => (Cut c, r') | (Panic s, r') => (Panic s, r')
          end
      | (Back c, r) => (Back c, r) | (Cut c, r) => (Cut c, r) | (Panic s, r) => (Panic s, r)
      end
  end.
Proof.
  intros i. unfold repeat_till0 at 1. cbn [rtill_fuel].
  destruct (g i) as [[b|cg|cg|sg] rg]; try reflexivity.
  destruct (f i) as [[a|c|c|s] r] eqn:E; try reflexivity.
  pose proof (Hcons _ _ _ E) as Hlt.
  destruct (Nat.leb_spec (len i) (len r)) as [Hle|_]; [lia|].
  unfold repeat_till0. rewrite (rtill_fuel_stable (len i) (S (len r)) r) by lia. reflexivity.
Qed.

(** a successful [repeat_till0] consumes as soon as its terminator does (whatever [f] does) *)
Lemma rtill_fuel_consumes :
  (forall i b r, g i = (Ok b, r) -> len r < len i) ->
  forall n i x r, rtill_fuel len n f g i = (Ok x, r) -> len r < len i.
Proof.
  intros Hg. induction n as [|n IH]; intros i x r H; cbn [rtill_fuel] in H; [discriminate|].
  destruct (g i) as [[b|cg|cg|sg] rg] eqn:Eg; try discriminate.
  - injection H as _ H. subst rg. exact (Hg _ _ _ Eg).
  - destruct (f i) as [[a|c|c|s] r1] eqn:E; try discriminate.
    destruct (Nat.leb_spec (len i) (len r1)) as [Hle|Hlt]; [discriminate|].
    destruct (rtill_fuel len n f g r1) as [[[l b]|c|c|s] r2] eqn:E2; try discriminate.
    injection H as _ H. subst r2. pose proof (IH _ _ _ E2). lia.
Qed.
End RepeatTill0.
End Repeat.

(** [repeat(0.., any)] takes everything *)
Lemma any_consumes : forall {T} (i : list T) a r, any i = (Ok a, r) -> List.length r < List.length i.
Proof.
  intros T i a r H. destruct i as [|c i]; cbn [any] in H; [discriminate|].
  injection H as _ H. subst r. cbn [List.length]. lia.
Qed.

Lemma repeat0_any : forall {T} (i : list T), repeat0 (@List.length T) any i = (Ok i, []).
Proof.
  intros T i. induction i as [|c i IH].
  - reflexivity.
  - rewrite (repeat0_unfold _ _ (@any_consumes T)). cbn [any]. rewrite IH. reflexivity.
Qed.
