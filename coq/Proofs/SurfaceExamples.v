(** Concrete written inputs, used by the [Example]s of Properties/C05.v and C06.v to show that
    the hypotheses of the theorems are inhabited. *)
From Coq Require Import List String NArith Bool Arith Lia ZifyBool ZifyN.
From FP Require Import Model.Chars Model.Winnow Model.Ast Model.Lex Model.Prec Model.Parse.
From FP Require Import Spec.Decimal Spec.Numeric Spec.Vocabulary Spec.Surface Spec.Written.
From FP Require Import Proofs.OptionsFacts Proofs.LexSentence Proofs.WrittenProofs.
Import ListNotations.
Local Open Scope N_scope.

Ltac in_table := cbn; repeat (first [left; reflexivity | right]).
Ltac blank_tac := try unfold blanks; cbn; repeat (apply Forall_cons; [unfold Blank; lia|]); apply Forall_nil.
Ltac gap_tac := split; [cbn; discriminate|blank_tac].
Ltac gaps_tac := split; [reflexivity|repeat (constructor; [gap_tac|]); constructor].
Ltac notin_tac := cbn; unfold squote, dquote; intros H; repeat (destruct H as [H|H]; [discriminate H|]); exact H.
Ltac digits_tac := try unfold digits; cbn; repeat (apply Forall_cons; [unfold digit; lia|]); apply Forall_nil.
Ltac count_tac := split; [digits_tac|split; [discriminate|split; [reflexivity|reflexivity]]].

(** the primaries used *)
Definition name_sq : item :=
  IPrim [chars "-name"; chars "'a b'"] [chars " "] (LTest (TName (chars "a b"))).
Definition name_dq : item :=
  IPrim [chars "-name"; 34 :: chars "a b" ++ [34]] [[9; 32]] (LTest (TName (chars "a b"))).
Definition uid5 (g : str) : item :=
  IPrim [chars "-uid"; chars "+5"] [g] (LTest (TUserId (Gt 5))).
Definition print_ : item := IPrim [chars "-print"] [] (LAction APrint).
Definition threads3 : item := IPrim [chars "-threads"; chars "3"] [chars " "] (LGlobal (GThreads 3)).
Definition depth_ : item := IPrim [chars "-depth"] [] (LGlobal GDepth).

Lemma name_sq_ok : item_ok name_sq.
Proof.
  split; [|gaps_tac].
  refine (P_string "-name" (fun s => LTest (TName s)) _ _ _ (W_single (chars "a b") _));
    [in_table|notin_tac].
Qed.
Lemma name_dq_ok : item_ok name_dq.
Proof.
  split; [|gaps_tac].
  refine (P_string "-name" (fun s => LTest (TName s)) _ _ _ (W_double (chars "a b") _));
    [in_table|notin_tac].
Qed.
Lemma uid5_ok g : gap g -> item_ok (uid5 g).
Proof.
  intros Hg. split; [|split; [reflexivity|repeat constructor; apply Hg]].
  refine (P_count32 "-uid" (fun c => LTest (TUserId c)) _ _ _
            (Cmp_arg (Count (2 ^ 32)) PPlus (chars "5") 5 _)); [in_table|count_tac].
Qed.
Lemma print_ok : item_ok print_.
Proof. split; [|gaps_tac]. refine (P_nullary "-print" _ _). in_table. Qed.
Lemma threads3_ok : item_ok threads3.
Proof. split; [|gaps_tac]. refine (P_threads (chars "3") 3 _). count_tac. Qed.
Lemma depth_ok : item_ok depth_.
Proof. split; [|gaps_tac]. refine (P_nullary "-depth" _ _). in_table. Qed.

(** two spellings of  -threads 3 -depth ( -name 'a b' -o -uid +5 ) -print *)
Definition wname1 : watom := WPrim [chars "-name"; chars "'a b'"] [chars " "] (LTest (TName (chars "a b"))).
Definition wname2 : watom :=
  WPrim [chars "-name"; 34 :: chars "a b" ++ [34]] [[9; 32]] (LTest (TName (chars "a b"))).
Definition wuid (g : str) : watom := WPrim [chars "-uid"; chars "+5"] [g] (LTest (TUserId (Gt 5))).
Definition wprint : watom := WPrim [chars "-print"] [] (LAction APrint).
Definition lead1 : list lead_entry :=
  [ {| le_words := [chars "-threads"; chars "3"]; le_gaps := [chars " "]; le_opt := GThreads 3;
       le_and := AndImplicit |};
    {| le_words := [chars "-depth"]; le_gaps := []; le_opt := GDepth; le_and := AndImplicit |} ].
Definition lead2 : list lead_entry :=
  [ {| le_words := [chars "-threads"; chars "3"]; le_gaps := [chars " "]; le_opt := GThreads 3;
       le_and := AndA |};
    {| le_words := [chars "-depth"]; le_gaps := []; le_opt := GDepth; le_and := AndAnd |} ].

Definition ex1 : written :=
  {| w_lead := lead1;
     w_expr := Some (WList1 (WOr1 (WAnd
                 (WAnd1 (WPar (WList1 (WOr (WOr1 (WAnd1 wname1)) OrO (WAnd1 (wuid (chars " ")))))))
                 AndImplicit wprint))) |}.
Definition bs1 : list str := [ []; chars " "; chars " "; chars " "; chars " "; chars " "; chars " "; chars " " ].

(** the same with -a / -and after the options, double quotes, TAB and newline, -or, an explicit
    -a, no blanks inside the parentheses, and redundant parentheses around -print *)
Definition ex2 : written :=
  {| w_lead := lead2;
     w_expr := Some (WList1 (WOr1 (WAnd
                 (WAnd1 (WPar (WList1 (WOr (WOr1 (WAnd1 wname2)) OrOr (WAnd1 (wuid [10]))))))
                 AndA (WPar (WList1 (WOr1 (WAnd1 wprint))))))) |}.
Definition bs2 : list str :=
  [ [9]; chars " "; [10]; chars "  "; chars " "; []; chars " "; [9]; []; [13; 10]; chars " "; []; [] ].

Lemma ex_abstract : abstract ex1 = abstract ex2.
Proof. reflexivity. Qed.
Lemma ex1_ok : written_ok ex1.
Proof. reflexivity. Qed.
Lemma ex2_ok : written_ok ex2.
Proof. reflexivity. Qed.
Lemma ex1_len : List.length bs1 = List.length (written_items ex1).
Proof. reflexivity. Qed.
Lemma ex2_len : List.length bs2 = List.length (written_items ex2).
Proof. reflexivity. Qed.

Lemma ex1_text : render (written_sentence ex1 bs1 []) = chars "-threads 3 -depth ( -name 'a b' -o -uid +5 ) -print".
Proof. vm_compute. reflexivity. Qed.

Ltac layout_tac :=
  repeat (split; [blank_tac|split; [first [ intros _; exact I
                                           | intros H; discriminate H
                                           | intros _; reflexivity
                                           | intros _; left; reflexivity
                                           | intros _; right; split; [reflexivity|eexists; split; reflexivity] ]|]]);
  exact I.

Lemma ex1_wf : wf_sentence (written_sentence ex1 bs1 []).
Proof.
  split; [|split].
  - cbn. repeat (constructor; [first [exact threads3_ok|exact depth_ok|exact name_sq_ok|exact print_ok
                                     |apply uid5_ok; gap_tac|exact I]|]). constructor.
  - cbn. layout_tac.
  - constructor.
Qed.
Lemma ex2_wf : wf_sentence (written_sentence ex2 bs2 [32; 9]).
Proof.
  split; [|split].
  - cbn. repeat (constructor; [first [exact threads3_ok|exact depth_ok|exact name_dq_ok|exact print_ok
                                     |apply uid5_ok; gap_tac|exact I]|]). constructor.
  - cbn. layout_tac.
  - blank_tac.
Qed.

(** a well-formed sentence that is not grammatical:  -print -o *)
Definition dangling : sentence :=
  {| body := [([], print_); (chars " ", IOp OOrO)]; trail := [] |}.
Lemma dangling_wf : wf_sentence dangling.
Proof.
  split; [|split].
  - cbn. repeat (constructor; [first [exact print_ok|exact I]|]). constructor.
  - cbn. layout_tac.
  - constructor.
Qed.
From FP Require Import Spec.Grammar Proofs.PrecIff.
Lemma dangling_not_grammatical :
  forall e, ~ GList (map detrue (run_tokens (tokens_of dangling))) e.
Proof. intros e G. apply parser_iff in G. vm_compute in G. discriminate G. Qed.
