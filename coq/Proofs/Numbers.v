(** Proofs for C07: decimal reading and printing in the model are exact. *)
From Coq Require Import List String Ascii NArith Bool Arith Lia ZifyBool ZifyN.
From FP Require Import Model.Chars Model.Winnow Model.Ast Model.Args Model.Sexp Model.Compile.
From FP Require Import Spec.Decimal Spec.Numeric.
Import ListNotations.
Local Open Scope N_scope.

(** * Positional value *)

Lemma pos_value_app : forall a b,
  pos_value (a ++ b) = pos_value a * 10 ^ N.of_nat (List.length b) + pos_value b.
Proof.
  induction a as [|c a IH]; intros b.
  - cbn [app pos_value]. lia.
  - cbn [app pos_value]. rewrite IH, app_length, Nat2N.inj_add, N.pow_add_r. ring.
Qed.

Lemma pos_value_snoc : forall a c, pos_value (a ++ [c]) = pos_value a * 10 + digit_value c.
Proof.
  intros a c. rewrite pos_value_app. cbn [pos_value List.length].
  change (N.of_nat 1) with 1. change (N.of_nat 0) with 0.
  rewrite N.pow_1_r, N.pow_0_r. ring.
Qed.

Lemma radix_fold : forall ds acc,
  fold_left (fun a c => a * 10 + digit_val c) ds acc
  = acc * 10 ^ N.of_nat (List.length ds) + pos_value ds.
Proof.
  induction ds as [|c ds IH]; intros acc; cbn [fold_left List.length pos_value].
  - change (N.of_nat 0) with 0. rewrite N.pow_0_r. lia.
  - rewrite IH, Nat2N.inj_succ, N.pow_succ_r'. unfold digit_val, digit_value. ring.
Qed.

(** the model's left fold computes the positional value (of any string, in fact) *)
Lemma dec_value_pos_value_all : forall ds, dec_value ds = pos_value ds.
Proof.
  intros ds. unfold dec_value, radix_value. rewrite radix_fold. lia.
Qed.

Lemma dec_value_pos_value : forall ds, digits ds -> dec_value ds = pos_value ds.
Proof. intros ds _. apply dec_value_pos_value_all. Qed.

Lemma pos_value_upper : forall ds, digits ds -> pos_value ds < 10 ^ N.of_nat (List.length ds).
Proof.
  induction ds as [|c ds IH]; intros H.
  - cbn. lia.
  - inversion H as [|c' ds' Hc Hds]; subst. specialize (IH Hds).
    cbn [pos_value List.length]. rewrite Nat2N.inj_succ, N.pow_succ_r'.
    unfold digit, digit_value in *. nia.
Qed.

(** * Character classes *)

Lemma is_digit_true : forall c, is_digit c = true <-> digit c.
Proof. intros c. unfold is_digit, digit. lia. Qed.
Lemma is_digit_false : forall c, is_digit c = false <-> ~ digit c.
Proof. intros c. unfold is_digit, digit. lia. Qed.
Lemma is_alpha_true : forall c, is_alpha c = true <-> letter c.
Proof. intros c. unfold is_alpha, letter. lia. Qed.
Lemma is_alpha_false : forall c, is_alpha c = false <-> ~ letter c.
Proof. intros c. unfold is_alpha, letter. lia. Qed.

Lemma span_digits : forall ds rest,
  digits ds -> not_starting_with digit rest -> span is_digit (ds ++ rest) = (ds, rest).
Proof.
  induction ds as [|c ds IH]; intros rest Hd Hr.
  - cbn [app]. destruct rest as [|c r]; [reflexivity|].
    cbn [span]. cbn [not_starting_with] in Hr. apply is_digit_false in Hr. rewrite Hr. reflexivity.
  - inversion Hd as [|c' ds' Hc Hds]; subst.
    cbn [app span]. apply is_digit_true in Hc. rewrite Hc. rewrite (IH rest Hds Hr). reflexivity.
Qed.

Lemma digit1_digits : forall ds rest,
  digits ds -> ds <> [] -> not_starting_with digit rest -> digit1 (ds ++ rest) = (Ok ds, rest).
Proof.
  intros ds rest Hd Hne Hr. unfold digit1, take_while. rewrite (span_digits ds rest Hd Hr).
  destruct ds as [|c ds]; [congruence|]. reflexivity.
Qed.

(** * parse_uint *)

Lemma parse_uint_exact : forall bound ds rest,
  digits ds -> ds <> [] -> not_starting_with digit rest ->
  parse_uint bound (ds ++ rest) =
    if pos_value ds <? bound then (Ok (pos_value ds), rest)
    else (Back [Expected "unsigned_integer"], ds ++ rest).
Proof.
  intros bound ds rest Hd Hne Hr.
  unfold parse_uint, context, try_map. rewrite (digit1_digits ds rest Hd Hne Hr).
  cbv zeta. rewrite dec_value_pos_value_all.
  destruct (pos_value ds <? bound) eqn:E; reflexivity.
Qed.

Lemma parse_uint_in_range : forall bound ds rest,
  digits ds -> ds <> [] -> not_starting_with digit rest -> pos_value ds < bound ->
  parse_uint bound (ds ++ rest) = (Ok (pos_value ds), rest).
Proof.
  intros bound ds rest Hd Hne Hr Hlt. rewrite (parse_uint_exact bound ds rest Hd Hne Hr).
  destruct (pos_value ds <? bound) eqn:E; [reflexivity|lia].
Qed.

Lemma parse_uint_out_of_range : forall bound ds rest,
  digits ds -> ds <> [] -> not_starting_with digit rest -> bound <= pos_value ds ->
  parse_uint bound (ds ++ rest) = (Back [Expected "unsigned_integer"], ds ++ rest).
Proof.
  intros bound ds rest Hd Hne Hr Hge. rewrite (parse_uint_exact bound ds rest Hd Hne Hr).
  destruct (pos_value ds <? bound) eqn:E; [lia|reflexivity].
Qed.

Lemma two32_pow : two32 = 2 ^ 32. Proof. reflexivity. Qed.
Lemma two64_pow : two64 = 2 ^ 64. Proof. reflexivity. Qed.

Lemma parse_u32_exact : forall ds rest,
  digits ds -> ds <> [] -> not_starting_with digit rest ->
  parse_u32 (ds ++ rest) =
    if pos_value ds <? 2 ^ 32 then (Ok (pos_value ds), rest)
    else (Back [Expected "unsigned_integer"], ds ++ rest).
Proof. intros ds rest. unfold parse_u32. rewrite two32_pow. apply parse_uint_exact. Qed.

Lemma parse_u64_exact : forall ds rest,
  digits ds -> ds <> [] -> not_starting_with digit rest ->
  parse_u64 (ds ++ rest) =
    if pos_value ds <? 2 ^ 64 then (Ok (pos_value ds), rest)
    else (Back [Expected "unsigned_integer"], ds ++ rest).
Proof. intros ds rest. unfold parse_u64. rewrite two64_pow. apply parse_uint_exact. Qed.

(** a string that does not start with a digit is not a number at all *)
Lemma parse_uint_no_digit : forall bound i,
  not_starting_with digit i ->
  parse_uint bound i = (Back [Expected "unsigned_integer"], i).
Proof.
  intros bound i Hi. unfold parse_uint, context, try_map, digit1, take_while.
  destruct i as [|c r]; [reflexivity|].
  cbn [not_starting_with] in Hi. apply is_digit_false in Hi. cbn [span]. rewrite Hi. reflexivity.
Qed.

(** * print_dec *)

(** [ds] is a decimal numeral of [n] without a superfluous leading zero *)
Definition dec_of (n : N) (ds : str) : Prop :=
  digits ds /\ ds <> [] /\ pos_value ds = n /\ (forall r, ds = 48 :: r -> n = 0).

Lemma digit_char_small : forall d, d < 10 -> digit_char d = 48 + d.
Proof. intros d Hd. unfold digit_char. destruct (d <? 10) eqn:E; lia. Qed.

Lemma dec_of_single : forall n, n < 10 -> dec_of n [48 + n].
Proof.
  intros n Hn. unfold dec_of. repeat split.
  - constructor; [unfold digit; lia|constructor].
  - discriminate.
  - cbn [pos_value List.length]. unfold digit_value. change (N.of_nat 0) with 0.
    rewrite N.pow_0_r. lia.
  - intros r Hr. assert (H1 : 48 + n = 48) by congruence. lia.
Qed.

Lemma dec_of_snoc : forall n ds,
  10 <= n -> dec_of (n / 10) ds -> dec_of n (ds ++ [48 + n mod 10]).
Proof.
  intros n ds Hn (Hd & Hne & Hv & Hz).
  assert (Hm : n mod 10 < 10) by (apply N.mod_lt; lia).
  unfold dec_of. repeat split.
  - apply Forall_app. split; [exact Hd|]. constructor; [unfold digit; lia|constructor].
  - destruct ds; discriminate.
  - rewrite pos_value_snoc, Hv. unfold digit_value.
    pose proof (N.div_mod' n 10) as Hdm. lia.
  - intros r Hr. destruct ds as [|c t]; [congruence|].
    cbn [app] in Hr. injection Hr as Hc _. subst c.
    assert (H0 : n / 10 = 0) by (apply (Hz t); reflexivity).
    pose proof (N.div_mod' n 10) as Hdm. lia.
Qed.

Lemma print_aux_step : forall f radix n acc,
  print_radix_aux (S f) radix n acc =
    if n <? radix then digit_char n :: acc
    else print_radix_aux f radix (n / radix) (digit_char (n mod radix) :: acc).
Proof. reflexivity. Qed.

Lemma print_aux_spec : forall fuel n acc,
  n < 10 ^ N.of_nat (S fuel) ->
  exists ds, print_radix_aux (S fuel) 10 n acc = ds ++ acc /\ dec_of n ds.
Proof.
  induction fuel as [|f IH]; intros n acc Hn; rewrite print_aux_step;
    destruct (n <? 10) eqn:E.
  - exists [48 + n]. split; [rewrite digit_char_small by lia; reflexivity|].
    apply dec_of_single. lia.
  - change (N.of_nat 1) with 1 in Hn. rewrite N.pow_1_r in Hn. lia.
  - exists [48 + n]. split; [rewrite digit_char_small by lia; reflexivity|].
    apply dec_of_single. lia.
  - assert (Hq : n / 10 < 10 ^ N.of_nat (S f)).
    { apply N.div_lt_upper_bound; [lia|].
      rewrite (Nat2N.inj_succ (S f)), N.pow_succ_r' in Hn. exact Hn. }
    destruct (IH (n / 10) (digit_char (n mod 10) :: acc) Hq) as (ds & Heq & Hds).
    exists (ds ++ [48 + n mod 10]). split.
    + rewrite Heq, <- app_assoc. cbn [app].
      rewrite digit_char_small by (apply N.mod_lt; lia). reflexivity.
    + apply dec_of_snoc; [lia|exact Hds].
Qed.

Lemma pos_size_nat_gt : forall p, N.pos p < 2 ^ N.of_nat (Pos.size_nat p).
Proof.
  induction p as [p IH|p IH|]; cbn [Pos.size_nat].
  - rewrite Nat2N.inj_succ, N.pow_succ_r'. lia.
  - rewrite Nat2N.inj_succ, N.pow_succ_r'. lia.
  - cbn. lia.
Qed.

Lemma size_nat_gt : forall n, n < 2 ^ N.of_nat (N.size_nat n).
Proof.
  intros [|p]; [cbn; lia|]. cbn [N.size_nat]. apply pos_size_nat_gt.
Qed.

(** the fuel [S (N.size_nat n)] is enough *)
Lemma print_dec_fuel : forall n, n < 10 ^ N.of_nat (S (N.size_nat n)).
Proof.
  intros n. pose proof (size_nat_gt n) as H2.
  assert (Hle : 2 ^ N.of_nat (N.size_nat n) <= 10 ^ N.of_nat (N.size_nat n))
    by (apply N.pow_le_mono_l; lia).
  rewrite Nat2N.inj_succ, N.pow_succ_r'. lia.
Qed.

Lemma print_dec_dec_of : forall n, dec_of n (print_dec n).
Proof.
  intros n. unfold print_dec, print_radix.
  destruct (print_aux_spec (N.size_nat n) n [] (print_dec_fuel n)) as (ds & Heq & Hds).
  rewrite Heq, app_nil_r. exact Hds.
Qed.

Lemma print_dec_digits : forall n, digits (print_dec n).
Proof. intros n. apply (print_dec_dec_of n). Qed.
Lemma print_dec_nonempty : forall n, print_dec n <> [].
Proof. intros n. apply (print_dec_dec_of n). Qed.
Lemma print_dec_value : forall n, pos_value (print_dec n) = n.
Proof. intros n. apply (print_dec_dec_of n). Qed.
Lemma print_dec_no_leading_zero : forall n r, print_dec n = 48 :: r -> n = 0.
Proof. intros n. apply (print_dec_dec_of n). Qed.
Lemma print_dec_zero : print_dec 0 = [48].
Proof. reflexivity. Qed.

Lemma print_dec_canonical : forall n, canonical (print_dec n).
Proof.
  intros n. unfold canonical. split; [apply print_dec_digits|]. split; [apply print_dec_nonempty|].
  intros r Hr. assert (n = 0) by (apply (print_dec_no_leading_zero n r Hr)). subst n.
  rewrite print_dec_zero in Hr. congruence.
Qed.

(** the printed numeral does not start with anything but a digit, so it can be re-read *)
Lemma parse_print_roundtrip : forall bound n rest,
  n < bound -> not_starting_with digit rest ->
  parse_uint bound (print_dec n ++ rest) = (Ok n, rest).
Proof.
  intros bound n rest Hn Hr.
  rewrite (parse_uint_in_range bound (print_dec n) rest (print_dec_digits n) (print_dec_nonempty n) Hr)
    by (rewrite print_dec_value; exact Hn).
  rewrite print_dec_value. reflexivity.
Qed.

(** * parse_cmp, for an arbitrary argument parser [d] *)

Lemma alt3 : forall A (p1 p2 p3 : sparser A) i,
  alt [p1; p2; p3] i =
    match p1 i with
    | (Back _, _) => match p2 i with (Back _, _) => p3 i | x => x end
    | x => x
    end.
Proof. reflexivity. Qed.

Lemma literal_hit : forall (a : ascii) w, literal (String a EmptyString) (N_of_ascii a :: w) = (Ok tt, w).
Proof.
  intros a w. unfold literal. cbn [chars lit_]. rewrite N.eqb_refl. reflexivity.
Qed.
Lemma literal_miss : forall (a : ascii) c w,
  c <> N_of_ascii a -> literal (String a EmptyString) (c :: w) = (Back [], c :: w).
Proof.
  intros a c w Hc. unfold literal. cbn [chars lit_].
  destruct (N_of_ascii a =? c) eqn:E; [apply N.eqb_eq in E; congruence|reflexivity].
Qed.
Lemma literal_nil : forall (a : ascii), literal (String a EmptyString) [] = (Back [], []).
Proof. reflexivity. Qed.

Section Cmp.
Context {T : Type} (d : sparser T).

(** what the last alternative does: [d] itself, with every failure made final *)
Definition cmp_plain : sparser (cmp T) := context (label "comparison") (pmap Eq (cut_err d)).

Lemma cmp_plain_eq : forall w,
  cmp_plain w =
    match d w with
    | (Ok v, r) => (Ok (Eq v), r)
    | (Back c, r) => (Cut (c ++ [Label "comparison"]), r)
    | (Cut c, r) => (Cut (c ++ [Label "comparison"]), r)
    | (Panic s, r) => (Panic s, r)
    end.
Proof.
  intros w. unfold cmp_plain, context, pmap, cut_err.
  destruct (d w) as [[v|c|c|s] r]; reflexivity.
Qed.

Lemma parse_cmp_plus : forall w,
  parse_cmp d (plus :: w) =
    match d w with
    | (Ok v, r) => (Ok (Gt v), r)
    | (Back _, _) => cmp_plain (plus :: w)
    | (Cut c, r) => (Cut (c ++ [Label "comparison"]), r)
    | (Panic s, r) => (Panic s, r)
    end.
Proof.
  intros w. unfold parse_cmp, cmp_plain, context at 1. rewrite alt3.
  unfold pmap at 1, preceded at 1, bind at 1. unfold plus, ch. rewrite literal_hit.
  destruct (d w) as [[v|c|c|s] r]; reflexivity.
Qed.

Lemma parse_cmp_minus : forall w,
  parse_cmp d (minus :: w) =
    match d w with
    | (Ok v, r) => (Ok (Lt v), r)
    | (Back _, _) => cmp_plain (minus :: w)
    | (Cut c, r) => (Cut (c ++ [Label "comparison"]), r)
    | (Panic s, r) => (Panic s, r)
    end.
Proof.
  intros w. unfold parse_cmp, cmp_plain, context at 1. rewrite alt3.
  unfold pmap at 1, preceded at 1, bind at 1. unfold minus, ch.
  rewrite literal_miss by (cbv; discriminate).
  unfold pmap at 1, preceded at 1, bind at 1. rewrite literal_hit.
  destruct (d w) as [[v|c|c|s] r]; reflexivity.
Qed.

Lemma parse_cmp_none : forall w, not_starting_with sign w -> parse_cmp d w = cmp_plain w.
Proof.
  intros w Hw. unfold parse_cmp, cmp_plain, context at 1. rewrite alt3.
  unfold pmap at 1, preceded at 1, bind at 1.
  destruct w as [|c w].
  - rewrite literal_nil. unfold pmap at 1, preceded at 1, bind at 1. rewrite literal_nil. reflexivity.
  - cbn [not_starting_with] in Hw. unfold sign, plus, minus, ch in Hw.
    rewrite literal_miss by tauto.
    unfold pmap at 1, preceded at 1, bind at 1. rewrite literal_miss by tauto. reflexivity.
Qed.

(** all three cases at once *)
Lemma parse_cmp_prefix_ok : forall p w v r,
  not_starting_with sign w -> d w = (Ok v, r) ->
  parse_cmp d (prefix_str p ++ w) = (Ok (prefix_cmp p v), r).
Proof.
  intros p w v r Hw Hd. destruct p; cbn [prefix_str prefix_cmp app].
  - rewrite parse_cmp_plus, Hd. reflexivity.
  - rewrite parse_cmp_minus, Hd. reflexivity.
  - rewrite (parse_cmp_none w Hw), cmp_plain_eq, Hd. reflexivity.
Qed.

Lemma cmp_plain_sign_not_ok : forall s w x r,
  rejects_signs d -> sign s -> cmp_plain (s :: w) <> (Ok x, r).
Proof.
  intros s w x r Hrej Hs. rewrite cmp_plain_eq.
  destruct (d (s :: w)) as [[v|c|c|m] r'] eqn:E; try discriminate.
  exfalso. exact (Hrej s w v r' Hs E).
Qed.

Lemma parse_cmp_ok_iff : forall p w x r,
  rejects_signs d -> not_starting_with sign w ->
  (parse_cmp d (prefix_str p ++ w) = (Ok x, r) <-> exists v, d w = (Ok v, r) /\ x = prefix_cmp p v).
Proof.
  intros p w x r Hrej Hw. split.
  - intros H. destruct p; cbn [prefix_str prefix_cmp app] in *.
    + rewrite parse_cmp_plus in H. destruct (d w) as [[v|c|c|m] r'] eqn:E; try discriminate.
      * exists v. split; congruence.
      * exfalso. apply (cmp_plain_sign_not_ok plus w x r Hrej); [left; reflexivity|exact H].
    + rewrite parse_cmp_minus in H. destruct (d w) as [[v|c|c|m] r'] eqn:E; try discriminate.
      * exists v. split; congruence.
      * exfalso. apply (cmp_plain_sign_not_ok minus w x r Hrej); [right; reflexivity|exact H].
    + rewrite (parse_cmp_none w Hw), cmp_plain_eq in H.
      destruct (d w) as [[v|c|c|m] r'] eqn:E; try discriminate.
      exists v. split; congruence.
  - intros (v & Hd & Hx). subst x. apply parse_cmp_prefix_ok; assumption.
Qed.
End Cmp.

(** * Arguments with a unit letter: sizes and times share one shape *)

Lemma letter_not_digit : forall c, letter c -> ~ digit c.
Proof. intros c. unfold letter, digit. lia. Qed.

Lemma alpha1_letter : forall c rest, letter c -> exists a b, alpha1 (c :: rest) = (Ok a, b).
Proof.
  intros c rest Hc. unfold alpha1, take_while. cbn [span].
  apply is_alpha_true in Hc. rewrite Hc. destruct (span is_alpha rest) as [a b].
  exists (c :: a), b. reflexivity.
Qed.

Lemma alpha1_no_letter : forall rest, not_starting_with letter rest -> alpha1 rest = (Back [], rest).
Proof.
  intros rest Hr. unfold alpha1, take_while. destruct rest as [|c r]; [reflexivity|].
  cbn [not_starting_with] in Hr. apply is_alpha_false in Hr. cbn [span]. rewrite Hr. reflexivity.
Qed.

Lemma invalid_spec_eq : forall A what i, @invalid_spec A what i = (Cut [Expected what], i).
Proof. reflexivity. Qed.

Section UnitArg.
Context {A : Type}.
Variables (U : N -> bool) (mk : N * N -> A) (dfl : N -> A) (what lbl : string).
Hypothesis U_letter : forall c, U c = true -> letter c.

Definition unit_arg : sparser A :=
  context (label lbl)
    (alt [ pmap mk (pair_ parse_u64 (one_of U));
           and_then (terminated digit1 alpha1) (invalid_spec what);
           pmap dfl parse_u64 ]).

Lemma one_of_no_letter : forall rest,
  not_starting_with letter rest -> one_of U rest = (Back [], rest).
Proof.
  intros rest Hr. unfold one_of. destruct rest as [|c r]; [reflexivity|].
  cbn [not_starting_with] in Hr. destruct (U c) eqn:E; [|reflexivity].
  exfalso. apply Hr. apply U_letter. exact E.
Qed.

(** digits followed by a letter: either a known unit with the count in range, or a final error *)
Lemma unit_arg_letter : forall ds c rest,
  digits ds -> ds <> [] -> letter c ->
  unit_arg (ds ++ c :: rest) =
    if U c && (pos_value ds <? 2 ^ 64) then (Ok (mk (pos_value ds, c)), rest)
    else (Cut [Expected what; Label lbl], ds ++ c :: rest).
Proof.
  intros ds c rest Hd Hne Hc.
  assert (Hnd : not_starting_with digit (c :: rest)) by (apply letter_not_digit; exact Hc).
  assert (Hsecond : and_then (terminated digit1 alpha1) (@invalid_spec A what) (ds ++ c :: rest)
                    = (Cut [Expected what], ds ++ c :: rest)).
  { unfold and_then, terminated, bind, pmap.
    rewrite (digit1_digits ds (c :: rest) Hd Hne Hnd).
    destruct (alpha1_letter c rest Hc) as (a & b & Ha). rewrite Ha.
    rewrite invalid_spec_eq. reflexivity. }
  unfold unit_arg, context. rewrite alt3, Hsecond.
  unfold pmap at 1, pair_, bind. rewrite (parse_u64_exact ds (c :: rest) Hd Hne Hnd).
  destruct (pos_value ds <? 2 ^ 64) eqn:E.
  - unfold pmap, one_of. destruct (U c) eqn:EU; reflexivity.
  - rewrite andb_false_r. reflexivity.
Qed.

(** digits followed by neither a digit nor a letter: the default unit *)
Lemma unit_arg_plain : forall ds rest,
  digits ds -> ds <> [] -> not_starting_with digit rest -> not_starting_with letter rest ->
  unit_arg (ds ++ rest) =
    if pos_value ds <? 2 ^ 64 then (Ok (dfl (pos_value ds)), rest)
    else (Back [Expected "unsigned_integer"; Label lbl], ds ++ rest).
Proof.
  intros ds rest Hd Hne Hnd Hnl.
  assert (Hsecond : exists r, and_then (terminated digit1 alpha1) (@invalid_spec A what) (ds ++ rest)
                              = (Back [], r)).
  { exists rest. unfold and_then, terminated, bind, pmap.
    rewrite (digit1_digits ds rest Hd Hne Hnd), (alpha1_no_letter rest Hnl). reflexivity. }
  destruct Hsecond as (r2 & Hsecond).
  unfold unit_arg, context. rewrite alt3, Hsecond.
  unfold pmap, pair_, bind. rewrite (parse_u64_exact ds rest Hd Hne Hnd).
  destruct (pos_value ds <? 2 ^ 64) eqn:E.
  - unfold pmap. rewrite (one_of_no_letter rest Hnl). reflexivity.
  - reflexivity.
Qed.

(** no leading digit: not a number *)
Lemma unit_arg_no_digit : forall i,
  not_starting_with digit i ->
  unit_arg i = (Back [Expected "unsigned_integer"; Label lbl], i).
Proof.
  intros i Hi.
  assert (Hd1 : digit1 i = (Back [], i)).
  { unfold digit1, take_while. destruct i as [|c r]; [reflexivity|].
    cbn [not_starting_with] in Hi. apply is_digit_false in Hi. cbn [span]. rewrite Hi. reflexivity. }
  unfold unit_arg, context. rewrite alt3.
  unfold pmap, pair_, bind, and_then, terminated, bind, parse_u64.
  rewrite (parse_uint_no_digit two64 i Hi), Hd1. reflexivity.
Qed.
End UnitArg.

(** ** sizes *)
Definition size_units : N -> bool := in_str "bcwkMGT".
Definition size_mk : N * N -> size := fun '(n, u) => Size (size_unit_of u) n.

Lemma parse_size_unit_arg :
  parse_size = unit_arg size_units size_mk (Size UBlock) "invalid_size_specifier" "size".
Proof. reflexivity. Qed.

Lemma size_units_letter : forall c, size_units c = true -> letter c.
Proof.
  intros c. unfold size_units, in_str. cbn [chars mem]. unfold letter.
  cbn [N_of_ascii N_of_digits]. cbn. lia.
Qed.

Lemma size_letter_unit : forall u, size_units (size_letter u) = true /\ size_unit_of (size_letter u) = u.
Proof. intros u. destruct u; split; reflexivity. Qed.

Lemma size_letter_letter : forall u, letter (size_letter u).
Proof. intros u. apply size_units_letter. apply size_letter_unit. Qed.

Lemma parse_size_unit : forall u ds rest,
  digits ds -> ds <> [] ->
  parse_size (ds ++ size_letter u :: rest) =
    if pos_value ds <? 2 ^ 64 then (Ok (Size u (pos_value ds)), rest)
    else (Cut [Expected "invalid_size_specifier"; Label "size"], ds ++ size_letter u :: rest).
Proof.
  intros u ds rest Hd Hne. rewrite parse_size_unit_arg.
  rewrite (unit_arg_letter size_units size_mk (Size UBlock) _ _ ds (size_letter u) rest Hd Hne
             (size_letter_letter u)).
  destruct (size_letter_unit u) as [HU Hu]. rewrite HU. cbn [andb].
  unfold size_mk. rewrite Hu. reflexivity.
Qed.

Lemma parse_size_plain : forall ds rest,
  digits ds -> ds <> [] -> not_starting_with digit rest -> not_starting_with letter rest ->
  parse_size (ds ++ rest) =
    if pos_value ds <? 2 ^ 64 then (Ok (Size UBlock (pos_value ds)), rest)
    else (Back [Expected "unsigned_integer"; Label "size"], ds ++ rest).
Proof.
  intros ds rest Hd Hne Hnd Hnl. rewrite parse_size_unit_arg.
  apply (unit_arg_plain size_units size_mk (Size UBlock) _ _ size_units_letter); assumption.
Qed.

(** a letter that is not a size unit is a final error, whatever the count *)
Lemma parse_size_bad_letter : forall ds c rest,
  digits ds -> ds <> [] -> letter c -> (forall u, c <> size_letter u) ->
  parse_size (ds ++ c :: rest) =
    (Cut [Expected "invalid_size_specifier"; Label "size"], ds ++ c :: rest).
Proof.
  intros ds c rest Hd Hne Hc Hu. rewrite parse_size_unit_arg.
  rewrite (unit_arg_letter size_units size_mk (Size UBlock) _ _ ds c rest Hd Hne Hc).
  assert (HU : size_units c = false).
  { destruct (size_units c) eqn:E; [|reflexivity]. exfalso.
    unfold size_units, in_str in E. cbn [chars mem] in E.
    pose proof (Hu UBlock) as H1. pose proof (Hu UByte) as H2. pose proof (Hu UWord) as H3.
    pose proof (Hu UKilo) as H4. pose proof (Hu UMega) as H5. pose proof (Hu UGiga) as H6.
    pose proof (Hu UTera) as H7. cbn in E, H1, H2, H3, H4, H5, H6, H7. lia. }
  rewrite HU. reflexivity.
Qed.

Lemma parse_size_no_digit : forall i,
  not_starting_with digit i ->
  parse_size i = (Back [Expected "unsigned_integer"; Label "size"], i).
Proof. intros i Hi. rewrite parse_size_unit_arg. apply unit_arg_no_digit. exact Hi. Qed.

Lemma sign_not_digit : forall s, sign s -> ~ digit s.
Proof. intros s [H|H]; subst s; unfold digit; cbv; intuition discriminate. Qed.

Lemma parse_size_rejects_signs : rejects_signs parse_size.
Proof.
  intros s w v r Hs. rewrite parse_size_no_digit by (apply sign_not_digit; exact Hs). discriminate.
Qed.

Lemma parse_uint_rejects_signs : forall bound, rejects_signs (parse_uint bound).
Proof.
  intros bound s w v r Hs. rewrite parse_uint_no_digit by (apply sign_not_digit; exact Hs). discriminate.
Qed.

(** ** times *)
Definition time_units : N -> bool := in_str "smhd".
Definition time_mk : N * N -> timespec := fun '(n, u) => Time (time_unit_of u) n.

Lemma parse_time_unit_arg : forall dflt,
  parse_time dflt = unit_arg time_units time_mk (Time dflt) "invalid_time_specifier" "timespec".
Proof. reflexivity. Qed.

Lemma time_units_letter : forall c, time_units c = true -> letter c.
Proof.
  intros c. unfold time_units, in_str. cbn [chars mem]. unfold letter. cbn. lia.
Qed.

Lemma time_letter_unit : forall u, time_units (time_letter u) = true /\ time_unit_of (time_letter u) = u.
Proof. intros u. destruct u; split; reflexivity. Qed.

Lemma time_letter_letter : forall u, letter (time_letter u).
Proof. intros u. apply time_units_letter. apply time_letter_unit. Qed.

Lemma parse_time_unit : forall dflt u ds rest,
  digits ds -> ds <> [] ->
  parse_time dflt (ds ++ time_letter u :: rest) =
    if pos_value ds <? 2 ^ 64 then (Ok (Time u (pos_value ds)), rest)
    else (Cut [Expected "invalid_time_specifier"; Label "timespec"], ds ++ time_letter u :: rest).
Proof.
  intros dflt u ds rest Hd Hne. rewrite parse_time_unit_arg.
  rewrite (unit_arg_letter time_units time_mk (Time dflt) _ _ ds (time_letter u) rest Hd Hne
             (time_letter_letter u)).
  destruct (time_letter_unit u) as [HU Hu]. rewrite HU. cbn [andb].
  unfold time_mk. rewrite Hu. reflexivity.
Qed.

Lemma parse_time_plain : forall dflt ds rest,
  digits ds -> ds <> [] -> not_starting_with digit rest -> not_starting_with letter rest ->
  parse_time dflt (ds ++ rest) =
    if pos_value ds <? 2 ^ 64 then (Ok (Time dflt (pos_value ds)), rest)
    else (Back [Expected "unsigned_integer"; Label "timespec"], ds ++ rest).
Proof.
  intros dflt ds rest Hd Hne Hnd Hnl. rewrite parse_time_unit_arg.
  apply (unit_arg_plain time_units time_mk (Time dflt) _ _ time_units_letter); assumption.
Qed.

Lemma parse_time_bad_letter : forall dflt ds c rest,
  digits ds -> ds <> [] -> letter c -> (forall u, c <> time_letter u) ->
  parse_time dflt (ds ++ c :: rest) =
    (Cut [Expected "invalid_time_specifier"; Label "timespec"], ds ++ c :: rest).
Proof.
  intros dflt ds c rest Hd Hne Hc Hu. rewrite parse_time_unit_arg.
  rewrite (unit_arg_letter time_units time_mk (Time dflt) _ _ ds c rest Hd Hne Hc).
  assert (HU : time_units c = false).
  { destruct (time_units c) eqn:E; [|reflexivity]. exfalso.
    unfold time_units, in_str in E. cbn [chars mem] in E.
    pose proof (Hu USecond) as H1. pose proof (Hu UMinute) as H2. pose proof (Hu UHour) as H3.
    pose proof (Hu UDay) as H4. cbn in E, H1, H2, H3, H4. lia. }
  rewrite HU. reflexivity.
Qed.

Lemma parse_time_no_digit : forall dflt i,
  not_starting_with digit i ->
  parse_time dflt i = (Back [Expected "unsigned_integer"; Label "timespec"], i).
Proof. intros dflt i Hi. rewrite parse_time_unit_arg. apply unit_arg_no_digit. exact Hi. Qed.

Lemma parse_time_rejects_signs : forall dflt, rejects_signs (parse_time dflt).
Proof.
  intros dflt s w v r Hs. rewrite parse_time_no_digit by (apply sign_not_digit; exact Hs). discriminate.
Qed.

(** * Comparisons of plain integers, end to end *)

Lemma digit_not_sign : forall c, digit c -> ~ sign c.
Proof. intros c Hc Hs. exact (sign_not_digit c Hs Hc). Qed.

Lemma digits_not_starting_with_sign : forall ds rest,
  digits ds -> ds <> [] -> not_starting_with sign (ds ++ rest).
Proof.
  intros ds rest Hd Hne. destruct ds as [|c t]; [congruence|].
  inversion Hd as [|c' t' Hc Ht]; subst. cbn [app not_starting_with]. apply digit_not_sign. exact Hc.
Qed.

Lemma parse_cmp_uint_exact : forall bound p ds rest,
  digits ds -> ds <> [] -> not_starting_with digit rest ->
  parse_cmp (parse_uint bound) (prefix_str p ++ ds ++ rest) =
    if pos_value ds <? bound then (Ok (prefix_cmp p (pos_value ds)), rest)
    else (Cut [Expected "unsigned_integer"; Label "comparison"], prefix_str p ++ ds ++ rest).
Proof.
  intros bound p ds rest Hd Hne Hr.
  pose proof (digits_not_starting_with_sign ds rest Hd Hne) as Hns.
  pose proof (parse_uint_exact bound ds rest Hd Hne Hr) as Hu.
  destruct (pos_value ds <? bound) eqn:E.
  - apply parse_cmp_prefix_ok; assumption.
  - destruct p; cbn [prefix_str app].
    + rewrite parse_cmp_plus, Hu, cmp_plain_eq.
      rewrite parse_uint_no_digit by (apply sign_not_digit; left; reflexivity). reflexivity.
    + rewrite parse_cmp_minus, Hu, cmp_plain_eq.
      rewrite parse_uint_no_digit by (apply sign_not_digit; right; reflexivity). reflexivity.
    + rewrite (parse_cmp_none _ _ Hns), cmp_plain_eq, Hu. reflexivity.
Qed.

(** * Canonical numerals are unique, so [print_dec n] is the only one for [n] *)

Lemma same_length_unique : forall a b,
  digits a -> digits b -> List.length a = List.length b -> pos_value a = pos_value b -> a = b.
Proof.
  induction a as [|x a IH]; intros b Ha Hb Hl Hv.
  - destruct b as [|y b]; [reflexivity|discriminate].
  - destruct b as [|y b]; [discriminate|].
    inversion Ha as [|x' a' Hx Ha']; subst. inversion Hb as [|y' b' Hy Hb']; subst.
    cbn [List.length] in Hl. injection Hl as Hl.
    cbn [pos_value] in Hv. rewrite Hl in Hv.
    pose proof (pos_value_upper a Ha') as Hua. rewrite Hl in Hua.
    pose proof (pos_value_upper b Hb') as Hub.
    destruct (N.div_mod_unique (10 ^ N.of_nat (List.length b)) (digit_value x) (digit_value y)
                (pos_value a) (pos_value b) Hua Hub) as [Hq Hr].
    { rewrite (N.mul_comm _ (digit_value x)), (N.mul_comm _ (digit_value y)). exact Hv. }
    f_equal.
    + unfold digit, digit_value in *. lia.
    + apply IH; assumption.
Qed.

Lemma canonical_longer_greater : forall a b,
  digits a -> a <> [] -> canonical b -> (List.length a < List.length b)%nat ->
  pos_value a < pos_value b.
Proof.
  intros a b Ha Hne (Hb & _ & Hz) Hl.
  destruct b as [|c r]; [cbn in Hl; lia|].
  destruct (N.eq_dec c 48) as [Hc|Hc].
  - subst c. rewrite (Hz r eq_refl) in Hl. cbn in Hl. destruct a; [congruence|cbn in Hl; lia].
  - inversion Hb as [|c' r' Hdc Hr]; subst.
    pose proof (pos_value_upper a Ha) as Hua.
    assert (Hpow : 10 ^ N.of_nat (List.length a) <= 10 ^ N.of_nat (List.length r)).
    { apply N.pow_le_mono_r; [lia|]. cbn [List.length] in Hl. lia. }
    assert (H1 : 1 <= digit_value c) by (unfold digit, digit_value in *; lia).
    pose proof (N.mul_le_mono_r 1 (digit_value c) (10 ^ N.of_nat (List.length r)) H1) as Hm.
    cbn [pos_value]. lia.
Qed.

Lemma canonical_unique : forall a b,
  canonical a -> canonical b -> pos_value a = pos_value b -> a = b.
Proof.
  intros a b Ha Hb Hv.
  destruct (lt_eq_lt_dec (List.length a) (List.length b)) as [[Hlt|Heq]|Hgt].
  - destruct Ha as (Hda & Hna & _).
    pose proof (canonical_longer_greater a b Hda Hna Hb Hlt). lia.
  - destruct Ha as (Hda & _). destruct Hb as (Hdb & _).
    apply same_length_unique; assumption.
  - destruct Hb as (Hdb & Hnb & _).
    pose proof (canonical_longer_greater b a Hdb Hnb Ha Hgt). lia.
Qed.

Lemma print_dec_unique : forall n ds, canonical ds -> pos_value ds = n -> ds = print_dec n.
Proof.
  intros n ds Hc Hv. apply canonical_unique; [exact Hc|apply print_dec_canonical|].
  rewrite print_dec_value. exact Hv.
Qed.

(** any fuel from [S (N.size_nat n)] upwards gives the same numeral: the fuel never runs out *)
Lemma print_dec_fuel_enough : forall n fuel,
  (S (N.size_nat n) <= fuel)%nat -> print_radix_aux fuel 10 n [] = print_dec n.
Proof.
  intros n fuel Hf. destruct fuel as [|f]; [lia|].
  assert (Hn : n < 10 ^ N.of_nat (S f)).
  { pose proof (print_dec_fuel n) as H0.
    assert (Hle : 10 ^ N.of_nat (S (N.size_nat n)) <= 10 ^ N.of_nat (S f))
      by (apply N.pow_le_mono_r; lia).
    lia. }
  destruct (N.eq_dec n 0) as [Hz|Hnz].
  - subst n. rewrite print_aux_step. reflexivity.
  - destruct (print_aux_spec f n [] Hn) as (ds & Heq & (Hd & Hne & Hv & Hlz)).
    rewrite Heq, app_nil_r. apply print_dec_unique; [|exact Hv].
    split; [exact Hd|]. split; [exact Hne|]. intros r Hr. exfalso. apply Hnz. exact (Hlz r Hr).
Qed.

(** * Emitted constants *)

Lemma num_decimal_atom : forall n, decimal_atom (num n) n.
Proof.
  intros n. exists (print_dec n). split; [reflexivity|].
  split; [apply print_dec_canonical|apply print_dec_value].
Qed.

Lemma compile_size_eq : forall c u n,
  cmp_val c = Size u n ->
  compile_size c =
    lst [atom (cmp_op c);
         match u with
         | UByte => call0 "size"
         | _ => lst [atom "round-up-power-of-2"; call0 "size"; num (size_mult u)]
         end;
         num (n * size_mult u)].
Proof. intros c u n H. unfold compile_size. rewrite H. reflexivity. Qed.

Lemma compile_size_third : forall c u n,
  cmp_val c = Size u n ->
  exists x, sub [2%nat] (compile_size c) = Some x /\ decimal_atom x (n * size_mult u).
Proof.
  intros c u n H. rewrite (compile_size_eq c u n H).
  exists (num (n * size_mult u)). split; [reflexivity|apply num_decimal_atom].
Qed.

Lemma compile_size_unit_const : forall c u n,
  cmp_val c = Size u n -> u <> UByte ->
  exists x, sub [1%nat; 2%nat] (compile_size c) = Some x /\ decimal_atom x (size_mult u).
Proof.
  intros c u n H Hu. rewrite (compile_size_eq c u n H).
  exists (num (size_mult u)). split; [destruct u; try reflexivity; congruence|apply num_decimal_atom].
Qed.

Lemma cmp_field_third : forall c field,
  exists x, sub [2%nat] (cmp_field c field) = Some x /\ decimal_atom x (cmp_val c).
Proof.
  intros c field. exists (num (cmp_val c)). split; [reflexivity|apply num_decimal_atom].
Qed.

Lemma compile_time_eq : forall now field c u n,
  cmp_val c = Time u n ->
  compile_time now field c =
    lst [atom (cmp_op c);
         lst [atom "quotient"; lst [atom "-"; num now; call0 field]; num (time_secs u)];
         num n].
Proof. intros now field c u n H. unfold compile_time. rewrite H. reflexivity. Qed.

Lemma compile_time_consts : forall now field c u n,
  cmp_val c = Time u n ->
  exists xn xu xnow,
    sub [2%nat] (compile_time now field c) = Some xn /\ decimal_atom xn n /\
    sub [1%nat; 2%nat] (compile_time now field c) = Some xu /\ decimal_atom xu (time_secs u) /\
    sub [1%nat; 1%nat; 1%nat] (compile_time now field c) = Some xnow /\ decimal_atom xnow now.
Proof.
  intros now field c u n H. rewrite (compile_time_eq now field c u n H).
  exists (num n), (num (time_secs u)), (num now).
  repeat split; try reflexivity; apply num_decimal_atom.
Qed.

(** the thread count: carried from the options into the compiled record and into the text *)
Lemma compile_threads : forall e o clock c,
  compile e o clock = COk c -> c_threads c = opt_threads o.
Proof.
  intros e o clock c H. unfold compile in H.
  destruct (compile_expr (wrap e) _) as [[body s]|k m|m]; try discriminate.
  destruct (st_mgr s) as [l|dm]; injection H as H; subst c; reflexivity.
Qed.

Lemma render_threads : forall c mdt,
  sub [2%nat; 2%nat; 2%nat; 5%nat] (snd (render c mdt)) =
    Some match c_threads c with
         | Some n => num n
         | None => lst [atom "lipe-getopt-thread-count"]
         end.
Proof. reflexivity. Qed.

Lemma emitted_threads : forall e o clock c mdt n,
  compile e o clock = COk c -> opt_threads o = Some n ->
  exists x, sub [2%nat; 2%nat; 2%nat; 5%nat] (snd (render c mdt)) = Some x /\ decimal_atom x n.
Proof.
  intros e o clock c mdt n Hc Ho. rewrite render_threads, (compile_threads e o clock c Hc), Ho.
  exists (num n). split; [reflexivity|apply num_decimal_atom].
Qed.

(** * Every input: whatever is accepted is the exact value of the digits consumed *)

Lemma digit_prefix_decompose : forall i,
  not_starting_with digit i \/
  exists ds rest, i = ds ++ rest /\ digits ds /\ ds <> [] /\ not_starting_with digit rest.
Proof.
  induction i as [|c r IH]; [left; exact I|].
  destruct (is_digit c) eqn:E.
  - right. apply is_digit_true in E. destruct IH as [Hr|(ds & rest & Heq & Hd & Hne & Hr)].
    + exists [c], r. repeat split; [constructor; [exact E|constructor]|discriminate|exact Hr].
    + exists (c :: ds), rest. subst r. repeat split; [constructor; assumption|discriminate|exact Hr].
  - left. cbn [not_starting_with]. apply is_digit_false. exact E.
Qed.

Lemma parse_uint_sound : forall bound i v r,
  parse_uint bound i = (Ok v, r) ->
  exists ds, i = ds ++ r /\ digits ds /\ ds <> [] /\ not_starting_with digit r
             /\ v = pos_value ds /\ v < bound.
Proof.
  intros bound i v r H.
  destruct (digit_prefix_decompose i) as [Hi|(ds & rest & Heq & Hd & Hne & Hr)].
  - rewrite (parse_uint_no_digit bound i Hi) in H. discriminate.
  - subst i. rewrite (parse_uint_exact bound ds rest Hd Hne Hr) in H.
    destruct (pos_value ds <? bound) eqn:E; [|discriminate].
    injection H as Hv Hrest. subst v r. exists ds. repeat split; try assumption. lia.
Qed.

Lemma size_units_true : forall c, size_units c = true -> exists u, c = size_letter u.
Proof.
  intros c H.
  destruct (N.eq_dec c 98) as [E1|E1]; [exists UBlock; exact E1|].
  destruct (N.eq_dec c 99) as [E2|E2]; [exists UByte; exact E2|].
  destruct (N.eq_dec c 119) as [E3|E3]; [exists UWord; exact E3|].
  destruct (N.eq_dec c 107) as [E4|E4]; [exists UKilo; exact E4|].
  destruct (N.eq_dec c 77) as [E5|E5]; [exists UMega; exact E5|].
  destruct (N.eq_dec c 71) as [E6|E6]; [exists UGiga; exact E6|].
  destruct (N.eq_dec c 84) as [E7|E7]; [exists UTera; exact E7|].
  exfalso. unfold size_units, in_str in H. cbn [chars mem] in H. cbn in H. lia.
Qed.

Lemma time_units_true : forall c, time_units c = true -> exists u, c = time_letter u.
Proof.
  intros c H.
  destruct (N.eq_dec c 115) as [E1|E1]; [exists USecond; exact E1|].
  destruct (N.eq_dec c 109) as [E2|E2]; [exists UMinute; exact E2|].
  destruct (N.eq_dec c 104) as [E3|E3]; [exists UHour; exact E3|].
  destruct (N.eq_dec c 100) as [E4|E4]; [exists UDay; exact E4|].
  exfalso. unfold time_units, in_str in H. cbn [chars mem] in H. cbn in H. lia.
Qed.

Lemma size_letter_inj : forall u v, size_letter u = size_letter v -> u = v.
Proof. intros u v H. destruct u, v; try reflexivity; cbv in H; discriminate. Qed.
Lemma time_letter_inj : forall u v, time_letter u = time_letter v -> u = v.
Proof. intros u v H. destruct u, v; try reflexivity; cbv in H; discriminate. Qed.

Lemma parse_size_sound : forall i u n r,
  parse_size i = (Ok (Size u n), r) ->
  exists ds, digits ds /\ ds <> [] /\ n = pos_value ds /\ n < 2 ^ 64 /\
    (i = ds ++ size_letter u :: r \/
     (u = UBlock /\ i = ds ++ r /\ not_starting_with digit r /\ not_starting_with letter r)).
Proof.
  intros i u n r H.
  destruct (digit_prefix_decompose i) as [Hi|(ds & rest & Heq & Hd & Hne & Hr)].
  { rewrite (parse_size_no_digit i Hi) in H. discriminate. }
  subst i. exists ds.
  assert (Hplain : not_starting_with letter rest ->
            digits ds /\ ds <> [] /\ n = pos_value ds /\ n < 2 ^ 64 /\
            (ds ++ rest = ds ++ size_letter u :: r \/
             (u = UBlock /\ ds ++ rest = ds ++ r /\ not_starting_with digit r /\ not_starting_with letter r))).
  { intros Hnl. rewrite (parse_size_plain ds rest Hd Hne Hr Hnl) in H.
    destruct (pos_value ds <? 2 ^ 64) eqn:E; [|discriminate].
    injection H as Hu Hn Hrest. subst u n r.
    repeat split; try assumption; [lia|]. right. repeat split; assumption. }
  destruct rest as [|c rest']; [apply Hplain; exact I|].
  destruct (is_alpha c) eqn:Ea; [|apply Hplain; apply is_alpha_false; exact Ea].
  apply is_alpha_true in Ea.
  destruct (size_units c) eqn:EU.
  - destruct (size_units_true c EU) as (u' & Hc). subst c.
    rewrite (parse_size_unit u' ds rest' Hd Hne) in H.
    destruct (pos_value ds <? 2 ^ 64) eqn:E; [|discriminate].
    injection H as Hu Hn Hrest. subst u' n r.
    repeat split; try assumption; [lia|]. left. reflexivity.
  - rewrite (parse_size_bad_letter ds c rest' Hd Hne Ea) in H; [discriminate|].
    intros u' Hc. subst c. destruct (size_letter_unit u') as [HU _]. congruence.
Qed.

Lemma parse_time_sound : forall dflt i u n r,
  parse_time dflt i = (Ok (Time u n), r) ->
  exists ds, digits ds /\ ds <> [] /\ n = pos_value ds /\ n < 2 ^ 64 /\
    (i = ds ++ time_letter u :: r \/
     (u = dflt /\ i = ds ++ r /\ not_starting_with digit r /\ not_starting_with letter r)).
Proof.
  intros dflt i u n r H.
  destruct (digit_prefix_decompose i) as [Hi|(ds & rest & Heq & Hd & Hne & Hr)].
  { rewrite (parse_time_no_digit dflt i Hi) in H. discriminate. }
  subst i. exists ds.
  assert (Hplain : not_starting_with letter rest ->
            digits ds /\ ds <> [] /\ n = pos_value ds /\ n < 2 ^ 64 /\
            (ds ++ rest = ds ++ time_letter u :: r \/
             (u = dflt /\ ds ++ rest = ds ++ r /\ not_starting_with digit r /\ not_starting_with letter r))).
  { intros Hnl. rewrite (parse_time_plain dflt ds rest Hd Hne Hr Hnl) in H.
    destruct (pos_value ds <? 2 ^ 64) eqn:E; [|discriminate].
    injection H as Hu Hn Hrest. subst u n r.
    repeat split; try assumption; [lia|]. right. repeat split; assumption. }
  destruct rest as [|c rest']; [apply Hplain; exact I|].
  destruct (is_alpha c) eqn:Ea; [|apply Hplain; apply is_alpha_false; exact Ea].
  apply is_alpha_true in Ea.
  destruct (time_units c) eqn:EU.
  - destruct (time_units_true c EU) as (u' & Hc). subst c.
    rewrite (parse_time_unit dflt u' ds rest' Hd Hne) in H.
    destruct (pos_value ds <? 2 ^ 64) eqn:E; [|discriminate].
    injection H as Hu Hn Hrest. subst u' n r.
    repeat split; try assumption; [lia|]. left. reflexivity.
  - rewrite (parse_time_bad_letter dflt ds c rest' Hd Hne Ea) in H; [discriminate|].
    intros u' Hc. subst c. destruct (time_letter_unit u') as [HU _]. congruence.
Qed.
