(** C11 / C10: the managers' tables only grow, every reference in the body resolves through the
    FINAL tables to the resource created for exactly that request, every table entry has its
    binding, keys and indices are pairwise distinct, and the destination table is sound and
    complete for the actions of the expression. *)
From Coq Require Import List String NArith Bool Lia ZifyBool ZifyN.
From FP Require Import Model.Chars Model.Ast Model.Sexp Model.Compile Spec.Tree Spec.Resources.
Import ListNotations.
Local Open Scope N_scope.

(** * equality tests *)
Lemma str_eqb_eq a b : str_eqb a b = true <-> a = b.
Proof.
  revert b. induction a as [|x a IH]; intros [|y b]; cbn [str_eqb]; split; intro H;
    try reflexivity; try discriminate.
  - apply andb_true_iff in H as [H1 H2]. apply N.eqb_eq in H1. apply IH in H2. congruence.
  - inversion H; subst. rewrite N.eqb_refl. cbn. now apply IH.
Qed.
Lemma opt_eqb_eq a b : opt_eqb a b = true <-> a = b.
Proof.
  destruct a as [x|], b as [y|]; cbn [opt_eqb]; split; intro H; try reflexivity; try discriminate.
  - apply N.eqb_eq in H. congruence.
  - inversion H. apply N.eqb_refl.
Qed.
Lemma target_eqb_eq a b : target_eqb a b = true <-> a = b.
Proof.
  destruct a as [x|f x], b as [y|g y]; cbn [target_eqb]; split; intro H; try discriminate.
  - apply opt_eqb_eq in H. congruence.
  - inversion H. now apply opt_eqb_eq.
  - apply andb_true_iff in H as [H1 H2]. apply str_eqb_eq in H1. apply opt_eqb_eq in H2. congruence.
  - inversion H; subst. apply andb_true_iff. split; [now apply str_eqb_eq|now apply opt_eqb_eq].
Qed.
Lemma port_eqb_eq a b : port_eqb a b = true <-> a = b.
Proof.
  destruct a as [a1 a2], b as [b1 b2]; unfold port_eqb; cbn [p_port p_mutex]; split; intro H.
  - apply andb_true_iff in H as [H1 H2]. apply N.eqb_eq in H1, H2. congruence.
  - inversion H; subst. now rewrite !N.eqb_refl.
Qed.
Lemma mkey_eqb_eq a b : mkey_eqb a b = true <-> a = b.
Proof.
  destruct a as [a1 a2], b as [b1 b2]; unfold mkey_eqb; cbn [fst snd]; split; intro H.
  - apply andb_true_iff in H as [H1 H2]. apply str_eqb_eq in H1. apply Bool.eqb_prop in H2. congruence.
  - inversion H; subst. apply andb_true_iff. split; [now apply str_eqb_eq|apply Bool.eqb_reflx].
Qed.
Lemma pkey_eqb_eq a b : pkey_eqb a b = true <-> a = b.
Proof.
  destruct a as [a1 a2], b as [b1 b2]; unfold pkey_eqb; cbn [fst snd]; split; intro H.
  - apply andb_true_iff in H as [H1 H2]. apply port_eqb_eq in H1. apply opt_eqb_eq in H2. congruence.
  - inversion H; subst. apply andb_true_iff. split; [now apply port_eqb_eq|now apply opt_eqb_eq].
Qed.

(** * association lists *)
Section Assoc.
  Context {K V : Type} (eqb : K -> K -> bool).
  Hypothesis Heq : forall a b, eqb a b = true <-> a = b.

  Lemma assoc_In k v (l : list (K * V)) : assoc eqb k l = Some v -> In (k, v) l.
  Proof.
    induction l as [|[k' v'] l IH]; cbn [assoc]; [discriminate|].
    destruct (eqb k k') eqn:E.
    - intro H. inversion H; subst. apply Heq in E. subst. now left.
    - intro H. right. now apply IH.
  Qed.
  Lemma assoc_None k (l : list (K * V)) : assoc eqb k l = None -> ~ In k (map fst l).
  Proof.
    induction l as [|[k' v'] l IH]; cbn [assoc map fst]; [intros _ []|].
    destruct (eqb k k') eqn:E; [discriminate|].
    intros H [Hk|Hk]; [|now apply IH].
    subst. assert (eqb k k = true) by now apply Heq. congruence.
  Qed.
  Lemma assoc_app_Some k v (l r : list (K * V)) : assoc eqb k l = Some v -> assoc eqb k (l ++ r) = Some v.
  Proof.
    induction l as [|[k' v'] l IH]; cbn [assoc app]; [discriminate|].
    destruct (eqb k k'); [trivial|exact IH].
  Qed.
  Lemma assoc_snoc_new k v (l : list (K * V)) : assoc eqb k l = None -> assoc eqb k (l ++ [(k, v)]) = Some v.
  Proof.
    induction l as [|[k' v'] l IH]; cbn [assoc app].
    - intros _. assert (eqb k k = true) as -> by now apply Heq. reflexivity.
    - destruct (eqb k k'); [discriminate|exact IH].
  Qed.
  Lemma In_assoc k v (l : list (K * V)) : NoDup (map fst l) -> In (k, v) l -> assoc eqb k l = Some v.
  Proof.
    induction l as [|[k' v'] l IH]; cbn [assoc map fst]; [intros _ []|].
    intros Hn [H|H].
    - inversion H; subst. assert (eqb k k = true) as -> by now apply Heq. reflexivity.
    - inversion Hn as [|? ? Hni Hn']; subst.
      destruct (eqb k k') eqn:E; [|now apply IH].
      apply Heq in E. subst. exfalso. apply Hni. now apply (in_map fst) in H.
  Qed.
  (** under distinct keys, [assoc] and membership say the same *)
  Lemma assoc_iff_In k v (l : list (K * V)) : NoDup (map fst l) -> (assoc eqb k l = Some v <-> In (k, v) l).
  Proof. intro Hn. split; [apply assoc_In|now apply In_assoc]. Qed.
End Assoc.

Lemma NoDup_snoc {A} (l : list A) x : NoDup l -> ~ In x l -> NoDup (l ++ [x]).
Proof.
  induction l as [|y l IH]; cbn [app]; intros Hl Hx.
  - constructor; [intros []|constructor].
  - inversion Hl as [|? ? Hy Hl']; subst. constructor.
    + rewrite in_app_iff. cbn. intros [H|[H|[]]]; [now apply Hy|]. subst. apply Hx. now left.
    + apply IH; [assumption|]. intro H. apply Hx. now right.
Qed.
Lemma in_snoc {A} (l : list A) x y : In x (l ++ [y]) <-> In x l \/ x = y.
Proof. rewrite in_app_iff. cbn. intuition. Qed.

Lemma prefix_refl {A} (a : list A) : prefix a a.
Proof. exists []. now rewrite app_nil_r. Qed.
Lemma prefix_trans {A} (a b c : list A) : prefix a b -> prefix b c -> prefix a c.
Proof. intros [r ->] [r' ->]. exists (r ++ r'). now rewrite app_assoc. Qed.
Lemma prefix_snoc {A} (a r : list A) : prefix a (a ++ r).
Proof. now exists r. Qed.
Lemma prefix_In {A} (a b : list A) x : prefix a b -> In x a -> In x b.
Proof. intros [r ->] H. apply in_app_iff. now left. Qed.
Lemma prefix_assoc {K V} (eqb : K -> K -> bool) (a b : list (K * V)) k v :
  prefix a b -> assoc eqb k a = Some v -> assoc eqb k b = Some v.
Proof. intros [r ->]. apply assoc_app_Some. Qed.

(** * the requests an expression makes, in order *)
Inductive request := RMatch (pat : str) (ci : bool) | RPrint (t : target).
Definition serve (r : request) (m : mgr) : lsexp * mgr :=
  match r with
  | RMatch pat ci => get_matcher pat ci m
  | RPrint (TStdout term) => get_printer term m
  | RPrint (TFile f term) => get_file_printer f term m
  end.
Definition test_request (t : test) : option request :=
  match t with
  | TInsensitiveName p | TInsensitivePath p => Some (RMatch p true)
  | TName p | TPath p => Some (RMatch p false)
  | _ => None
  end.
Definition action_request (a : action) : option request := option_map RPrint (action_target a).
Definition opt_list {A} (o : option A) : list A := match o with Some x => [x] | None => [] end.
Fixpoint requests (e : expr) : list request :=
  match e with
  | ETest t => opt_list (test_request t)
  | EAction a => opt_list (action_request a)
  | EPrec a | ENot a => requests a
  | EAnd a b | EOr a b | EList a b => requests a ++ requests b
  | EGlobal _ | EPositional => []
  end.
Definition run (rs : list request) (m : mgr) : mgr := fold_left (fun m r => snd (serve r m)) rs m.
Lemma run_app a b m : run (a ++ b) m = run b (run a m).
Proof. apply fold_left_app. Qed.

Lemma compile_test_run t s x s' :
  compile_test t s = COk (x, s') -> st_mgr s' = run (opt_list (test_request t)) (st_mgr s).
Proof.
  destruct t; cbn [compile_test test_request opt_list run fold_left serve]; unfold with_mgr, tick;
    try discriminate;
    try (intro H; inversion H; reflexivity);
    try (match goal with |- context [get_matcher ?p ?b ?m] => destruct (get_matcher p b m) end;
         intro H; inversion H; reflexivity).
  destruct (xattr_offending a || xattr_offending b); intro H; inversion H; reflexivity.
Qed.

Lemma compile_action_run a s x s' :
  compile_action a s = COk (x, s') -> st_mgr s' = run (opt_list (action_request a)) (st_mgr s).
Proof.
  destruct a; cbn [compile_action action_request action_target option_map opt_list run fold_left serve];
    unfold with_mgr; try discriminate;
    try (intro H; inversion H; reflexivity);
    try (match goal with |- context [get_printer ?t ?m] => destruct (get_printer t m) end);
    try (match goal with |- context [get_file_printer ?f ?t ?m] => destruct (get_file_printer f t m) end);
    try (intro H; inversion H; reflexivity);
    destruct (compile_format fmt); try discriminate; intro H; inversion H; reflexivity.
Qed.

Lemma compile_expr_run e : forall s x s',
  compile_expr e s = COk (x, s') -> st_mgr s' = run (requests e) (st_mgr s).
Proof.
  induction e as [e IH|e IH|a IHa b IHb|a IHa b IHb|a IHa b IHb|t|a|g|]; cbn [compile_expr requests];
    intros s x s' H; try discriminate.
  - destruct (compile_expr e s) as [[y s1]| |] eqn:E; try discriminate. inversion H; subst. eauto.
  - destruct (compile_expr a s) as [[y s1]| |] eqn:Ea; try discriminate.
    destruct (compile_expr b s1) as [[z s2]| |] eqn:Eb; try discriminate. inversion H; subst.
    rewrite run_app, <- (IHa _ _ _ Ea). eauto.
  - destruct (compile_expr a s) as [[y s1]| |] eqn:Ea; try discriminate.
    destruct (compile_expr b s1) as [[z s2]| |] eqn:Eb; try discriminate. inversion H; subst.
    rewrite run_app, <- (IHa _ _ _ Ea). eauto.
  - destruct (compile_expr a s) as [[y s1]| |] eqn:Ea; try discriminate.
    destruct (compile_expr b s1) as [[z s2]| |] eqn:Eb; try discriminate. inversion H; subst.
    rewrite run_app, <- (IHa _ _ _ Ea). eauto.
  - eapply compile_test_run; eassumption.
  - eapply compile_action_run; eassumption.
Qed.

(** * growth: tables, bindings and the counter only grow; existing entries never change *)
Lemma lext_refl a : lext a a.
Proof. unfold lext. repeat split; try apply prefix_refl; try lia; auto. Qed.
Lemma dext_refl a : dext a a.
Proof. unfold dext. repeat split; try apply prefix_refl; lia. Qed.
Lemma lext_trans a b c : lext a b -> lext b c -> lext a c.
Proof.
  unfold lext. intros (H1 & H2 & H3 & H4 & H5 & H6 & H7) (G1 & G2 & G3 & G4 & G5 & G6 & G7).
  repeat split; try (eapply prefix_trans; eassumption); try lia; auto.
Qed.
Lemma dext_trans a b c : dext a b -> dext b c -> dext a c.
Proof.
  unfold dext. intros (H1 & H2 & H3 & H4) (G1 & G2 & G3 & G4).
  repeat split; try (eapply prefix_trans; eassumption); lia.
Qed.
Lemma ext_refl m : ext m m.
Proof. destruct m; [apply lext_refl|apply dext_refl]. Qed.
Lemma ext_trans a b c : ext a b -> ext b c -> ext a c.
Proof.
  destruct a, b, c; cbn [ext]; try contradiction; [apply lext_trans|apply dext_trans].
Qed.

Ltac ext_tac :=
  repeat split; cbn [l_idx l_vars l_fini l_default l_files l_printers l_matches
                     d_idx d_vars d_printers d_matches];
  try apply prefix_refl; try apply prefix_snoc; try lia; auto; try discriminate.

Lemma l_init_default_port_ext l : lext l (snd (l_init_default_port l)).
Proof.
  unfold l_init_default_port. destruct (l_default l) eqn:E; cbn [snd]; [apply lext_refl|].
  unfold lext. ext_tac. intros p Hp. congruence.
Qed.
Lemma l_init_file_port_ext f l : lext l (snd (l_init_file_port f l)).
Proof.
  unfold l_init_file_port. destruct (assoc str_eqb f (l_files l)); cbn [snd]; [apply lext_refl|].
  unfold lext. ext_tac.
Qed.
Lemma l_register_printer_ext p t l : lext l (snd (l_register_printer p t l)).
Proof.
  unfold l_register_printer. destruct (assoc pkey_eqb (p, t) (l_printers l)); cbn [snd]; [apply lext_refl|].
  unfold lext. ext_tac.
Qed.
Lemma l_register_match_ext p ci l : lext l (snd (l_register_match p ci l)).
Proof.
  unfold l_register_match. destruct (assoc mkey_eqb (p, ci) (l_matches l)); cbn [snd]; [apply lext_refl|].
  unfold lext. ext_tac.
Qed.
Lemma d_register_printer_ext t d : dext d (snd (d_register_printer t d)).
Proof.
  unfold d_register_printer. destruct (assoc target_eqb t (d_printers d)); cbn [snd]; [apply dext_refl|].
  unfold dext. ext_tac.
Qed.
Lemma d_register_match_ext p ci d : dext d (snd (d_register_match p ci d)).
Proof.
  unfold d_register_match. destruct (assoc mkey_eqb (p, ci) (d_matches d)); cbn [snd]; [apply dext_refl|].
  unfold dext. ext_tac.
Qed.

(** [serve] written with projections *)
Lemma serve_snd r m :
  snd (serve r m) =
  match r, m with
  | RMatch pat ci, ML l => ML (snd (l_register_match pat ci l))
  | RMatch pat ci, MD d => MD (snd (d_register_match pat ci d))
  | RPrint (TStdout term), ML l =>
      ML (snd (l_register_printer (fst (l_init_default_port l)) term (snd (l_init_default_port l))))
  | RPrint (TFile f term), ML l =>
      ML (snd (l_register_printer (fst (l_init_file_port f l)) term (snd (l_init_file_port f l))))
  | RPrint t, MD d => MD (snd (d_register_printer t d))
  end.
Proof.
  destruct r as [pat ci|[term|f term]], m as [l|d]; cbn [serve get_matcher get_printer get_file_printer].
  - now destruct (l_register_match pat ci l).
  - now destruct (d_register_match pat ci d).
  - destruct (l_init_default_port l) as [p l1]. cbn [fst snd]. now destruct (l_register_printer p term l1).
  - now destruct (d_register_printer (TStdout term) d).
  - destruct (l_init_file_port f l) as [p l1]. cbn [fst snd]. now destruct (l_register_printer p term l1).
  - now destruct (d_register_printer (TFile f term) d).
Qed.
Lemma serve_fst r m :
  fst (serve r m) =
  match r, m with
  | RMatch pat ci, ML l => ident "match" (fst (l_register_match pat ci l))
  | RMatch pat ci, MD d => ident "match" (fst (d_register_match pat ci d))
  | RPrint (TStdout term), ML l =>
      ident "print" (fst (l_register_printer (fst (l_init_default_port l)) term (snd (l_init_default_port l))))
  | RPrint (TFile f term), ML l =>
      ident "print" (fst (l_register_printer (fst (l_init_file_port f l)) term (snd (l_init_file_port f l))))
  | RPrint t, MD d => ident "print" (fst (d_register_printer t d))
  end.
Proof.
  destruct r as [pat ci|[term|f term]], m as [l|d]; cbn [serve get_matcher get_printer get_file_printer].
  - now destruct (l_register_match pat ci l).
  - now destruct (d_register_match pat ci d).
  - destruct (l_init_default_port l) as [p l1]. cbn [fst snd]. now destruct (l_register_printer p term l1).
  - now destruct (d_register_printer (TStdout term) d).
  - destruct (l_init_file_port f l) as [p l1]. cbn [fst snd]. now destruct (l_register_printer p term l1).
  - now destruct (d_register_printer (TFile f term) d).
Qed.

Lemma serve_ext r m : ext m (snd (serve r m)).
Proof.
  rewrite serve_snd. destruct r as [pat ci|[term|f term]], m as [l|d]; cbn [ext].
  - apply l_register_match_ext.
  - apply d_register_match_ext.
  - eapply lext_trans; [apply l_init_default_port_ext|apply l_register_printer_ext].
  - apply d_register_printer_ext.
  - eapply lext_trans; [apply l_init_file_port_ext|apply l_register_printer_ext].
  - apply d_register_printer_ext.
Qed.
Lemma run_ext rs : forall m, ext m (run rs m).
Proof.
  induction rs as [|r rs IH]; intro m; cbn [run fold_left]; [apply ext_refl|].
  eapply ext_trans; [apply serve_ext|apply IH].
Qed.

(** * resolution through later tables *)
Definition ref_of (m : mgr) (r : request) : option lsexp :=
  match r with RMatch pat ci => matcher_ref m pat ci | RPrint t => printer_ref m t end.

Lemma matcher_index_ext m m' pat ci i :
  ext m m' -> matcher_index m pat ci = Some i -> matcher_index m' pat ci = Some i.
Proof.
  unfold matcher_index. destruct m as [a|a], m' as [b|b]; cbn [ext m_matches]; try contradiction.
  - intros (_ & _ & _ & _ & _ & _ & H). now apply prefix_assoc.
  - intros (_ & _ & _ & H). now apply prefix_assoc.
Qed.
Lemma l_printer_key_ext a b t k : lext a b -> l_printer_key a t = Some k -> l_printer_key b t = Some k.
Proof.
  intros (_ & _ & _ & Hd & Hf & _ & _). destruct t as [term|f term]; cbn [l_printer_key].
  - destruct (l_default a) as [p|] eqn:E; [|discriminate]. now rewrite (Hd p eq_refl).
  - destruct (assoc str_eqb f (l_files a)) as [p|] eqn:E; [|discriminate].
    now rewrite (prefix_assoc _ _ _ _ _ Hf E).
Qed.
Lemma printer_index_ext m m' t i :
  ext m m' -> printer_index m t = Some i -> printer_index m' t = Some i.
Proof.
  destruct m as [a|a], m' as [b|b]; cbn [ext printer_index]; try contradiction.
  - intros H. destruct (l_printer_key a t) as [k|] eqn:E; [|discriminate].
    rewrite (l_printer_key_ext _ _ _ _ H E). destruct H as (_ & _ & _ & _ & _ & H & _).
    now apply prefix_assoc.
  - intros (_ & _ & H & _). now apply prefix_assoc.
Qed.
Lemma ref_of_ext m m' r x : ext m m' -> ref_of m r = Some x -> ref_of m' r = Some x.
Proof.
  intro H. destruct r as [pat ci|t]; cbn [ref_of]; unfold matcher_ref, printer_ref.
  - destruct (matcher_index m pat ci) as [i|] eqn:E; [|discriminate].
    now rewrite (matcher_index_ext _ _ _ _ _ H E).
  - destruct (printer_index m t) as [i|] eqn:E; [|discriminate].
    now rewrite (printer_index_ext _ _ _ _ H E).
Qed.

Lemma l_register_match_assoc pat ci l :
  assoc mkey_eqb (pat, ci) (l_matches (snd (l_register_match pat ci l)))
  = Some (fst (l_register_match pat ci l)).
Proof.
  unfold l_register_match. destruct (assoc mkey_eqb (pat, ci) (l_matches l)) eqn:E;
    cbn [fst snd l_matches]; [exact E|]. apply (assoc_snoc_new _ mkey_eqb_eq). exact E.
Qed.
Lemma d_register_match_assoc pat ci d :
  assoc mkey_eqb (pat, ci) (d_matches (snd (d_register_match pat ci d)))
  = Some (fst (d_register_match pat ci d)).
Proof.
  unfold d_register_match. destruct (assoc mkey_eqb (pat, ci) (d_matches d)) eqn:E;
    cbn [fst snd d_matches]; [exact E|]. apply (assoc_snoc_new _ mkey_eqb_eq). exact E.
Qed.
Lemma d_register_printer_assoc t d :
  assoc target_eqb t (d_printers (snd (d_register_printer t d))) = Some (fst (d_register_printer t d)).
Proof.
  unfold d_register_printer. destruct (assoc target_eqb t (d_printers d)) eqn:E;
    cbn [fst snd d_printers]; [exact E|]. apply (assoc_snoc_new _ target_eqb_eq). exact E.
Qed.
Lemma l_register_printer_assoc p term l :
  assoc pkey_eqb (p, term) (l_printers (snd (l_register_printer p term l)))
  = Some (fst (l_register_printer p term l)).
Proof.
  unfold l_register_printer. destruct (assoc pkey_eqb (p, term) (l_printers l)) eqn:E;
    cbn [fst snd l_printers]; [exact E|]. apply (assoc_snoc_new _ pkey_eqb_eq). exact E.
Qed.
Lemma l_register_printer_same p term l :
  l_default (snd (l_register_printer p term l)) = l_default l
  /\ l_files (snd (l_register_printer p term l)) = l_files l
  /\ l_matches (snd (l_register_printer p term l)) = l_matches l
  /\ l_fini (snd (l_register_printer p term l)) = l_fini l.
Proof.
  unfold l_register_printer. destruct (assoc pkey_eqb (p, term) (l_printers l)); cbn; auto.
Qed.
Lemma l_init_default_port_default l :
  l_default (snd (l_init_default_port l)) = Some (fst (l_init_default_port l)).
Proof. unfold l_init_default_port. destruct (l_default l) eqn:E; cbn; [exact E|reflexivity]. Qed.
Lemma l_init_file_port_assoc f l :
  assoc str_eqb f (l_files (snd (l_init_file_port f l))) = Some (fst (l_init_file_port f l)).
Proof.
  unfold l_init_file_port. destruct (assoc str_eqb f (l_files l)) eqn:E; cbn [fst snd l_files];
    [exact E|]. apply (assoc_snoc_new _ str_eqb_eq). exact E.
Qed.

(** what a request returns is what the table (after the request) says *)
Lemma serve_ref r m : ref_of (snd (serve r m)) r = Some (fst (serve r m)).
Proof.
  rewrite serve_snd, serve_fst.
  destruct r as [pat ci|[term|f term]], m as [l|d];
    cbn [ref_of]; unfold matcher_ref, matcher_index, printer_ref; cbn [m_matches printer_index].
  - now rewrite l_register_match_assoc.
  - now rewrite d_register_match_assoc.
  - destruct (l_register_printer_same (fst (l_init_default_port l)) term (snd (l_init_default_port l)))
      as (Hd & _). cbn [l_printer_key]. rewrite Hd, l_init_default_port_default. cbn [option_map].
    now rewrite l_register_printer_assoc.
  - now rewrite d_register_printer_assoc.
  - destruct (l_register_printer_same (fst (l_init_file_port f l)) term (snd (l_init_file_port f l)))
      as (_ & Hf & _). cbn [l_printer_key]. rewrite Hf, l_init_file_port_assoc. cbn [option_map].
    now rewrite l_register_printer_assoc.
  - now rewrite d_register_printer_assoc.
Qed.

Lemma serve_resolves r m x m1 m' :
  serve r m = (x, m1) -> ext m1 m' -> ref_of m' r = Some x.
Proof.
  intros E H. pose proof (serve_ref r m) as Hr. rewrite E in Hr. cbn [fst snd] in Hr.
  eapply ref_of_ext; eassumption.
Qed.

Lemma compile_test_resolves t s x s' :
  compile_test t s = COk (x, s') ->
  forall m, ext (st_mgr s') m -> expected_test m t (st_clock s) = Some (x, st_clock s').
Proof.
  destruct t; cbn [compile_test expected_test]; unfold with_mgr, tick; try discriminate;
    try (intro H; inversion H; reflexivity);
    try (match goal with |- context [get_matcher ?p ?b ?m] =>
           pose proof (serve_resolves (RMatch p b) m) as Hs; cbn [serve] in Hs;
           destruct (get_matcher p b m) as [r m1] end;
         intro H; inversion H; subst; cbn [st_mgr st_clock]; intros m Hm;
         specialize (Hs _ _ _ eq_refl Hm); cbn [ref_of] in Hs; rewrite Hs; reflexivity).
  destruct (xattr_offending a || xattr_offending b); intro H; inversion H; reflexivity.
Qed.

Lemma compile_action_resolves a s x s' :
  compile_action a s = COk (x, s') ->
  st_clock s' = st_clock s /\
  forall m, ext (st_mgr s') m -> expected_action m a = Some x.
Proof.
  destruct a; cbn [compile_action expected_action action_target]; unfold with_mgr; try discriminate;
    try (intro H; inversion H; split; reflexivity);
    try (match goal with |- context [get_printer ?t ?m] =>
           pose proof (serve_resolves (RPrint (TStdout t)) m) as Hs; cbn [serve] in Hs;
           destruct (get_printer t m) as [r m1] end);
    try (match goal with |- context [get_file_printer ?f ?t ?m] =>
           pose proof (serve_resolves (RPrint (TFile f t)) m) as Hs; cbn [serve] in Hs;
           destruct (get_file_printer f t m) as [r m1] end);
    try (intro H; inversion H; subst; cbn [st_mgr st_clock]; split; [reflexivity|]; intros m Hm;
         specialize (Hs _ _ _ eq_refl Hm); cbn [ref_of] in Hs; rewrite Hs; reflexivity);
    (destruct (compile_format fmt) as [c| |]; try discriminate;
     intro H; inversion H; subst; cbn [st_mgr st_clock]; split; [reflexivity|]; intros m Hm;
     specialize (Hs _ _ _ eq_refl Hm); cbn [ref_of] in Hs; rewrite Hs; reflexivity).
Qed.

Lemma compile_expr_ext e s x s' : compile_expr e s = COk (x, s') -> ext (st_mgr s) (st_mgr s').
Proof. intro H. rewrite (compile_expr_run _ _ _ _ H). apply run_ext. Qed.

Lemma compile_expr_resolves e : forall s x s',
  compile_expr e s = COk (x, s') ->
  forall m, ext (st_mgr s') m -> expected_expr m e (st_clock s) = Some (x, st_clock s').
Proof.
  induction e as [e IH|e IH|a IHa b IHb|a IHa b IHb|a IHa b IHb|t|a|g|]; cbn [compile_expr expected_expr];
    intros s x s' H m Hm; try discriminate.
  - destruct (compile_expr e s) as [[y s1]| |] eqn:E; try discriminate. inversion H; subst.
    now rewrite (IH _ _ _ E m Hm).
  - destruct (compile_expr a s) as [[y s1]| |] eqn:Ea; try discriminate.
    destruct (compile_expr b s1) as [[z s2]| |] eqn:Eb; try discriminate. inversion H; subst.
    rewrite (IHa _ _ _ Ea m (ext_trans _ _ _ (compile_expr_ext _ _ _ _ Eb) Hm)).
    now rewrite (IHb _ _ _ Eb m Hm).
  - destruct (compile_expr a s) as [[y s1]| |] eqn:Ea; try discriminate.
    destruct (compile_expr b s1) as [[z s2]| |] eqn:Eb; try discriminate. inversion H; subst.
    rewrite (IHa _ _ _ Ea m (ext_trans _ _ _ (compile_expr_ext _ _ _ _ Eb) Hm)).
    now rewrite (IHb _ _ _ Eb m Hm).
  - destruct (compile_expr a s) as [[y s1]| |] eqn:Ea; try discriminate.
    destruct (compile_expr b s1) as [[z s2]| |] eqn:Eb; try discriminate. inversion H; subst.
    rewrite (IHa _ _ _ Ea m (ext_trans _ _ _ (compile_expr_ext _ _ _ _ Eb) Hm)).
    now rewrite (IHb _ _ _ Eb m Hm).
  - eapply compile_test_resolves; eassumption.
  - destruct (compile_action_resolves _ _ _ _ H) as [Hc Hr]. rewrite (Hr m Hm), Hc. reflexivity.
Qed.

(** * the manager invariant *)
Definition port_lt (p : port) (n : N) : Prop := p_port p < n /\ p_mutex p < n.
Definition file_port_binding (n : N) (f : str) : lsexp :=
  binding (ident "port" n) (lst [atom "open-file"; lstr f; lstr (chars "w")]).

Record linv (l : lmgr) : Prop := {
  li_m_bound : forall k i, In (k, i) (l_matches l) -> 1 <= i < l_idx l;
  li_p_bound : forall k i, In (k, i) (l_printers l) -> i < l_idx l;
  li_d_bound : forall p, l_default l = Some p -> port_lt p (l_idx l);
  li_f_bound : forall f p, In (f, p) (l_files l) -> port_lt p (l_idx l);
  li_m_keys : NoDup (map fst (l_matches l));
  li_m_vals : NoDup (map snd (l_matches l));
  li_p_keys : NoDup (map fst (l_printers l));
  li_p_vals : NoDup (map snd (l_printers l));
  li_f_keys : NoDup (map fst (l_files l));
  li_m_bind : forall pat ci i, In ((pat, ci), i) (l_matches l) ->
              In (matcher_binding (i - 1) pat ci) (l_vars l);
  li_p_bind : forall p term i, In ((p, term), i) (l_printers l) ->
              In (plain_printer_binding i p term) (l_vars l);
  li_d_bind : forall p, l_default l = Some p ->
              In (default_port_binding (p_port p)) (l_vars l) /\ In (mutex_binding (p_mutex p)) (l_vars l);
  li_f_bind : forall f p, In (f, p) (l_files l) ->
              In (file_port_binding (p_port p) f) (l_vars l) /\ In (mutex_binding (p_mutex p)) (l_vars l)
}.

Record dinv (d : dmgr) : Prop := {
  di_idx : 2 <= d_idx d;
  di_prefix : prefix (d_vars dmgr_init) (d_vars d);
  di_m_bound : forall k i, In (k, i) (d_matches d) -> 3 <= i < d_idx d;
  di_p_bound : forall k i, In (k, i) (d_printers d) -> 2 <= i < d_idx d;
  di_m_keys : NoDup (map fst (d_matches d));
  di_m_vals : NoDup (map snd (d_matches d));
  di_p_keys : NoDup (map fst (d_printers d));
  di_p_vals : NoDup (map snd (d_printers d));
  di_m_bind : forall pat ci i, In ((pat, ci), i) (d_matches d) ->
              In (matcher_binding (i - 1) pat ci) (d_vars d);
  di_p_bind : forall t i, In (t, i) (d_printers d) -> In (framed_printer_binding i) (d_vars d)
}.

Definition minv (m : mgr) : Prop := match m with ML l => linv l | MD d => dinv d end.

Ltac in_cases :=
  repeat match goal with
         | H : In _ (_ ++ [_]) |- _ => apply in_snoc in H as [H|H]
         | H : (_, _) = (_, _) |- _ => inversion H; subst; clear H
         | H : Some _ = Some _ |- _ => inversion H; subst; clear H
         end.
Ltac pose_new t :=
  let T := type of t in
  lazymatch goal with
  | _ : T |- _ => fail
  | _ => pose proof t
  end.
Ltac use_bound :=
  repeat match goal with
         | Hb : forall k i, In (k, i) ?T -> _, H : In (_, _) ?T |- _ => pose_new (Hb _ _ H)
         | Hb : forall a b c, In ((a, b), c) ?T -> _, H : In ((_, _), _) ?T |- _ => pose_new (Hb _ _ _ H)
         | Hb : forall p, ?D = Some p -> _, H : ?D = Some _ |- _ => pose_new (Hb _ H)
         end.
Ltac bound_tac := intros; in_cases; use_bound; unfold port_lt in *; cbn [p_port p_mutex] in *; try lia.
Ltac nodup_key eqbspec E :=
  rewrite map_app; cbn [map fst snd]; apply NoDup_snoc; [assumption|];
  apply (assoc_None _ eqbspec); exact E.
Ltac nodup_val :=
  rewrite map_app; cbn [map fst snd]; apply NoDup_snoc; [assumption|];
  let Hin := fresh "Hin" in let k := fresh "k" in let i := fresh "i" in let Heq := fresh "Heq" in
  intro Hin; apply in_map_iff in Hin as [[k i] [Heq Hin]]; cbn [snd] in Heq; subst;
  use_bound; lia.
Ltac bind_tac :=
  intros; in_cases; use_bound; rewrite ?in_app_iff; cbn [In]; intuition.

Lemma l_init_default_port_inv l : linv l -> linv (snd (l_init_default_port l)).
Proof.
  intro H. unfold l_init_default_port. destruct (l_default l) eqn:E; cbn [snd]; [exact H|].
  destruct H. constructor; cbn [l_idx l_vars l_fini l_default l_files l_printers l_matches];
    try assumption; try (bound_tac; fail); try (bind_tac; fail).
Qed.

Lemma l_init_file_port_inv f l : linv l -> linv (snd (l_init_file_port f l)).
Proof.
  intro H. unfold l_init_file_port. destruct (assoc str_eqb f (l_files l)) eqn:E; cbn [snd]; [exact H|].
  destruct H. constructor; cbn [l_idx l_vars l_fini l_default l_files l_printers l_matches];
    try assumption; try (bound_tac; fail); try (bind_tac; fail).
  nodup_key str_eqb_eq E.
Qed.

Lemma l_register_printer_inv p term l : linv l -> linv (snd (l_register_printer p term l)).
Proof.
  intros H. unfold l_register_printer. destruct (assoc pkey_eqb (p, term) (l_printers l)) eqn:E;
    cbn [snd]; [exact H|].
  destruct H. constructor; cbn [l_idx l_vars l_fini l_default l_files l_printers l_matches];
    try assumption; try (bound_tac; fail); try (bind_tac; fail).
  - nodup_key pkey_eqb_eq E.
  - nodup_val.
Qed.

Lemma l_register_match_inv pat ci l : linv l -> linv (snd (l_register_match pat ci l)).
Proof.
  intro H. unfold l_register_match. destruct (assoc mkey_eqb (pat, ci) (l_matches l)) eqn:E;
    cbn [snd]; [exact H|].
  destruct H. constructor; cbn [l_idx l_vars l_fini l_default l_files l_printers l_matches];
    try assumption; try (bound_tac; fail); try (bind_tac; fail).
  - nodup_key mkey_eqb_eq E.
  - nodup_val.
  - intros p c i Hin. in_cases; use_bound; rewrite in_app_iff; cbn [In]; [now left|].
    right. left. f_equal. lia.
Qed.

Lemma d_register_printer_inv t d : dinv d -> dinv (snd (d_register_printer t d)).
Proof.
  intro H. unfold d_register_printer. destruct (assoc target_eqb t (d_printers d)) eqn:E;
    cbn [snd]; [exact H|].
  destruct H. constructor; cbn [d_idx d_vars d_printers d_matches];
    try assumption; try (bound_tac; fail); try (bind_tac; fail);
    try (eapply prefix_trans; [eassumption|apply prefix_snoc]; fail).
  - nodup_key target_eqb_eq E.
  - nodup_val.
Qed.

Lemma d_register_match_inv pat ci d : dinv d -> dinv (snd (d_register_match pat ci d)).
Proof.
  intro H. unfold d_register_match. destruct (assoc mkey_eqb (pat, ci) (d_matches d)) eqn:E;
    cbn [snd]; [exact H|].
  destruct H. constructor; cbn [d_idx d_vars d_printers d_matches];
    try assumption; try (bound_tac; fail); try (bind_tac; fail);
    try (eapply prefix_trans; [eassumption|apply prefix_snoc]; fail).
  - nodup_key mkey_eqb_eq E.
  - nodup_val.
  - intros p c i Hin. in_cases; use_bound; rewrite in_app_iff; cbn [In]; [now left|].
    right. left. f_equal. lia.
Qed.

Lemma serve_inv r m : minv m -> minv (snd (serve r m)).
Proof.
  rewrite serve_snd. destruct r as [pat ci|[term|f term]], m as [l|d]; cbn [minv]; intro H.
  - now apply l_register_match_inv.
  - now apply d_register_match_inv.
  - now apply l_register_printer_inv, l_init_default_port_inv.
  - now apply d_register_printer_inv.
  - now apply l_register_printer_inv, l_init_file_port_inv.
  - now apply d_register_printer_inv.
Qed.
Lemma run_inv rs : forall m, minv m -> minv (run rs m).
Proof.
  induction rs as [|r rs IH]; intros m H; cbn [run fold_left]; [exact H|].
  apply IH. now apply serve_inv.
Qed.
Lemma lmgr_init_inv : linv lmgr_init.
Proof.
  constructor; cbn; try constructor; try contradiction; try discriminate.
Qed.
Lemma dmgr_init_inv : dinv dmgr_init.
Proof.
  constructor; cbn; try apply prefix_refl; try constructor; try contradiction; try discriminate; lia.
Qed.
Lemma init_mgr_inv e : minv (init_mgr e).
Proof. unfold init_mgr. destruct (complex_frames e); [apply dmgr_init_inv|apply lmgr_init_inv]. Qed.

(** * what [compile] keeps of the final state *)
Definition is_framed (m : mgr) : bool := match m with ML _ => false | MD _ => true end.
Lemma ext_framed m m' : ext m m' -> is_framed m' = is_framed m.
Proof. destruct m, m'; cbn; try contradiction; reflexivity. Qed.

Lemma compile_final e o clk c :
  compile e o clk = COk c ->
  exists s, compile_expr (wrap e) {| st_mgr := init_mgr e; st_clock := clk |} = COk (c_body c, s)
    /\ final_mgr e clk = Some (st_mgr s)
    /\ c_defs c = m_vars (st_mgr s)
    /\ c_framed c = is_framed (st_mgr s)
    /\ c_iomap c = match st_mgr s with ML _ => None | MD d => Some (invert (d_printers d)) end
    /\ c_fini c = match st_mgr s with ML l => l_fini l | MD _ => [] end.
Proof.
  unfold compile, final_mgr, init_mgr.
  destruct (compile_expr (wrap e) _) as [[x s]| |]; try discriminate.
  intro H. inversion H. exists s. destruct (st_mgr s); cbn; repeat split; reflexivity.
Qed.

Lemma final_mgr_run e clk m : final_mgr e clk = Some m -> m = run (requests (wrap e)) (init_mgr e).
Proof.
  unfold final_mgr. destruct (compile_expr (wrap e) _) as [[x s]| |] eqn:E; try discriminate.
  intro H. inversion H; subst. now rewrite (compile_expr_run _ _ _ _ E).
Qed.
Lemma final_mgr_inv e clk m : final_mgr e clk = Some m -> minv m.
Proof. intro H. rewrite (final_mgr_run _ _ _ H). apply run_inv, init_mgr_inv. Qed.
Lemma final_mgr_ext e clk m : final_mgr e clk = Some m -> ext (init_mgr e) m.
Proof. intro H. rewrite (final_mgr_run _ _ _ H). apply run_ext. Qed.
Lemma final_mgr_framed e clk m : final_mgr e clk = Some m -> is_framed m = complex_frames e.
Proof.
  intro H. rewrite (ext_framed _ _ (final_mgr_ext _ _ _ H)). unfold init_mgr.
  now destruct (complex_frames e).
Qed.

(** * (1) the resolution theorem *)
Theorem reaches e o clk c :
  compile e o clk = COk c ->
  exists m, final_mgr e clk = Some m /\ c_defs c = m_vars m
            /\ expected_body m clk (wrap e) = Some (c_body c).
Proof.
  intro H. destruct (compile_final _ _ _ _ H) as (s & Hc & Hf & Hd & _).
  exists (st_mgr s). repeat split; try assumption.
  unfold expected_body.
  pose proof (compile_expr_resolves _ _ _ _ Hc (st_mgr s) (ext_refl _)) as Hr.
  cbn [st_clock] in Hr. rewrite Hr. reflexivity.
Qed.

(** along [compile_expr] tables only grow and the invariant is kept *)
Theorem compile_expr_grows e s x s' :
  compile_expr e s = COk (x, s') -> ext (st_mgr s) (st_mgr s') /\ (minv (st_mgr s) -> minv (st_mgr s')).
Proof.
  intro H. split; [eapply compile_expr_ext; eassumption|].
  rewrite (compile_expr_run _ _ _ _ H). apply run_inv.
Qed.

(** the counter is strictly above every allocated index *)
Theorem counter_above m :
  minv m ->
  (forall k i, In (k, i) (m_matches m) -> i - 1 < m_idx m /\ i < m_idx m)
  /\ match m with
     | ML l => (forall k i, In (k, i) (l_printers l) -> i < l_idx l)
               /\ (forall p, l_default l = Some p -> p_port p < l_idx l /\ p_mutex p < l_idx l)
               /\ (forall f p, In (f, p) (l_files l) -> p_port p < l_idx l /\ p_mutex p < l_idx l)
     | MD d => forall k i, In (k, i) (d_printers d) -> i < d_idx d
     end.
Proof.
  destruct m as [l|d]; cbn [minv m_matches m_idx]; intro H.
  - split; [intros k i Hi; pose proof (li_m_bound _ H _ _ Hi); lia|].
    split; [exact (li_p_bound _ H)|]. split; [exact (li_d_bound _ H)|exact (li_f_bound _ H)].
  - split; [intros k i Hi; pose proof (di_m_bound _ H _ _ Hi); lia|].
    intros k i Hi. pose proof (di_p_bound _ H _ _ Hi). lia.
Qed.

(** every table entry has its binding *)
Theorem bindings e o clk c m :
  compile e o clk = COk c -> final_mgr e clk = Some m ->
  (forall pat ci i, In ((pat, ci), i) (m_matches m) -> In (matcher_binding (i - 1) pat ci) (c_defs c))
  /\ match m with
     | ML l =>
         (forall p term i, In ((p, term), i) (l_printers l) -> In (plain_printer_binding i p term) (c_defs c))
         /\ (forall p, l_default l = Some p ->
               In (default_port_binding (p_port p)) (c_defs c) /\ In (mutex_binding (p_mutex p)) (c_defs c))
     | MD d => forall t i, In (t, i) (d_printers d) -> In (framed_printer_binding i) (c_defs c)
     end.
Proof.
  intros H Hm. destruct (compile_final _ _ _ _ H) as (s & _ & Hf & Hd & _).
  rewrite Hf in Hm. inversion Hm; subst m. rewrite Hd.
  pose proof (final_mgr_inv _ _ _ Hf) as Hi.
  destruct (st_mgr s) as [l|d]; cbn [minv m_matches m_vars] in *; destruct Hi; auto.
Qed.

(** * (2) sharing *)
Lemma index_inj {K} (l : list (K * N)) k1 k2 i :
  NoDup (map snd l) -> In (k1, i) l -> In (k2, i) l -> k1 = k2.
Proof.
  induction l as [|[k j] l IH]; cbn [map snd In]; [intros _ []|].
  intros Hn H1 H2. inversion Hn as [|? ? Hni Hn']; subst.
  destruct H1 as [H1|H1], H2 as [H2|H2].
  - congruence.
  - inversion H1; subst. exfalso. apply Hni. now apply (in_map snd) in H2.
  - inversion H2; subst. exfalso. apply Hni. now apply (in_map snd) in H1.
  - now apply IH.
Qed.

Theorem sharing m :
  minv m ->
  NoDup (map fst (m_matches m)) /\ NoDup (map snd (m_matches m))
  /\ (forall pat ci i, matcher_index m pat ci = Some i <-> In ((pat, ci), i) (m_matches m))
  /\ match m with
     | ML l => NoDup (map fst (l_printers l)) /\ NoDup (map snd (l_printers l))
               /\ (forall k i, assoc pkey_eqb k (l_printers l) = Some i <-> In (k, i) (l_printers l))
     | MD d => NoDup (map fst (d_printers d)) /\ NoDup (map snd (d_printers d))
               /\ (forall t i, printer_index (MD d) t = Some i <-> In (t, i) (d_printers d))
     end.
Proof.
  destruct m as [l|d]; cbn [minv m_matches printer_index]; intros []; unfold matcher_index; cbn [m_matches];
    repeat split; try assumption;
    try (apply (assoc_In _ mkey_eqb_eq)); try (apply (In_assoc _ mkey_eqb_eq); assumption);
    try (apply (assoc_In _ pkey_eqb_eq)); try (apply (In_assoc _ pkey_eqb_eq); assumption);
    try (apply (assoc_In _ target_eqb_eq)); try (apply (In_assoc _ target_eqb_eq); assumption).
Qed.

(** different requests never share a resource *)
Theorem matcher_never_shared m p1 c1 p2 c2 i :
  minv m -> matcher_index m p1 c1 = Some i -> matcher_index m p2 c2 = Some i -> p1 = p2 /\ c1 = c2.
Proof.
  intros H H1 H2. destruct (sharing m H) as (_ & Hv & Hi & _).
  apply Hi in H1, H2. pose proof (index_inj _ _ _ _ Hv H1 H2) as E. now inversion E.
Qed.
Theorem framed_printer_never_shared d t1 t2 i :
  dinv d -> printer_index (MD d) t1 = Some i -> printer_index (MD d) t2 = Some i -> t1 = t2.
Proof.
  intros H H1 H2. destruct (sharing (MD d) H) as (_ & _ & _ & _ & Hv & Hi).
  apply Hi in H1, H2. exact (index_inj _ _ _ _ Hv H1 H2).
Qed.
Theorem plain_printer_never_shared l t1 t2 i :
  linv l -> printer_index (ML l) (TStdout t1) = Some i -> printer_index (ML l) (TStdout t2) = Some i ->
  t1 = t2.
Proof.
  intros H. destruct (sharing (ML l) H) as (_ & _ & _ & _ & Hv & Hi).
  cbn [printer_index l_printer_key]. destruct (l_default l) as [p|]; cbn [option_map]; [|discriminate].
  intros H1 H2. apply Hi in H1, H2. pose proof (index_inj _ _ _ _ Hv H1 H2) as E. now inversion E.
Qed.

(** [assoc] is monotone along [compile_expr]: an entry, once made, is never changed *)
Theorem tables_monotone e s x s' :
  compile_expr e s = COk (x, s') ->
  m_idx (st_mgr s) <= m_idx (st_mgr s')
  /\ (forall pat ci i, matcher_index (st_mgr s) pat ci = Some i -> matcher_index (st_mgr s') pat ci = Some i)
  /\ (forall t i, printer_index (st_mgr s) t = Some i -> printer_index (st_mgr s') t = Some i).
Proof.
  intro H. apply compile_expr_ext in H. repeat split.
  - destruct (st_mgr s), (st_mgr s'); cbn [ext m_idx] in *; try contradiction; apply H.
  - intros pat ci i. now apply matcher_index_ext.
  - intros t i. now apply printer_index_ext.
Qed.

(** * the same, stated for the final manager of a compilation *)
Theorem grows e s x s' :
  compile_expr e s = COk (x, s') ->
  ext (st_mgr s) (st_mgr s')
  /\ m_idx (st_mgr s) <= m_idx (st_mgr s')
  /\ (forall pat ci i, matcher_index (st_mgr s) pat ci = Some i -> matcher_index (st_mgr s') pat ci = Some i)
  /\ (forall t i, printer_index (st_mgr s) t = Some i -> printer_index (st_mgr s') t = Some i).
Proof.
  intro H. split; [exact (compile_expr_ext e s x s' H)|exact (tables_monotone e s x s' H)].
Qed.

Theorem final_counter_above e clk m :
  final_mgr e clk = Some m ->
  (forall k i, In (k, i) (m_matches m) -> i - 1 < m_idx m /\ i < m_idx m)
  /\ match m with
     | ML l => (forall k i, In (k, i) (l_printers l) -> i < l_idx l)
               /\ (forall p, l_default l = Some p -> p_port p < l_idx l /\ p_mutex p < l_idx l)
               /\ (forall f p, In (f, p) (l_files l) -> p_port p < l_idx l /\ p_mutex p < l_idx l)
     | MD d => forall k i, In (k, i) (d_printers d) -> i < d_idx d
     end.
Proof. intro H. exact (counter_above m (final_mgr_inv e clk m H)). Qed.

Theorem final_sharing e clk m :
  final_mgr e clk = Some m ->
  NoDup (map fst (m_matches m)) /\ NoDup (map snd (m_matches m))
  /\ (forall pat ci i, matcher_index m pat ci = Some i <-> In ((pat, ci), i) (m_matches m))
  /\ match m with
     | ML l => NoDup (map fst (l_printers l)) /\ NoDup (map snd (l_printers l))
               /\ (forall k i, assoc pkey_eqb k (l_printers l) = Some i <-> In (k, i) (l_printers l))
     | MD d => NoDup (map fst (d_printers d)) /\ NoDup (map snd (d_printers d))
               /\ (forall t i, printer_index (MD d) t = Some i <-> In (t, i) (d_printers d))
     end.
Proof. intro H. exact (sharing m (final_mgr_inv e clk m H)). Qed.

Theorem final_never_shared e clk m :
  final_mgr e clk = Some m ->
  (forall p1 c1 p2 c2 i,
     matcher_index m p1 c1 = Some i -> matcher_index m p2 c2 = Some i -> p1 = p2 /\ c1 = c2)
  /\ match m with
     | ML l => forall t1 t2 i, printer_index m (TStdout t1) = Some i ->
                               printer_index m (TStdout t2) = Some i -> t1 = t2
     | MD d => forall t1 t2 i, printer_index m t1 = Some i -> printer_index m t2 = Some i -> t1 = t2
     end.
Proof.
  intro H. pose proof (final_mgr_inv e clk m H) as Hi. split.
  - intros p1 c1 p2 c2 i. now apply matcher_never_shared.
  - destruct m as [l|d]; intros t1 t2 i.
    + now apply plain_printer_never_shared.
    + now apply framed_printer_never_shared.
Qed.
