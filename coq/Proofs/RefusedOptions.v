(** C13r: -maxdepth / -mindepth are ALWAYS refused, wherever the word stands as a primary and
    whatever follows it. *)
From Coq Require Import List String Ascii NArith Bool Arith Lia ZifyBool ZifyN.
From FP Require Import Model.Chars Model.Winnow Model.Ast Model.Args Model.Lex Model.Parse.
From FP Require Import Spec.Decimal Spec.Numeric Spec.Messages Spec.Refused.
From FP Require Import Proofs.WinnowFacts Proofs.Numbers Proofs.FirstError Proofs.TokenView
  Proofs.ArgFail Proofs.ErrorAttribution.
Import ListNotations.
Local Open Scope N_scope.

Lemma refused_in_table K : refused_word K ->
  In (K, KOption, LRefused, erased unsupported_u32) arg_table.
Proof.
  intros [->| ->]; unfold arg_table.
  - do 37 right. left. reflexivity.
  - do 38 right. left. reflexivity.
Qed.

(** the argument parser on a number: always a failure, in place *)
Lemma unsupported_u32_number ds rest :
  digits ds -> ds <> [] -> not_starting_with digit rest ->
  unsupported_u32 (ds ++ rest)
  = (Back (if pos_value ds <? 2 ^ 32 then [Expected "unsupported_option"]
           else [Expected "unsigned_integer"; Expected "unsupported_option"]), ds ++ rest).
Proof.
  intros Hd Hne Hr. unfold unsupported_u32, context, verify, try_map.
  rewrite (parse_u32_exact ds rest Hd Hne Hr).
  destruct (pos_value ds <? 2 ^ 32); reflexivity.
Qed.

Lemma refused_message K (b : bool) a : refused_word K ->
  message ((if b then [Expected "unsupported_option"]
            else [Expected "unsigned_integer"; Expected "unsupported_option"])
           ++ primary_ctx K KOption) a
  = failed_msg (next_word a) KOption K (if b then not_supported else not_a_number).
Proof. intros [->| ->]; destruct b; reflexivity. Qed.

(** keyword, blanks, a number (of any size), anything that is not a further digit *)
Theorem refused_number K pre bl ds rest :
  refused_word K -> lexes_fine pre (chars K ++ bl ++ ds ++ rest) -> blanks bl ->
  digits ds -> ds <> [] -> not_starting_with digit rest ->
  parse (pre ++ chars K ++ bl ++ ds ++ rest)
  = ParseErr (failed_msg (next_word (ds ++ rest)) KOption K
                (if pos_value ds <? 2 ^ 32 then not_supported else not_a_number)).
Proof.
  intros HK Hlf Hbl Hd Hne Hr.
  assert (Ha : head_in is_space (ds ++ rest) = false).
  { destruct ds as [|c ds]; [contradiction|]. inversion Hd as [|x y Hc _]; subst.
    cbn [app head_in]. unfold digit in Hc. unfold is_space. lia. }
  pose proof (erased_err unsupported_u32 (ds ++ rest) false _ _
                (unsupported_u32_number ds rest Hd Hne Hr)) as Hp.
  rewrite (arg_error K KOption LRefused _ pre bl (ds ++ rest) false _ _
             (refused_in_table K HK) Hlf Hbl Ha Hp).
  rewrite <- (refused_message K (pos_value ds <? 2 ^ 32) (ds ++ rest) HK).
  destruct (pos_value ds <? 2 ^ 32); reflexivity.
Qed.

Theorem refused_small_number K pre bl ds rest :
  refused_word K -> lexes_fine pre (chars K ++ bl ++ ds ++ rest) -> blanks bl ->
  digits ds -> ds <> [] -> not_starting_with digit rest -> pos_value ds < 2 ^ 32 ->
  parse (pre ++ chars K ++ bl ++ ds ++ rest)
  = ParseErr (failed_msg (next_word (ds ++ rest)) KOption K not_supported).
Proof.
  intros HK Hlf Hbl Hd Hne Hr Hlt.
  rewrite (refused_number K pre bl ds rest HK Hlf Hbl Hd Hne Hr).
  destruct (pos_value ds <? 2 ^ 32) eqn:E; [reflexivity|lia].
Qed.

(** a word end is in particular not a digit *)
Lemma ends_word_not_digit rest : ends_word rest -> not_starting_with digit rest.
Proof.
  unfold ends_word. destruct rest as [|c r]; [intros _; exact I|].
  cbn [head_in not_starting_with]. unfold bare_char, digit. lia.
Qed.

(** keyword, blanks, anything at all *)
Theorem refused_any_argument K pre bl a :
  refused_word K -> lexes_fine pre (chars K ++ bl ++ a) -> blanks bl ->
  head_in is_space a = false ->
  exists e, (e = not_supported \/ e = not_a_number)
    /\ parse (pre ++ chars K ++ bl ++ a) = ParseErr (failed_msg (next_word a) KOption K e).
Proof.
  intros HK Hlf Hbl Ha.
  destruct (digit_prefix_decompose a) as [Hn|(ds & rest & -> & Hd & Hne & Hr)].
  - exists not_a_number. split; [right; reflexivity|].
    apply (invalid_arg K KOption LRefused _ pre bl a _ (refused_in_table K HK) Hlf Hbl).
    split; [exact Ha|]. cbn. split; [exact Hn|reflexivity].
  - exists (if pos_value ds <? 2 ^ 32 then not_supported else not_a_number). split.
    + destruct (pos_value ds <? 2 ^ 32); [left|right]; reflexivity.
    + exact (refused_number K pre bl ds rest HK Hlf Hbl Hd Hne Hr).
Qed.

(** the keyword directly followed by the end of the input or by one of ( ) ! , *)
Theorem refused_no_blank K pre x :
  refused_word K -> lexes_fine pre (chars K ++ x) -> at_word_end x = true ->
  head_in is_space x = false ->
  parse (pre ++ chars K ++ x) = ParseErr (failed_msg (next_word x) KOption K None).
Proof.
  intros HK Hlf Hwe Hx.
  pose proof (token_view_ok K KOption LRefused _ x (refused_in_table K HK) Hwe) as Hv.
  unfold token_view in Hv. rewrite Hx in Hv. cbn [missing_ctx app] in Hv.
  replace (failed_msg (next_word x) KOption K None) with (message (primary_ctx K KOption) x)
    by (destruct HK as [->| ->]; reflexivity).
  apply (first_error (pre ++ chars K ++ x) (chars K ++ x) true).
  - exact Hlf.
  - destruct HK as [->| ->]; discriminate.
  - rewrite token_step_eq, Hv. reflexivity.
Qed.

Lemma split_blanks x : head_in is_space x = true ->
  exists bl a, x = bl ++ a /\ blanks bl /\ head_in is_space a = false.
Proof.
  induction x as [|c r IH]; [discriminate|]. cbn [head_in]. intros Hc.
  destruct (head_in is_space r) eqn:Er.
  - destruct (IH eq_refl) as (bl & a & -> & [Hne Hb] & Ha).
    exists (c :: bl), a. repeat split; [discriminate| |exact Ha].
    cbn [forallb]. rewrite Hc, Hb. reflexivity.
  - exists [c], r. repeat split; [discriminate| |exact Er].
    cbn [forallb]. rewrite Hc. reflexivity.
Qed.

(** wherever one of the two words stands as a whole word at a primary position, the input is
    refused with a message naming that word as a global option *)
Theorem refused_always K pre x :
  refused_word K -> lexes_fine pre (chars K ++ x) -> at_word_end x = true ->
  exists w e, parse (pre ++ chars K ++ x) = ParseErr (failed_msg w KOption K e).
Proof.
  intros HK Hlf Hwe. destruct (head_in is_space x) eqn:Hx.
  - destruct (split_blanks x Hx) as (bl & a & -> & Hbl & Ha).
    destruct (refused_any_argument K pre bl a HK Hlf Hbl Ha) as (e & _ & He).
    exists (next_word a), e. exact He.
  - exists (next_word x), None. exact (refused_no_blank K pre x HK Hlf Hwe Hx).
Qed.

Theorem refused_never_ok K pre x o e :
  refused_word K -> lexes_fine pre (chars K ++ x) -> at_word_end x = true ->
  parse (pre ++ chars K ++ x) <> ParseOk o e.
Proof.
  intros HK Hlf Hwe. destruct (refused_always K pre x HK Hlf Hwe) as (w & ex & ->). discriminate.
Qed.
