(** Expressions as written (Spec/Written.v): their words form a sentence of the grammar whose
    tree is the shape of the expression, and [parse] of any well-formed layout of the words
    returns that tree and the options written. *)
From Coq Require Import List String NArith Bool Arith Lia.
From FP Require Import Model.Chars Model.Winnow Model.Ast Model.Lex Model.Prec Model.Parse.
From FP Require Import Spec.Vocabulary Spec.Surface Spec.Written Spec.Grammar.
From FP Require Import Proofs.PrecIff Proofs.OptionsFacts Proofs.LexSentence.
Import ListNotations.

Definition itoks (its : list item) : list token := map item_token its.

Scheme watom_mind := Induction for watom Sort Prop
  with wand_mind := Induction for wand Sort Prop
  with wor_mind := Induction for wor Sort Prop
  with wlist_mind := Induction for wlist Sort Prop.
Combined Scheme written_mutind from watom_mind, wand_mind, wor_mind, wlist_mind.

(** * The words of an expression are a sentence of the grammar, with the expected tree *)
Lemma items_grammar :
  (forall a, GAtom (itoks (atom_items a)) (atom_shape a)) /\
  (forall a, GAnd (itoks (and_items a)) (and_shape a)) /\
  (forall o, GOr (itoks (or_items o)) (or_shape o)) /\
  (forall e, GList (itoks (list_items e)) (list_shape e)).
Proof.
  apply written_mutind; unfold itoks in *.
  - intros ws gaps l. cbn. apply GA_prim.
  - intros a IH. cbn [atom_items atom_shape map item_token op_token]. apply GA_not. exact IH.
  - intros e IH. cbn [atom_items atom_shape map item_token op_token].
    rewrite map_app. cbn [map item_token op_token]. apply GA_par. exact IH.
  - intros a IH. cbn. apply GN_one. exact IH.
  - intros l IHl sp r IHr. cbn [and_items and_shape]. rewrite !map_app.
    destruct sp; cbn [and_words map item_token op_token app].
    + apply GN_imp; assumption.
    + apply GN_exp; assumption.
    + apply GN_exp; assumption.
  - intros a IH. cbn. apply GO_one. exact IH.
  - intros l IHl sp r IHr. cbn [or_items or_shape]. rewrite map_app.
    destruct sp; cbn [or_word map item_token op_token]; apply GO_or; assumption.
  - intros o IH. cbn. apply GL_one. exact IH.
  - intros l IHl r IHr. cbn [list_items list_shape]. rewrite map_app.
    cbn [map item_token op_token]. apply GL_cm; assumption.
Qed.

(** * Options inside a sentence read as -true and are listed in order *)
Lemma as_true_leaf p : as_true (leaf_expr p) = leaf_expr (match p with LGlobal _ => LTest TTrue | _ => p end).
Proof. destruct p; reflexivity. Qed.

Lemma grammar_as_true :
  (forall ts e, GAtom ts e -> GAtom (map detrue ts) (as_true e)) /\
  (forall ts e, GAnd ts e -> GAnd (map detrue ts) (as_true e)) /\
  (forall ts e, GOr ts e -> GOr (map detrue ts) (as_true e)) /\
  (forall ts e, GList ts e -> GList (map detrue ts) (as_true e)).
Proof.
  apply G_mutind; intros; cbn [as_true]; rewrite ?map_app; cbn [map detrue].
  - rewrite as_true_leaf. destruct p; cbn [detrue]; apply GA_prim.
  - apply GA_not. assumption.
  - rewrite map_app. cbn [map detrue]. apply GA_par. assumption.
  - apply GN_one. assumption.
  - apply GN_exp; assumption.
  - apply GN_imp; assumption.
  - apply GO_one. assumption.
  - apply GO_or; assumption.
  - apply GL_one. assumption.
  - apply GL_cm; assumption.
Qed.

Lemma globals_of_app a b : globals_of (a ++ b) = globals_of a ++ globals_of b.
Proof.
  induction a as [|t a IH]; [reflexivity|].
  destruct t as [| | | | | |[t|x|g|]]; cbn [app globals_of]; rewrite ?IH; reflexivity.
Qed.

Lemma grammar_options :
  (forall ts e, GAtom ts e -> globals_of ts = options_in e) /\
  (forall ts e, GAnd ts e -> globals_of ts = options_in e) /\
  (forall ts e, GOr ts e -> globals_of ts = options_in e) /\
  (forall ts e, GList ts e -> globals_of ts = options_in e).
Proof.
  apply G_mutind; intros; cbn [options_in]; rewrite ?globals_of_app; cbn [globals_of];
    rewrite ?globals_of_app; cbn [globals_of]; rewrite ?app_nil_r; try congruence.
  destruct p; reflexivity.
Qed.

(** * The first word of an expression *)
Definition head_kind (it : item) : Prop :=
  match it with IPrim _ _ _ | IOp ONot | IOp OLParen => True | _ => False end.
Definition has_head (its : list item) : Prop := exists it r, its = it :: r /\ head_kind it.
Lemma has_head_app a b : has_head a -> has_head (a ++ b).
Proof. intros [it [r [-> H]]]. exists it, (r ++ b). split; [reflexivity|exact H]. Qed.

Lemma items_head :
  (forall a, has_head (atom_items a)) /\ (forall a, has_head (and_items a)) /\
  (forall o, has_head (or_items o)) /\ (forall e, has_head (list_items e)).
Proof.
  apply written_mutind.
  - intros ws gaps l. exists (IPrim ws gaps l), []. split; [reflexivity|exact I].
  - intros a _. eexists; eexists. split; [reflexivity|exact I].
  - intros e _. eexists; eexists. split; [reflexivity|exact I].
  - intros a IH. exact IH.
  - intros l IH sp r _. cbn [and_items]. apply has_head_app. exact IH.
  - intros a IH. exact IH.
  - intros l IH sp r _. cbn [or_items]. apply has_head_app. exact IH.
  - intros o IH. exact IH.
  - intros l IH r _. cbn [list_items]. apply has_head_app. exact IH.
Qed.

(** * The leading run *)
Definition plain_head (ts : list token) : Prop :=
  match ts with KPrim (LGlobal _) :: _ | KAnd :: _ => False | _ => True end.
Lemma leading_plain f ts : plain_head ts -> leading_toks f ts = ([], ts).
Proof.
  destruct ts as [|[| | | | | |[t|a|g|]] r]; cbn; try reflexivity; intros [].
Qed.

Fixpoint ands_ok (lead : list lead_entry) (more : bool) : Prop :=
  match lead with
  | [] => True
  | l :: lead' =>
      match lead' with [] => more = true \/ le_and l = AndImplicit | _ => ands_ok lead' more end
  end.

Lemma rev_last_ands lead :
  match rev lead with l :: _ => le_and l = AndImplicit | [] => True end -> ands_ok lead false.
Proof.
  induction lead as [|x xs IH]; [intros _; exact I|].
  cbn [rev ands_ok]. destruct xs as [|y ys].
  - cbn. intros H. right. exact H.
  - intros H. apply IH. cbn [rev] in *.
    destruct (rev ys ++ [y]) as [|z zs] eqn:E; [destruct (rev ys); discriminate|].
    cbn [app] in H. exact H.
Qed.
Lemma ands_ok_more lead : ands_ok lead true.
Proof.
  induction lead as [|x xs IH]; [exact I|]. cbn [ands_ok]. destruct xs; [left; reflexivity|exact IH].
Qed.

Lemma lead_toks : forall lead rest f,
  plain_head rest -> ands_ok lead (negb (match rest with [] => true | _ => false end)) ->
  leading_toks f (itoks (List.concat (map lead_items lead)) ++ rest) = (map le_opt lead, rest).
Proof.
  induction lead as [|l lead' IH]; intros rest f Hp Ha.
  - cbn. apply leading_plain. exact Hp.
  - cbn [map List.concat]. unfold itoks in *. rewrite map_app, <- app_assoc.
    unfold lead_items at 1. cbn [app map item_token leading_toks].
    assert (Ha' : ands_ok lead' (negb match rest with [] => true | _ => false end)).
    { cbn [ands_ok] in Ha. destruct lead'; [exact I|exact Ha]. }

    destruct (le_and l) eqn:E; cbn [and_words map app].
    + rewrite (IH rest true Hp Ha'). reflexivity.
    + assert (Hne : exists t ts, map item_token (List.concat (map lead_items lead')) ++ rest = t :: ts).
      { destruct lead' as [|l2 lead''].
        - cbn [ands_ok] in Ha. destruct rest as [|t ts]; [|cbn; eauto].
          cbn in Ha. destruct Ha as [Ha|Ha]; [discriminate|congruence].
        - cbn. eauto. }
      destruct Hne as [t [ts Hne]]. cbn [item_token op_token]. rewrite Hne.
      change (leading_toks true (KAnd :: t :: ts)) with (leading_toks false (t :: ts)). rewrite <- Hne.
      rewrite (IH rest false Hp Ha'). reflexivity.
    + assert (Hne : exists t ts, map item_token (List.concat (map lead_items lead')) ++ rest = t :: ts).
      { destruct lead' as [|l2 lead''].
        - cbn [ands_ok] in Ha. destruct rest as [|t ts]; [|cbn; eauto].
          cbn in Ha. destruct Ha as [Ha|Ha]; [discriminate|congruence].
        - cbn. eauto. }
      destruct Hne as [t [ts Hne]]. cbn [item_token op_token]. rewrite Hne.
      change (leading_toks true (KAnd :: t :: ts)) with (leading_toks false (t :: ts)). rewrite <- Hne.
      rewrite (IH rest false Hp Ha'). reflexivity.
Qed.

(** * The workhorse: parse of a written input *)
Lemma map_snd_combine {A B C} (f : B -> C) (xs : list A) (ys : list B) :
  List.length xs = List.length ys -> map (fun x => f (snd x)) (combine xs ys) = map f ys.
Proof.
  revert ys. induction xs as [|x xs IH]; intros [|y ys] H; cbn in *; try discriminate; [reflexivity|].
  f_equal. apply IH. lia.
Qed.

Lemma written_tokens w bs tr : List.length bs = List.length (written_items w) ->
  tokens_of (written_sentence w bs tr) = itoks (written_items w).
Proof. intros H. unfold tokens_of, written_sentence. cbn [body]. apply map_snd_combine. exact H. Qed.

Lemma expr_tokens_plain e : starts_with_option (list_items e) = false -> plain_head (itoks (list_items e)).
Proof.
  intros H. destruct items_head as (_ & _ & _ & Hh). destruct (Hh e) as [it [r [E Hk]]].
  rewrite E in *. destruct it as [ws gaps [t|a|g|]|o]; cbn in *; try exact I; try discriminate H.
  destruct o; cbn in *; try contradiction; exact I.
Qed.

Lemma result_of_written w : written_ok w ->
  result_of (itoks (written_items w)) = ParseOk (opts_for (written_opts w)) (written_tree w).
Proof.
  intros Hok. unfold result_of, written_items, written_opts, written_tree, written_ok in *.
  unfold itoks. rewrite map_app. fold (itoks (List.concat (map lead_items (w_lead w)))).
  destruct (w_expr w) as [e|].
  - fold (itoks (list_items e)).
    destruct items_head as (_ & _ & _ & Hh). destruct (Hh e) as [it [r [E _]]].
    rewrite (lead_toks (w_lead w) (itoks (list_items e)) false (expr_tokens_plain e Hok)).
    + assert (Hrun : run_tokens (itoks (list_items e)) = itoks (list_items e)).
      { rewrite E. reflexivity. }
      rewrite Hrun.
      destruct items_grammar as (_ & _ & _ & HG).
      destruct grammar_as_true as (_ & _ & _ & HT).
      destruct grammar_options as (_ & _ & _ & HO).
      pose proof (HG e) as G.
      rewrite (proj2 (parser_iff _ _) (HT _ _ G)). rewrite (HO _ _ G). reflexivity.
    + rewrite E. cbn. apply ands_ok_more.
  - cbn [map]. rewrite app_nil_r.
    pose proof (lead_toks (w_lead w) [] false I (rev_last_ands _ Hok)) as H.
    rewrite app_nil_r in H. rewrite H. cbn. rewrite app_nil_r. reflexivity.
Qed.

Theorem parse_written w bs tr :
  written_ok w -> List.length bs = List.length (written_items w) ->
  wf_sentence (written_sentence w bs tr) ->
  parse (render (written_sentence w bs tr)) = ParseOk (opts_for (written_opts w)) (written_tree w).
Proof.
  intros Hok Hlen Hwf. rewrite (parse_render _ Hwf). rewrite (written_tokens w bs tr Hlen).
  apply result_of_written. exact Hok.
Qed.

(** what is returned depends on the abstract form only *)
Lemma abstract_determines w1 w2 : abstract w1 = abstract w2 ->
  written_opts w1 = written_opts w2 /\ written_tree w1 = written_tree w2.
Proof.
  unfold abstract, written_opts, written_tree. intros H. injection H as H1 H2. rewrite H1.
  destruct (w_expr w1) as [e1|], (w_expr w2) as [e2|]; cbn in H2; try discriminate.
  - injection H2 as ->. split; reflexivity.
  - split; reflexivity.
Qed.

Theorem spelling_irrelevant w1 bs1 tr1 w2 bs2 tr2 :
  abstract w1 = abstract w2 ->
  written_ok w1 -> List.length bs1 = List.length (written_items w1) ->
  wf_sentence (written_sentence w1 bs1 tr1) ->
  written_ok w2 -> List.length bs2 = List.length (written_items w2) ->
  wf_sentence (written_sentence w2 bs2 tr2) ->
  parse (render (written_sentence w1 bs1 tr1)) = parse (render (written_sentence w2 bs2 tr2)).
Proof.
  intros Ha H1 L1 W1 H2 L2 W2. rewrite (parse_written _ _ _ H1 L1 W1), (parse_written _ _ _ H2 L2 W2).
  destruct (abstract_determines w1 w2 Ha) as [-> ->]. reflexivity.
Qed.
