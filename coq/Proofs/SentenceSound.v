(** Soundness of the lexer, of the leading-option pass and of [parse] with respect to the
    written sentences of Spec/Surface.v: every accepted input is the rendering of a sentence
    whose items are in the vocabulary (or contains a stray quote, Spec/Accepted.v).
    (The converse is Proofs/LexSentence.v, Proofs/WordLevel.v.) *)
From Coq Require Import List String NArith Bool Arith Lia ZifyBool ZifyN.
From FP Require Import Model.Chars Model.Winnow Model.Ast Model.Args Model.Lex Model.Parse.
From FP Require Import Spec.Decimal Spec.PermWord Spec.Vocabulary Spec.Surface Spec.Accepted.
From FP Require Import Proofs.LexArgs Proofs.LexPrimary Proofs.ArgSound Proofs.TokenSound.
Import ListNotations.
Local Open Scope N_scope.

Definition items_ok (b : list (str * item)) : Prop := Forall (fun x => item_ok (snd x)) b.
Definition toks (b : list (str * item)) : list token := map (fun x => item_token (snd x)) b.
Fixpoint last_item (prev : option item) (b : list (str * item)) : option item :=
  match b with [] => prev | (_, it) :: r => last_item (Some it) r end.

Lemma layout_lex_app : forall b1 prev b2,
  layout_lex prev b1 -> layout_lex (last_item prev b1) b2 -> layout_lex prev (b1 ++ b2).
Proof.
  induction b1 as [|[sp it] b1 IH]; intros prev b2 H1 H2; [exact H2|].
  cbn [app layout_lex last_item] in *. destruct H1 as (Hb & Ht & Hl).
  split; [exact Hb|]. split; [exact Ht|]. apply IH; assumption.
Qed.
Lemma render_body_app : forall b1 b2 tr, render_body (b1 ++ b2) tr = render_body b1 (render_body b2 tr).
Proof.
  induction b1 as [|[sp it] b1 IH]; intros b2 tr; [reflexivity|].
  cbn [app render_body]. rewrite IH. reflexivity.
Qed.
Lemma last_item_app : forall b1 prev b2, last_item prev (b1 ++ b2) = last_item (last_item prev b1) b2.
Proof. induction b1 as [|[sp it] b1 IH]; intros prev b2; [reflexivity|]. cbn [app last_item]. apply IH. Qed.

(** * What stands at [i] may follow [prev] without a blank *)
Definition head_cond (prev : option item) (i : str) : Prop :=
  i = [] \/ match prev with
            | None => True
            | Some (IOp o) => single_char o = true
            | Some (IPrim _ _ _) => at_word_end i
            end.

Lemma item_text_head it : item_ok it ->
  (exists o, it = IOp o /\ single_char o = true) \/ exists t, item_text it = 45 :: t.
Proof.
  destruct it as [ws gaps l|o]; intros H.
  - right. destruct H as [Hp _]. exact (primary_head ws l gaps Hp).
  - destruct o; try (left; eexists; split; reflexivity); right; eexists; reflexivity.
Qed.
Lemma item_text_nonempty it x : item_ok it -> item_text it ++ x <> [].
Proof.
  intros H. destruct (item_text_head it H) as [(o & -> & Ho)|(t & ->)]; [|discriminate].
  destruct o; discriminate.
Qed.
Lemma head_abuts p it x : item_ok it -> head_cond (Some p) (item_text it ++ x) -> abuts_ok p it.
Proof.
  intros Hit [He|H]; [exfalso; exact (item_text_nonempty it x Hit He)|].
  destruct p as [ws gaps l|o]; [|exact H]. cbn [abuts_ok].
  destruct (item_text_head it Hit) as [(o & -> & Ho)|(t & Ht)]; [exists o; split; [reflexivity|exact Ho]|].
  exfalso. rewrite Ht in H. cbn [app at_word_end] in H. unfold Blank, lparen, rparen, bang, comma in H. lia.
Qed.

(** * One token with the blanks after it *)
Definition tok_step : sparser token := terminated parse_token multispace0.

Lemma gap_blanks g : gap g -> blanks g.
Proof. intros [_ H]. exact H. Qed.

Lemma token_item_sound i t r : parse_token i = (Ok t, r) ->
  stray_quote i \/
  exists it g, item_ok it /\ item_token it = t /\ i = item_text it ++ g ++ r /\ blanks g
               /\ (g = [] -> head_cond (Some it) r).
Proof.
  intros H.
  assert ((exists l, t = KPrim l) \/ (forall l, t <> KPrim l)) as [[l ->]|Hn].
  { destruct t; try (right; intros l; discriminate). left. eexists. reflexivity. }
  - apply token_primary_sound in H. destruct H as [Hw [(ws & gaps & Hp & Hg & ->)|Hs]]; [|left; exact Hs].
    right. exists (IPrim ws gaps l), []. split; [split; assumption|]. split; [reflexivity|].
    split; [reflexivity|]. split; [constructor|]. intros _. right. exact Hw.
  - destruct (token_operator_sound i t r H Hn) as (o & g & -> & -> & Hf).
    right. exists (IOp o), g. split; [exact I|]. split; [reflexivity|]. split; [reflexivity|].
    unfold op_follow in Hf. destruct (single_char o) eqn:Es.
    + subst g. split; [constructor|]. intros _. right. exact Es.
    + destruct Hf as [[-> ->]|[Hg _]].
      * split; [constructor|]. intros _. left. reflexivity.
      * split; [exact (gap_blanks g Hg)|]. intros ->. exfalso. destruct Hg as [Hne _]. apply Hne. reflexivity.
Qed.

Lemma blanks_app a b : blanks a -> blanks b -> blanks (a ++ b).
Proof. intros Ha Hb. apply Forall_app. split; assumption. Qed.

Lemma tok_step_sound i t r : tok_step i = (Ok t, r) ->
  stray_quote i \/
  exists it b, item_ok it /\ item_token it = t /\ i = item_text it ++ b ++ r /\ blanks b
               /\ (b = [] -> head_cond (Some it) r).
Proof.
  intros H. apply terminated_inv in H. destruct H as (r1 & b0 & H & Hb).
  apply multispace0_inv in Hb. destruct Hb as (-> & Hb & _).
  apply token_item_sound in H. destruct H as [Hs|(it & g & Hit & Ht & -> & Hg & Hh)]; [left; exact Hs|].
  right. exists it, (g ++ b0). split; [exact Hit|]. split; [exact Ht|].
  split; [rewrite <- app_assoc; reflexivity|]. split; [exact (blanks_app _ _ Hg Hb)|].
  intros E. apply app_eq_nil in E. destruct E as [-> ->]. exact (Hh eq_refl).
Qed.

(** * The loop *)
(** [body] and [tr] write [sp ++ i], continue after [prev], and denote the tokens [ts] *)
Definition writes (prev : option item) (sp i : str) (ts : list token) (body : list (str * item)) (tr : str) : Prop :=
  items_ok body /\ layout_lex prev body /\ blanks tr /\ render_body body tr = sp ++ i /\ toks body = ts.
Definition written_from (i : str) (ts : list token) : Prop :=
  forall prev sp, blanks sp -> (sp = [] -> head_cond prev i) ->
  stray_quote i \/ exists body tr, writes prev sp i ts body tr.

Lemma step_glue i t r1 ts : tok_step i = (Ok t, r1) -> written_from r1 ts -> written_from i (t :: ts).
Proof.
  intros H Hrec prev sp Hsp Hhead.
  apply tok_step_sound in H. destruct H as [Hs|(it & b & Hit & Ht & -> & Hb & Hh)]; [left; exact Hs|].
  destruct (Hrec (Some it) b Hb Hh) as [Hs|(body & tr & Hok & Hl & Htr & Hr & Hts)].
  - left. rewrite app_assoc. apply stray_quote_prefix. exact Hs.
  - right. exists ((sp, it) :: body), tr. split; [constructor; assumption|]. split.
    + cbn [layout_lex]. split; [exact Hsp|]. split; [|exact Hl].
      intros E. destruct prev as [p|]; [|exact I]. exact (head_abuts p it (b ++ r1) Hit (Hhead E)).
    + split; [exact Htr|]. split.
      * cbn [render_body]. rewrite Hr. reflexivity.
      * cbn [toks map snd]. fold (toks body). rewrite Ht, Hts. reflexivity.
Qed.

Lemma loop_sound : forall fuel i ts u r,
  rtill_fuel slen fuel tok_step eof i = (Ok (ts, u), r) -> r = [] /\ written_from i ts.
Proof.
  induction fuel as [|n IH]; intros i ts u r H; cbn [rtill_fuel] in H; [discriminate H|].
  destruct (eof i) as [[x|c|c|s] r0] eqn:E0; try discriminate H.
  - unfold eof in E0. destruct i as [|c i]; [|discriminate E0]. inversion E0; subst. inversion H; subst.
    split; [reflexivity|]. intros prev sp Hsp _. right. exists [], sp.
    split; [constructor|]. split; [exact I|]. split; [exact Hsp|]. split; [|reflexivity].
    cbn [render_body]. rewrite app_nil_r. reflexivity.
  - destruct (tok_step i) as [[t|c1|c1|s] r1] eqn:E1; try discriminate H.
    destruct (Nat.leb (slen i) (slen r1)); [discriminate H|].
    destruct (rtill_fuel slen n tok_step eof r1) as [[[l b]|c2|c2|s] r2] eqn:E2; try discriminate H.
    inversion H; subst. destruct (IH _ _ _ _ E2) as [Hr Hw]. split; [exact Hr|].
    exact (step_glue i t r1 l E1 Hw).
Qed.

Theorem lex_written i ts r : lex i = (Ok ts, r) -> r = [] /\ written_from i ts.
Proof.
  unfold lex. intros H. apply pmap_inv in H. destruct H as ([l u] & H & ->). cbn [fst].
  apply preceded_inv in H. destruct H as (b0 & i1 & Hb & H).
  apply multispace0_inv in Hb. destruct Hb as (-> & Hb & _).
  unfold repeat_till1 in H. fold tok_step in H.
  destruct (tok_step i1) as [[t|c1|c1|s] r1] eqn:E1; try discriminate H.
  unfold repeat_till0 in H.
  destruct (rtill_fuel slen (S (slen r1)) tok_step eof r1) as [[[l' b]|c2|c2|s] r2] eqn:E2; try discriminate H.
  inversion H; subst. destruct (loop_sound _ _ _ _ _ E2) as [Hr Hw]. split; [exact Hr|].
  pose proof (step_glue i1 t r1 l' E1 Hw) as Hw1.
  intros prev sp Hsp Hhead.
  destruct (Hw1 prev (sp ++ b0) (blanks_app _ _ Hsp Hb)) as [Hs|(body & tr & Hok & Hl & Htr & Hrd & Hts)].
  - intros E. apply app_eq_nil in E. destruct E as [-> ->]. exact (Hhead eq_refl).
  - left. apply stray_quote_prefix. exact Hs.
  - right. exists body, tr. split; [exact Hok|]. split; [exact Hl|]. split; [exact Htr|].
    split; [rewrite Hrd, <- app_assoc; reflexivity|exact Hts].
Qed.

Theorem lex_sound i ts r : lex i = (Ok ts, r) ->
  r = [] /\ (stray_quote i \/ exists st, readable_sentence st /\ render st = i /\ tokens_of st = ts).
Proof.
  intros H. apply lex_written in H. destruct H as [Hr Hw]. split; [exact Hr|].
  destruct (Hw None [] (Forall_nil _) (fun _ => or_intror I)) as [Hs|(body & tr & Hok & Hl & Htr & Hrd & Hts)];
    [left; exact Hs|].
  right. exists {| body := body; trail := tr |}. split; [split; [exact Hok|split; assumption]|].
  split; [exact Hrd|exact Hts].
Qed.

(** * The leading run of options *)
Lemma leading_and_inv i x r : leading_and i = (Ok x, r) ->
  r = i \/ exists o g, (o = OAndAnd \/ o = OAndA) /\ i = op_text o ++ g ++ r /\ gap g.
Proof.
  unfold leading_and, opt. intros H.
  destruct (terminated (alt [literal "-and"; literal "-a"]) (pair_ multispace1 (peek any)) i)
    as [[a|c|c|s] r0] eqn:E; try discriminate H.
  - inversion H; subst. right. apply terminated_inv in E. destruct E as (r1 & y & E1 & E2).
    apply pair_inv in E2. destruct E2 as (r2 & Hg & Hp). apply multispace1_inv in Hg.
    destruct Hg as (-> & Hg & _). unfold peek in Hp. inversion Hp; subst r2.
    apply alt_inv in E1. destruct E1 as (p & Hin & Hp'). cbn [In] in Hin.
    destruct Hin as [<-|[<-|[]]]; apply literal_inv in Hp'.
    + exists OAndAnd, (fst y). split; [left; reflexivity|]. split; [exact Hp'|exact Hg].
    + exists OAndA, (fst y). split; [right; reflexivity|]. split; [exact Hp'|exact Hg].
  - inversion H; subst. left. reflexivity.
Qed.

Definition opt_step : sparser gopt :=
  terminated (terminated parse_global word_end) (pair_ multispace0 leading_and).

(** an option and, possibly, the AND written after it: [sp ++ i] continues after [prev] with
    [body], and what is left is [sp' ++ rest] *)
Definition leads (prev : option item) (sp i : str) (body : list (str * item)) (sp' rest : str) : Prop :=
  items_ok body /\ layout_lex prev body /\ blanks sp' /\ sp ++ i = render_body body (sp' ++ rest)
  /\ (sp' = [] -> head_cond (last_item prev body) rest).

Lemma opt_step_sound i g r : opt_step i = (Ok g, r) ->
  forall prev sp, blanks sp -> (sp = [] -> head_cond prev i) ->
  stray_quote i \/ exists body sp', leads prev sp i body sp' r.
Proof.
  intros H prev sp Hsp Hhead. unfold opt_step in H.
  apply terminated_inv in H. destruct H as (r0 & x & H & Hrest).
  apply terminated_inv in H. destruct H as (r0' & u & Hg & Hw).
  apply word_end_inv in Hw. destruct Hw as [-> Hw].
  apply pair_inv in Hrest. destruct Hrest as (r1 & Hb & Hand).
  apply multispace0_inv in Hb. destruct Hb as (-> & Hb & _). set (b := fst x) in *.
  apply parse_global_sound in Hg. destruct Hg as [(ws & gaps & Hp & Hgaps & ->)|Hs]; [|left; exact Hs].
  right. set (it := IPrim ws gaps (LGlobal g)).
  assert (item_ok it) as Hit by (split; assumption).
  assert (blanks sp /\ (sp = [] -> match prev with None => True | Some p => abuts_ok p it end)) as Hfirst.
  { split; [exact Hsp|]. intros E. destruct prev as [p|]; [|exact I].
    exact (head_abuts p it (b ++ r1) Hit (Hhead E)). }
  apply leading_and_inv in Hand. destruct Hand as [->|(o & g' & Ho & -> & Hg')].
  - exists [(sp, it)], b. split; [constructor; [exact Hit|constructor]|]. split.
    + cbn [layout_lex]. destruct Hfirst as [H1 H2]. split; [exact H1|]. split; [exact H2|exact I].
    + split; [exact Hb|]. split; [cbn [render_body item_text it]; reflexivity|].
      intros E. cbn [last_item]. right. unfold it. rewrite E in Hw. exact Hw.
  - exists [(sp, it); (b, IOp o)], g'. split; [constructor; [exact Hit|constructor; [exact I|constructor]]|].
    split.
    + cbn [layout_lex]. destruct Hfirst as [H1 H2]. split; [exact H1|]. split; [exact H2|].
      split; [exact Hb|]. split; [|exact I]. intros E. exfalso. rewrite E in Hw.
      destruct Ho as [-> | ->]; cbn [app op_text chars at_word_end] in Hw;
        unfold Blank, lparen, rparen, bang, comma in Hw; cbn in Hw; lia.
    + split; [exact (gap_blanks g' Hg')|]. split; [cbn [render_body item_text it]; reflexivity|].
      intros E. exfalso. destruct Hg' as [Hne _]. exact (Hne E).
Qed.

Lemma render_body_suffix : forall b x, exists pre, render_body b x = pre ++ x.
Proof.
  induction b as [|[sp it] b IH]; intros x; [exists []; reflexivity|].
  destruct (IH x) as (pre & E). exists (sp ++ item_text it ++ pre).
  cbn [render_body]. rewrite E, <- !app_assoc. reflexivity.
Qed.

Lemma lead_sound : forall fuel i gs rest,
  repeat_fuel slen fuel opt_step i = (Ok gs, rest) ->
  forall prev sp, blanks sp -> (sp = [] -> head_cond prev i) ->
  stray_quote (sp ++ i) \/ exists body sp', leads prev sp i body sp' rest.
Proof.
  induction fuel as [|n IH]; intros i gs rest H prev sp Hsp Hhead; cbn [repeat_fuel] in H; [discriminate H|].
  destruct (opt_step i) as [[g|c|c|s] r1] eqn:E1; try discriminate H.
  - destruct (Nat.leb (slen i) (slen r1)); [discriminate H|].
    destruct (repeat_fuel slen n opt_step r1) as [[l|c|c|s] r2] eqn:E2; try discriminate H.
    inversion H; subst.
    destruct (opt_step_sound i g r1 E1 prev sp Hsp Hhead) as [Hs|(b1 & sp1 & Hok1 & Hl1 & Hsp1 & Hr1 & Hh1)];
      [left; apply stray_quote_prefix; exact Hs|].
    destruct (IH r1 l rest E2 (last_item prev b1) sp1 Hsp1 Hh1) as [Hs|(b2 & sp2 & Hok2 & Hl2 & Hsp2 & Hr2 & Hh2)].
    + left. rewrite Hr1. destruct (render_body_suffix b1 (sp1 ++ r1)) as (pre & ->).
      apply stray_quote_prefix. exact Hs.
    + right. exists (b1 ++ b2), sp2. split; [apply Forall_app; split; assumption|].
      split; [apply layout_lex_app; assumption|]. split; [exact Hsp2|].
      split; [rewrite render_body_app, <- Hr2; exact Hr1|]. rewrite last_item_app. exact Hh2.
  - inversion H; subst. right. exists [], sp. split; [constructor|]. split; [exact I|].
    split; [exact Hsp|]. split; [reflexivity|]. exact Hhead.
Qed.

Theorem leading_options_sound i gs rest : leading_options i = (Ok gs, rest) ->
  stray_quote i \/ exists body sp', leads None [] i body sp' rest.
Proof.
  unfold leading_options. intros H. apply preceded_inv in H. destruct H as (b0 & i1 & Hb & H).
  apply multispace0_inv in Hb. destruct Hb as (-> & Hb & _).
  unfold repeat0 in H. fold opt_step in H.
  destruct (lead_sound _ _ _ _ H None b0 Hb (fun _ => or_intror I)) as [Hs|(body & sp' & Hl)].
  - left. exact Hs.
  - right. exists body, sp'. exact Hl.
Qed.

(** * Whole inputs *)
Theorem parse_sound s o e : parse s = ParseOk o e ->
  stray_quote s \/ exists st, readable_sentence st /\ render st = s.
Proof.
  unfold parse. intros H.
  destruct (leading_options s) as [[gs|c|c|m] rest] eqn:EL; try discriminate H.
  destruct (update_all default_options gs) as [o1|]; [|discriminate H].
  apply leading_options_sound in EL.
  destruct EL as [Hs|(b1 & sp1 & Hok1 & Hl1 & Hsp1 & Hr1 & Hh1)]; [left; exact Hs|].
  cbn [app] in Hr1.
  destruct rest as [|c rest].
  - right. exists {| body := b1; trail := sp1 |}. rewrite app_nil_r in Hr1.
    split; [split; [exact Hok1|split; assumption]|]. symmetry. exact Hr1.
  - destruct (lex (c :: rest)) as [[ts|c1|c1|m] r'] eqn:ELex; try discriminate H.
    clear H. apply lex_written in ELex. destruct ELex as [_ Hw].
    destruct (Hw (last_item None b1) sp1 Hsp1 Hh1) as [Hs|(b2 & tr & Hok2 & Hl2 & Htr & Hr2 & _)].
    + left. rewrite Hr1. destruct (render_body_suffix b1 (sp1 ++ c :: rest)) as (pre & ->).
      rewrite app_assoc. apply stray_quote_prefix. exact Hs.
    + right. exists {| body := b1 ++ b2; trail := tr |}. split.
      * split; [apply Forall_app; split; assumption|]. split; [apply layout_lex_app; assumption|exact Htr].
      * unfold render. cbn [body trail]. rewrite render_body_app, Hr2. symmetry. exact Hr1.
Qed.

(** every sentence that is well-formed in the sense of Spec/Surface.v is readable *)
Lemma tight_abuts p it : tight_ok p it -> abuts_ok p it.
Proof.
  destruct p as [ws gaps l|o]; cbn [tight_ok abuts_ok]; [|exact (fun H => H)].
  intros [->|[_ (o & -> & Ho)]]; [exists ORParen; split; reflexivity|exists o; split; [reflexivity|exact Ho]].
Qed.
Lemma layout_ok_lex : forall b prev, layout_ok prev b -> layout_lex prev b.
Proof.
  induction b as [|[sp it] b IH]; intros prev H; [exact I|]. cbn [layout_ok layout_lex] in *.
  destruct H as (Hb & Ht & Hl). split; [exact Hb|]. split; [|apply IH; exact Hl].
  intros E. specialize (Ht E). destruct prev as [p|]; [exact (tight_abuts p it Ht)|exact I].
Qed.
Theorem wf_readable st : wf_sentence st -> readable_sentence st.
Proof. intros (H1 & H2 & H3). split; [exact H1|]. split; [apply layout_ok_lex; exact H2|exact H3]. Qed.

(** * Inputs without a stray quote *)
Corollary token_primary_clean i l r :
  ~ stray_quote i -> parse_token i = (Ok (KPrim l), r) ->
  exists ws gaps, Primary ws l /\ gaps_for ws gaps /\ i = weave ws gaps ++ r /\ at_word_end r.
Proof.
  intros Hn H. apply token_primary_sound in H. destruct H as [Hw [(ws & gaps & Hp & Hg & E)|Hs]].
  - exists ws, gaps. split; [exact Hp|]. split; [exact Hg|]. split; [exact E|exact Hw].
  - exfalso. exact (Hn Hs).
Qed.
Corollary parse_clean s o e :
  ~ stray_quote s -> parse s = ParseOk o e -> exists st, readable_sentence st /\ render st = s.
Proof. intros Hn H. destruct (parse_sound s o e H) as [Hs|Hst]; [exfalso; exact (Hn Hs)|exact Hst]. Qed.

(** no quote character at all: certainly no stray quote *)
Lemma no_quote_clean s : (forall c, In c s -> ~ Quote c) -> ~ stray_quote s.
Proof.
  intros Hn (pre & g & q & t & -> & _ & Hq & _). apply (Hn q); [|exact Hq].
  apply in_or_app. right. apply in_or_app. right. left. reflexivity.
Qed.
