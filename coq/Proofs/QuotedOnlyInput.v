(** C18, last sentence, literally: EVERY back-quoted segment of an error message occurs in the
    input.  The message is "... `W` of <kind> `K`<E>" or "... Unexpected token: `W`" where W is
    a piece of the input, K is a keyword that stands in the input (it was matched where the
    failing primary starts) and E, the explanation, contains no back-quote at all.

    Method: a syntax-directed invariant over the parsers, as in Proofs/ErrorCtx.v but stronger:
    [gctx p]: every context on every error of [p] is a non-group label or an [Expected d] whose
    explanation is free of back-quotes; [kctx p]: every Cut of a primary parser [p] at input [i]
    is [c0 ++ [Label K]] with [c0] good and the keyword [K] a prefix of [i]. *)
From Coq Require Import List String NArith Bool Arith Lia.
From FP Require Import Model.Chars Model.Winnow Model.Ast Model.Args Model.Perm Model.Format Model.Lex
  Model.Prec Model.Parse.
From FP Require Import Spec.Messages Spec.Quoting Proofs.WinnowFacts Proofs.WinnowTotal Proofs.Suffix
  Proofs.Totality Proofs.Dispatch Proofs.TokenView Proofs.FirstError Proofs.ErrorSane Proofs.ErrorCtx.
Import ListNotations.
Local Open Scope N_scope.

(** * back-quote-free texts *)
Definition nobq (t : str) : bool := forallb (fun c => negb (c =? 96)) t.

Lemma explain_table_unquoted :
  forallb (fun d => nobq (chars (explain d))) explain_keys = true.
Proof. vm_compute. reflexivity. Qed.

Lemma nobq_app a b : nobq a = true -> nobq b = true -> nobq (a ++ b) = true.
Proof. unfold nobq. intros Ha Hb. rewrite forallb_app, Ha, Hb. reflexivity. Qed.

(** * good contexts *)
Definition good_b (x : ctx) : bool :=
  match x with
  | Label s => benign_b (Label s)
  | Expected d => nobq (chars (explain d))
  end.
Definition good (x : ctx) : Prop := good_b x = true.

Lemma good_benign x : good x -> benign x.
Proof. destruct x as [s|d]; intros H; [exact H|reflexivity]. Qed.

(** [gctx p]: every context on every error of [p] is good *)
Definition gctx {A} (p : sp A) : Prop :=
  forall i, match p i with (Back c, _) | (Cut c, _) => Forall good c | _ => True end.

Lemma gctx_pmap {A B} (f : A -> B) (p : sp A) : gctx p -> gctx (pmap f p).
Proof. intros H i. unfold pmap. specialize (H i). destruct (p i) as [[a|x|x|s] r]; exact H. Qed.
Lemma gctx_value {A B} (b : B) (p : sp A) : gctx p -> gctx (value b p).
Proof. apply gctx_pmap. Qed.
Lemma gctx_bind {A B} (p : sp A) (f : A -> sp B) : gctx p -> (forall a, gctx (f a)) -> gctx (bind p f).
Proof.
  intros Hp Hf i. unfold bind. specialize (Hp i). destruct (p i) as [[a|x|x|s] r]; try exact Hp.
  exact (Hf a r).
Qed.
Lemma gctx_preceded {A B} (p : sp A) (q : sp B) : gctx p -> gctx q -> gctx (preceded p q).
Proof. intros Hp Hq. apply gctx_bind; [exact Hp|]. intros _. exact Hq. Qed.
Lemma gctx_terminated {A B} (p : sp A) (q : sp B) : gctx p -> gctx q -> gctx (terminated p q).
Proof. intros Hp Hq. apply gctx_bind; [exact Hp|]. intros a. apply gctx_pmap. exact Hq. Qed.
Lemma gctx_pair {A B} (p : sp A) (q : sp B) : gctx p -> gctx q -> gctx (pair_ p q).
Proof. intros Hp Hq. apply gctx_bind; [exact Hp|]. intros a. apply gctx_pmap. exact Hq. Qed.
Lemma gctx_delimited {A B C} (p : sp A) (q : sp B) (r : sp C) :
  gctx p -> gctx q -> gctx r -> gctx (delimited p q r).
Proof. intros Hp Hq Hr. apply gctx_preceded; [exact Hp|]. apply gctx_terminated; assumption. Qed.
Lemma gctx_separated_pair {A B C} (p : sp A) (s : sp B) (q : sp C) :
  gctx p -> gctx s -> gctx q -> gctx (separated_pair p s q).
Proof.
  intros Hp Hs Hq. apply gctx_bind; [exact Hp|]. intros a.
  apply gctx_preceded; [exact Hs|]. apply gctx_pmap. exact Hq.
Qed.
Lemma gctx_cut_err {A} (p : sp A) : gctx p -> gctx (cut_err p).
Proof. intros H i. unfold cut_err. specialize (H i). destruct (p i) as [[a|x|x|s] r]; exact H. Qed.
Lemma gctx_context {A} k (p : sp A) : good k -> gctx p -> gctx (context k p).
Proof.
  intros Hk H i. unfold context. specialize (H i). destruct (p i) as [[a|x|x|s] r]; try exact H.
  - apply Forall_app. split; [exact H|constructor; [exact Hk|constructor]].
  - apply Forall_app. split; [exact H|constructor; [exact Hk|constructor]].
Qed.
Lemma gctx_fail {A} : gctx (@fail str A).
Proof. intros i. constructor. Qed.
Lemma gctx_peek {A} (p : sp A) : gctx p -> gctx (peek p).
Proof. intros H i. unfold peek. specialize (H i). destruct (p i) as [[a|x|x|s] r]; exact H. Qed.
Lemma gctx_opt {A} (p : sp A) : gctx p -> gctx (opt p).
Proof. intros H i. unfold opt. specialize (H i). destruct (p i) as [[a|x|x|s] r]; try exact H; exact I. Qed.
Lemma gctx_alt {A} (ps : list (sp A)) : Forall gctx ps -> gctx (alt ps).
Proof.
  induction ps as [|p ps IH]; intros HF.
  - intros i. constructor.
  - inversion HF as [|p' ps' Hp Hps]; subst. destruct ps as [|q l].
    + intros i. rewrite alt_one. exact (Hp i).
    + specialize (IH Hps). intros i. rewrite alt_cons2.
      specialize (Hp i). destruct (p i) as [[a|x|x|s] r]; try exact Hp. exact (IH i).
Qed.
Lemma gctx_try_map {A B} (p : sp A) (f : A -> option B) : gctx p -> gctx (try_map p f).
Proof.
  intros H i. unfold try_map. specialize (H i). destruct (p i) as [[a|x|x|s] r]; try exact H.
  destruct (f a) as [b|]; [exact I|constructor].
Qed.
Lemma gctx_verify {A} (p : sp A) (f : A -> bool) : gctx p -> gctx (verify p f).
Proof. apply gctx_try_map. Qed.

Lemma repeat_fuel_gctx {A} (p : sp A) (Hp : gctx p) : forall fuel i,
  match repeat_fuel slen fuel p i with (Back c, _) | (Cut c, _) => Forall good c | _ => True end.
Proof.
  induction fuel as [|fuel IH]; intros i; cbn [repeat_fuel]; [exact I|].
  pose proof (Hp i) as Hpi. destruct (p i) as [[a|x|x|s] r]; try exact I; try exact Hpi.
  destruct (Nat.leb (slen i) (slen r)); [exact I|].
  specialize (IH r). destruct (repeat_fuel slen fuel p r) as [[l|x|x|s] r']; try exact I; exact IH.
Qed.
Lemma gctx_repeat0 {A} (p : sp A) : gctx p -> gctx (repeat0 slen p).
Proof. intros Hp i. unfold repeat0. apply repeat_fuel_gctx. exact Hp. Qed.

Lemma rtill_fuel_gctx {A B} (f : sp A) (g : sp B) (Hf : gctx f) (Hg : gctx g) : forall fuel i,
  match rtill_fuel slen fuel f g i with (Back c, _) | (Cut c, _) => Forall good c | _ => True end.
Proof.
  induction fuel as [|fuel IH]; intros i; cbn [rtill_fuel]; [exact I|].
  pose proof (Hg i) as Hgi. destruct (g i) as [[b|x|x|s] r]; try exact I; try exact Hgi.
  pose proof (Hf i) as Hfi. destruct (f i) as [[a|y|y|s] r1]; try exact I; try exact Hfi.
  destruct (Nat.leb (slen i) (slen r1)); [exact I|].
  specialize (IH r1). destruct (rtill_fuel slen fuel f g r1) as [[[l b]|z|z|s] r']; try exact I; exact IH.
Qed.
Lemma gctx_repeat_till0 {A B} (f : sp A) (g : sp B) : gctx f -> gctx g -> gctx (repeat_till0 slen f g).
Proof. intros Hf Hg i. unfold repeat_till0. apply rtill_fuel_gctx; assumption. Qed.

Lemma sep_fuel_gctx {A B} (p : sp A) (s : sp B) (Hp : gctx p) (Hs : gctx s) : forall fuel i,
  match sep_fuel slen fuel p s i with (Back c, _) | (Cut c, _) => Forall good c | _ => True end.
Proof.
  induction fuel as [|fuel IH]; intros i; cbn [sep_fuel]; [exact I|].
  pose proof (Hs i) as Hsi. destruct (s i) as [[b|x|x|m] r1]; try exact I; try exact Hsi.
  destruct (Nat.leb (slen i) (slen r1)); [exact I|].
  pose proof (Hp r1) as Hpi. destruct (p r1) as [[a|y|y|m] r2]; try exact I; try exact Hpi.
  specialize (IH r2). destruct (sep_fuel slen fuel p s r2) as [[l|z|z|m] r']; try exact I; exact IH.
Qed.
Lemma gctx_separated1 {A B} (p : sp A) (s : sp B) : gctx p -> gctx s -> gctx (separated1 slen p s).
Proof.
  intros Hp Hs i. unfold separated1.
  pose proof (Hp i) as Hpi. destruct (p i) as [[a|y|y|m] r1]; try exact I; try exact Hpi.
  pose proof (sep_fuel_gctx p s Hp Hs (S (slen r1)) r1) as H.
  destruct (sep_fuel slen (S (slen r1)) p s r1) as [[l|z|z|m] r']; try exact I; exact H.
Qed.

Lemma gctx_literal s : gctx (literal s).
Proof. intros i. unfold literal. destruct (lit_ (chars s) i); [exact I|constructor]. Qed.
Lemma gctx_take_while m p : gctx (take_while m p).
Proof.
  intros i. unfold take_while. destruct (span p i) as [a b].
  destruct (Nat.leb m (List.length a)); [exact I|constructor].
Qed.
Lemma gctx_take_while_mn m n p : gctx (take_while_mn m n p).
Proof.
  intros i. unfold take_while_mn. destruct (span_max n p i) as [a b].
  destruct (Nat.leb m (List.length a)); [exact I|constructor].
Qed.
Lemma gctx_take_until0 c : gctx (take_until0 c).
Proof. intros i. unfold take_until0. destruct (until_ c i) as [[a b]|]; [exact I|constructor]. Qed.
Lemma gctx_eof : gctx (@eof N).
Proof. intros i. unfold eof. destruct i; [exact I|constructor]. Qed.
Lemma gctx_any : gctx (@any N).
Proof. intros i. unfold any. destruct i; [constructor|exact I]. Qed.
Lemma gctx_one_of f : gctx (@one_of N f).
Proof. intros i. unfold one_of. destruct i as [|c i]; [constructor|]. destruct (f c); [exact I|constructor]. Qed.
Lemma gctx_and_then {A} (outer : sp str) (inner : sp A) : gctx outer -> gctx inner -> gctx (and_then outer inner).
Proof.
  intros Ho Hi i. unfold and_then. specialize (Ho i).
  destruct (outer i) as [[o|x|x|s] r]; try exact Ho.
  specialize (Hi o). destruct (inner o) as [[a|x|x|s] r']; exact Hi.
Qed.

Ltac gctx_named := fail.
Ltac gctx_solve :=
  lazymatch goal with
  | |- Forall _ [] => constructor
  | |- Forall _ (_ :: _) => constructor; [gctx_solve | gctx_solve]
  | |- forall _, _ => intro; cbv beta; gctx_solve
  | |- good _ => first [assumption | reflexivity]
  | |- gctx (pmap _ _) => apply gctx_pmap; gctx_solve
  | |- gctx (value _ _) => apply gctx_value; gctx_solve
  | |- gctx (context _ _) => apply gctx_context; gctx_solve
  | |- gctx (cut_err _) => apply gctx_cut_err; gctx_solve
  | |- gctx (alt _) => apply gctx_alt; gctx_solve
  | |- gctx (try_map _ _) => apply gctx_try_map; gctx_solve
  | |- gctx (verify _ _) => apply gctx_verify; gctx_solve
  | |- gctx fail => apply gctx_fail
  | |- gctx (peek _) => apply gctx_peek; gctx_solve
  | |- gctx (opt _) => apply gctx_opt; gctx_solve
  | |- gctx (literal _) => apply gctx_literal
  | |- gctx (take_while _ _) => apply gctx_take_while
  | |- gctx (take_while_mn _ _ _) => apply gctx_take_while_mn
  | |- gctx (take_until0 _) => apply gctx_take_until0
  | |- gctx multispace0 => apply gctx_take_while
  | |- gctx multispace1 => apply gctx_take_while
  | |- gctx digit1 => apply gctx_take_while
  | |- gctx alpha1 => apply gctx_take_while
  | |- gctx eof => apply gctx_eof
  | |- gctx any => apply gctx_any
  | |- gctx (one_of _) => apply gctx_one_of
  | |- gctx (bind _ _) => apply gctx_bind; gctx_solve
  | |- gctx (preceded _ _) => apply gctx_preceded; gctx_solve
  | |- gctx (terminated _ _) => apply gctx_terminated; gctx_solve
  | |- gctx (pair_ _ _) => apply gctx_pair; gctx_solve
  | |- gctx (delimited _ _ _) => apply gctx_delimited; gctx_solve
  | |- gctx (separated_pair _ _ _) => apply gctx_separated_pair; gctx_solve
  | |- gctx (repeat0 slen _) => apply gctx_repeat0; gctx_solve
  | |- gctx (repeat_till0 slen _ _) => apply gctx_repeat_till0; gctx_solve
  | |- gctx (separated1 slen _ _) => apply gctx_separated1; gctx_solve
  | |- gctx (and_then _ _) => apply gctx_and_then; gctx_solve
  | |- _ => first [ assumption | gctx_named ]
  end.

Lemma gctx_parse_uint b : gctx (parse_uint b).
Proof. unfold parse_uint. gctx_solve. Qed.
Lemma gctx_quote_delimiter : gctx quote_delimiter.
Proof. unfold quote_delimiter. gctx_solve. Qed.
Lemma gctx_parse_string : gctx parse_string.
Proof. unfold parse_string. pose proof gctx_quote_delimiter. gctx_solve. Qed.
Lemma gctx_invalid_spec {A} w : good (Expected w) -> gctx (@invalid_spec A w).
Proof. intros Hw. unfold invalid_spec, expected. gctx_solve. Qed.

Ltac gctx_named ::=
  lazymatch goal with
  | |- gctx (parse_uint _) => apply gctx_parse_uint
  | |- gctx parse_u32 => apply gctx_parse_uint
  | |- gctx parse_u64 => apply gctx_parse_uint
  | |- gctx quote_delimiter => apply gctx_quote_delimiter
  | |- gctx parse_string => apply gctx_parse_string
  | |- gctx (invalid_spec _) => apply gctx_invalid_spec; reflexivity
  end.

Lemma gctx_parse_cmp {T} (d : sparser T) : gctx d -> gctx (parse_cmp d).
Proof. intros Hd. unfold parse_cmp. gctx_solve. Qed.
Lemma gctx_parse_size : gctx parse_size.
Proof. unfold parse_size. gctx_solve. Qed.
Lemma gctx_parse_time u : gctx (parse_time u).
Proof. unfold parse_time. gctx_solve. Qed.
Lemma gctx_parse_filetype : gctx parse_filetype.
Proof. unfold parse_filetype. gctx_solve. Qed.
Lemma gctx_parse_filetypes : gctx parse_filetypes.
Proof. unfold parse_filetypes. pose proof gctx_parse_filetype. gctx_solve. Qed.
Lemma gctx_parse_partial : gctx parse_partial.
Proof. unfold parse_partial. gctx_solve. Qed.
Lemma gctx_parse_permission : gctx parse_permission.
Proof. unfold parse_permission. pose proof gctx_parse_partial. gctx_solve. Qed.
Lemma gctx_parse_permcheck : gctx parse_permcheck.
Proof. unfold parse_permcheck. pose proof gctx_parse_permission. gctx_solve. Qed.
Lemma gctx_parse_perm_arg : gctx parse_perm_arg.
Proof. unfold parse_perm_arg. pose proof gctx_parse_permcheck. gctx_solve. Qed.
Lemma gctx_parse_special : gctx parse_special.
Proof. unfold parse_special. gctx_solve. Qed.
Lemma gctx_parse_field : gctx parse_field.
Proof. unfold parse_field. gctx_solve. Qed.
Lemma gctx_parse_element : gctx parse_element.
Proof. unfold parse_element. pose proof gctx_parse_special. pose proof gctx_parse_field. gctx_solve. Qed.
Lemma gctx_parse_format : gctx parse_format.
Proof. unfold parse_format. pose proof gctx_parse_element. gctx_solve. Qed.
Lemma gctx_parse_format_arg : gctx parse_format_arg.
Proof. unfold parse_format_arg. pose proof gctx_parse_format. gctx_solve. Qed.
Lemma gctx_unsupported_u32 : gctx unsupported_u32.
Proof. unfold unsupported_u32. gctx_solve. Qed.

Ltac gctx_named ::=
  lazymatch goal with
  | |- gctx (parse_uint _) => apply gctx_parse_uint
  | |- gctx parse_u32 => apply gctx_parse_uint
  | |- gctx parse_u64 => apply gctx_parse_uint
  | |- gctx quote_delimiter => apply gctx_quote_delimiter
  | |- gctx parse_string => apply gctx_parse_string
  | |- gctx (invalid_spec _) => apply gctx_invalid_spec; reflexivity
  | |- gctx (parse_cmp _) => apply gctx_parse_cmp; gctx_solve
  | |- gctx parse_size => apply gctx_parse_size
  | |- gctx (parse_time _) => apply gctx_parse_time
  | |- gctx parse_filetypes => apply gctx_parse_filetypes
  | |- gctx parse_perm_arg => apply gctx_parse_perm_arg
  | |- gctx parse_format_arg => apply gctx_parse_format_arg
  | |- gctx unsupported_u32 => apply gctx_unsupported_u32
  end.

(** * parsers that never fail for good (no Cut) *)
Definition nocut {A} (p : sp A) : Prop :=
  forall i, match p i with (Cut _, _) => False | _ => True end.

Lemma nocut_pmap {A B} (f : A -> B) (p : sp A) : nocut p -> nocut (pmap f p).
Proof. intros H i. unfold pmap. specialize (H i). destruct (p i) as [[a|x|x|s] r]; exact H. Qed.
Lemma nocut_value {A B} (b : B) (p : sp A) : nocut p -> nocut (value b p).
Proof. apply nocut_pmap. Qed.
Lemma nocut_bind {A B} (p : sp A) (f : A -> sp B) : nocut p -> (forall a, nocut (f a)) -> nocut (bind p f).
Proof.
  intros Hp Hf i. unfold bind. specialize (Hp i). destruct (p i) as [[a|x|x|s] r]; try exact Hp.
  exact (Hf a r).
Qed.
Lemma nocut_terminated {A B} (p : sp A) (q : sp B) : nocut p -> nocut q -> nocut (terminated p q).
Proof. intros Hp Hq. apply nocut_bind; [exact Hp|]. intros a. apply nocut_pmap. exact Hq. Qed.
Lemma nocut_pair {A B} (p : sp A) (q : sp B) : nocut p -> nocut q -> nocut (pair_ p q).
Proof. intros Hp Hq. apply nocut_bind; [exact Hp|]. intros a. apply nocut_pmap. exact Hq. Qed.
Lemma nocut_peek {A} (p : sp A) : nocut p -> nocut (peek p).
Proof. intros H i. unfold peek. specialize (H i). destruct (p i) as [[a|x|x|s] r]; exact H. Qed.
Lemma nocut_opt {A} (p : sp A) : nocut p -> nocut (opt p).
Proof. intros H i. unfold opt. specialize (H i). destruct (p i) as [[a|x|x|s] r]; try exact H; exact I. Qed.
Lemma nocut_alt {A} (ps : list (sp A)) : Forall nocut ps -> nocut (alt ps).
Proof.
  induction ps as [|p ps IH]; intros HF.
  - intros i. exact I.
  - inversion HF as [|p' ps' Hp Hps]; subst. destruct ps as [|q l].
    + intros i. rewrite alt_one. exact (Hp i).
    + specialize (IH Hps). intros i. rewrite alt_cons2.
      specialize (Hp i). destruct (p i) as [[a|x|x|s] r]; try exact Hp. exact (IH i).
Qed.
Lemma nocut_literal s : nocut (literal s).
Proof. intros i. unfold literal. destruct (lit_ (chars s) i); exact I. Qed.
Lemma nocut_take_while m p : nocut (take_while m p).
Proof.
  intros i. unfold take_while. destruct (span p i) as [a b].
  destruct (Nat.leb m (List.length a)); exact I.
Qed.
Lemma nocut_eof : nocut (@eof N).
Proof. intros i. unfold eof. destruct i; exact I. Qed.
Lemma nocut_any : nocut (@any N).
Proof. intros i. unfold any. destruct i; exact I. Qed.
Lemma nocut_word_end : nocut word_end.
Proof. intros i. rewrite word_end_eq. destruct (at_word_end i); exact I. Qed.
Lemma nocut_blank_or_eof : nocut blank_or_eof.
Proof. intros i. rewrite blank_or_eof_eq. destruct (at_blank_or_end i); exact I. Qed.
Lemma nocut_and_word : nocut (alt [literal "-and"; literal "-a"]).
Proof. apply nocut_alt. repeat constructor; apply nocut_literal. Qed.
Lemma nocut_leading_and : nocut leading_and.
Proof.
  unfold leading_and. apply nocut_opt, nocut_terminated; [exact nocut_and_word|].
  apply nocut_pair; [apply nocut_take_while|apply nocut_peek, nocut_any].
Qed.

(** * keywords and the errors of a primary *)
Definition kw_b (K : string) : bool :=
  negb (String.eqb K "") && benign_b (Label K) && nobq (chars K).
Definition kw (K : string) : Prop := kw_b K = true.

Lemma kw_facts K : kw K -> K <> ""%string /\ benign (Label K) /\ nobq (chars K) = true.
Proof.
  unfold kw, kw_b. intros H. apply andb_true_iff in H as [H H3]. apply andb_true_iff in H as [H1 H2].
  repeat split; try assumption. intros E. subst K. discriminate.
Qed.

(** the keyword [K] stands at the start of [i] *)
Definition stands_at (K : string) (i : str) : Prop := exists r, i = chars K ++ r.

Definition named_at (i : str) (c : list ctx) : Prop :=
  exists c0 K, c = c0 ++ [Label K] /\ Forall good c0 /\ kw K /\ stands_at K i.

(** [kctx p]: a Cut of [p] at [i] carries good contexts under the label of a keyword at [i] *)
Definition kctx {A} (p : sp A) : Prop :=
  forall i, match p i with (Cut c, _) => named_at i c | _ => True end.

Lemma kctx_nocut {A} (p : sp A) : nocut p -> kctx p.
Proof. intros H i. specialize (H i). destruct (p i) as [[a|x|x|s] r]; try exact I. destruct H. Qed.
Lemma kctx_pmap {A B} (f : A -> B) (p : sp A) : kctx p -> kctx (pmap f p).
Proof. intros H i. unfold pmap. specialize (H i). destruct (p i) as [[a|x|x|s] r]; exact H. Qed.
Lemma kctx_alt {A} (ps : list (sp A)) : Forall kctx ps -> kctx (alt ps).
Proof.
  induction ps as [|p ps IH]; intros HF.
  - intros i. exact I.
  - inversion HF as [|p' ps' Hp Hps]; subst. destruct ps as [|q l].
    + intros i. rewrite alt_one. exact (Hp i).
    + specialize (IH Hps). intros i. rewrite alt_cons2.
      specialize (Hp i). destruct (p i) as [[a|x|x|s] r]; try exact Hp. exact (IH i).
Qed.

Lemma kctx_keyword {A B} id (f : A -> B) (inner : sp A) :
  gctx inner -> kw id ->
  kctx (pmap f (context (label id) (preceded (terminated (literal id) word_end) inner))).
Proof.
  intros Hin Hk i. unfold pmap, context, preceded, terminated, bind, pmap, literal.
  destruct (lit_ (chars id) i) as [r|] eqn:E; [|exact I].
  rewrite word_end_eq. destruct (at_word_end r); [|exact I].
  specialize (Hin r). destruct (inner r) as [[a|x|x|s] r2]; try exact I.
  exists x, id. repeat split; try assumption. exists r. exact (lit_some _ _ _ E).
Qed.

Lemma kctx_unary {A B} id (f : A -> B) (p : sparser A) : gctx p -> kw id -> kctx (unary id f p).
Proof.
  intros Hp Hk. unfold unary. apply kctx_keyword; [|exact Hk]. gctx_solve.
Qed.
Lemma kctx_binary {A B C} id (f : A * B -> C) (pl : sparser A) (pr : sparser B) args :
  gctx pl -> gctx pr -> good (Expected args) -> kw id -> kctx (binary id f pl pr args).
Proof.
  intros Hl Hr Ha Hk. unfold binary, expected. apply kctx_keyword; [|exact Hk]. gctx_solve.
Qed.
Lemma kctx_plain {B} (b : B) s : kctx (value b (literal s)).
Proof. apply kctx_nocut, nocut_value, nocut_literal. Qed.

Ltac kctx_solve :=
  lazymatch goal with
  | |- Forall _ [] => constructor
  | |- Forall _ (_ :: _) => constructor; [kctx_solve | kctx_solve]
  | |- kctx (alt _) => apply kctx_alt; kctx_solve
  | |- kctx (value _ (literal _)) => apply kctx_plain
  | |- kctx (unary _ _ _) => apply kctx_unary; [gctx_solve | reflexivity]
  | |- kctx (binary _ _ _ _ _) => apply kctx_binary; [gctx_solve | gctx_solve | reflexivity | reflexivity]
  end.

(** a group of primaries under its group label *)
Definition named2_at (g : string) (i : str) (c : list ctx) : Prop :=
  exists c0 K, c = c0 ++ [Label K; Label g] /\ Forall good c0 /\ kw K /\ stands_at K i.
Definition k2ctx {A} (g : string) (p : sp A) : Prop :=
  forall i, match p i with (Cut c, _) => named2_at g i c | _ => True end.

Lemma k2ctx_group {A} g (p : sp A) : kctx p -> k2ctx g (context (label g) p).
Proof.
  intros H i. unfold context. specialize (H i). destruct (p i) as [[a|x|x|s] r]; try exact I.
  destruct H as (c0 & K & E & H0 & HK & Hs). exists c0, K. subst x. rewrite <- app_assoc.
  repeat split; assumption.
Qed.

Lemma k2ctx_parse_test : k2ctx "test" parse_test.
Proof. unfold parse_test. apply k2ctx_group. kctx_solve. Qed.
Lemma k2ctx_parse_action : k2ctx "action" parse_action.
Proof. unfold parse_action. apply k2ctx_group. kctx_solve. Qed.
Lemma k2ctx_parse_global : k2ctx "global_option" parse_global.
Proof. unfold parse_global. apply k2ctx_group. kctx_solve. Qed.

(** * the token parser *)
Definition tokP (i : str) (c : list ctx) : Prop :=
  c = invalid_token_error
  \/ exists c0 K k, c = c0 ++ primary_ctx K k /\ Forall good c0 /\ kw K /\ stands_at K i.

(** [alt]: a Cut comes from any alternative, a Backtrack from the last one only *)
Lemma alt_errs {A} (PB PC : list ctx -> Prop) (ps : list (sp A)) (q : sp A) i :
  Forall (fun p : sp A => match p i with (Cut c, _) => PC c | _ => True end) ps ->
  match q i with (Cut c, _) => PC c | (Back c, _) => PB c | _ => True end ->
  match alt (ps ++ [q]) i with (Cut c, _) => PC c | (Back c, _) => PB c | _ => True end.
Proof.
  intros HF Hq. induction HF as [|p ps Hp Hps IH]; [exact Hq|].
  cbn [app]. rewrite alt_cons. destruct (p i) as [[a|x|x|s] r]; try exact I; try exact Hp.
  destruct (ps ++ [q]) as [|y l] eqn:E; [|exact IH].
  destruct ps; discriminate.
Qed.

Definition prim_P (i : str) (c : list ctx) : Prop :=
  exists c0 K k, c = c0 ++ [Label K; Label (kind_label k)] /\ Forall good c0 /\ kw K /\ stands_at K i.

Lemma named2_prim k i c : named2_at (kind_label k) i c -> prim_P i c.
Proof. intros (c0 & K & H). exists c0, K, k. exact H. Qed.

Definition cutsP {A} (P : list ctx -> Prop) (x : out A * str) : Prop :=
  match x with (Cut c, _) => P c | _ => True end.

Lemma cutsP_pmap {A B} P (f : A -> B) (p : sp A) i : cutsP P (p i) -> cutsP P (pmap f p i).
Proof. unfold pmap. destruct (p i) as [[a|x|x|s] r]; intros H; exact H. Qed.
Lemma cutsP_terminated {A B} P (p : sp A) (q : sp B) i :
  nocut q -> cutsP P (p i) -> cutsP P (terminated p q i).
Proof.
  intros Hq. unfold terminated, bind. destruct (p i) as [[a|x|x|s] r]; intros H; try exact H.
  unfold pmap. specialize (Hq r). destruct (q r) as [[b|y|y|s] r']; try exact I. destruct Hq.
Qed.
Lemma cutsP_alt {A} P (ps : list (sp A)) i :
  Forall (fun p : sp A => cutsP P (p i)) ps -> cutsP P (alt ps i).
Proof.
  intros HF. induction HF as [|p ps Hp Hps IH]; [exact I|].
  rewrite alt_cons. destruct (p i) as [[a|x|x|s] r]; try exact I; try exact Hp.
  destruct ps as [|y l]; [exact I|exact IH].
Qed.

Lemma prims_errs i :
  cutsP (prim_P i)
    (terminated
          (alt [ pmap (fun t => KPrim (LTest t)) parse_test;
                 pmap (fun a => KPrim (LAction a)) parse_action;
                 pmap (fun g => KPrim (LGlobal g)) parse_global ]) word_end i).
Proof.
  apply cutsP_terminated; [exact nocut_word_end|]. apply cutsP_alt.
  repeat constructor; apply cutsP_pmap.
  - pose proof (k2ctx_parse_test i) as H. destruct (parse_test i) as [[a|x|x|s] r]; try exact I.
    exact (named2_prim KTest i x H).
  - pose proof (k2ctx_parse_action i) as H. destruct (parse_action i) as [[a|x|x|s] r]; try exact I.
    exact (named2_prim KAction i x H).
  - pose proof (k2ctx_parse_global i) as H. destruct (parse_global i) as [[a|x|x|s] r]; try exact I.
    exact (named2_prim KOption i x H).
Qed.

Lemma nocut_lit1 (t : token) s : nocut (value t (literal s)).
Proof. apply nocut_value, nocut_literal. Qed.
Lemma nocut_op (t : token) a b :
  nocut (value t (terminated (alt [literal a; literal b]) blank_or_eof)).
Proof.
  apply nocut_value, nocut_terminated; [|exact nocut_blank_or_eof].
  apply nocut_alt. repeat constructor; apply nocut_literal.
Qed.

Lemma parse_token_errs i :
  match parse_token i with (Back c, _) | (Cut c, _) => tokP i c | _ => True end.
Proof.
  unfold parse_token, context at 1.
  match goal with
  | |- context [alt [?v1; ?v2; ?v3; ?v4; ?o1; ?o2; ?pr; ?last]] =>
      pose proof (alt_errs (fun c => c = [Expected "invalid_token"]) (prim_P i)
                    [v1; v2; v3; v4; o1; o2; pr] last i) as H;
      change ([v1; v2; v3; v4; o1; o2; pr] ++ [last]) with [v1; v2; v3; v4; o1; o2; pr; last] in H
  end.
  match type of H with
  | ?X -> ?Y -> _ => assert (H1 : X); [|assert (H2 : Y); [|specialize (H H1 H2); clear H1 H2]]
  end.
  - repeat constructor.
    + pose proof (nocut_lit1 KLParen "(" i) as N. destruct (value KLParen (literal "(") i) as [[a|x|x|s] r]; try exact I. destruct N.
    + pose proof (nocut_lit1 KRParen ")" i) as N. destruct (value KRParen (literal ")") i) as [[a|x|x|s] r]; try exact I. destruct N.
    + pose proof (nocut_lit1 KNot "!" i) as N. destruct (value KNot (literal "!") i) as [[a|x|x|s] r]; try exact I. destruct N.
    + pose proof (nocut_lit1 KComma "," i) as N. destruct (value KComma (literal ",") i) as [[a|x|x|s] r]; try exact I. destruct N.
    + pose proof (nocut_op KOr "-or" "-o" i) as N.
      destruct (value KOr (terminated (alt [literal "-or"; literal "-o"]) blank_or_eof) i) as [[a|x|x|s] r]; try exact I. destruct N.
    + pose proof (nocut_op KAnd "-and" "-a" i) as N.
      destruct (value KAnd (terminated (alt [literal "-and"; literal "-a"]) blank_or_eof) i) as [[a|x|x|s] r]; try exact I. destruct N.
    + exact (prims_errs i).
  - reflexivity.
  - match type of H with
    | match ?e with _ => _ end => destruct e as [[a|x|x|s] r]
    end; try exact I.
    + left. subst x. reflexivity.
    + right. destruct H as (c0 & K & k & E & H0 & HK & Hs). exists c0, K, k. subst x.
      unfold primary_ctx. rewrite <- app_assoc. repeat split; assumption.
Qed.

(** * the two loops: an error of the loop is an error of its body at some later position *)
Definition later (Q : str -> list ctx -> Prop) (i : str) (c : list ctx) : Prop :=
  exists i', suffix_of i' i /\ Q i' c.

Lemma later_suffix Q r i c : suffix_of r i -> later Q r c -> later Q i c.
Proof. intros Hr (i' & H1 & H2). exists i'. split; [exact (suffix_trans _ _ _ H1 Hr)|exact H2]. Qed.

Lemma repeat_fuel_later {A} (Q : str -> list ctx -> Prop) (p : sp A) :
  (forall i, match p i with (Cut c, _) => Q i c | _ => True end) -> sfx p ->
  forall fuel i,
    match repeat_fuel slen fuel p i with (Back c, _) | (Cut c, _) => later Q i c | _ => True end.
Proof.
  intros Hp Hs. induction fuel as [|fuel IH]; intros i; cbn [repeat_fuel]; [exact I|].
  pose proof (Hp i) as Hpi. pose proof (Hs i) as Hsi.
  destruct (p i) as [[a|x|x|s] r]; cbn [snd] in Hsi; try exact I.
  - destruct (Nat.leb (slen i) (slen r)); [exact I|].
    specialize (IH r). destruct (repeat_fuel slen fuel p r) as [[l|y|y|s] r']; try exact I;
      exact (later_suffix Q r i y Hsi IH).
  - exists i. split; [apply suffix_refl|exact Hpi].
Qed.

Lemma rtill_fuel_later {A B} (Q : str -> list ctx -> Prop) (f : sp A) (g : sp B) :
  (forall i, match f i with (Back c, _) | (Cut c, _) => Q i c | _ => True end) -> sfx f -> nocut g ->
  forall fuel i,
    match rtill_fuel slen fuel f g i with (Back c, _) | (Cut c, _) => later Q i c | _ => True end.
Proof.
  intros Hf Hs Hg. induction fuel as [|fuel IH]; intros i; cbn [rtill_fuel]; [exact I|].
  pose proof (Hg i) as Hgi. destruct (g i) as [[b|x|x|s] r0]; try exact I; [|destruct Hgi].
  pose proof (Hf i) as Hfi. pose proof (Hs i) as Hsi.
  destruct (f i) as [[a|y|y|s] r]; cbn [snd] in Hsi; try exact I.
  - destruct (Nat.leb (slen i) (slen r)); [exact I|].
    specialize (IH r). destruct (rtill_fuel slen fuel f g r) as [[[l b]|z|z|s] r']; try exact I;
      exact (later_suffix Q r i z Hsi IH).
  - exists i. split; [apply suffix_refl|exact Hfi].
  - exists i. split; [apply suffix_refl|exact Hfi].
Qed.

Lemma token_step_errs i :
  match token_step i with (Back c, _) | (Cut c, _) => tokP i c | _ => True end.
Proof.
  unfold token_step, terminated, bind. pose proof (parse_token_errs i) as H.
  destruct (parse_token i) as [[t|x|x|s] r]; try exact H.
  unfold pmap. rewrite multispace0_eq. exact I.
Qed.

Lemma sfx_token_step : sfx token_step.
Proof. unfold token_step. apply sfx_terminated; [exact sfx_parse_token|exact sfx_multispace0]. Qed.

Lemma suffix_of_skip i : suffix_of (skip_blanks i) i.
Proof.
  unfold skip_blanks. destruct (span is_space i) as [a b] eqn:E. exists a. exact (span_eq _ _ _ _ E).
Qed.

Lemma lex_errs i :
  match lex i with (Back c, _) | (Cut c, _) => later tokP i c | _ => True end.
Proof.
  unfold lex. fold token_step. unfold pmap at 1, preceded, bind. rewrite multispace0_eq.
  pose proof (suffix_of_skip i) as Hsk. set (j := skip_blanks i) in *.
  unfold repeat_till1.
  pose proof (token_step_errs j) as Hj. pose proof (sfx_token_step j) as Hs.
  destruct (token_step j) as [[t|x|x|s] r]; cbn [snd] in Hs; try exact I.
  - unfold repeat_till0.
    pose proof (rtill_fuel_later tokP token_step (@eof N) token_step_errs sfx_token_step nocut_eof
                  (S (slen r)) r) as H.
    destruct (rtill_fuel slen (S (slen r)) token_step eof r) as [[[l b]|z|z|s] r']; try exact I;
      exact (later_suffix tokP r i z (suffix_trans _ _ _ Hs Hsk) H).
  - exists j. split; [exact Hsk|exact Hj].
  - exists j. split; [exact Hsk|exact Hj].
Qed.

(** * the leading run of options *)
Definition lo_body : sparser gopt :=
  terminated (terminated parse_global word_end) (pair_ multispace0 leading_and).

Lemma lo_body_errs i : cutsP (named2_at "global_option" i) (lo_body i).
Proof.
  unfold lo_body. apply cutsP_terminated.
  - apply nocut_pair; [apply nocut_take_while|exact nocut_leading_and].
  - apply cutsP_terminated; [exact nocut_word_end|]. exact (k2ctx_parse_global i).
Qed.

Lemma sfx_lo_body : sfx lo_body.
Proof.
  unfold lo_body. apply sfx_terminated.
  - apply sfx_terminated; [exact sfx_parse_global|exact sfx_word_end].
  - apply sfx_pair; [exact sfx_multispace0|exact sfx_leading_and].
Qed.

Lemma leading_options_errs i :
  match leading_options i with
  | (Back c, _) | (Cut c, _) => later (named2_at "global_option") i c
  | _ => True
  end.
Proof.
  unfold leading_options. fold lo_body. unfold preceded, bind. rewrite multispace0_eq.
  pose proof (suffix_of_skip i) as Hsk. set (j := skip_blanks i) in *. unfold repeat0.
  pose proof (repeat_fuel_later (named2_at "global_option") lo_body lo_body_errs sfx_lo_body
                (S (slen j)) j) as H.
  destruct (repeat_fuel slen (S (slen j)) lo_body j) as [[l|z|z|s] r]; try exact I;
    exact (later_suffix _ j i z Hsk H).
Qed.

(** * what the reporter makes of it: the explanation *)
Definition unq (x : ctx) : Prop :=
  match x with Expected d => nobq (chars (explain d)) = true | Label _ => True end.
Definition descr_ok (sc : sctx) : Prop :=
  match sc_descr sc with Some d => nobq (chars (explain d)) = true | None => True end.

Lemma good_unq x : good x -> unq x.
Proof. destruct x as [s|d]; intros H; [exact I|exact H]. Qed.

Lemma fold_descr sc x : unq x -> descr_ok sc -> descr_ok (fold_ctx sc x).
Proof.
  intros Hx Hsc. destruct x as [s|d]; unfold fold_ctx.
  - repeat match goal with |- context [if ?b then _ else _] => destruct b end; exact Hsc.
  - exact Hx.
Qed.

Lemma fold_left_descr l : Forall unq l -> forall sc, descr_ok sc -> descr_ok (fold_left fold_ctx l sc).
Proof.
  intros HF. induction HF as [|x l Hx Hl IH]; intros sc Hsc; [exact Hsc|].
  cbn [fold_left]. apply IH. exact (fold_descr sc x Hx Hsc).
Qed.

Lemma syntax_context_descr c : Forall unq c -> descr_ok (syntax_context c).
Proof. intros H. unfold syntax_context. apply fold_left_descr; [apply Forall_rev; exact H|exact I]. Qed.

Lemma Forall_impl' {A} (P Q : A -> Prop) l : (forall x, P x -> Q x) -> Forall P l -> Forall Q l.
Proof. intros H HF. induction HF as [|x l Hx Hl IH]; constructor; auto. Qed.

(** the message of an error of a primary: the two quoted segments and a quote-free tail *)
Lemma message_named c0 K k rest : Forall good c0 -> kw K ->
  exists E,
    message (c0 ++ primary_ctx K k) rest
    = chars "Syntax error: Failed to parse argument `" ++ next_word rest ++ chars "` of "
        ++ chars (kind_text k) ++ chars " `" ++ chars K ++ chars "`" ++ E
    /\ nobq E = true.
Proof.
  intros H0 HK. destruct (kw_facts K HK) as (HKne & HKb & _).
  assert (Hb : Forall benign c0) by exact (Forall_impl' _ _ c0 good_benign H0).
  assert (Hd : descr_ok (syntax_context (c0 ++ primary_ctx K k))).
  { apply syntax_context_descr, Forall_app. split.
    - exact (Forall_impl' _ _ c0 good_unq H0).
    - unfold primary_ctx. repeat constructor. }
  rewrite message_eq, (inv_kind k K _ (syntax_context_inv c0 K k HKne HKb Hb)).
  unfold descr_ok in Hd. destruct (sc_descr (syntax_context (c0 ++ primary_ctx K k))) as [d|];
    cbn [option_map]; unfold failed_msg; eexists; (split; [reflexivity|]).
  - apply nobq_app; [reflexivity|exact Hd].
  - reflexivity.
Qed.

(** * where [parse] takes its error from, with the contexts *)
Lemma parse_err_origin_ctx s m :
  parse s = ParseErr m ->
  exists cs rest, m = message cs rest /\ suffix_of rest s
                  /\ (cs = [Expected "grammar"] \/ later tokP s cs).
Proof.
  unfold parse. pose proof (sfx_leading_options s) as Hl. pose proof (leading_options_errs s) as He.
  destruct (leading_options s) as [[gs|c|c|site] rest]; cbn [snd err_of] in *.
  - destruct (update_all default_options gs) as [o|]; [|discriminate]. cbv zeta.
    set (X := match rest with [] => _ | _ :: _ => _ end).
    assert (HX : suffix_of (snd X) rest
                 /\ match X with (Back c, _) | (Cut c, _) => later tokP rest c | _ => True end).
    { unfold X. destruct rest as [|ch rest'].
      - split; [apply suffix_refl|exact I].
      - split; [apply sfx_lex|apply lex_errs]. }
    clearbody X. destruct HX as [Hx Hc]. destruct X as [[ts|c|c|site] rest']; cbn [snd err_of] in *.
    + destruct (replace_globals o ts) as [[o' ts']|]; [|discriminate].
      destruct (prec_parser ts'); [discriminate|]. unfold grammar_error. intros H. inversion H.
      eexists _, _. split; [reflexivity|]. split; [apply suffix_nil|left; reflexivity].
    + intros H. inversion H. eexists _, _. split; [reflexivity|].
      split; [exact (suffix_trans _ _ _ Hx Hl)|right; exact (later_suffix tokP rest s c Hl Hc)].
    + intros H. inversion H. eexists _, _. split; [reflexivity|].
      split; [exact (suffix_trans _ _ _ Hx Hl)|right; exact (later_suffix tokP rest s c Hl Hc)].
    + discriminate.
  - intros H. inversion H. exists (c ++ [Label "syntax"]), rest.
    split; [symmetry; apply message_syntax|]. split; [exact Hl|right].
    destruct He as (i & Hi & c0 & K & E & H0 & HK & Hs). exists i. split; [exact Hi|].
    right. exists c0, K, KOption. subst c. unfold primary_ctx. rewrite <- app_assoc.
    repeat split; assumption.
  - intros H. inversion H. exists (c ++ [Label "syntax"]), rest.
    split; [symmetry; apply message_syntax|]. split; [exact Hl|right].
    destruct He as (i & Hi & c0 & K & E & H0 & HK & Hs). exists i. split; [exact Hi|].
    right. exists c0, K, KOption. subst c. unfold primary_ctx. rewrite <- app_assoc.
    repeat split; assumption.
  - discriminate.
Qed.

(** * the theorem *)
Lemma kw_chars K : kw K -> chars K <> [] /\ no_backquote (chars K).
Proof.
  intros H. destruct (kw_facts K H) as (Hne & _ & Hq). split; [|exact Hq].
  destruct K; [contradiction|discriminate].
Qed.

Theorem quotes_only_input s m :
  parse s = ParseErr m ->
  (exists W, m = chars "Syntax error: Unexpected token: `" ++ W ++ chars "`" /\ substring W s)
  \/ (exists W k K E,
        m = chars "Syntax error: Failed to parse argument `" ++ W ++ chars "` of "
              ++ chars (kind_text k) ++ chars " `" ++ K ++ chars "`" ++ E
        /\ substring W s /\ substring K s /\ K <> [] /\ no_backquote K /\ no_backquote E).
Proof.
  intros H. destruct (parse_err_origin_ctx s m H) as (cs & rest & Hm & Hs & Hcs).
  pose proof (substring_suffix _ _ _ (next_word_substring rest) Hs) as HW.
  destruct Hcs as [Hg|(i & Hi & [Hinv|(c0 & K & k & Hc & H0 & HK & (r & Er))])].
  - left. exists (next_word rest). split; [subst; reflexivity|exact HW].
  - left. exists (next_word rest). split; [subst; reflexivity|exact HW].
  - right. destruct (message_named c0 K k rest H0 HK) as (E & HE & HEq).
    destruct (kw_chars K HK) as [HKne HKq].
    exists (next_word rest), k, (chars K), E. subst cs. rewrite Hm, HE.
    split; [reflexivity|]. split; [exact HW|]. split; [|repeat split; assumption].
    destruct Hi as [a Ha]. exists a, r. rewrite Ha, Er. reflexivity.
Qed.

(** [explain_keys] lists every description [explain] has a text for *)
Lemma explain_keys_complete d : ~ In d explain_keys -> explain d = d.
Proof.
  intros Hn. unfold explain.
  repeat match goal with
         | |- context [String.eqb d ?k] =>
             destruct (String.eqb_spec d k) as [E|_];
             [exfalso; apply Hn; rewrite E; unfold explain_keys; cbn [In]; tauto|]
         end.
  reflexivity.
Qed.
