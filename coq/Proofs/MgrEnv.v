(** The manager tables only grow, and every name the manager hands out refers to a table entry
    for exactly what was asked (Spec/SchemeEnv.v). *)
From Coq Require Import List String NArith Bool Lia ZifyBool ZifyN.
From FP Require Import Model.Chars Model.Ast Model.Sexp Model.Compile
  Spec.FileRecord Spec.SchemeSem Spec.SchemeEnv.
Import ListNotations.
Local Open Scope N_scope.

(** * The equality tests decide equality *)
Lemma str_eqb_eq : forall a b, str_eqb a b = true -> a = b.
Proof.
  induction a as [|x a IH]; intros [|y b] H; cbn [str_eqb] in H; try discriminate H; [reflexivity|].
  apply andb_true_iff in H. destruct H as [Hx Ha]. apply N.eqb_eq in Hx. subst y.
  rewrite (IH b Ha). reflexivity.
Qed.
Lemma str_eqb_refl : forall a, str_eqb a a = true.
Proof. induction a as [|x a IH]; cbn [str_eqb]; [reflexivity|]. rewrite N.eqb_refl, IH. reflexivity. Qed.
Lemma str_eqb_neq : forall a b, a <> b -> str_eqb a b = false.
Proof.
  intros a b H. destruct (str_eqb a b) eqn:E; [|reflexivity]. contradiction H. apply str_eqb_eq. exact E.
Qed.

Lemma opt_eqb_eq : forall a b, opt_eqb a b = true -> a = b.
Proof.
  intros [x|] [y|] H; cbn [opt_eqb] in H; try discriminate H; [|reflexivity].
  apply N.eqb_eq in H. subst y. reflexivity.
Qed.
Lemma mkey_eqb_eq : forall a b, mkey_eqb a b = true -> a = b.
Proof.
  intros [p c] [q d] H. unfold mkey_eqb in H. cbn [fst snd] in H.
  apply andb_true_iff in H. destruct H as [Hp Hc].
  apply str_eqb_eq in Hp. apply Bool.eqb_prop in Hc. subst. reflexivity.
Qed.
Lemma port_eqb_eq : forall a b, port_eqb a b = true -> a = b.
Proof.
  intros [pa ma] [pb mb] H. unfold port_eqb in H. cbn [p_port p_mutex] in H.
  apply andb_true_iff in H. destruct H as [Hp Hm].
  apply N.eqb_eq in Hp. apply N.eqb_eq in Hm. subst. reflexivity.
Qed.
Lemma pkey_eqb_eq : forall a b, pkey_eqb a b = true -> a = b.
Proof.
  intros [p c] [q d] H. unfold pkey_eqb in H. cbn [fst snd] in H.
  apply andb_true_iff in H. destruct H as [Hp Hc].
  apply port_eqb_eq in Hp. apply opt_eqb_eq in Hc. subst. reflexivity.
Qed.
Lemma target_eqb_eq : forall a b, target_eqb a b = true -> a = b.
Proof.
  intros [x|f x] [y|g y] H; cbn [target_eqb] in H; try discriminate H.
  - apply opt_eqb_eq in H. subst. reflexivity.
  - apply andb_true_iff in H. destruct H as [Hf Hx].
    apply str_eqb_eq in Hf. apply opt_eqb_eq in Hx. subst. reflexivity.
Qed.

Lemma assoc_in : forall (K V : Type) (eqb : K -> K -> bool),
  (forall a b, eqb a b = true -> a = b) ->
  forall k (l : list (K * V)) v, assoc eqb k l = Some v -> In (k, v) l.
Proof.
  intros K V eqb Heq k l v. induction l as [|[k' v'] l IH]; cbn [assoc]; intros H; [discriminate H|].
  destruct (eqb k k') eqn:E.
  - inversion H; subst. left. rewrite (Heq k k' E). reflexivity.
  - right. apply IH. exact H.
Qed.

(** * Order on managers *)
Lemma mgr_le_refl : forall m, mgr_le m m.
Proof. intros m. split; intros; assumption. Qed.
Lemma mgr_le_trans : forall a b c, mgr_le a b -> mgr_le b c -> mgr_le a c.
Proof. intros a b c [H1 H2] [H3 H4]. split; intros; [apply H3, H1 | apply H4, H2]; assumption. Qed.

Lemma env_agrees_le : forall e m m', mgr_le m m' -> env_agrees e m' -> env_agrees e m.
Proof.
  intros e m m' [L1 L2] [A1 A2]. split.
  - intros pat ci i H. apply A1. apply L1. exact H.
  - intros t i H. apply A2. apply L2. exact H.
Qed.

(** * The local manager *)
Lemma port_dest_same : forall l l' p d,
  l_default l' = l_default l -> l_files l' = l_files l -> port_dest l p d -> port_dest l' p d.
Proof. intros l l' p d H1 H2 H. destruct d; cbn [port_dest] in *; [rewrite H1|rewrite H2]; exact H. Qed.

Lemma l_init_default_port_spec : forall l p l1,
  l_init_default_port l = (p, l1) -> mgr_le (ML l) (ML l1) /\ l_default l1 = Some p.
Proof.
  intros l p l1 E. unfold l_init_default_port in E. destruct (l_default l) as [p0|] eqn:Ed.
  - inversion E; subst. split; [apply mgr_le_refl | exact Ed].
  - inversion E; subst. clear E. split; [|reflexivity]. split.
    + intros k i H. exact H.
    + intros t i (p' & d & term & Hin & Hd & Ht). exists p', d, term.
      split; [exact Hin|]. split; [|exact Ht].
      destruct d; cbn [port_dest l_default l_files] in *; [congruence | exact Hd].
Qed.

Lemma l_init_file_port_spec : forall f l p l1,
  l_init_file_port f l = (p, l1) -> mgr_le (ML l) (ML l1) /\ In (f, p) (l_files l1).
Proof.
  intros f l p l1 E. unfold l_init_file_port in E. destruct (assoc str_eqb f (l_files l)) as [p0|] eqn:Ea.
  - inversion E; subst. split; [apply mgr_le_refl|]. apply (assoc_in _ _ _ str_eqb_eq _ _ _ Ea).
  - inversion E; subst. clear E. split.
    + split; [intros k i H; exact H|].
      intros t i (p' & d & term & Hin & Hd & Ht). exists p', d, term.
      split; [exact Hin|]. split; [|exact Ht].
      destruct d; cbn [port_dest l_default l_files] in *; [exact Hd | apply in_or_app; left; exact Hd].
    + cbn [l_files]. apply in_or_app. right. left. reflexivity.
Qed.

Lemma l_register_printer_spec : forall p term l i l1,
  l_register_printer p term l = (i, l1) ->
  mgr_le (ML l) (ML l1) /\ In ((p, term), i) (l_printers l1)
  /\ l_default l1 = l_default l /\ l_files l1 = l_files l.
Proof.
  intros p term l i l1 E. unfold l_register_printer in E.
  destruct (assoc pkey_eqb (p, term) (l_printers l)) as [i0|] eqn:Ea.
  - inversion E; subst. split; [apply mgr_le_refl|]. split; [|split; reflexivity].
    apply (assoc_in _ _ _ pkey_eqb_eq _ _ _ Ea).
  - inversion E; subst. clear E. split; [|split; [|split; reflexivity]].
    + split; [intros k i H; exact H|].
      intros t i (p' & d & term' & Hin & Hd & Ht). exists p', d, term'.
      split; [cbn [l_printers]; apply in_or_app; left; exact Hin|]. split; [|exact Ht].
      apply (port_dest_same l); [reflexivity | reflexivity | exact Hd].
    + cbn [l_printers]. apply in_or_app. right. left. reflexivity.
Qed.

Lemma l_register_match_spec : forall pat ci l i l1,
  l_register_match pat ci l = (i, l1) ->
  mgr_le (ML l) (ML l1) /\ In ((pat, ci), i) (l_matches l1).
Proof.
  intros pat ci l i l1 E. unfold l_register_match in E.
  destruct (assoc mkey_eqb (pat, ci) (l_matches l)) as [i0|] eqn:Ea.
  - inversion E; subst. split; [apply mgr_le_refl|]. apply (assoc_in _ _ _ mkey_eqb_eq _ _ _ Ea).
  - inversion E; subst. clear E. split.
    + split; [intros k i H; cbn [mgr_matches l_matches]; apply in_or_app; left; exact H|].
      intros t i (p' & d & term' & Hin & Hd & Ht). exists p', d, term'.
      split; [exact Hin|]. split; [|exact Ht].
      apply (port_dest_same l); [reflexivity | reflexivity | exact Hd].
    + cbn [l_matches]. apply in_or_app. right. left. reflexivity.
Qed.

(** * The distributed manager *)
Lemma d_register_printer_spec : forall t d i d1,
  d_register_printer t d = (i, d1) -> mgr_le (MD d) (MD d1) /\ In (t, i) (d_printers d1).
Proof.
  intros t d i d1 E. unfold d_register_printer in E.
  destruct (assoc target_eqb t (d_printers d)) as [i0|] eqn:Ea.
  - inversion E; subst. split; [apply mgr_le_refl|]. apply (assoc_in _ _ _ target_eqb_eq _ _ _ Ea).
  - inversion E; subst. clear E. split.
    + split; [intros k i H; exact H|].
      intros t' i H. cbn [printer_entry d_printers] in *. apply in_or_app. left. exact H.
    + cbn [d_printers]. apply in_or_app. right. left. reflexivity.
Qed.

Lemma d_register_match_spec : forall pat ci d i d1,
  d_register_match pat ci d = (i, d1) -> mgr_le (MD d) (MD d1) /\ In ((pat, ci), i) (d_matches d1).
Proof.
  intros pat ci d i d1 E. unfold d_register_match in E.
  destruct (assoc mkey_eqb (pat, ci) (d_matches d)) as [i0|] eqn:Ea.
  - inversion E; subst. split; [apply mgr_le_refl|]. apply (assoc_in _ _ _ mkey_eqb_eq _ _ _ Ea).
  - inversion E; subst. clear E. split.
    + split; [intros k i H; cbn [mgr_matches d_matches]; apply in_or_app; left; exact H|].
      intros t' i H. exact H.
    + cbn [d_matches]. apply in_or_app. right. left. reflexivity.
Qed.

(** * The trait operations *)
Lemma get_matcher_spec : forall pat ci m x m',
  get_matcher pat ci m = (x, m') ->
  mgr_le m m' /\ exists i, x = ident "match" i /\ In ((pat, ci), i) (mgr_matches m').
Proof.
  intros pat ci [l|d] x m' E; cbn [get_matcher] in E.
  - destruct (l_register_match pat ci l) as [i l1] eqn:E1. inversion E; subst.
    destruct (l_register_match_spec _ _ _ _ _ E1) as [Hle Hin].
    split; [exact Hle|]. exists i. split; [reflexivity | exact Hin].
  - destruct (d_register_match pat ci d) as [i d1] eqn:E1. inversion E; subst.
    destruct (d_register_match_spec _ _ _ _ _ E1) as [Hle Hin].
    split; [exact Hle|]. exists i. split; [reflexivity | exact Hin].
Qed.

Lemma get_printer_spec : forall term m x m',
  get_printer term m = (x, m') ->
  mgr_le m m' /\ exists i, x = ident "print" i /\ printer_entry m' (TStdout term) i.
Proof.
  intros term [l|d] x m' E; cbn [get_printer] in E.
  - destruct (l_init_default_port l) as [p l1] eqn:E1.
    destruct (l_register_printer p term l1) as [i l2] eqn:E2. inversion E; subst.
    destruct (l_init_default_port_spec _ _ _ E1) as [Hle1 Hd].
    destruct (l_register_printer_spec _ _ _ _ _ E2) as [Hle2 [Hin [Hd2 Hf2]]].
    split; [exact (mgr_le_trans _ _ _ Hle1 Hle2)|]. exists i. split; [reflexivity|].
    exists p, DStdout, term. split; [exact Hin|]. split; [|reflexivity].
    cbn [port_dest]. rewrite Hd2. exact Hd.
  - destruct (d_register_printer (TStdout term) d) as [i d1] eqn:E1. inversion E; subst.
    destruct (d_register_printer_spec _ _ _ _ E1) as [Hle Hin].
    split; [exact Hle|]. exists i. split; [reflexivity | exact Hin].
Qed.

Lemma get_file_printer_spec : forall f term m x m',
  get_file_printer f term m = (x, m') ->
  mgr_le m m' /\ exists i, x = ident "print" i /\ printer_entry m' (TFile f term) i.
Proof.
  intros f term [l|d] x m' E; cbn [get_file_printer] in E.
  - destruct (l_init_file_port f l) as [p l1] eqn:E1.
    destruct (l_register_printer p term l1) as [i l2] eqn:E2. inversion E; subst.
    destruct (l_init_file_port_spec _ _ _ _ E1) as [Hle1 Hd].
    destruct (l_register_printer_spec _ _ _ _ _ E2) as [Hle2 [Hin [Hd2 Hf2]]].
    split; [exact (mgr_le_trans _ _ _ Hle1 Hle2)|]. exists i. split; [reflexivity|].
    exists p, (DFile f), term. split; [exact Hin|]. split; [|reflexivity].
    cbn [port_dest]. rewrite Hf2. exact Hd.
  - destruct (d_register_printer (TFile f term) d) as [i d1] eqn:E1. inversion E; subst.
    destruct (d_register_printer_spec _ _ _ _ E1) as [Hle Hin].
    split; [exact Hle|]. exists i. split; [reflexivity | exact Hin].
Qed.

Lemma with_mgr_inv : forall (g : mgr -> lsexp * mgr) s x s',
  with_mgr g s = (x, s') ->
  g (st_mgr s) = (x, st_mgr s') /\ st_clock s' = st_clock s.
Proof.
  intros g s x s' E. unfold with_mgr in E. destruct (g (st_mgr s)) as [a m] eqn:Eg.
  inversion E; subst. split; reflexivity.
Qed.
