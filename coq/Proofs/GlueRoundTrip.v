(** The glue of the correspondence harness round-trips: reading the tokens of a serialised tree
    gives the tree back (with -perm bits truncated to twelve bits, as the harness does). *)
From Coq Require Import List String NArith Bool Arith Lia ZifyBool ZifyN.
From FP Require Import Model.Chars Model.Ast Model.Ser Spec.Decimal Spec.Glue Proofs.Numbers.
Import ListNotations.
Local Open Scope N_scope.

(** * Splitting on a separator *)
Lemma split_on_app : forall c a b cur,
  split_on c (a ++ c :: b) cur = split_on c a cur ++ split_on c b [].
Proof.
  intros c a b. induction a as [|d a IH]; intros cur.
  - cbn [app split_on]. rewrite N.eqb_refl. reflexivity.
  - cbn [app split_on]. destruct (d =? c) eqn:E.
    + rewrite IH. reflexivity.
    + apply IH.
Qed.

Lemma split_on_clean : forall c s cur,
  Forall (fun x => x <> c) s -> split_on c s cur = [rev cur ++ s].
Proof.
  intros c s. induction s as [|d s IH]; intros cur H.
  - cbn [split_on]. rewrite rev_append_rev. reflexivity.
  - inversion H as [|d' s' Hd Hs]; subst. cbn [split_on].
    destruct (d =? c) eqn:E; [lia|]. rewrite (IH _ Hs). cbn [rev]. rewrite <- app_assoc. reflexivity.
Qed.

Lemma split_on_join : forall c a l,
  split_on c (join [c] (a :: l)) [] = split_on c a [] ++ flat_map (fun s => split_on c s []) l.
Proof.
  intros c a l. revert a. induction l as [|b l IH]; intros a.
  - cbn [join flat_map]. rewrite app_nil_r. reflexivity.
  - change (join [c] (a :: b :: l)) with (a ++ c :: join [c] (b :: l)).
    rewrite split_on_app, IH. reflexivity.
Qed.

Lemma Forall_join : forall (P : N -> Prop) sep l,
  Forall P sep -> Forall (Forall P) l -> Forall P (join sep l).
Proof.
  intros P sep l Hsep H. induction H as [|a l Ha Hl IH]; [constructor|].
  destruct l as [|b l]; [exact Ha|].
  change (join sep (a :: b :: l)) with (a ++ sep ++ join sep (b :: l)).
  apply Forall_app. split; [exact Ha|]. apply Forall_app. split; [exact Hsep|exact IH].
Qed.

(** * Tokens *)
Notation toks := Ser.tokens_of.

Lemma toks_words : forall a l, toks (words (a :: l)) = toks a ++ flat_map toks l.
Proof. intros a l. apply split_on_join. Qed.

Lemma toks_clean : forall s, Forall (fun x => x <> 32) s -> toks s = [s].
Proof. intros s H. unfold Ser.tokens_of. rewrite (split_on_clean 32 s [] H). reflexivity. Qed.

(** * Decimal numerals *)
Lemma dec_print : forall n, dec_value (print_dec n) = n.
Proof. intros n. rewrite dec_value_pos_value_all. apply print_dec_value. Qed.

Lemma toks_dec : forall n, toks (print_dec n) = [print_dec n].
Proof.
  intros n. apply toks_clean. pose proof (print_dec_digits n) as H.
  unfold digits in H. eapply Forall_impl; [|exact H]. intros c Hc. unfold digit in Hc. lia.
Qed.

(** * Hexadecimal numerals *)
Definition hexch (c : N) : Prop := 48 <= c <= 57 \/ 97 <= c <= 102.
Definition hstep (acc c : N) : N := acc * 16 + hexdigit c.

Lemma hexdigit_digit_char : forall d, d < 16 -> hexdigit (digit_char d) = d /\ hexch (digit_char d).
Proof.
  intros d Hd. unfold hexdigit, digit_char, hexch.
  destruct (d <? 10) eqn:E.
  - destruct (48 + d <? 58) eqn:E2; lia.
  - destruct (87 + d <? 58) eqn:E2; lia.
Qed.

Lemma hex_aux_spec : forall fuel n acc,
  n < 16 ^ N.of_nat (S fuel) ->
  exists ds, print_radix_aux (S fuel) 16 n acc = ds ++ acc /\ ds <> [] /\ Forall hexch ds
             /\ forall a, fold_left hstep ds a = a * 16 ^ N.of_nat (List.length ds) + n.
Proof.
  induction fuel as [|f IH]; intros n acc Hn; rewrite print_aux_step;
    destruct (n <? 16) eqn:E.
  - destruct (hexdigit_digit_char n ltac:(lia)) as [Hv Hc].
    exists [digit_char n]. split; [reflexivity|]. split; [discriminate|]. split; [constructor; [exact Hc|constructor]|].
    intros a. cbn [fold_left List.length]. unfold hstep. rewrite Hv.
    change (N.of_nat 1) with 1. rewrite N.pow_1_r. reflexivity.
  - change (N.of_nat 1) with 1 in Hn. rewrite N.pow_1_r in Hn. lia.
  - destruct (hexdigit_digit_char n ltac:(lia)) as [Hv Hc].
    exists [digit_char n]. split; [reflexivity|]. split; [discriminate|]. split; [constructor; [exact Hc|constructor]|].
    intros a. cbn [fold_left List.length]. unfold hstep. rewrite Hv.
    change (N.of_nat 1) with 1. rewrite N.pow_1_r. reflexivity.
  - assert (Hq : n / 16 < 16 ^ N.of_nat (S f)).
    { apply N.div_lt_upper_bound; [lia|].
      rewrite (Nat2N.inj_succ (S f)), N.pow_succ_r' in Hn. exact Hn. }
    destruct (IH (n / 16) (digit_char (n mod 16) :: acc) Hq) as (ds & Heq & Hne & Hds & Hval).
    assert (Hm : n mod 16 < 16) by (apply N.mod_lt; lia).
    destruct (hexdigit_digit_char (n mod 16) Hm) as [Hv Hc].
    exists (ds ++ [digit_char (n mod 16)]). split; [|split; [|split]].
    + rewrite Heq, <- app_assoc. reflexivity.
    + destruct ds; discriminate.
    + apply Forall_app. split; [exact Hds|]. constructor; [exact Hc|constructor].
    + intros a. rewrite fold_left_app, Hval. cbn [fold_left]. unfold hstep at 1. rewrite Hv.
      rewrite app_length. cbn [List.length]. rewrite Nat.add_1_r, Nat2N.inj_succ, N.pow_succ_r'.
      pose proof (N.div_mod' n 16) as Hdm. lia.
Qed.

Lemma print_hex_fuel : forall n, n < 16 ^ N.of_nat (S (N.size_nat n)).
Proof.
  intros n. pose proof (size_nat_gt n) as H2.
  assert (Hle : 2 ^ N.of_nat (N.size_nat n) <= 16 ^ N.of_nat (N.size_nat n))
    by (apply N.pow_le_mono_l; lia).
  rewrite Nat2N.inj_succ, N.pow_succ_r'. lia.
Qed.

Lemma print_hex_spec : forall n,
  print_hex n <> [] /\ Forall hexch (print_hex n) /\ hex_value (print_hex n) = n.
Proof.
  intros n. unfold print_hex, print_radix.
  destruct (hex_aux_spec (N.size_nat n) n [] (print_hex_fuel n)) as (ds & Heq & Hne & Hds & Hval).
  rewrite Heq, app_nil_r. split; [exact Hne|]. split; [exact Hds|].
  unfold hex_value. change (fun acc c : N => acc * 16 + hexdigit c) with hstep.
  rewrite Hval. lia.
Qed.

(** the hexadecimal round trip *)
Lemma hex_print : forall n, hex_value (print_hex n) = n.
Proof. intros n. apply (print_hex_spec n). Qed.

Lemma print_hex_clean : forall c n, ~ hexch c -> Forall (fun x => x <> c) (print_hex n).
Proof.
  intros c n Hc. destruct (print_hex_spec n) as (_ & H & _).
  eapply Forall_impl; [|exact H]. intros x Hx E. subst x. exact (Hc Hx).
Qed.

Lemma toks_hex : forall n, toks (print_hex n) = [print_hex n].
Proof. intros n. apply toks_clean. apply print_hex_clean. unfold hexch. lia. Qed.

(** * Strings: any list of code points *)
Lemma toks_str : forall s, toks (ser_str s) = [ser_str s].
Proof.
  intros s. apply toks_clean. unfold ser_str. constructor; [lia|].
  apply Forall_join; [repeat constructor; lia|].
  unfold hex_list. apply Forall_forall. intros x Hx. apply in_map_iff in Hx.
  destruct Hx as (c & Hc & _). subst x. apply print_hex_clean. unfold hexch. lia.
Qed.

Lemma de_ser_str : forall s, de_str (ser_str s) = s.
Proof.
  intros [|c s]; [reflexivity|]. unfold ser_str, hex_list. cbn [map].
  assert (Hne : join [46] (print_hex c :: map print_hex s) <> []).
  { destruct (print_hex c) as [|x xs] eqn:E; [exact (False_ind _ (proj1 (print_hex_spec c) E))|].
    destruct (map print_hex s); discriminate. }
  unfold de_str. destruct (join [46] (print_hex c :: map print_hex s)) as [|x xs] eqn:E;
    [exfalso; exact (Hne eq_refl)|]. rewrite <- E. clear E Hne x xs.
  rewrite split_on_join.
  assert (Hc : forall n, split_on 46 (print_hex n) [] = [print_hex n]).
  { intros n. rewrite split_on_clean; [reflexivity|]. apply print_hex_clean. unfold hexch. lia. }
  rewrite Hc. cbn [app map]. rewrite hex_print. f_equal.
  induction s as [|d s IH]; [reflexivity|].
  cbn [map flat_map]. rewrite Hc. cbn [app map]. rewrite hex_print, IH. reflexivity.
Qed.

(** * The readers of the leaves *)
(** evaluate a reader on a token list whose keywords are literal, leaving the numerals, the
    strings and the counted lists alone *)
Ltac run :=
  lazy -[dec_value hex_value de_str N.land print_dec print_hex ser_str N.to_nat omap de_fts de_elems].
Ltac flat :=
  cbn [ser_test ser_cmp ser_time ser_size ser_field ser_special ser_elem ser_action ser_global];
  repeat (rewrite toks_words; cbn [flat_map]);
  rewrite ?toks_dec, ?toks_str, ?toks_hex.
Ltac leaf := flat; run; rewrite ?dec_print, ?de_ser_str, ?hex_print; reflexivity.

Lemma de_ft_ok : forall t, de_ft (w (ft_name t)) = Some t.
Proof. intros t. destruct t; reflexivity. Qed.

Lemma toks_fts : forall l : list filetype,
  flat_map toks (map (fun t => w (ft_name t)) l) = map (fun t => w (ft_name t)) l.
Proof.
  induction l as [|t l IH]; [reflexivity|]. cbn [map flat_map]. rewrite IH.
  destruct t; reflexivity.
Qed.

Lemma de_fts_ok : forall l rest,
  de_fts (List.length l) (map (fun t => w (ft_name t)) l ++ rest) = Some (l, rest).
Proof.
  induction l as [|t l IH]; intros rest; [reflexivity|].
  cbn [List.length map app de_fts]. rewrite de_ft_ok, IH. reflexivity.
Qed.

Lemma de_test_Type : forall n r,
  de_test (w "Type" :: n :: r) = omap TType (de_fts (N.to_nat (dec_value n)) r).
Proof. reflexivity. Qed.

Lemma de_test_ok : forall t rest, de_test (toks (ser_test t) ++ rest) = Some (mask_test t, rest).
Proof.
  intros t rest.
  destruct t as [c|c| | | |c|c|s|s|c|c|c|s|s|k b|s| |c|c| |l|c| |s|a b|s|s|s|s|s|s|s|s| | |s|s|s].
  - destruct c as [[u n]|[u n]|[u n]]; destruct u; leaf.
  - destruct c as [[u n]|[u n]|[u n]]; destruct u; leaf.
  - leaf.
  - leaf.
  - leaf.
  - destruct c as [n|n|n]; leaf.
  - destruct c as [n|n|n]; leaf.
  - leaf.
  - leaf.
  - destruct c as [n|n|n]; leaf.
  - destruct c as [n|n|n]; leaf.
  - destruct c as [[u n]|[u n]|[u n]]; destruct u; leaf.
  - leaf.
  - leaf.
  - destruct k; leaf.
  - leaf.
  - leaf.
  - destruct c as [[u n]|[u n]|[u n]]; destruct u; leaf.
  - destruct c as [n|n|n]; leaf.
  - leaf.
  - cbn [ser_test]. rewrite toks_words. cbn [flat_map]. rewrite toks_dec, toks_fts.
    change (toks (w "Type")) with [w "Type"]. cbn [app]. rewrite de_test_Type.
    rewrite dec_print, Nat2N.id, de_fts_ok. reflexivity.
  - destruct c as [n|n|n]; leaf.
  - leaf.
  - leaf.
  - leaf.
  - leaf.
  - leaf.
  - leaf.
  - leaf.
  - leaf.
  - leaf.
  - leaf.
  - leaf.
  - leaf.
  - leaf.
  - leaf.
  - leaf.
  - leaf.
Qed.

(** * Format strings *)
Lemma de_field_ok : forall f rest, de_field (toks (ser_field f) ++ rest) = Some (f, rest).
Proof. intros f rest. destruct f; leaf. Qed.

Lemma de_special_ok : forall x rest, de_special (toks (ser_special x) ++ rest) = Some (x, rest).
Proof. intros x rest. destruct x; leaf. Qed.

Lemma de_elem_L : forall r, de_elem (w "L" :: r) = de_s1 ELit r.
Proof. reflexivity. Qed.
Lemma de_elem_F : forall r, de_elem (w "F" :: r) = omap EField (de_field r).
Proof. reflexivity. Qed.
Lemma de_elem_X : forall r, de_elem (w "X" :: r) = omap ESpecial (de_special r).
Proof. reflexivity. Qed.

Lemma de_elem_ok : forall e rest, de_elem (toks (ser_elem e) ++ rest) = Some (e, rest).
Proof.
  intros e rest. destruct e as [s|f|x]; cbn [ser_elem]; rewrite toks_words; cbn [flat_map];
    rewrite app_nil_r.
  - rewrite toks_str. change (toks (w "L")) with [w "L"]. cbn [app]. rewrite de_elem_L.
    unfold de_s1. rewrite de_ser_str. reflexivity.
  - change (toks (w "F")) with [w "F"]. cbn [app]. rewrite de_elem_F, de_field_ok. reflexivity.
  - change (toks (w "X")) with [w "X"]. cbn [app]. rewrite de_elem_X, de_special_ok. reflexivity.
Qed.

Lemma de_elems_ok : forall l rest,
  de_elems (List.length l) (flat_map toks (map ser_elem l) ++ rest) = Some (l, rest).
Proof.
  induction l as [|e l IH]; intros rest; [reflexivity|].
  cbn [List.length map flat_map de_elems]. rewrite <- app_assoc, de_elem_ok, IH. reflexivity.
Qed.

Lemma de_fmt_ok : forall l rest, de_fmt (toks (ser_fmt l) ++ rest) = Some (l, rest).
Proof.
  intros l rest. unfold ser_fmt. rewrite toks_words, toks_dec. cbn [app]. unfold de_fmt.
  rewrite dec_print, Nat2N.id. apply de_elems_ok.
Qed.

(** * Actions and options *)
Lemma de_action_PF : forall r, de_action (w "PrintFormatted" :: r) = omap APrintFormatted (de_fmt r).
Proof. reflexivity. Qed.
Lemma de_action_FPF : forall s r,
  de_action (w "FilePrintFormatted" :: s :: r) = omap (AFilePrintFormatted (de_str s)) (de_fmt r).
Proof. reflexivity. Qed.

Lemma de_action_ok : forall a rest, de_action (toks (ser_action a) ++ rest) = Some (a, rest).
Proof.
  intros a rest. destruct a as [s|s|s|s fmt| | | |fmt| | | |].
  - leaf.
  - leaf.
  - leaf.
  - cbn [ser_action]. rewrite toks_words. cbn [flat_map]. rewrite toks_str, app_nil_r.
    change (toks (w "FilePrintFormatted")) with [w "FilePrintFormatted"]. cbn [app].
    rewrite de_action_FPF, de_fmt_ok, de_ser_str. reflexivity.
  - leaf.
  - leaf.
  - leaf.
  - cbn [ser_action]. rewrite toks_words. cbn [flat_map]. rewrite app_nil_r.
    change (toks (w "PrintFormatted")) with [w "PrintFormatted"]. cbn [app].
    rewrite de_action_PF, de_fmt_ok. reflexivity.
  - leaf.
  - leaf.
  - leaf.
  - leaf.
Qed.

Lemma de_global_ok : forall g rest, de_global (toks (ser_global g) ++ rest) = Some (g, rest).
Proof. intros g rest. destruct g as [|n|n|n]; leaf. Qed.

(** * Expressions *)
Fixpoint depth (e : expr) : nat :=
  match e with
  | EPrec a | ENot a => S (depth a)
  | EAnd a b | EOr a b | EList a b => S (Nat.max (depth a) (depth b))
  | _ => O
  end.

Section Heads.
Variables (f : nat) (r : list str).
Let bin (c : expr -> expr -> expr) :=
  match de_expr f r with
  | Some (a, r1) => match de_expr f r1 with Some (b, r2) => Some (c a b, r2) | None => None end
  | None => None
  end.
Lemma de_expr_And : de_expr (S f) (w "And" :: r) = bin EAnd. Proof. reflexivity. Qed.
Lemma de_expr_Or : de_expr (S f) (w "Or" :: r) = bin EOr. Proof. reflexivity. Qed.
Lemma de_expr_List : de_expr (S f) (w "List" :: r) = bin EList. Proof. reflexivity. Qed.
Lemma de_expr_Not : de_expr (S f) (w "Not" :: r) = omap ENot (de_expr f r). Proof. reflexivity. Qed.
Lemma de_expr_Prec : de_expr (S f) (w "Prec" :: r) = omap EPrec (de_expr f r). Proof. reflexivity. Qed.
Lemma de_expr_T : de_expr (S f) (w "T" :: r) = omap ETest (de_test r). Proof. reflexivity. Qed.
Lemma de_expr_A : de_expr (S f) (w "A" :: r) = omap EAction (de_action r). Proof. reflexivity. Qed.
Lemma de_expr_G : de_expr (S f) (w "G" :: r) = omap EGlobal (de_global r). Proof. reflexivity. Qed.
End Heads.

Ltac head1 s := rewrite toks_words; cbn [flat_map]; rewrite app_nil_r;
  change (toks (w s)) with [w s]; cbn [app].
Ltac head2 s := rewrite toks_words; cbn [flat_map]; rewrite app_nil_r;
  change (toks (w s)) with [w s]; cbn [app]; rewrite <- app_assoc.

Lemma de_expr_ok : forall e fuel rest, (depth e < fuel)%nat ->
  de_expr fuel (toks (ser_expr e) ++ rest) = Some (mask_perm e, rest).
Proof.
  induction e as [a IHa|a IHa|a IHa b IHb|a IHa b IHb|a IHa b IHb|t|a|g|]; intros fuel rest Hf;
    (destruct fuel as [|fuel]; [inversion Hf|]); cbn [depth] in Hf; cbn [ser_expr mask_perm].
  - head1 "Prec"%string. rewrite de_expr_Prec, IHa by lia. reflexivity.
  - head1 "Not"%string. rewrite de_expr_Not, IHa by lia. reflexivity.
  - head2 "And"%string. rewrite de_expr_And, IHa by lia. rewrite IHb by lia. reflexivity.
  - head2 "Or"%string. rewrite de_expr_Or, IHa by lia. rewrite IHb by lia. reflexivity.
  - head2 "List"%string. rewrite de_expr_List, IHa by lia. rewrite IHb by lia. reflexivity.
  - head1 "T"%string. rewrite de_expr_T, de_test_ok. reflexivity.
  - head1 "A"%string. rewrite de_expr_A, de_action_ok. reflexivity.
  - head1 "G"%string. rewrite de_expr_G, de_global_ok. reflexivity.
  - reflexivity.
Qed.

Lemma toks_nonempty_depth : forall e, (depth e < List.length (toks (ser_expr e)))%nat.
Proof.
  induction e as [a IHa|a IHa|a IHa b IHb|a IHa b IHb|a IHa b IHb|t|a|g|];
    cbn [depth ser_expr]; try (rewrite toks_words; cbn [flat_map]; rewrite !app_length).
  - change (List.length (toks (w "Prec"))) with 1%nat. lia.
  - change (List.length (toks (w "Not"))) with 1%nat. lia.
  - change (List.length (toks (w "And"))) with 1%nat. lia.
  - change (List.length (toks (w "Or"))) with 1%nat. lia.
  - change (List.length (toks (w "List"))) with 1%nat. lia.
  - change (List.length (toks (w "T"))) with 1%nat. lia.
  - change (List.length (toks (w "A"))) with 1%nat. lia.
  - change (List.length (toks (w "G"))) with 1%nat. lia.
  - cbn. lia.
Qed.

(** the round trip, for ALL expressions: no side condition on numbers (decimal and hexadecimal
    numerals are exact at any size), strings (any code points) or list lengths *)
Theorem read_ser : forall e, read_expr (toks (ser_expr e)) = Some (mask_perm e).
Proof.
  intros e. unfold read_expr.
  pose proof (de_expr_ok e (S (List.length (toks (ser_expr e)))) [] ) as H.
  rewrite app_nil_r in H. rewrite H; [reflexivity|].
  pose proof (toks_nonempty_depth e). lia.
Qed.

Lemma mask_small : forall e, perm_bits_small e -> mask_perm e = e.
Proof.
  induction e as [a IHa|a IHa|a IHa b IHb|a IHa b IHb|a IHa b IHb|t|a|g|]; cbn [perm_bits_small mask_perm];
    intros H; try reflexivity.
  - rewrite IHa by exact H. reflexivity.
  - rewrite IHa by exact H. reflexivity.
  - destruct H as [Ha Hb]. rewrite IHa, IHb by assumption. reflexivity.
  - destruct H as [Ha Hb]. rewrite IHa, IHb by assumption. reflexivity.
  - destruct H as [Ha Hb]. rewrite IHa, IHb by assumption. reflexivity.
  - destruct t; try reflexivity. cbn [mask_test]. f_equal. f_equal.
    change 4294967295 with (N.ones 32). rewrite N.land_ones. apply N.mod_small. exact H.
Qed.

Theorem read_ser_exact : forall e, perm_bits_small e -> read_expr (toks (ser_expr e)) = Some e.
Proof. intros e H. rewrite read_ser, mask_small by exact H. reflexivity. Qed.

(** the truncation is real: a tree with a wider -perm value does not come back as it was *)
Lemma read_ser_truncates :
  read_expr (toks (ser_expr (ETest (TPerm PAny 4294967296)))) = Some (ETest (TPerm PAny 0)).
Proof. vm_compute. reflexivity. Qed.
