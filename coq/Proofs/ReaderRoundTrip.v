(** Reading back what [print] prints: for every well-formed layout-carrying S-expression the
    reader of Spec/GuileReader.v returns exactly its erasure. *)
From Coq Require Import List String NArith Bool Lia ZifyBool ZifyN.
From FP Require Import Model.Chars Model.Sexp Spec.GuileReader.
Import ListNotations.
Local Open Scope N_scope.

(** * Well-formedness of a layout-carrying S-expression *)

Definition blank (ws : str) : Prop := forallb is_blank ws = true.
Definition nonempty (s : str) : bool := match s with [] => false | _ :: _ => true end.

(** non-empty, made of atom characters, and acceptable as a whole *)
Definition valid_atom (a : str) : bool := nonempty a && forallb atom_char a && atom_ok a.

(** the lettered escapes a b f n r t v 0 *)
Definition esc_letter (c : N) : bool :=
  (c =? 97) || (c =? 98) || (c =? 102) || (c =? 110) || (c =? 114) || (c =? 116) || (c =? 118)
  || (c =? 48).
Definition wf_piece (p : piece) : Prop :=
  match p with PLit _ => True | PEsc c => esc_letter c = true end.

(** must white space stand between [x] and an immediately following [y]?  Yes between two atoms
    (they would fuse) and after an atom starting with '#' (it would become vector/array syntax);
    lists and strings delimit themselves *)
Definition needs_sep (x y : lsexp) : bool :=
  match x with
  | LAtom a => match y with LAtom _ => true | _ => starts_hash a end
  | _ => false
  end.
Definition sep_ok (x : lsexp) (r : litems) : bool :=
  match r with
  | LNil => true
  | LCons ws y _ => nonempty ws || negb (needs_sep x y)
  end.

Fixpoint wf (x : lsexp) : Prop :=
  match x with
  | LAtom a => valid_atom a = true
  | LStr ps => Forall wf_piece ps
  | LList items trail => wf_items items /\ blank trail
  end
with wf_items (l : litems) : Prop :=
  match l with
  | LNil => True
  | LCons ws x r => blank ws /\ wf x /\ sep_ok x r = true /\ wf_items r
  end.

(** * Facts about single characters *)

Lemma atom_char_not_delim : forall c, atom_char c = true ->
  is_blank c = false /\ (c =? 40) = false /\ (c =? 41) = false /\ (c =? 34) = false.
Proof. intros c H. unfold atom_char in H. unfold is_blank. lia. Qed.

Lemma blank_not_atom : forall c, is_blank c = true -> atom_char c = false.
Proof. intros c H. unfold is_blank in H. unfold atom_char. lia. Qed.

Lemma esc_letter_unescape : forall c, esc_letter c = true -> unescape c = Some (esc_value c).
Proof.
  intros c H. unfold esc_letter in H. unfold unescape, esc_value.
  destruct (c =? 92) eqn:E1; [lia|]. destruct (c =? 34) eqn:E2; [lia|].
  destruct (c =? 97); [reflexivity|]. destruct (c =? 98); [reflexivity|].
  destruct (c =? 102); [reflexivity|]. destruct (c =? 110); [reflexivity|].
  destruct (c =? 114); [reflexivity|]. destruct (c =? 116); [reflexivity|].
  destruct (c =? 118); [reflexivity|]. destruct (c =? 48); [reflexivity|].
  cbn in H. discriminate H.
Qed.

(** * Running the machine over the parts of a printed expression *)

Lemma run_cons : forall m cur stk c r,
  run m cur stk (c :: r) =
  match step m cur stk c with Some (m', cur', stk') => run m' cur' stk' r | None => None end.
Proof. reflexivity. Qed.

(** white space between data is skipped *)
Lemma run_blank : forall ws cur stk rest,
  blank ws -> run MTop cur stk (ws ++ rest) = run MTop cur stk rest.
Proof.
  unfold blank. intros ws. induction ws as [|c ws IH]; intros cur stk rest H.
  - reflexivity.
  - cbn [forallb] in H. apply andb_true_iff in H. destruct H as [Hc Hws].
    cbn [app]. rewrite run_cons. cbn [step]. unfold step_top. rewrite Hc. apply IH. exact Hws.
Qed.

(** the characters of an atom accumulate *)
Lemma run_atom_chars : forall a acc cur stk rest,
  forallb atom_char a = true ->
  run (MAtom acc) cur stk (a ++ rest) = run (MAtom (rev a ++ acc)) cur stk rest.
Proof.
  intros a. induction a as [|c a IH]; intros acc cur stk rest H.
  - reflexivity.
  - cbn [forallb] in H. apply andb_true_iff in H. destruct H as [Hc Ha].
    cbn [app]. rewrite run_cons. cbn [step]. rewrite Hc. rewrite IH by exact Ha.
    cbn [rev]. rewrite <- app_assoc. reflexivity.
Qed.

Lemma run_atom_start : forall a cur stk rest,
  nonempty a = true -> forallb atom_char a = true ->
  run MTop cur stk (a ++ rest) = run (MAtom (rev a)) cur stk rest.
Proof.
  intros a cur stk rest Hne H. destruct a as [|c a]; [discriminate Hne|].
  cbn [forallb] in H. apply andb_true_iff in H. destruct H as [Hc Ha].
  destruct (atom_char_not_delim c Hc) as [Hb [H40 [H41 H34]]].
  cbn [app]. rewrite run_cons. cbn [step]. unfold step_top. rewrite Hb, H40, H41, H34, Hc.
  rewrite run_atom_chars by exact Ha. cbn [rev]. reflexivity.
Qed.

(** what may follow an atom [a] immediately: the end of the text, white space, a closing
    parenthesis, or -- unless [a] starts with '#' -- an opening parenthesis or a double quote *)
Definition atom_end (a : str) (rest : str) : Prop :=
  match rest with
  | [] => True
  | c :: _ => is_blank c = true \/ c = 41 \/ ((c = 40 \/ c = 34) /\ starts_hash a = false)
  end.

Lemma run_atom_end : forall acc cur stk rest,
  atom_ok (rev acc) = true -> atom_end (rev acc) rest ->
  run (MAtom acc) cur stk rest = run MTop (SAtom (rev acc) :: cur) stk rest.
Proof.
  intros acc cur stk rest Hok Hend. destruct rest as [|c r].
  - cbn [run finish]. unfold close_atom. rewrite Hok. reflexivity.
  - rewrite !run_cons. cbn [step]. unfold close_atom. rewrite Hok.
    cbn [atom_end] in Hend.
    assert (Hna : atom_char c = false).
    { destruct Hend as [Hb | [-> | [[-> | ->] _]]];
        [apply blank_not_atom; exact Hb | reflexivity | reflexivity | reflexivity]. }
    rewrite Hna.
    assert (Hh : starts_hash (rev acc) && ((c =? 40) || (c =? 34)) = false).
    { destruct Hend as [Hb | [-> | [_ Hs]]].
      - unfold is_blank in Hb. apply andb_false_iff. right. lia.
      - apply andb_false_iff. right. reflexivity.
      - rewrite Hs. reflexivity. }
    rewrite Hh. reflexivity.
Qed.

(** raw text inside a string literal: ALL strings, whatever they contain *)
Lemma run_escape_string : forall u acc cur stk rest,
  run (MStr acc) cur stk (escape_string u ++ rest) = run (MStr (rev u ++ acc)) cur stk rest.
Proof.
  intros u. induction u as [|c u IH]; intros acc cur stk rest.
  - reflexivity.
  - unfold escape_string in *. cbn [flat_map]. rewrite <- app_assoc.
    unfold escape_char at 1.
    destruct ((c =? 34) || (c =? 92)) eqn:E.
    + cbn [app]. rewrite run_cons. cbn [step]. change (92 =? 34) with false. change (92 =? 92) with true.
      cbv iota. rewrite run_cons. cbn [step].
      assert (Hu : unescape c = Some c).
      { unfold unescape. destruct (c =? 92) eqn:E1; [f_equal; lia|].
        destruct (c =? 34) eqn:E2; [f_equal; lia|]. cbn in E. discriminate E. }
      rewrite Hu. rewrite IH. cbn [rev]. rewrite <- app_assoc. reflexivity.
    + cbn [app]. rewrite run_cons. cbn [step].
      apply orb_false_iff in E. destruct E as [E34 E92]. rewrite E34, E92.
      rewrite IH. cbn [rev]. rewrite <- app_assoc. reflexivity.
Qed.

Lemma run_piece : forall p acc cur stk rest,
  wf_piece p ->
  run (MStr acc) cur stk (print_piece p ++ rest) = run (MStr (rev (piece_value p) ++ acc)) cur stk rest.
Proof.
  intros [u|c] acc cur stk rest H.
  - cbn [print_piece piece_value]. apply run_escape_string.
  - cbn [wf_piece] in H. cbn [print_piece piece_value app].
    rewrite run_cons. cbn [step]. change (92 =? 34) with false. change (92 =? 92) with true.
    cbv iota. rewrite run_cons. cbn [step]. rewrite (esc_letter_unescape c H). reflexivity.
Qed.

Lemma run_pieces : forall ps acc cur stk rest,
  Forall wf_piece ps ->
  run (MStr acc) cur stk (flat_map print_piece ps ++ rest)
  = run (MStr (rev (flat_map piece_value ps) ++ acc)) cur stk rest.
Proof.
  intros ps. induction ps as [|p ps IH]; intros acc cur stk rest H.
  - reflexivity.
  - inversion H as [|p' ps' Hp Hps]; subst. cbn [flat_map]. rewrite <- app_assoc.
    rewrite run_piece by exact Hp. rewrite IH by exact Hps.
    rewrite rev_app_distr, <- app_assoc. reflexivity.
Qed.

(** a whole string literal, in any context *)
Lemma run_string_literal : forall ps cur stk rest,
  Forall wf_piece ps ->
  run MTop cur stk (print (LStr ps) ++ rest) = run MTop (SStr (flat_map piece_value ps) :: cur) stk rest.
Proof.
  intros ps cur stk rest H. cbn [print app]. rewrite run_cons. cbn [step].
  unfold step_top. change (is_blank 34) with false. change (34 =? 40) with false.
  change (34 =? 41) with false. change (34 =? 34) with true. cbv iota.
  rewrite <- app_assoc. rewrite run_pieces by exact H. cbn [app]. rewrite run_cons. cbn [step].
  change (34 =? 34) with true. cbv iota. rewrite app_nil_r, rev_involutive. reflexivity.
Qed.

(** the key lemma of the task, in state-machine form: after the opening quote, the escaped form
    of ANY string [u] followed by a closing quote reads as [u], and reading continues after it *)
Lemma read_string_body : forall u cur stk rest,
  run (MStr []) cur stk (escape_string u ++ 34 :: rest) = run MTop (SStr u :: cur) stk rest.
Proof.
  intros u cur stk rest. rewrite run_escape_string. rewrite run_cons. cbn [step].
  change (34 =? 34) with true. cbv iota. rewrite app_nil_r, rev_involutive. reflexivity.
Qed.

(** * The round trip *)

Scheme lsexp_mut := Induction for lsexp Sort Prop
  with litems_mut := Induction for litems Sort Prop.
Combined Scheme lsexp_litems_ind from lsexp_mut, litems_mut.

Definition follows_ok (x : lsexp) (rest : str) : Prop :=
  match x with LAtom a => atom_end a rest | _ => True end.
(** what may follow the items of a list: white space or the closing parenthesis *)
Definition closing (rest : str) : Prop :=
  match rest with [] => False | c :: _ => is_blank c = true \/ c = 41 end.

Lemma closing_atom_end : forall a rest, closing rest -> atom_end a rest.
Proof.
  intros a [|c r] H; cbn [closing atom_end] in *; [exact I|].
  destruct H as [H|H]; [left; exact H | right; left; exact H].
Qed.

Lemma closing_trail : forall trail rest, blank trail -> closing (trail ++ 41 :: rest).
Proof.
  unfold blank. intros [|c t] rest H; cbn [app closing].
  - right. reflexivity.
  - cbn [forallb] in H. apply andb_true_iff in H. left. exact (proj1 H).
Qed.

Lemma print_head : forall x, wf x ->
  match x with
  | LAtom _ => True
  | LStr _ => exists r, print x = 34 :: r
  | LList _ _ => exists r, print x = 40 :: r
  end.
Proof. intros [a|ps|its trail] _; cbn [print]; [exact I | eexists; reflexivity | eexists; reflexivity]. Qed.

(** what follows the atom [a] when the items [r] come next and [rest] closes the list *)
Lemma atom_followed : forall a r rest,
  sep_ok (LAtom a) r = true -> wf_items r -> closing rest ->
  atom_end a (print_items r ++ rest).
Proof.
  intros a [|ws y r'] rest Hsep Hr Hcl.
  - cbn [print_items app]. apply closing_atom_end. exact Hcl.
  - cbn [print_items]. cbn [wf_items] in Hr. destruct Hr as [Hws [Hy _]].
    destruct ws as [|c ws].
    + cbn [sep_ok nonempty orb] in Hsep. apply negb_true_iff in Hsep.
      cbn [app]. destruct y as [b|ps|its trail]; cbn [needs_sep] in Hsep.
      * discriminate Hsep.
      * cbn [print app atom_end]. right. right. split; [right; reflexivity | exact Hsep].
      * cbn [print app atom_end]. right. right. split; [left; reflexivity | exact Hsep].
    + unfold blank in Hws. cbn [forallb] in Hws. apply andb_true_iff in Hws.
      cbn [app atom_end]. left. exact (proj1 Hws).
Qed.

Lemma read_mutual :
  (forall x, forall cur stk rest, wf x -> follows_ok x rest ->
     run MTop cur stk (print x ++ rest) = run MTop (erase x :: cur) stk rest)
  /\
  (forall l, forall cur stk rest, wf_items l -> closing rest ->
     run MTop cur stk (print_items l ++ rest) = run MTop (rev (erase_items l) ++ cur) stk rest).
Proof.
  apply lsexp_litems_ind.
  - (* atom *)
    intros a cur stk rest Hwf Hfol. cbn [wf] in Hwf. unfold valid_atom in Hwf.
    apply andb_true_iff in Hwf. destruct Hwf as [Hwf Hok].
    apply andb_true_iff in Hwf. destruct Hwf as [Hne Hchars].
    cbn [print erase follows_ok] in *.
    rewrite run_atom_start by assumption.
    rewrite run_atom_end; rewrite rev_involutive; [reflexivity | exact Hok | exact Hfol].
  - (* string literal *)
    intros ps cur stk rest Hwf _. cbn [wf] in Hwf. cbn [erase]. apply run_string_literal. exact Hwf.
  - (* list *)
    intros its IH trail cur stk rest Hwf _. cbn [wf] in Hwf. destruct Hwf as [Hits Htrail].
    cbn [print erase app]. rewrite run_cons. cbn [step]. unfold step_top.
    change (is_blank 40) with false. change (40 =? 40) with true. cbv iota.
    rewrite <- !app_assoc.
    rewrite IH by (try exact Hits; apply closing_trail; exact Htrail).
    rewrite run_blank by exact Htrail. cbn [app]. rewrite run_cons. cbn [step]. unfold step_top.
    change (is_blank 41) with false. change (41 =? 40) with false. change (41 =? 41) with true.
    cbv iota. rewrite app_nil_r, rev_involutive. reflexivity.
  - (* no items *)
    intros cur stk rest _ _. reflexivity.
  - (* an item and the following ones *)
    intros ws x IHx r IHr cur stk rest Hwf Hcl. cbn [wf_items] in Hwf.
    destruct Hwf as [Hws [Hx [Hsep Hr]]].
    cbn [print_items erase_items]. rewrite <- !app_assoc.
    rewrite run_blank by exact Hws.
    rewrite IHx.
    + rewrite IHr by assumption. cbn [rev]. rewrite <- app_assoc. reflexivity.
    + exact Hx.
    + destruct x as [a|ps|its trail]; cbn [follows_ok]; [|exact I|exact I].
      apply atom_followed; assumption.
Qed.

Lemma read_item : forall x cur stk rest, wf x -> follows_ok x rest ->
  run MTop cur stk (print x ++ rest) = run MTop (erase x :: cur) stk rest.
Proof. exact (proj1 read_mutual). Qed.

Lemma follows_ok_nil : forall x, follows_ok x [].
Proof. intros [a|ps|its trail]; exact I. Qed.
Lemma follows_ok_blank : forall x c r, is_blank c = true -> follows_ok x (c :: r).
Proof. intros [a|ps|its trail] c r H; cbn [follows_ok atom_end]; [left; exact H | exact I | exact I]. Qed.

Theorem read_print : forall l, wf l -> read_all (print l) = Some [erase l].
Proof.
  intros l H. unfold read_all. rewrite <- (app_nil_r (print l)).
  rewrite read_item; [reflexivity | exact H | apply follows_ok_nil].
Qed.

Theorem read_print2 : forall a b, wf a -> wf b ->
  read_all (print a ++ [10; 10] ++ print b) = Some [erase a; erase b].
Proof.
  intros a b Ha Hb. unfold read_all.
  rewrite read_item; [| exact Ha | apply follows_ok_blank; reflexivity].
  rewrite (run_blank [10; 10]) by reflexivity.
  rewrite <- (app_nil_r (print b)).
  rewrite read_item; [reflexivity | exact Hb | apply follows_ok_nil].
Qed.

(** a user string as a literal: in any context the reader sees exactly the node [SStr u] and
    continues in the same state whatever the characters of [u] are *)
Theorem read_lstr_in_context : forall u cur stk rest,
  run MTop cur stk (print (lstr u) ++ rest) = run MTop (SStr u :: cur) stk rest.
Proof.
  intros u cur stk rest. unfold lstr. rewrite run_string_literal.
  - cbn [flat_map piece_value]. rewrite app_nil_r. reflexivity.
  - constructor; [exact I | constructor].
Qed.

Theorem read_lstr : forall u, read_all (print (lstr u)) = Some [SStr u].
Proof.
  intros u. unfold read_all. rewrite <- (app_nil_r (print (lstr u))).
  rewrite read_lstr_in_context. reflexivity.
Qed.
