(** C19e: the empty format of -printf / (APrintFormatted []) is treated as plain output. *)
From Coq Require Import List String NArith Bool.
From FP Require Import Model.Chars Model.Ast Model.Sexp Model.Compile Spec.Tree Spec.Resources.
From FP Require Import Spec.FileRecord Spec.FindSem Spec.SchemeSem Spec.SchemePrelude Spec.PolicyCalls.
From FP Require Import Proofs.TreeHelpers Proofs.Routing.
Import ListNotations.

Lemma empty_format_no_frames : ~ NeedsFrames (APrintFormatted []).
Proof.
  intros H. inversion H as [| | | | |pre el Hel Heq]. destruct pre; discriminate Heq.
Qed.

Lemma empty_format_alone : complex_frames (EAction (APrintFormatted [])) = false.
Proof. reflexivity. Qed.

(** every action occurrence is either the empty formatted print or needs no frames *)
Definition only_empty_or_plain (e : expr) : Prop :=
  forall a, Subterm (EAction a) e -> a = APrintFormatted [] \/ ~ NeedsFrames a.

Lemma empty_format_deep e : only_empty_or_plain e -> complex_frames e = false.
Proof.
  intros H. destruct (complex_frames e) eqn:E; [|reflexivity].
  apply complex_frames_iff in E as (a & Hs & Hn).
  destruct (H a Hs) as [->|Hno]; [destruct (empty_format_no_frames Hn)|destruct (Hno Hn)].
Qed.

Lemma empty_format_compiled e o clk c :
  compile e o clk = COk c -> only_empty_or_plain e -> c_framed c = false /\ c_iomap c = None.
Proof.
  intros Hc H. destruct (mode_both e o clk c Hc) as [Hm _].
  rewrite (empty_format_deep e H) in Hm. split; [exact Hm|].
  apply (iomap_none_iff e o clk c Hc). exact Hm.
Qed.

(** the meaning: on every host and every file the compiled policy yields true and writes one
    record with an empty payload and no terminator to standard output, in plain mode -- that
    record has no bytes *)
Lemma empty_format_meaning :
  exists c, compile (EAction (APrintFormatted [])) default_options [] = COk c
    /\ c_framed c = false /\ c_iomap c = None
    /\ forall h f, sem_policy h c f = Some (true, [(DStdout, [], None)], false)
                   /\ file_records h c f = Some [[]].
Proof.
  eexists. split; [reflexivity|]. split; [reflexivity|]. split; [reflexivity|].
  intros h f. split; reflexivity.
Qed.

(** find's own semantics of the same expression *)
Lemma empty_format_find h clk f :
  feval h (EAction (APrintFormatted [])) clk f = (true, [(DStdout, [], None)], false).
Proof. reflexivity. Qed.
