(** The clock enters compilation only through the time tests, one reading per test, in
    traversal order. *)
From Coq Require Import List String NArith Bool Arith Lia.
From FP Require Import Model.Chars Model.Ast Model.Sexp Model.Compile.
Import ListNotations.

Fixpoint time_tests (e : expr) : nat :=
  match e with
  | ETest (TAccessTime _) | ETest (TChangeTime _) | ETest (TModifyTime _) => 1
  | EPrec a | ENot a => time_tests a
  | EAnd a b | EOr a b | EList a b => time_tests a + time_tests b
  | _ => 0
  end.

(** two runs agree: same code, same manager, each clock advanced by the number of time tests *)
Definition agree (k : nat) (c1 c2 : list N) (r1 r2 : cres (lsexp * cstate)) : Prop :=
  match r1, r2 with
  | COk (x1, s1), COk (x2, s2) =>
      x1 = x2 /\ st_mgr s1 = st_mgr s2 /\ st_clock s1 = skipn k c1 /\ st_clock s2 = skipn k c2
  | CErr k1 n1, CErr k2 n2 => k1 = k2 /\ n1 = n2
  | CPanic a, CPanic b => a = b
  | _, _ => False
  end.

Lemma firstn_add {A} a b (l1 l2 : list A) :
  firstn (a + b) l1 = firstn (a + b) l2 ->
  firstn a l1 = firstn a l2 /\ firstn b (skipn a l1) = firstn b (skipn a l2).
Proof.
  revert l1 l2. induction a as [|a IH]; intros l1 l2 H; cbn in *; [auto|].
  destruct l1 as [|x l1], l2 as [|y l2]; cbn in *.
  - split; [reflexivity|]. now destruct b.
  - destruct (a + b); discriminate.
  - destruct (a + b); discriminate.
  - inversion H; subst. destruct (IH _ _ H2) as [H3 H4]. split; [now rewrite H3|assumption].
Qed.

Lemma skipn_add {A} a b (l : list A) : skipn b (skipn a l) = skipn (a + b) l.
Proof.
  revert l. induction a as [|a IH]; intro l; cbn; [reflexivity|].
  destruct l; cbn; [now destruct b|apply IH].
Qed.

Lemma hd_firstn1 (c1 c2 : list N) : firstn 1 c1 = firstn 1 c2 -> hd 0%N c1 = hd 0%N c2.
Proof. destruct c1, c2; cbn; intro H; inversion H; reflexivity. Qed.

Lemma tl_skipn1 {A} (l : list A) : tl l = skipn 1 l.
Proof. destruct l; reflexivity. Qed.

Lemma compile_test_agree t m c1 c2 :
  firstn (time_tests (ETest t)) c1 = firstn (time_tests (ETest t)) c2 ->
  agree (time_tests (ETest t)) c1 c2
        (compile_test t {| st_mgr := m; st_clock := c1 |})
        (compile_test t {| st_mgr := m; st_clock := c2 |}).
Proof.
  intro H. destruct t; cbn [time_tests] in *; cbn [compile_test tick st_clock st_mgr with_mgr];
    try (cbn; repeat split; reflexivity);
    try (rewrite (hd_firstn1 _ _ H); cbn; repeat split; try reflexivity; apply tl_skipn1);
    try (unfold with_mgr; cbn [st_mgr st_clock];
         match goal with |- context [get_matcher ?p ?b ?m] => destruct (get_matcher p b m) end;
         cbn; repeat split; reflexivity).
  - match goal with |- context [if ?c then _ else _] => destruct c end; cbn; repeat split; reflexivity.
Qed.

Lemma compile_action_agree a m c1 c2 :
  agree 0 c1 c2 (compile_action a {| st_mgr := m; st_clock := c1 |})
                (compile_action a {| st_mgr := m; st_clock := c2 |}).
Proof.
  destruct a; cbn [compile_action]; unfold with_mgr; cbn [st_mgr st_clock];
    try (cbn; repeat split; reflexivity);
    try (match goal with |- context [get_printer ?t ?m] => destruct (get_printer t m) end);
    try (match goal with |- context [get_file_printer ?f ?t ?m] => destruct (get_file_printer f t m) end);
    try (cbn; repeat split; reflexivity);
    destruct (compile_format fmt); cbn; repeat split; reflexivity.
Qed.

Lemma compile_expr_agree e : forall m c1 c2,
  firstn (time_tests e) c1 = firstn (time_tests e) c2 ->
  agree (time_tests e) c1 c2
        (compile_expr e {| st_mgr := m; st_clock := c1 |})
        (compile_expr e {| st_mgr := m; st_clock := c2 |}).
Proof.
  assert (Hbin : forall op a b,
    (forall m c1 c2, firstn (time_tests a) c1 = firstn (time_tests a) c2 ->
       agree (time_tests a) c1 c2 (compile_expr a {| st_mgr := m; st_clock := c1 |})
                                  (compile_expr a {| st_mgr := m; st_clock := c2 |})) ->
    (forall m c1 c2, firstn (time_tests b) c1 = firstn (time_tests b) c2 ->
       agree (time_tests b) c1 c2 (compile_expr b {| st_mgr := m; st_clock := c1 |})
                                  (compile_expr b {| st_mgr := m; st_clock := c2 |})) ->
    forall m c1 c2, firstn (time_tests a + time_tests b) c1 = firstn (time_tests a + time_tests b) c2 ->
    agree (time_tests a + time_tests b) c1 c2
      (match compile_expr a {| st_mgr := m; st_clock := c1 |} with
       | COk (x, s1) => match compile_expr b s1 with
                        | COk (y, s2) => COk (lst [atom op; x; y], s2)
                        | bad => bad end
       | bad => bad end)
      (match compile_expr a {| st_mgr := m; st_clock := c2 |} with
       | COk (x, s1) => match compile_expr b s1 with
                        | COk (y, s2) => COk (lst [atom op; x; y], s2)
                        | bad => bad end
       | bad => bad end)).
  { intros op a b IHa IHb m c1 c2 H. apply firstn_add in H as [Ha Hb].
    specialize (IHa m c1 c2 Ha).
    destruct (compile_expr a {| st_mgr := m; st_clock := c1 |}) as [[x1 [m1 k1]]|?|?],
             (compile_expr a {| st_mgr := m; st_clock := c2 |}) as [[x2 [m2 k2]]|?|?];
      cbn in IHa; try contradiction; try exact IHa.
    destruct IHa as (-> & Hm & Hk1 & Hk2). cbn in Hm, Hk1, Hk2. subst m2 k1 k2.
    specialize (IHb m1 _ _ Hb).
    destruct (compile_expr b {| st_mgr := m1; st_clock := skipn (time_tests a) c1 |}) as [[y1 s1]|?|?],
             (compile_expr b {| st_mgr := m1; st_clock := skipn (time_tests a) c2 |}) as [[y2 s2]|?|?];
      cbn in IHb; try contradiction; try exact IHb.
    destruct IHb as (-> & Hm' & Hk1' & Hk2'). cbn. repeat split; try assumption;
      rewrite <- skipn_add; assumption. }
  induction e as [e IH|e IH|a IHa b IHb|a IHa b IHb|a IHa b IHb|t|a|g|]; intros m c1 c2 H;
    cbn [time_tests] in *.
  - cbn. reflexivity.
  - cbn [compile_expr]. specialize (IH m c1 c2 H).
    destruct (compile_expr e {| st_mgr := m; st_clock := c1 |}) as [[x1 s1]|?|?],
             (compile_expr e {| st_mgr := m; st_clock := c2 |}) as [[x2 s2]|?|?];
      cbn in IH; try contradiction; try exact IH.
    destruct IH as (-> & ? & ? & ?). cbn. auto.
  - cbn [compile_expr]. now apply Hbin.
  - cbn [compile_expr]. now apply Hbin.
  - cbn [compile_expr]. now apply Hbin.
  - cbn [compile_expr]. now apply compile_test_agree.
  - cbn [compile_expr]. apply compile_action_agree.
  - cbn. reflexivity.
  - cbn. repeat split.
Qed.

Lemma wrap_time_tests e : time_tests (wrap e) = time_tests e.
Proof. unfold wrap. destruct (has_action e); cbn [time_tests]; lia. Qed.

Theorem compile_clock_only e o c1 c2 :
  firstn (time_tests e) c1 = firstn (time_tests e) c2 -> compile e o c1 = compile e o c2.
Proof.
  intro H. unfold compile. rewrite <- wrap_time_tests in H.
  pose proof (compile_expr_agree (wrap e)
                (if complex_frames e then MD dmgr_init else ML lmgr_init) c1 c2 H) as A.
  destruct (compile_expr (wrap e) _) as [[x1 s1]|?|?],
           (compile_expr (wrap e) _) as [[x2 s2]|?|?]; cbn in A; try contradiction.
  - destruct A as (-> & Hm & _ & _). now rewrite Hm.
  - destruct A as [-> ->]. reflexivity.
  - now subst.
Qed.

Corollary compile_no_time_no_clock e o c1 c2 : time_tests e = 0 -> compile e o c1 = compile e o c2.
Proof. intro H. apply compile_clock_only. now rewrite H. Qed.
