(** C17 / C03 (counter half): the only arithmetic left in the compiler is [var_index += 1 / 2];
    the counter is bounded by the number of leaves, so it cannot overflow a u32 for any
    expression with fewer than 2^30 leaves. *)
From Coq Require Import List String NArith Bool Lia ZifyBool ZifyN.
From FP Require Import Model.Chars Model.Ast Model.Sexp Model.Compile Spec.Tree Spec.Resources.
From FP Require Import Proofs.ManagerInv.
Import ListNotations.
Local Open Scope N_scope.

Lemma serve_counter r m : m_idx (snd (serve r m)) <= m_idx m + 3.
Proof.
  rewrite serve_snd. destruct r as [pat ci|[term|f term]], m as [l|d]; cbn [m_idx].
  - unfold l_register_match. destruct (assoc _ _ _); cbn; lia.
  - unfold d_register_match. destruct (assoc _ _ _); cbn; lia.
  - unfold l_register_printer, l_init_default_port. destruct (l_default l); cbn [fst snd];
      destruct (assoc _ _ _); cbn; lia.
  - unfold d_register_printer. destruct (assoc _ _ _); cbn; lia.
  - unfold l_register_printer, l_init_file_port. destruct (assoc str_eqb _ _); cbn [fst snd];
      destruct (assoc _ _ _); cbn; lia.
  - unfold d_register_printer. destruct (assoc _ _ _); cbn; lia.
Qed.
Lemma run_counter rs : forall m, m_idx (run rs m) <= m_idx m + 3 * N.of_nat (List.length rs).
Proof.
  induction rs as [|r rs IH]; intro m; cbn [run fold_left List.length]; [lia|].
  specialize (IH (snd (serve r m))). pose proof (serve_counter r m). unfold run in IH. lia.
Qed.
Lemma requests_leaves e : N.of_nat (List.length (requests e)) <= leaves e.
Proof.
  induction e as [e IH|e IH|a IHa b IHb|a IHa b IHb|a IHa b IHb|t|a|g|]; cbn [requests leaves List.length];
    rewrite ?app_length, ?Nat2N.inj_add; try lia.
  - destruct (test_request t); cbn; lia.
  - destruct (action_request a); cbn; lia.
Qed.

Theorem compile_expr_counter e s x s' :
  compile_expr e s = COk (x, s') ->
  m_idx (st_mgr s) <= m_idx (st_mgr s') <= m_idx (st_mgr s) + 3 * leaves e.
Proof.
  intro H. split; [apply (tables_monotone _ _ _ _ H)|].
  rewrite (compile_expr_run _ _ _ _ H). pose proof (run_counter (requests e) (st_mgr s)).
  pose proof (requests_leaves e). lia.
Qed.

Theorem counter_bound e clk m :
  final_mgr e clk = Some m -> m_idx m <= 2 + 3 * leaves (wrap e).
Proof.
  intro H. rewrite (final_mgr_run _ _ _ H).
  pose proof (run_counter (requests (wrap e)) (init_mgr e)) as Hr.
  pose proof (requests_leaves (wrap e)) as Hl.
  assert (m_idx (init_mgr e) <= 2) by (unfold init_mgr; destruct (complex_frames e); cbn; lia).
  lia.
Qed.

Theorem counter_no_overflow e clk m :
  final_mgr e clk = Some m -> leaves (wrap e) < 2 ^ 30 -> m_idx m < 2 ^ 32.
Proof. intros H Hl. pose proof (counter_bound _ _ _ H). lia. Qed.

Theorem counter_bound_both e clk m :
  final_mgr e clk = Some m ->
  m_idx m <= 2 + 3 * leaves (wrap e)
  /\ (leaves (wrap e) < 2 ^ 30 -> m_idx m < 2 ^ 32).
Proof.
  intro H. split; [exact (counter_bound e clk m H)|exact (counter_no_overflow e clk m H)].
Qed.

Theorem wide_product n u : n < 2 ^ 64 -> n * size_mult u < 2 ^ 128.
Proof.
  intro H. assert (size_mult u <= 2 ^ 40) by (destruct u; cbn; lia).
  apply N.le_lt_trans with (n * 2 ^ 40); [apply N.mul_le_mono_l; assumption|].
  change (2 ^ 128) with (2 ^ 88 * 2 ^ 40). apply N.mul_lt_mono_pos_r; lia.
Qed.
