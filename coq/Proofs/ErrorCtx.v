(** The contexts an argument parser can put on an error never contain one of the three group
    labels "test", "action", "global_option": one lemma per combinator, a syntax-directed solver,
    the parsers of Args, Perm and Format. Consequence: whatever an argument parser fails with,
    the message names the keyword the argument belongs to. *)
From Coq Require Import List String NArith Bool Arith Lia.
From FP Require Import Model.Chars Model.Winnow Model.Ast Model.Args Model.Perm Model.Format Model.Lex
  Model.Parse.
From FP Require Import Spec.Messages Proofs.WinnowFacts Proofs.WinnowTotal Proofs.TokenView
  Proofs.ErrorSane.
Import ListNotations.

Definition benign_b (x : ctx) : bool :=
  match x with
  | Label s => negb (String.eqb s "test" || String.eqb s "action" || String.eqb s "global_option")
  | Expected _ => true
  end.
Definition benign (x : ctx) : Prop := benign_b x = true.

(** [ectx p]: every context on every error of [p] is benign *)
Definition ectx {A} (p : sp A) : Prop :=
  forall i, match p i with (Back c, _) | (Cut c, _) => Forall benign c | _ => True end.

Lemma ectx_pmap {A B} (f : A -> B) (p : sp A) : ectx p -> ectx (pmap f p).
Proof. intros H i. unfold pmap. specialize (H i). destruct (p i) as [[a|x|x|s] r]; exact H. Qed.
Lemma ectx_value {A B} (b : B) (p : sp A) : ectx p -> ectx (value b p).
Proof. apply ectx_pmap. Qed.
Lemma ectx_bind {A B} (p : sp A) (f : A -> sp B) : ectx p -> (forall a, ectx (f a)) -> ectx (bind p f).
Proof.
  intros Hp Hf i. unfold bind. specialize (Hp i). destruct (p i) as [[a|x|x|s] r]; try exact Hp.
  exact (Hf a r).
Qed.
Lemma ectx_preceded {A B} (p : sp A) (q : sp B) : ectx p -> ectx q -> ectx (preceded p q).
Proof. intros Hp Hq. apply ectx_bind; [exact Hp|]. intros _. exact Hq. Qed.
Lemma ectx_terminated {A B} (p : sp A) (q : sp B) : ectx p -> ectx q -> ectx (terminated p q).
Proof. intros Hp Hq. apply ectx_bind; [exact Hp|]. intros a. apply ectx_pmap. exact Hq. Qed.
Lemma ectx_pair {A B} (p : sp A) (q : sp B) : ectx p -> ectx q -> ectx (pair_ p q).
Proof. intros Hp Hq. apply ectx_bind; [exact Hp|]. intros a. apply ectx_pmap. exact Hq. Qed.
Lemma ectx_delimited {A B C} (p : sp A) (q : sp B) (r : sp C) :
  ectx p -> ectx q -> ectx r -> ectx (delimited p q r).
Proof. intros Hp Hq Hr. apply ectx_preceded; [exact Hp|]. apply ectx_terminated; assumption. Qed.
Lemma ectx_separated_pair {A B C} (p : sp A) (s : sp B) (q : sp C) :
  ectx p -> ectx s -> ectx q -> ectx (separated_pair p s q).
Proof.
  intros Hp Hs Hq. apply ectx_bind; [exact Hp|]. intros a.
  apply ectx_preceded; [exact Hs|]. apply ectx_pmap. exact Hq.
Qed.
Lemma ectx_cut_err {A} (p : sp A) : ectx p -> ectx (cut_err p).
Proof. intros H i. unfold cut_err. specialize (H i). destruct (p i) as [[a|x|x|s] r]; exact H. Qed.
Lemma ectx_context {A} k (p : sp A) : benign k -> ectx p -> ectx (context k p).
Proof.
  intros Hk H i. unfold context. specialize (H i). destruct (p i) as [[a|x|x|s] r]; try exact H.
  - apply Forall_app. split; [exact H|constructor; [exact Hk|constructor]].
  - apply Forall_app. split; [exact H|constructor; [exact Hk|constructor]].
Qed.
Lemma ectx_fail {A} : ectx (@fail str A).
Proof. intros i. constructor. Qed.
Lemma ectx_peek {A} (p : sp A) : ectx p -> ectx (peek p).
Proof. intros H i. unfold peek. specialize (H i). destruct (p i) as [[a|x|x|s] r]; exact H. Qed.
Lemma ectx_opt {A} (p : sp A) : ectx p -> ectx (opt p).
Proof. intros H i. unfold opt. specialize (H i). destruct (p i) as [[a|x|x|s] r]; try exact H; exact I. Qed.
Lemma ectx_alt {A} (ps : list (sp A)) : Forall ectx ps -> ectx (alt ps).
Proof.
  induction ps as [|p ps IH]; intros HF.
  - intros i. constructor.
  - inversion HF as [|p' ps' Hp Hps]; subst. destruct ps as [|q l].
    + intros i. rewrite alt_one. exact (Hp i).
    + specialize (IH Hps). intros i. rewrite alt_cons2.
      specialize (Hp i). destruct (p i) as [[a|x|x|s] r]; try exact Hp. exact (IH i).
Qed.
Lemma ectx_try_map {A B} (p : sp A) (f : A -> option B) : ectx p -> ectx (try_map p f).
Proof.
  intros H i. unfold try_map. specialize (H i). destruct (p i) as [[a|x|x|s] r]; try exact H.
  destruct (f a) as [b|]; [exact I|constructor].
Qed.
Lemma ectx_verify {A} (p : sp A) (f : A -> bool) : ectx p -> ectx (verify p f).
Proof. apply ectx_try_map. Qed.

Lemma repeat_fuel_ectx {A} (p : sp A) (Hp : ectx p) : forall fuel i,
  match repeat_fuel slen fuel p i with (Back c, _) | (Cut c, _) => Forall benign c | _ => True end.
Proof.
  induction fuel as [|fuel IH]; intros i; cbn [repeat_fuel]; [exact I|].
  pose proof (Hp i) as Hpi. destruct (p i) as [[a|x|x|s] r]; try exact I; try exact Hpi.
  destruct (Nat.leb (slen i) (slen r)); [exact I|].
  specialize (IH r). destruct (repeat_fuel slen fuel p r) as [[l|x|x|s] r']; try exact I; exact IH.
Qed.
Lemma ectx_repeat0 {A} (p : sp A) : ectx p -> ectx (repeat0 slen p).
Proof. intros Hp i. unfold repeat0. apply repeat_fuel_ectx. exact Hp. Qed.

Lemma rtill_fuel_ectx {A B} (f : sp A) (g : sp B) (Hf : ectx f) (Hg : ectx g) : forall fuel i,
  match rtill_fuel slen fuel f g i with (Back c, _) | (Cut c, _) => Forall benign c | _ => True end.
Proof.
  induction fuel as [|fuel IH]; intros i; cbn [rtill_fuel]; [exact I|].
  pose proof (Hg i) as Hgi. destruct (g i) as [[b|x|x|s] r]; try exact I; try exact Hgi.
  pose proof (Hf i) as Hfi. destruct (f i) as [[a|y|y|s] r1]; try exact I; try exact Hfi.
  destruct (Nat.leb (slen i) (slen r1)); [exact I|].
  specialize (IH r1). destruct (rtill_fuel slen fuel f g r1) as [[[l b]|z|z|s] r']; try exact I; exact IH.
Qed.
Lemma ectx_repeat_till0 {A B} (f : sp A) (g : sp B) : ectx f -> ectx g -> ectx (repeat_till0 slen f g).
Proof. intros Hf Hg i. unfold repeat_till0. apply rtill_fuel_ectx; assumption. Qed.

Lemma sep_fuel_ectx {A B} (p : sp A) (s : sp B) (Hp : ectx p) (Hs : ectx s) : forall fuel i,
  match sep_fuel slen fuel p s i with (Back c, _) | (Cut c, _) => Forall benign c | _ => True end.
Proof.
  induction fuel as [|fuel IH]; intros i; cbn [sep_fuel]; [exact I|].
  pose proof (Hs i) as Hsi. destruct (s i) as [[b|x|x|m] r1]; try exact I; try exact Hsi.
  destruct (Nat.leb (slen i) (slen r1)); [exact I|].
  pose proof (Hp r1) as Hpi. destruct (p r1) as [[a|y|y|m] r2]; try exact I; try exact Hpi.
  specialize (IH r2). destruct (sep_fuel slen fuel p s r2) as [[l|z|z|m] r']; try exact I; exact IH.
Qed.
Lemma ectx_separated1 {A B} (p : sp A) (s : sp B) : ectx p -> ectx s -> ectx (separated1 slen p s).
Proof.
  intros Hp Hs i. unfold separated1.
  pose proof (Hp i) as Hpi. destruct (p i) as [[a|y|y|m] r1]; try exact I; try exact Hpi.
  pose proof (sep_fuel_ectx p s Hp Hs (S (slen r1)) r1) as H.
  destruct (sep_fuel slen (S (slen r1)) p s r1) as [[l|z|z|m] r']; try exact I; exact H.
Qed.

Lemma ectx_literal s : ectx (literal s).
Proof. intros i. unfold literal. destruct (lit_ (chars s) i); [exact I|constructor]. Qed.
Lemma ectx_take_while m p : ectx (take_while m p).
Proof.
  intros i. unfold take_while. destruct (span p i) as [a b].
  destruct (Nat.leb m (List.length a)); [exact I|constructor].
Qed.
Lemma ectx_take_while_mn m n p : ectx (take_while_mn m n p).
Proof.
  intros i. unfold take_while_mn. destruct (span_max n p i) as [a b].
  destruct (Nat.leb m (List.length a)); [exact I|constructor].
Qed.
Lemma ectx_take_until0 c : ectx (take_until0 c).
Proof. intros i. unfold take_until0. destruct (until_ c i) as [[a b]|]; [exact I|constructor]. Qed.
Lemma ectx_eof : ectx (@eof N).
Proof. intros i. unfold eof. destruct i; [exact I|constructor]. Qed.
Lemma ectx_any : ectx (@any N).
Proof. intros i. unfold any. destruct i; [constructor|exact I]. Qed.
Lemma ectx_one_of f : ectx (@one_of N f).
Proof. intros i. unfold one_of. destruct i as [|c i]; [constructor|]. destruct (f c); [exact I|constructor]. Qed.
Lemma ectx_and_then {A} (outer : sp str) (inner : sp A) : ectx outer -> ectx inner -> ectx (and_then outer inner).
Proof.
  intros Ho Hi i. unfold and_then. specialize (Ho i).
  destruct (outer i) as [[o|x|x|s] r]; try exact Ho.
  specialize (Hi o). destruct (inner o) as [[a|x|x|s] r']; exact Hi.
Qed.

Ltac ectx_named := fail.
Ltac ectx_solve :=
  lazymatch goal with
  | |- Forall _ [] => constructor
  | |- Forall _ (_ :: _) => constructor; [ectx_solve | ectx_solve]
  | |- forall _, _ => intro; cbv beta; ectx_solve
  | |- benign _ => reflexivity
  | |- ectx (pmap _ _) => apply ectx_pmap; ectx_solve
  | |- ectx (value _ _) => apply ectx_value; ectx_solve
  | |- ectx (context _ _) => apply ectx_context; ectx_solve
  | |- ectx (cut_err _) => apply ectx_cut_err; ectx_solve
  | |- ectx (alt _) => apply ectx_alt; ectx_solve
  | |- ectx (try_map _ _) => apply ectx_try_map; ectx_solve
  | |- ectx (verify _ _) => apply ectx_verify; ectx_solve
  | |- ectx fail => apply ectx_fail
  | |- ectx (peek _) => apply ectx_peek; ectx_solve
  | |- ectx (opt _) => apply ectx_opt; ectx_solve
  | |- ectx (literal _) => apply ectx_literal
  | |- ectx (take_while _ _) => apply ectx_take_while
  | |- ectx (take_while_mn _ _ _) => apply ectx_take_while_mn
  | |- ectx (take_until0 _) => apply ectx_take_until0
  | |- ectx multispace0 => apply ectx_take_while
  | |- ectx multispace1 => apply ectx_take_while
  | |- ectx digit1 => apply ectx_take_while
  | |- ectx alpha1 => apply ectx_take_while
  | |- ectx eof => apply ectx_eof
  | |- ectx any => apply ectx_any
  | |- ectx (one_of _) => apply ectx_one_of
  | |- ectx (bind _ _) => apply ectx_bind; ectx_solve
  | |- ectx (preceded _ _) => apply ectx_preceded; ectx_solve
  | |- ectx (terminated _ _) => apply ectx_terminated; ectx_solve
  | |- ectx (pair_ _ _) => apply ectx_pair; ectx_solve
  | |- ectx (delimited _ _ _) => apply ectx_delimited; ectx_solve
  | |- ectx (separated_pair _ _ _) => apply ectx_separated_pair; ectx_solve
  | |- ectx (repeat0 slen _) => apply ectx_repeat0; ectx_solve
  | |- ectx (repeat_till0 slen _ _) => apply ectx_repeat_till0; ectx_solve
  | |- ectx (separated1 slen _ _) => apply ectx_separated1; ectx_solve
  | |- ectx (and_then _ _) => apply ectx_and_then; ectx_solve
  | |- _ => first [ assumption | ectx_named ]
  end.

Lemma ectx_parse_uint b : ectx (parse_uint b).
Proof. unfold parse_uint. ectx_solve. Qed.
Lemma ectx_quote_delimiter : ectx quote_delimiter.
Proof. unfold quote_delimiter. ectx_solve. Qed.
Lemma ectx_parse_string : ectx parse_string.
Proof. unfold parse_string. pose proof ectx_quote_delimiter. ectx_solve. Qed.
Lemma ectx_invalid_spec {A} w : ectx (@invalid_spec A w).
Proof. unfold invalid_spec. ectx_solve. Qed.

Ltac ectx_named ::=
  lazymatch goal with
  | |- ectx (parse_uint _) => apply ectx_parse_uint
  | |- ectx parse_u32 => apply ectx_parse_uint
  | |- ectx parse_u64 => apply ectx_parse_uint
  | |- ectx quote_delimiter => apply ectx_quote_delimiter
  | |- ectx parse_string => apply ectx_parse_string
  | |- ectx (invalid_spec _) => apply ectx_invalid_spec
  end.

Lemma ectx_parse_cmp {T} (d : sparser T) : ectx d -> ectx (parse_cmp d).
Proof. intros Hd. unfold parse_cmp. ectx_solve. Qed.
Lemma ectx_parse_size : ectx parse_size.
Proof. unfold parse_size. ectx_solve. Qed.
Lemma ectx_parse_time u : ectx (parse_time u).
Proof. unfold parse_time. ectx_solve. Qed.
Lemma ectx_parse_filetype : ectx parse_filetype.
Proof. unfold parse_filetype. ectx_solve. Qed.
Lemma ectx_parse_filetypes : ectx parse_filetypes.
Proof. unfold parse_filetypes. pose proof ectx_parse_filetype. ectx_solve. Qed.
Lemma ectx_parse_partial : ectx parse_partial.
Proof. unfold parse_partial. ectx_solve. Qed.
Lemma ectx_parse_permission : ectx parse_permission.
Proof. unfold parse_permission. pose proof ectx_parse_partial. ectx_solve. Qed.
Lemma ectx_parse_permcheck : ectx parse_permcheck.
Proof. unfold parse_permcheck. pose proof ectx_parse_permission. ectx_solve. Qed.
Lemma ectx_parse_perm_arg : ectx parse_perm_arg.
Proof. unfold parse_perm_arg. pose proof ectx_parse_permcheck. ectx_solve. Qed.
Lemma ectx_parse_special : ectx parse_special.
Proof. unfold parse_special. ectx_solve. Qed.
Lemma ectx_parse_field : ectx parse_field.
Proof. unfold parse_field. ectx_solve. Qed.
Lemma ectx_parse_element : ectx parse_element.
Proof. unfold parse_element. pose proof ectx_parse_special. pose proof ectx_parse_field. ectx_solve. Qed.
Lemma ectx_parse_format : ectx parse_format.
Proof. unfold parse_format. pose proof ectx_parse_element. ectx_solve. Qed.
Lemma ectx_parse_format_arg : ectx parse_format_arg.
Proof. unfold parse_format_arg. pose proof ectx_parse_format. ectx_solve. Qed.
Lemma ectx_unsupported_u32 : ectx unsupported_u32.
Proof. unfold unsupported_u32. ectx_solve. Qed.

Ltac ectx_named ::=
  lazymatch goal with
  | |- ectx (parse_uint _) => apply ectx_parse_uint
  | |- ectx parse_u32 => apply ectx_parse_uint
  | |- ectx parse_u64 => apply ectx_parse_uint
  | |- ectx quote_delimiter => apply ectx_quote_delimiter
  | |- ectx parse_string => apply ectx_parse_string
  | |- ectx (invalid_spec _) => apply ectx_invalid_spec
  | |- ectx (parse_cmp _) => apply ectx_parse_cmp; ectx_solve
  | |- ectx parse_size => apply ectx_parse_size
  | |- ectx (parse_time _) => apply ectx_parse_time
  | |- ectx parse_filetypes => apply ectx_parse_filetypes
  | |- ectx parse_perm_arg => apply ectx_parse_perm_arg
  | |- ectx parse_format_arg => apply ectx_parse_format_arg
  | |- ectx unsupported_u32 => apply ectx_unsupported_u32
  end.

Lemma arg_table_ectx K k l p : In (K, k, l, p) arg_table -> ectx p.
Proof.
  intros Hin. unfold arg_table in Hin.
  repeat (destruct Hin as [Hin|Hin];
          [inversion Hin; subst; clear Hin; unfold two_args, erased; ectx_solve|]).
  destruct Hin.
Qed.

(** * what the error reporter makes of benign contexts under a primary's labels *)
Definition inv (k : kind) (K : string) (sc : sctx) : Prop :=
  match k with
  | KTest => sc_test sc = Some K
  | KAction => sc_test sc = None /\ sc_action sc = Some K
  | KOption => sc_test sc = None /\ sc_action sc = None /\ sc_global sc = Some K
  end.

Lemma is_empty_name K : K <> ""%string -> is_empty (Some K) = false.
Proof. intros H. destruct K; [contradiction|reflexivity]. Qed.

Lemma benign_label s : benign (Label s) ->
  String.eqb s "test" = false /\ String.eqb s "action" = false /\ String.eqb s "global_option" = false.
Proof.
  unfold benign, benign_b. intros H. apply negb_true_iff in H.
  apply orb_false_iff in H as [H H3]. apply orb_false_iff in H as [H1 H2]. auto.
Qed.

Lemma inv_step k K sc x : K <> ""%string -> inv k K sc -> benign x -> inv k K (fold_ctx sc x).
Proof.
  intros HK Hinv Hx. pose proof (is_empty_name K HK) as HE.
  destruct x as [s|s].
  - destruct (benign_label s Hx) as (E1 & E2 & E3). unfold fold_ctx. rewrite E1.
    destruct k; cbn [inv] in *.
    + rewrite Hinv, HE, E2. destruct (is_empty (sc_action sc)); [reflexivity|].
      rewrite E3. destruct (is_empty (sc_global sc)); first [reflexivity|exact Hinv].
    + destruct Hinv as [H1 H2]. rewrite H1, E2, H2, HE, E3. cbn [is_empty].
      destruct (is_empty (sc_global sc)); cbn [sc_test sc_action]; auto.
    + destruct Hinv as (H1 & H2 & H3). rewrite H1, E2, H2, E3, H3, HE. cbn [is_empty]. auto.
  - destruct k; exact Hinv.
Qed.

Definition init_sc : sctx :=
  {| sc_test := None; sc_action := None; sc_global := None; sc_descr := None |}.

Lemma init_inv k K : K <> ""%string -> benign (Label K) ->
  inv k K (fold_left fold_ctx (rev (primary_ctx K k)) init_sc).
Proof.
  intros HK HB. destruct (benign_label K HB) as (E1 & E2 & E3).
  unfold primary_ctx. cbn [rev app fold_left].
  destruct k; cbn [kind_label].
  - change (fold_ctx (fold_ctx init_sc (Label "syntax")) (Label "test"))
      with {| sc_test := Some ""%string; sc_action := None; sc_global := None; sc_descr := None |}.
    unfold fold_ctx. rewrite E1. reflexivity.
  - change (fold_ctx (fold_ctx init_sc (Label "syntax")) (Label "action"))
      with {| sc_test := None; sc_action := Some ""%string; sc_global := None; sc_descr := None |}.
    unfold fold_ctx. rewrite E1, E2. cbn. auto.
  - change (fold_ctx (fold_ctx init_sc (Label "syntax")) (Label "global_option"))
      with {| sc_test := None; sc_action := None; sc_global := Some ""%string; sc_descr := None |}.
    unfold fold_ctx. rewrite E1, E2, E3. cbn. auto.
Qed.

Lemma fold_inv k K l : K <> ""%string -> Forall benign l ->
  forall sc, inv k K sc -> inv k K (fold_left fold_ctx l sc).
Proof.
  intros HK HF. induction HF as [|x l Hx Hl IH]; intros sc Hsc; [exact Hsc|].
  cbn [fold_left]. apply IH. exact (inv_step k K sc x HK Hsc Hx).
Qed.

Lemma syntax_context_inv c K k : K <> ""%string -> benign (Label K) -> Forall benign c ->
  inv k K (syntax_context (c ++ primary_ctx K k)).
Proof.
  intros HK HB Hc. unfold syntax_context. rewrite rev_app_distr, fold_left_app.
  apply fold_inv; [exact HK|apply Forall_rev; exact Hc|]. exact (init_inv k K HK HB).
Qed.

Lemma inv_kind k K sc : inv k K sc -> kind_of_sc sc = Some (k, K).
Proof.
  unfold kind_of_sc. destruct k; cbn [inv].
  - intros H. rewrite H. reflexivity.
  - intros [H1 H2]. rewrite H1, H2. reflexivity.
  - intros (H1 & H2 & H3). rewrite H1, H2, H3. reflexivity.
Qed.

Theorem message_primary c K k r : K <> ""%string -> benign (Label K) -> Forall benign c ->
  exists e, message (c ++ primary_ctx K k) r = failed_msg (next_word r) k K e.
Proof.
  intros HK HB Hc. rewrite message_eq, (inv_kind k K _ (syntax_context_inv c K k HK HB Hc)).
  eexists. reflexivity.
Qed.

Lemma keyword_benign K k l p : In (K, k, l, p) arg_table -> K <> ""%string /\ benign (Label K).
Proof.
  intros Hin. unfold arg_table in Hin.
  repeat (destruct Hin as [Hin|Hin];
          [inversion Hin; subst; clear Hin; split; [discriminate|reflexivity]|]).
  destruct Hin.
Qed.
