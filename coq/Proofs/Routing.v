(** C10: mode choice, the destination table is the printers table inverted, and it is sound and
    complete for the action occurrences of the expression. *)
From Coq Require Import List String NArith Bool Lia ZifyBool ZifyN.
From FP Require Import Model.Chars Model.Ast Model.Sexp Model.Compile Spec.Tree Spec.Resources.
From FP Require Import Proofs.TreeHelpers Proofs.ManagerInv.
Import ListNotations.
Local Open Scope N_scope.

Theorem mode e o clk c : compile e o clk = COk c -> c_framed c = complex_frames e.
Proof.
  intro H. destruct (compile_final _ _ _ _ H) as (s & _ & Hf & _ & Hfr & _).
  rewrite Hfr. now apply final_mgr_framed with (clk := clk).
Qed.

(** framed exactly when some action occurrence needs frames *)
Theorem mode_iff e o clk c :
  compile e o clk = COk c ->
  (c_framed c = true <-> exists a, Subterm (EAction a) e /\ NeedsFrames a).
Proof. intro H. rewrite (mode _ _ _ _ H). apply complex_frames_iff. Qed.

Theorem mode_both e o clk c :
  compile e o clk = COk c ->
  c_framed c = complex_frames e
  /\ (c_framed c = true <-> exists a, Subterm (EAction a) e /\ NeedsFrames a).
Proof. intro H. split; [exact (mode e o clk c H)|exact (mode_iff e o clk c H)]. Qed.

Theorem iomap_none_iff e o clk c :
  compile e o clk = COk c -> (c_iomap c = None <-> c_framed c = false).
Proof.
  intro H. destruct (compile_final _ _ _ _ H) as (s & _ & _ & _ & Hfr & Hio & _).
  rewrite Hfr, Hio. destruct (st_mgr s); cbn; split; intro; try reflexivity; discriminate.
Qed.

Theorem iomap_inverse e o clk c :
  compile e o clk = COk c -> c_framed c = true ->
  exists d, final_mgr e clk = Some (MD d) /\ c_defs c = d_vars d
            /\ c_iomap c = Some (invert (d_printers d)).
Proof.
  intros H Ht. destruct (compile_final _ _ _ _ H) as (s & _ & Hf & Hd & Hfr & Hio & _).
  rewrite Hfr in Ht. destruct (st_mgr s) as [l|d]; cbn in Ht; [discriminate|].
  exists d. auto.
Qed.
Lemma iomap_some e o clk c tbl :
  compile e o clk = COk c -> c_iomap c = Some tbl ->
  exists d, final_mgr e clk = Some (MD d) /\ c_defs c = d_vars d /\ tbl = invert (d_printers d).
Proof.
  intros H Ht. destruct (c_framed c) eqn:Ef.
  - destruct (iomap_inverse _ _ _ _ H Ef) as (d & H1 & H2 & H3). exists d. repeat split; try assumption.
    congruence.
  - apply (iomap_none_iff _ _ _ _ H) in Ef. congruence.
Qed.

Lemma invert_In tbl i t : In (i, t) (invert tbl) <-> In (t, i) tbl.
Proof.
  unfold invert. rewrite in_map_iff. split.
  - intros [[t' i'] [E Hin]]. now inversion E; subst.
  - intro Hin. now exists (t, i).
Qed.
Lemma invert_fst tbl : map fst (invert tbl) = map snd tbl.
Proof. unfold invert. rewrite map_map. apply map_ext. now intros [t i]. Qed.
Lemma invert_snd tbl : map snd (invert tbl) = map fst tbl.
Proof. unfold invert. rewrite map_map. apply map_ext. now intros [t i]. Qed.

(** * completeness: every targeted action occurrence is in the table *)
Lemma expected_action_complete m a x t :
  expected_action m a = Some x -> action_target a = Some t -> exists i, printer_index m t = Some i.
Proof.
  destruct a; cbn [expected_action action_target]; try discriminate; intros Hx Ht; inversion Ht; subst;
    unfold printer_ref in Hx;
    match type of Hx with context [printer_index ?m ?t] => destruct (printer_index m t) as [i|] end;
    try discriminate; eauto.
Qed.

Lemma subterm_action_leaf a0 a : Subterm (EAction a0) (EAction a) -> a0 = a.
Proof. intro H. inversion H. reflexivity. Qed.

Lemma expected_complete m e : forall clk x clk',
  expected_expr m e clk = Some (x, clk') ->
  forall a t, Subterm (EAction a) e -> action_target a = Some t -> exists i, printer_index m t = Some i.
Proof.
  induction e as [e IH|e IH|a IHa b IHb|a IHa b IHb|a IHa b IHb|t|a|g|]; cbn [expected_expr];
    intros clk x clk' H a0 t0 Hs Ht; try discriminate.
  - destruct (expected_expr m e clk) as [[y c1]|] eqn:E; try discriminate.
    inversion Hs; subst. eapply IH; eassumption.
  - destruct (expected_expr m a clk) as [[y c1]|] eqn:Ea; try discriminate.
    destruct (expected_expr m b c1) as [[z c2]|] eqn:Eb; try discriminate.
    inversion Hs; subst; [eapply IHa|eapply IHb]; eassumption.
  - destruct (expected_expr m a clk) as [[y c1]|] eqn:Ea; try discriminate.
    destruct (expected_expr m b c1) as [[z c2]|] eqn:Eb; try discriminate.
    inversion Hs; subst; [eapply IHa|eapply IHb]; eassumption.
  - destruct (expected_expr m a clk) as [[y c1]|] eqn:Ea; try discriminate.
    destruct (expected_expr m b c1) as [[z c2]|] eqn:Eb; try discriminate.
    inversion Hs; subst; [eapply IHa|eapply IHb]; eassumption.
  - inversion Hs.
  - apply subterm_action_leaf in Hs. subst a0.
    destruct (expected_action m a) as [y|] eqn:E; try discriminate.
    eapply expected_action_complete; eassumption.
Qed.

Theorem complete e o clk c tbl :
  compile e o clk = COk c -> c_iomap c = Some tbl ->
  forall a t, Subterm (EAction a) (wrap e) -> action_target a = Some t -> exists i, In (i, t) tbl.
Proof.
  intros H Ht a t Hs Ha.
  destruct (iomap_some _ _ _ _ _ H Ht) as (d & Hf & _ & ->).
  destruct (reaches _ _ _ _ H) as (m & Hm & _ & Hb). rewrite Hf in Hm. inversion Hm; subst m.
  unfold expected_body in Hb.
  destruct (expected_expr (MD d) (wrap e) clk) as [[x clk']|] eqn:E; [|discriminate].
  destruct (expected_complete _ _ _ _ _ E a t Hs Ha) as [i Hi].
  exists i. apply invert_In. cbn [printer_index] in Hi. now apply (assoc_In _ target_eqb_eq) in Hi.
Qed.

(** * soundness: every entry is the target of some action occurrence *)
Definition dprinters (m : mgr) : list (target * N) :=
  match m with MD d => d_printers d | ML _ => [] end.

Lemma serve_sound r m t i :
  In (t, i) (dprinters (snd (serve r m))) -> In (t, i) (dprinters m) \/ r = RPrint t.
Proof.
  rewrite serve_snd. destruct r as [pat ci|[term|f term]], m as [l|d]; cbn [dprinters]; try contradiction;
    try (unfold d_register_match; destruct (assoc mkey_eqb (pat, ci) (d_matches d)); cbn; auto; fail);
    unfold d_register_printer;
    match goal with |- context [assoc target_eqb ?k ?T] => destruct (assoc target_eqb k T) end;
    cbn [snd d_printers]; auto; rewrite in_snoc; intros [Hi|Hi]; auto; inversion Hi; auto.
Qed.
Lemma run_sound rs t i : forall m,
  In (t, i) (dprinters (run rs m)) -> In (t, i) (dprinters m) \/ In (RPrint t) rs.
Proof.
  induction rs as [|r rs IH]; intro m; cbn [run fold_left]; [auto|].
  intro H. apply IH in H as [H|H]; [|right; now right].
  apply serve_sound in H as [H|H]; [now left|]. right. left. assumption.
Qed.

Lemma requests_sound e t :
  In (RPrint t) (requests e) -> exists a, Subterm (EAction a) e /\ action_target a = Some t.
Proof.
  induction e as [e IH|e IH|a IHa b IHb|a IHa b IHb|a IHa b IHb|u|a|g|]; cbn [requests];
    try contradiction.
  - intro H. destruct (IH H) as (x & Hs & Hx). exists x. split; [now constructor|assumption].
  - intro H. destruct (IH H) as (x & Hs & Hx). exists x. split; [now constructor|assumption].
  - intro H. apply in_app_iff in H as [H|H]; [destruct (IHa H) as (x & Hs & Hx)|destruct (IHb H) as (x & Hs & Hx)];
      exists x; (split; [|assumption]); [now apply Sub_and_l|now apply Sub_and_r].
  - intro H. apply in_app_iff in H as [H|H]; [destruct (IHa H) as (x & Hs & Hx)|destruct (IHb H) as (x & Hs & Hx)];
      exists x; (split; [|assumption]); [now apply Sub_or_l|now apply Sub_or_r].
  - intro H. apply in_app_iff in H as [H|H]; [destruct (IHa H) as (x & Hs & Hx)|destruct (IHb H) as (x & Hs & Hx)];
      exists x; (split; [|assumption]); [now apply Sub_list_l|now apply Sub_list_r].
  - destruct u; cbn; intro H; try contradiction; destruct H as [H|[]]; discriminate.
  - unfold action_request. destruct (action_target a) as [t'|] eqn:E; cbn; [|contradiction].
    intros [H|[]]. inversion H; subst. exists a. split; [constructor|assumption].
Qed.

Theorem sound e o clk c tbl :
  compile e o clk = COk c -> c_iomap c = Some tbl ->
  forall i t, In (i, t) tbl -> exists a, Subterm (EAction a) (wrap e) /\ action_target a = Some t.
Proof.
  intros H Ht i t Hin.
  destruct (iomap_some _ _ _ _ _ H Ht) as (d & Hf & _ & ->).
  apply invert_In in Hin. pose proof (final_mgr_run _ _ _ Hf) as Hr.
  assert (Hd : In (t, i) (dprinters (run (requests (wrap e)) (init_mgr e)))) by now rewrite <- Hr.
  apply run_sound in Hd as [Hd|Hd]; [|now apply requests_sound].
  unfold init_mgr in Hd. destruct (complex_frames e); cbn in Hd; contradiction.
Qed.

(** * tags *)
Theorem tags e o clk c tbl :
  compile e o clk = COk c -> c_iomap c = Some tbl ->
  NoDup (map fst tbl) /\ NoDup (map snd tbl)
  /\ forall i t, In (i, t) tbl -> 2 <= i /\ In (framed_printer_binding i) (c_defs c).
Proof.
  intros H Ht. destruct (iomap_some _ _ _ _ _ H Ht) as (d & Hf & Hd & ->).
  pose proof (final_mgr_inv _ _ _ Hf) as Hi. cbn [minv] in Hi.
  rewrite invert_fst, invert_snd. split; [apply (di_p_vals _ Hi)|]. split; [apply (di_p_keys _ Hi)|].
  intros i t Hin. apply invert_In in Hin. split.
  - pose proof (di_p_bound _ Hi _ _ Hin). lia.
  - rewrite Hd. apply (di_p_bind _ Hi _ _ Hin).
Qed.
