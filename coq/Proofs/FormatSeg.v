(** C14: [parse_format] computes exactly the segmentation of Spec/FormatSpec.v.
    Plan: characterise [parse_field] and [parse_special] against [Directive] / [Escape]
    (both directions), lift to [parse_element], give the chunk parser and the two repeats
    fuel-free equations (Proofs/WinnowFacts.v), then prove
      A [rp_sound]    the answer is always a segmentation or a located error,
      B [rp_complete] every segmentation is the answer,
      C [rp_error]    every located error is the answer. *)
From Coq Require Import List String Ascii NArith Bool Arith Lia ZifyBool ZifyN.
From FP Require Import Model.Chars Model.Winnow Model.Ast Model.Args Model.Format.
From FP Require Import Spec.FormatSpec Proofs.WinnowFacts.
Import ListNotations.
Local Open Scope N_scope.

(** * parse_field *)
(** the shape of the directive alternatives: two keyword tables, four special forms, the cut *)
Definition T1 := firstn 21 directive_table.
Definition T2 := skipn 21 directive_table.
Definition pA : sparser ffield := pmap FAccessFormatted (preceded (literal "A") any).
Definition pC : sparser ffield := pmap FChangeFormatted (preceded (literal "C") any).
Definition pT : sparser ffield := pmap FModifyFormatted (preceded (literal "T") any).
Definition pX : sparser ffield := pmap FXAttr (delimited (literal "{xattr:") alpha1 (literal "}")).
Definition cutp : sparser ffield := cut_err (context (expected "invalid_format_specifier") fail).
Definition field_alts : sparser ffield :=
  alt [ alt (tblp T1); alt (tblp T2 ++ [pA; pC; pT; pX]); cutp ].

Lemma parse_field_pct : forall i, parse_field (pct :: i) = field_alts i.
Proof. intros i. reflexivity. Qed.

Lemma parse_field_nil : parse_field [] = (Back [], []).
Proof. reflexivity. Qed.

Lemma parse_field_other : forall c i, c <> pct -> parse_field (c :: i) = (Back [], c :: i).
Proof.
  intros c i H. unfold parse_field, preceded, bind, literal. cbn [chars lit_].
  change (N_of_ascii "%"%char) with pct.
  destruct (N.eqb_spec pct c) as [E|E]; [congruence|reflexivity].
Qed.

(** ** the four non-keyword alternatives *)
Lemma letter_any_spec : forall (k : string) (kc : N) (F : N -> ffield) i,
  chars k = [kc] ->
  (exists c r, i = kc :: c :: r /\ pmap F (preceded (literal k) any) i = (Ok (F c), r))
  \/ (exists ctx r, pmap F (preceded (literal k) any) i = (Back ctx, r)).
Proof.
  intros k kc F i Hk. unfold pmap, preceded, bind, literal. rewrite Hk. cbn [lit_].
  destruct i as [|d i]; [right; eauto|].
  destruct (N.eqb_spec kc d) as [E|E]; [|right; eauto].
  subst d. destruct i as [|c r]; cbn [any]; [right; eauto|].
  left. exists c, r. split; reflexivity.
Qed.

Lemma is_alpha_letter : forall c, is_alpha c = true <-> Letter c.
Proof. intros c. unfold is_alpha, Letter. lia. Qed.

Lemma is_oct_octal : forall c, is_oct c = true <-> Octal c.
Proof. intros c. unfold is_oct, Octal. lia. Qed.

Lemma span_forall : forall p i a b, span p i = (a, b) ->
  i = a ++ b /\ Forall (fun c => p c = true) a /\ (forall c r, b = c :: r -> p c = false).
Proof.
  intros p. induction i as [|c i IH]; intros a b H; cbn [span] in H.
  - injection H as <- <-. repeat split; [constructor|intros c r E; discriminate].
  - destruct (p c) eqn:Ec.
    + destruct (span p i) as [a' b'] eqn:Es. injection H as <- <-.
      destruct (IH _ _ eq_refl) as [H1 [H2 H3]]. subst i.
      repeat split; [constructor; assumption|exact H3].
    + injection H as <- <-. repeat split; [constructor|].
      intros c' r E. injection E as <- <-. exact Ec.
Qed.

Lemma span_app : forall p a c r, Forall (fun c => p c = true) a -> p c = false ->
  span p (a ++ c :: r) = (a, c :: r).
Proof.
  intros p a c r Ha Hc. induction Ha as [|x a Hx Ha IH]; cbn [span app].
  - rewrite Hc. reflexivity.
  - rewrite Hx, IH. reflexivity.
Qed.

Lemma pX_spec : forall i,
  (exists n r, i = chars "{xattr:" ++ n ++ chars "}" ++ r /\ n <> [] /\ Forall Letter n
               /\ pX i = (Ok (FXAttr n), r))
  \/ (exists ctx r, pX i = (Back ctx, r)).
Proof.
  intros i. cbv [pX pmap delimited preceded terminated bind literal].
  destruct (lit_ (chars "{xattr:") i) as [j|] eqn:E; [|right; eauto].
  apply lit_some in E. subst i.
  cbv [alpha1 take_while]. destruct (span is_alpha j) as [a b] eqn:Es.
  destruct (span_forall _ _ _ _ Es) as [Hj [Ha Hb]].
  destruct a as [|a0 a]; cbn [List.length Nat.leb]; [right; eauto|].
  destruct (lit_ (chars "}") b) as [r|] eqn:El; [|right; eauto].
  apply lit_some in El. subst b j. left. exists (a0 :: a), r.
  split; [reflexivity|]. split; [discriminate|]. split; [|reflexivity].
  eapply Forall_impl; [|exact Ha]. intros c Hc. apply is_alpha_letter. exact Hc.
Qed.

Lemma pX_ok : forall name rest, name <> [] -> Forall Letter name ->
  pX (chars "{xattr:" ++ name ++ chars "}" ++ rest) = (Ok (FXAttr name), rest).
Proof.
  intros name rest Hne Hl.
  cbv [pX pmap delimited preceded terminated bind literal]. rewrite lit_app.
  cbv [alpha1 take_while]. change (chars "}" ++ rest) with (125 :: rest).
  rewrite span_app.
  - destruct name as [|c name]; [congruence|]. reflexivity.
  - eapply Forall_impl; [|exact Hl]. intros c Hc. apply is_alpha_letter. exact Hc.
  - reflexivity.
Qed.

Lemma table_split : directive_table = T1 ++ T2.
Proof. reflexivity. Qed.

Lemma field_alts_cases : forall i,
  (exists d f rest, i = d ++ rest /\ Directive d f /\ field_alts i = (Ok f, rest))
  \/ (exists c r, field_alts i = (Cut c, r)).
Proof.
  intros i. unfold field_alts. rewrite alt_cons, alt_tbl0.
  destruct (lookup T1 i) as [[f r]|] eqn:E1.
  { apply lookup_some in E1. destruct E1 as [w [Hin Hi]].
    left. exists (chars w), f, r. split; [exact Hi|]. split; [|reflexivity].
    apply Dir_word. rewrite table_split. apply in_or_app. left. exact Hin. }
  cbv beta iota. rewrite alt_cons, alt_tbl.
  destruct (lookup T2 i) as [[f r]|] eqn:E2.
  { apply lookup_some in E2. destruct E2 as [w [Hin Hi]].
    left. exists (chars w), f, r. split; [exact Hi|]. split; [|reflexivity].
    apply Dir_word. rewrite table_split. apply in_or_app. right. exact Hin. }
  rewrite alt_cons. unfold pA.
  destruct (letter_any_spec "A" 65 FAccessFormatted i eq_refl) as [[c [r [Hi Hp]]]|[ctx [r Hp]]];
    rewrite Hp; cbv beta iota.
  { left. exists (chars "A" ++ [c]), (FAccessFormatted c), r.
    split; [exact Hi|]. split; [apply Dir_A|reflexivity]. }
  rewrite alt_cons. unfold pC.
  destruct (letter_any_spec "C" 67 FChangeFormatted i eq_refl) as [[c [r' [Hi Hp']]]|[ctx' [r' Hp']]];
    rewrite Hp'; cbv beta iota.
  { left. exists (chars "C" ++ [c]), (FChangeFormatted c), r'.
    split; [exact Hi|]. split; [apply Dir_C|reflexivity]. }
  rewrite alt_cons. unfold pT.
  destruct (letter_any_spec "T" 84 FModifyFormatted i eq_refl) as [[c [r'' [Hi Hp'']]]|[ctx'' [r'' Hp'']]];
    rewrite Hp''; cbv beta iota.
  { left. exists (chars "T" ++ [c]), (FModifyFormatted c), r''.
    split; [exact Hi|]. split; [apply Dir_T|reflexivity]. }
  rewrite alt_cons.
  destruct (pX_spec i) as [[n [rx [Hi [Hne [Hl Hp3]]]]]|[ctx3 [r3 Hp3]]]; rewrite Hp3; cbv beta iota.
  { left. exists (chars "{xattr:" ++ n ++ chars "}"), (FXAttr n), rx.
    split; [rewrite Hi, <- !app_assoc; reflexivity|]. split; [apply Dir_xattr; assumption|reflexivity]. }
  right. eexists. eexists. reflexivity.
Qed.

Lemma parse_field_complete : forall d f rest, Directive d f ->
  parse_field (pct :: d ++ rest) = (Ok f, rest).
Proof.
  intros d f rest H. destruct H as [w f Hin|c|c|c|name Hne Hl].
  - cbn [directive_table In] in Hin.
    repeat (destruct Hin as [Hin|Hin]; [injection Hin as <- <-; reflexivity|]).
    destruct Hin.
  - reflexivity.
  - reflexivity.
  - reflexivity.
  - rewrite parse_field_pct, <- !app_assoc. unfold field_alts.
    rewrite alt_cons, alt_tbl0.
    change (lookup T1 (chars "{xattr:" ++ name ++ chars "}" ++ rest)) with (@None (ffield * str)).
    cbv beta iota. rewrite alt_cons, alt_tbl.
    change (lookup T2 (chars "{xattr:" ++ name ++ chars "}" ++ rest)) with (@None (ffield * str)).
    cbv beta iota.
    rewrite alt_cons.
    change (pA (chars "{xattr:" ++ name ++ chars "}" ++ rest))
      with (@Back ffield [], chars "{xattr:" ++ name ++ chars "}" ++ rest).
    cbv beta iota. rewrite alt_cons.
    change (pC (chars "{xattr:" ++ name ++ chars "}" ++ rest))
      with (@Back ffield [], chars "{xattr:" ++ name ++ chars "}" ++ rest).
    cbv beta iota. rewrite alt_cons.
    change (pT (chars "{xattr:" ++ name ++ chars "}" ++ rest))
      with (@Back ffield [], chars "{xattr:" ++ name ++ chars "}" ++ rest).
    cbv beta iota. rewrite alt_cons, pX_ok by assumption. reflexivity.
Qed.

(** * parse_special *)
Definition escN : list (string * fspecial) := ("0"%string, XNull) :: escape_table.
Definition octp : sparser fspecial :=
  pmap (fun o => XAscii (oct_value o)) (take_while_mn 3 3 is_oct).
Definition special_inner : sparser fspecial := alt (octp :: tblp escN).

Lemma parse_special_bsl : forall i,
  parse_special (bsl :: i) =
  match special_inner i with
  | (Back _, _) => (Ok XBackslash, i)
  | x => x
  end.
Proof.
  intros i.
  change (parse_special (bsl :: i))
    with (match special_inner i with
          | (Ok a, r) => (Ok a, r) | (Back _, _) => (Ok XBackslash, i)
          | (Cut c, r) => (Cut c, r) | (Panic s, r) => (Panic s, r) end).
  destruct (special_inner i) as [[a|c|c|s] r]; reflexivity.
Qed.

Lemma parse_special_nil : parse_special [] = (Back [], []).
Proof. reflexivity. Qed.

Lemma parse_special_other : forall c i, c <> bsl -> parse_special (c :: i) = (Back [], c :: i).
Proof.
  intros c i H. unfold parse_special. cbn [alt]. unfold preceded, bind, value, pmap, literal.
  cbn [chars lit_]. change (N_of_ascii "\"%char) with bsl.
  destruct (N.eqb_spec bsl c) as [E|E]; [congruence|reflexivity].
Qed.

Lemma oct_value3 : forall a b c, Octal a -> Octal b -> Octal c ->
  oct_value [a; b; c] = oct a * 64 + oct b * 8 + oct c.
Proof.
  intros a b c Ha Hb Hc. unfold Octal in *.
  unfold oct_value, radix_value, digit_val, oct. cbn [fold_left]. lia.
Qed.

Lemma octp_spec : forall i,
  (exists a b c r, i = a :: b :: c :: r /\ Octal a /\ Octal b /\ Octal c
                   /\ octp i = (Ok (XAscii (oct a * 64 + oct b * 8 + oct c)), r))
  \/ (octp i = (Back [], i)
      /\ forall a b c r, i = a :: b :: c :: r -> ~ (Octal a /\ Octal b /\ Octal c)).
Proof.
  intros i. unfold octp, pmap, take_while_mn.
  destruct i as [|a [|b [|c r]]]; cbn [span_max].
  - right. split; [reflexivity|]. intros a b c r E. discriminate.
  - right. split; [destruct (is_oct a); reflexivity|]. intros a' b c r E. discriminate.
  - right. split; [destruct (is_oct a); [destruct (is_oct b)|]; reflexivity|].
    intros a' b' c r E. discriminate.
  - destruct (is_oct a) eqn:Ea.
    + destruct (is_oct b) eqn:Eb.
      * destruct (is_oct c) eqn:Ec.
        -- left. exists a, b, c, r. apply is_oct_octal in Ea, Eb, Ec.
           split; [reflexivity|]. repeat (split; [assumption|]).
           cbn [List.length Nat.leb]. rewrite oct_value3 by assumption. reflexivity.
        -- right. split; [reflexivity|]. intros a' b' c' r' E [_ [_ H]].
           injection E as <- <- <- <-. apply is_oct_octal in H. congruence.
      * right. split; [reflexivity|]. intros a' b' c' r' E [_ [H _]].
        injection E as <- <- <- <-. apply is_oct_octal in H. congruence.
    + right. split; [reflexivity|]. intros a' b' c' r' E [H _].
      injection E as <- <- <- <-. apply is_oct_octal in H. congruence.
Qed.

Lemma special_inner_eq : forall i,
  special_inner i =
  match octp i with
  | (Back _, _) => match lookup escN i with Some (x, r) => (Ok x, r) | None => (Back [], i) end
  | x => x
  end.
Proof.
  intros i. unfold special_inner. rewrite alt_cons.
  destruct (octp i) as [[a|c|c|s] r]; try reflexivity.
  change (match tblp escN with [] => (@Back fspecial c, r) | _ :: _ => alt (tblp escN) i end)
    with (alt (tblp escN) i).
  apply alt_tbl0.
Qed.

Lemma lookup_esc_word : forall w x rest, In (w, x) escN -> lookup escN (chars w ++ rest) = Some (x, rest).
Proof.
  intros w x rest Hin. cbn [escN escape_table In] in Hin.
  repeat (destruct Hin as [Hin|Hin]; [injection Hin as <- <-; reflexivity|]).
  destruct Hin.
Qed.

Lemma octp_esc_word : forall w x rest, In (w, x) escape_table ->
  octp (chars w ++ rest) = (Back [], chars w ++ rest).
Proof.
  intros w x rest Hin. cbn [escape_table In] in Hin.
  repeat (destruct Hin as [Hin|Hin]; [injection Hin as <- <-; reflexivity|]).
  destruct Hin.
Qed.

(** when the three-digit alternative fails and no keyword matches, no proper escape starts *)
Lemma no_escape1 : forall i,
  (forall a b c r, i = a :: b :: c :: r -> ~ (Octal a /\ Octal b /\ Octal c)) ->
  lookup escN i = None ->
  forall e x rest, i = e ++ rest -> ~ Escape1 e x rest.
Proof.
  intros i Hoct Hl e x rest Hi H. destruct H as [a b c rest Ha Hb Hc|rest Hn|w x rest Hin].
  - exact (Hoct a b c rest Hi (conj Ha (conj Hb Hc))).
  - subst i. rewrite (lookup_esc_word "0" XNull rest) in Hl; [discriminate|left; reflexivity].
  - subst i. rewrite (lookup_esc_word w x rest) in Hl; [discriminate|right; exact Hin].
Qed.

Lemma parse_special_sound : forall i,
  exists e x rest, i = e ++ rest /\ Escape e x rest /\ parse_special (bsl :: i) = (Ok x, rest).
Proof.
  intros i. rewrite parse_special_bsl, special_inner_eq.
  destruct (octp_spec i) as [[a [b [c [r [Hi [Ha [Hb [Hc Hp]]]]]]]]|[Hp Hno]]; rewrite Hp.
  { exists [a; b; c], (XAscii (oct a * 64 + oct b * 8 + oct c)), r.
    split; [exact Hi|]. split; [left; apply Esc_octal; assumption|reflexivity]. }
  destruct (lookup escN i) as [[x r]|] eqn:El.
  - pose proof El as El'. apply lookup_some in El'. destruct El' as [w [Hin Hi]].
    exists (chars w), x, r. split; [exact Hi|]. split; [|reflexivity]. left.
    destruct Hin as [Hin|Hin].
    + injection Hin as <- <-. apply Esc_null. intros b c r' Hr [Hb Hc].
      apply (Hno 48 b c r'); [subst; reflexivity|].
      split; [unfold Octal; lia|]. split; assumption.
    + apply Esc_word. exact Hin.
  - exists [], XBackslash, i. split; [reflexivity|]. split; [|reflexivity].
    right. split; [reflexivity|]. split; [reflexivity|].
    intros e' x' rest' Hi. exact (no_escape1 i Hno El e' x' rest' Hi).
Qed.

Lemma parse_special_complete : forall e x rest, Escape e x rest ->
  parse_special (bsl :: e ++ rest) = (Ok x, rest).
Proof.
  intros e x rest [H|[He [Hx Hno]]].
  - rewrite parse_special_bsl, special_inner_eq.
    destruct H as [a b c rest Ha Hb Hc|rest Hn|w x rest Hin].
    + destruct (octp_spec ([a; b; c] ++ rest)) as [[a' [b' [c' [r [Hi [_ [_ [_ Hp]]]]]]]]|[_ Hno]].
      * injection Hi as <- <- <- <-. rewrite Hp. reflexivity.
      * exfalso. exact (Hno a b c rest eq_refl (conj Ha (conj Hb Hc))).
    + destruct (octp_spec (chars "0" ++ rest)) as [[a' [b' [c' [r [Hi [_ [Hb [Hc _]]]]]]]]|[Hp _]].
      * exfalso. injection Hi as <- Hr. apply (Hn b' c' r Hr). split; assumption.
      * rewrite Hp. reflexivity.
    + rewrite (octp_esc_word w x rest Hin).
      rewrite (lookup_esc_word w x rest); [reflexivity|right; exact Hin].
  - subst e x. cbn [app]. rewrite parse_special_bsl, special_inner_eq.
    destruct (octp_spec rest) as [[a [b [c [r [Hi [Ha [Hb [Hc Hp]]]]]]]]|[Hp Hoct]].
    + exfalso. apply (Hno [a; b; c] (XAscii (oct a * 64 + oct b * 8 + oct c)) r Hi).
      apply Esc_octal; assumption.
    + rewrite Hp. destruct (lookup escN rest) as [[x r]|] eqn:El; [|reflexivity].
      exfalso. pose proof El as El'. apply lookup_some in El'. destruct El' as [w [Hin Hi]].
      apply (Hno (chars w) x r Hi). destruct Hin as [Hin|Hin].
      * injection Hin as <- <-. apply Esc_null. intros b c r' Hr [Hb Hc].
        apply (Hoct 48 b c r'); [subst; reflexivity|].
        split; [unfold Octal; lia|]. split; assumption.
      * apply Esc_word. exact Hin.
Qed.

(** * parse_element *)
Definition ElemAt (s : str) (el : felem) (r : str) : Prop :=
  (exists d f, s = pct :: d ++ r /\ Directive d f /\ el = EField f)
  \/ (exists e x, s = bsl :: e ++ r /\ Escape e x r /\ el = ESpecial x).

Lemma parse_element_eq : forall i,
  parse_element i =
  match pmap EField parse_field i with
  | (Back _, _) => pmap ESpecial parse_special i
  | x => x
  end.
Proof. intros i. unfold parse_element. cbn [alt]. destruct (pmap EField parse_field i) as [[a|c|c|s] r]; reflexivity. Qed.

Lemma plain_dec : forall c, Plain c \/ c = pct \/ c = bsl.
Proof.
  intros c. destruct (N.eq_dec c pct) as [E|E]; [right; left; exact E|].
  destruct (N.eq_dec c bsl) as [E'|E']; [right; right; exact E'|].
  left. split; assumption.
Qed.

Lemma parse_element_nil : parse_element [] = (Back [], []).
Proof. reflexivity. Qed.

Lemma parse_element_plain : forall c i, Plain c -> parse_element (c :: i) = (Back [], c :: i).
Proof.
  intros c i [H1 H2]. rewrite parse_element_eq. unfold pmap.
  rewrite parse_field_other by exact H1. rewrite parse_special_other by exact H2. reflexivity.
Qed.

Lemma elem_complete : forall s el r, ElemAt s el r -> parse_element s = (Ok el, r).
Proof.
  intros s el r [[d [f [Hs [Hd He]]]]|[e [x [Hs [Hx He]]]]]; subst s el; rewrite parse_element_eq; unfold pmap.
  - rewrite (parse_field_complete d f r Hd). reflexivity.
  - rewrite parse_field_other by discriminate.
    rewrite (parse_special_complete e x r Hx). reflexivity.
Qed.

Lemma elem_pct_cases : forall i,
  (exists el r, ElemAt (pct :: i) el r /\ parse_element (pct :: i) = (Ok el, r))
  \/ ((forall d f r, i = d ++ r -> ~ Directive d f)
      /\ exists ctx r, parse_element (pct :: i) = (Cut ctx, r)).
Proof.
  intros i. rewrite parse_element_eq. unfold pmap.
  destruct (field_alts_cases i) as [[d [f [rest [Hi [Hd Hp]]]]]|[c [r Hp]]].
  - left. exists (EField f), rest. rewrite parse_field_pct, Hp. split; [|reflexivity].
    left. exists d, f. subst i. repeat split. exact Hd.
  - right. split.
    + intros d f r' Hi Hd. subst i. rewrite <- parse_field_pct in Hp.
      rewrite (parse_field_complete d f r' Hd) in Hp. discriminate.
    + rewrite parse_field_pct, Hp. eexists. eexists. reflexivity.
Qed.

Lemma elem_bsl_ok : forall i,
  exists el r, ElemAt (bsl :: i) el r /\ parse_element (bsl :: i) = (Ok el, r).
Proof.
  intros i. destruct (parse_special_sound i) as [e [x [rest [Hi [Hx Hp]]]]].
  exists (ESpecial x), rest. split.
  - right. exists e, x. subst i. repeat split. exact Hx.
  - rewrite parse_element_eq. unfold pmap. rewrite parse_field_other by discriminate.
    rewrite Hp. reflexivity.
Qed.

Lemma elem_ok_inv : forall s el r, parse_element s = (Ok el, r) -> ElemAt s el r.
Proof.
  intros s el r H. destruct s as [|c i]; [rewrite parse_element_nil in H; discriminate|].
  destruct (plain_dec c) as [Hc|[Hc|Hc]].
  - rewrite (parse_element_plain c i Hc) in H. discriminate.
  - subst c. destruct (elem_pct_cases i) as [[el' [r' [Hat Hp]]]|[_ [ctx [r' Hp]]]];
      rewrite Hp in H; [|discriminate].
    injection H as <- <-. exact Hat.
  - subst c. destruct (elem_bsl_ok i) as [el' [r' [Hat Hp]]]. rewrite Hp in H.
    injection H as <- <-. exact Hat.
Qed.

Lemma elem_len : forall s el r, ElemAt s el r -> (List.length r < List.length s)%nat.
Proof.
  intros s el r [[d [f [Hs _]]]|[e [x [Hs _]]]]; subst s; cbn [List.length];
    rewrite app_length; lia.
Qed.

Lemma elem_head : forall c i el r, ElemAt (c :: i) el r -> c = pct \/ c = bsl.
Proof.
  intros c i el r [[d [f [Hs _]]]|[e [x [Hs _]]]]; injection Hs as -> _; [left|right]; reflexivity.
Qed.

Lemma elem_seg : forall s el r es, ElemAt s el r -> Seg r es -> Seg s (el :: es).
Proof.
  intros s el r es [[d [f [Hs [Hd He]]]]|[e [x [Hs [Hx He]]]]] H; subst s el.
  - apply Seg_field; assumption.
  - apply Seg_special; assumption.
Qed.

Lemma elem_err : forall s el r, ElemAt s el r -> SegErr r -> SegErr s.
Proof.
  intros s el r [[d [f [Hs [Hd He]]]]|[e [x [Hs [Hx He]]]]] H; subst s el.
  - eapply Err_field; eassumption.
  - eapply Err_special; eassumption.
Qed.

(** * the chunk parser: a run of plain characters, then one element *)
Definition rt : sparser (str * felem) := repeat_till0 slen any parse_element.
Definition mk (le : str * felem) : list felem :=
  let '(lit, el) := le in match lit with [] => [el] | _ => [ELit lit; el] end.
Definition chunkp : sparser (list felem) := pmap mk rt.
Definition rp : sparser (list (list felem)) := repeat0 slen chunkp.
Definition lit_of (l : str) : format := match l with [] => [] | _ => [ELit l] end.

Lemma any_cons_slen : forall (i : str) a r, any i = (Ok a, r) -> (slen r < slen i)%nat.
Proof. intros i a r H. exact (any_consumes i a r H). Qed.

Lemma rt_unfold : forall i,
  rt i =
  match parse_element i with
  | (Ok b, r) => (Ok ([], b), r)
  | (Cut c, r) => (Cut c, r)
  | (Panic s, r) => (Panic s, r)
  | (Back _, _) =>
      match any i with
      | (Ok a, r) =>
          match rt r with
          | (Ok (l, b), r') => (Ok (a :: l, b), r')
          | (Back c, r') => (Back c, r') | (Cut c, r') => (Cut c, r') | (Panic s, r') => (Panic s, r')
          end
      | (Back c, r) => (Back c, r) | (Cut c, r) => (Cut c, r) | (Panic s, r) => (Panic s, r)
      end
  end.
Proof. intros i. exact (repeat_till0_unfold slen any parse_element any_cons_slen i). Qed.

Lemma rt_plain : forall l rest, Forall Plain l ->
  rt (l ++ rest) =
  match rt rest with
  | (Ok (l', b), r') => (Ok (l ++ l', b), r')
  | x => x
  end.
Proof.
  intros l rest Hl. induction Hl as [|c l Hc Hl IH]; cbn [app].
  - destruct (rt rest) as [[[l' b]|c|c|s] r']; reflexivity.
  - rewrite rt_unfold, (parse_element_plain c _ Hc). cbn [any]. rewrite IH.
    destruct (rt rest) as [[[l' b]|c'|c'|s] r']; reflexivity.
Qed.

Lemma rt_end : forall l, Forall Plain l -> rt l = (Back [], []).
Proof.
  intros l Hl. rewrite <- (app_nil_r l), (rt_plain l [] Hl). reflexivity.
Qed.

Lemma rt_ok : forall l rest el r, Forall Plain l -> parse_element rest = (Ok el, r) ->
  rt (l ++ rest) = (Ok (l, el), r).
Proof.
  intros l rest el r Hl H. rewrite (rt_plain l rest Hl), (rt_unfold rest), H.
  rewrite app_nil_r. reflexivity.
Qed.

Lemma rt_cut : forall l rest c r, Forall Plain l -> parse_element rest = (Cut c, r) ->
  rt (l ++ rest) = (Cut c, r).
Proof.
  intros l rest c r Hl H. rewrite (rt_plain l rest Hl), (rt_unfold rest), H. reflexivity.
Qed.

Lemma chunkp_consumes : forall i ch r, chunkp i = (Ok ch, r) -> (slen r < slen i)%nat.
Proof.
  intros i ch r H. unfold chunkp, pmap in H.
  destruct (rt i) as [[x|c|c|s] r'] eqn:E; try discriminate.
  injection H as _ <-. unfold rt, repeat_till0 in E.
  refine (rtill_fuel_consumes slen any parse_element _ _ _ _ _ E).
  intros j b rj Hj. exact (elem_len _ _ _ (elem_ok_inv _ _ _ Hj)).
Qed.

Lemma rp_unfold : forall i,
  rp i =
  match chunkp i with
  | (Ok a, r) => match rp r with (Ok l, r') => (Ok (a :: l), r') | x => x end
  | (Back _, _) => (Ok [], i)
  | (Cut c, r) => (Cut c, r)
  | (Panic s, r) => (Panic s, r)
  end.
Proof. intros i. exact (repeat0_unfold slen chunkp chunkp_consumes i). Qed.

Lemma parse_format_eq : forall s,
  parse_format s =
  match rp s with
  | (Ok chunks, suffix) => (Ok (List.concat chunks ++ lit_of suffix), [])
  | (Back c, r) => (Back (c ++ [expected "format_string"]), r)
  | (Cut c, r) => (Cut (c ++ [expected "format_string"]), r)
  | (Panic m, r) => (Panic m, r)
  end.
Proof.
  intros s.
  change (parse_format s) with
    (context (expected "format_string")
       (bind rp (fun chunks =>
          pmap (fun suffix => match suffix with
                              | [] => List.concat chunks
                              | _ => List.concat chunks ++ [ELit suffix]
                              end)
               (repeat0 (@List.length N) any))) s).
  unfold context, bind.
  destruct (rp s) as [[chunks|c|c|m] r]; try reflexivity.
  unfold pmap. rewrite repeat0_any.
  destruct r as [|c r]; [rewrite app_nil_r|]; reflexivity.
Qed.

(** * segmentation helpers *)
Lemma split_plain : forall s, exists l rest, s = l ++ rest /\ Forall Plain l /\ Boundary rest.
Proof.
  induction s as [|c s IH].
  - exists [], []. repeat split; [constructor|]. intros c r E. discriminate.
  - destruct (plain_dec c) as [Hc|Hc].
    + destruct IH as [l [rest [Hs [Hl Hb]]]]. exists (c :: l), rest. subst s.
      repeat split; [constructor; assumption|exact Hb].
    + exists [], (c :: s). repeat split; [constructor|].
      intros c' r E. injection E as <- <-. exact Hc.
Qed.

Lemma boundary_plain : forall c l rest, Plain c -> ~ Boundary ((c :: l) ++ rest).
Proof.
  intros c l rest [H1 H2] Hb. destruct (Hb c (l ++ rest) eq_refl); contradiction.
Qed.

Lemma seg_suffix : forall l, Forall Plain l -> Seg l (lit_of l).
Proof.
  intros l Hl. destruct l as [|c l]; [constructor|].
  cbn [lit_of]. rewrite <- (app_nil_r (c :: l)) at 1.
  apply Seg_lit; [discriminate|exact Hl| |constructor].
  intros c' r E. discriminate.
Qed.

Lemma seg_chunk : forall l s el r es, Forall Plain l -> ElemAt s el r -> Seg r es ->
  Seg (l ++ s) (mk (l, el) ++ es).
Proof.
  intros l s el r es Hl Hat Hs. pose proof (elem_seg _ _ _ _ Hat Hs) as H.
  destruct l as [|c l]; [exact H|].
  cbn [mk app]. change (c :: l ++ s) with ((c :: l) ++ s).
  apply Seg_lit; [discriminate|exact Hl| |exact H].
  intros c' r' E. subst s. exact (elem_head _ _ _ _ Hat).
Qed.

Lemma err_plain_app : forall l s, Forall Plain l -> SegErr s -> SegErr (l ++ s).
Proof.
  intros l s Hl H. induction Hl as [|c l Hc Hl IH]; [exact H|].
  cbn [app]. apply Err_plain; assumption.
Qed.

Lemma elem_cases : forall c i, c = pct \/ c = bsl ->
  (exists el r, ElemAt (c :: i) el r /\ parse_element (c :: i) = (Ok el, r))
  \/ (SegErr (c :: i) /\ exists ctx r, parse_element (c :: i) = (Cut ctx, r)).
Proof.
  intros c i [Hc|Hc]; subst c.
  - destruct (elem_pct_cases i) as [H|[Hno H]]; [left; exact H|right].
    split; [apply Err_here; exact Hno|exact H].
  - left. apply elem_bsl_ok.
Qed.

Lemma chunkp_ok : forall l s el r, Forall Plain l -> ElemAt s el r ->
  chunkp (l ++ s) = (Ok (mk (l, el)), r).
Proof.
  intros l s el r Hl Hat. unfold chunkp, pmap.
  rewrite (rt_ok l s el r Hl (elem_complete _ _ _ Hat)). reflexivity.
Qed.

Lemma chunkp_cut : forall l s c r, Forall Plain l -> parse_element s = (Cut c, r) ->
  chunkp (l ++ s) = (Cut c, r).
Proof.
  intros l s c r Hl H. unfold chunkp, pmap. rewrite (rt_cut l s c r Hl H). reflexivity.
Qed.

Lemma chunkp_end : forall l, Forall Plain l -> chunkp l = (Back [], []).
Proof. intros l Hl. unfold chunkp, pmap. rewrite (rt_end l Hl). reflexivity. Qed.

(** * A: the parser's answer is always a segmentation or a located error *)
Lemma rp_sound : forall n s, (slen s < n)%nat ->
  (exists chunks suffix, rp s = (Ok chunks, suffix) /\ Seg s (List.concat chunks ++ lit_of suffix))
  \/ (exists c r, rp s = (Cut c, r) /\ SegErr s).
Proof.
  induction n as [|n IH]; intros s Hn; [lia|].
  destruct (split_plain s) as [l [rest [Hs [Hl Hb]]]]. subst s.
  destruct rest as [|c i].
  - left. exists [], (l ++ []). rewrite app_nil_r. rewrite rp_unfold, (chunkp_end l Hl).
    split; [reflexivity|]. apply seg_suffix. exact Hl.
  - destruct (elem_cases c i (Hb c i eq_refl)) as [[el [r [Hat Hp]]]|[Herr [ctx [r Hp]]]].
    + assert (Hr : (slen r < n)%nat).
      { pose proof (elem_len _ _ _ Hat) as H1. unfold slen in *. rewrite app_length in Hn. lia. }
      rewrite rp_unfold, (chunkp_ok l _ el r Hl Hat).
      destruct (IH r Hr) as [[chunks [suffix [Hrp Hseg]]]|[ctx [r' [Hrp Herr]]]]; rewrite Hrp.
      * left. exists (mk (l, el) :: chunks), suffix. split; [reflexivity|].
        cbn [List.concat]. rewrite <- app_assoc. exact (seg_chunk l _ el r _ Hl Hat Hseg).
      * right. exists ctx, r'. split; [reflexivity|].
        apply err_plain_app; [exact Hl|]. exact (elem_err _ _ _ Hat Herr).
    + right. exists ctx, r. rewrite rp_unfold, (chunkp_cut l _ ctx r Hl Hp).
      split; [reflexivity|]. apply err_plain_app; assumption.
Qed.

(** * B: every segmentation is the parser's answer *)
Lemma rp_complete : forall s es, Seg s es ->
  forall l, Forall Plain l -> l = [] \/ Boundary s ->
  exists chunks suffix, rp (l ++ s) = (Ok chunks, suffix)
                        /\ lit_of l ++ es = List.concat chunks ++ lit_of suffix.
Proof.
  assert (Helem : forall s el rest es l, ElemAt s el rest -> Forall Plain l ->
    (exists chunks suffix, rp ([] ++ rest) = (Ok chunks, suffix)
                           /\ lit_of [] ++ es = List.concat chunks ++ lit_of suffix) ->
    exists chunks suffix, rp (l ++ s) = (Ok chunks, suffix)
                          /\ lit_of l ++ el :: es = List.concat chunks ++ lit_of suffix).
  { intros s el rest es l Hat Hl [chunks [suffix [Hrp Hes]]]. cbn [app lit_of] in Hrp, Hes.
    exists (mk (l, el) :: chunks), suffix.
    rewrite rp_unfold, (chunkp_ok l s el rest Hl Hat), Hrp. split; [reflexivity|].
    cbn [List.concat]. rewrite <- app_assoc, <- Hes. destruct l; reflexivity. }
  intros s es H. induction H as [|d f rest es Hd Hs IH|e x rest es Hx Hs IH|l0 rest es Hne Hl0 Hb Hs IH];
    intros l Hl Hor.
  - exists [], l. rewrite app_nil_r, rp_unfold, (chunkp_end l Hl).
    split; [reflexivity|]. rewrite app_nil_r. reflexivity.
  - apply (Helem _ _ rest); [|exact Hl|apply IH; [constructor|left; reflexivity]].
    left. exists d, f. repeat split. exact Hd.
  - apply (Helem _ _ rest); [|exact Hl|apply IH; [constructor|left; reflexivity]].
    right. exists e, x. repeat split. exact Hx.
  - destruct l0 as [|c0 l0]; [congruence|].
    destruct Hor as [Hor|Hor].
    + subst l. cbn [app lit_of].
      destruct (IH (c0 :: l0) Hl0 (or_intror Hb)) as [chunks [suffix [Hrp Hes]]].
      exists chunks, suffix. split; [exact Hrp|exact Hes].
    + exfalso. inversion Hl0 as [|c0' l0' Hc0 Hl0']. exact (boundary_plain c0 l0 rest Hc0 Hor).
Qed.

(** * C: every located error is the parser's answer *)
Lemma rp_error : forall s, SegErr s ->
  forall l, Forall Plain l -> exists c r, rp (l ++ s) = (Cut c, r).
Proof.
  assert (Helem : forall s el rest l, ElemAt s el rest -> Forall Plain l ->
    (exists c r, rp ([] ++ rest) = (Cut c, r)) -> exists c r, rp (l ++ s) = (Cut c, r)).
  { intros s el rest l Hat Hl [c [r Hrp]]. cbn [app] in Hrp. exists c, r.
    rewrite rp_unfold, (chunkp_ok l s el rest Hl Hat), Hrp. reflexivity. }
  intros s H. induction H as [rest Hno|d f rest Hd Hs IH|e x rest Hx Hs IH|c rest Hc Hs IH];
    intros l Hl.
  - destruct (elem_pct_cases rest) as [[el [r [Hat _]]]|[_ [ctx [r Hp]]]].
    + exfalso. destruct Hat as [[d [f [Hs [Hd _]]]]|[e [x [Hs _]]]]; [|discriminate].
      injection Hs as Hs. exact (Hno d f r Hs Hd).
    + exists ctx, r. rewrite rp_unfold, (chunkp_cut l _ ctx r Hl Hp). reflexivity.
  - apply (Helem _ (EField f) rest); [|exact Hl|apply IH; constructor].
    left. exists d, f. repeat split. exact Hd.
  - apply (Helem _ (ESpecial x) rest); [|exact Hl|apply IH; constructor].
    right. exists e, x. repeat split. exact Hx.
  - change (l ++ c :: rest) with (l ++ [c] ++ rest). rewrite app_assoc.
    apply IH. apply Forall_app. split; [exact Hl|constructor; [exact Hc|constructor]].
Qed.

(** * the theorems *)
Theorem parse_format_total : forall s,
  (exists es, parse_format s = (Ok es, [])) \/ (exists c r, parse_format s = (Cut c, r)).
Proof.
  intros s. rewrite parse_format_eq.
  destruct (rp_sound (S (slen s)) s (Nat.lt_succ_diag_r _))
    as [[chunks [suffix [Hrp _]]]|[c [r [Hrp _]]]]; rewrite Hrp.
  - left. eexists. reflexivity.
  - right. eexists. eexists. reflexivity.
Qed.

Theorem parse_format_seg : forall s es, parse_format s = (Ok es, []) <-> Seg s es.
Proof.
  intros s es. split.
  - intros H. rewrite parse_format_eq in H.
    destruct (rp_sound (S (slen s)) s (Nat.lt_succ_diag_r _))
      as [[chunks [suffix [Hrp Hseg]]]|[c [r [Hrp _]]]]; rewrite Hrp in H; [|discriminate].
    injection H as <-. exact Hseg.
  - intros H. destruct (rp_complete s es H [] (Forall_nil _) (or_introl eq_refl))
      as [chunks [suffix [Hrp Hes]]].
    cbn [app lit_of] in Hrp, Hes. rewrite parse_format_eq, Hrp, Hes. reflexivity.
Qed.

Theorem parse_format_err : forall s, (exists c r, parse_format s = (Cut c, r)) <-> SegErr s.
Proof.
  intros s. split.
  - intros [c [r H]]. rewrite parse_format_eq in H.
    destruct (rp_sound (S (slen s)) s (Nat.lt_succ_diag_r _))
      as [[chunks [suffix [Hrp _]]]|[c' [r' [Hrp Herr]]]]; rewrite Hrp in H; [discriminate|].
    exact Herr.
  - intros H. destruct (rp_error s H [] (Forall_nil _)) as [c [r Hrp]].
    cbn [app] in Hrp. rewrite parse_format_eq, Hrp. eexists. eexists. reflexivity.
Qed.

Theorem seg_unique : forall s es1 es2, Seg s es1 -> Seg s es2 -> es1 = es2.
Proof.
  intros s es1 es2 H1 H2. apply parse_format_seg in H1, H2. congruence.
Qed.

(** * corollaries about the specification itself *)
Theorem seg_or_err : forall s, (exists es, Seg s es) \/ SegErr s.
Proof.
  intros s. destruct (parse_format_total s) as [[es H]|H].
  - left. exists es. apply parse_format_seg. exact H.
  - right. apply parse_format_err. exact H.
Qed.

Theorem seg_err_exclusive : forall s es, Seg s es -> SegErr s -> False.
Proof.
  intros s es H1 H2. apply parse_format_seg in H1. apply parse_format_err in H2.
  destruct H2 as [c [r H2]]. congruence.
Qed.

Lemma seg_head_lit : forall s l es, Seg s (ELit l :: es) ->
  exists c l' rest, l = c :: l' /\ Plain c /\ s = (c :: l') ++ rest.
Proof.
  intros s l es H. inversion H as [| | |l0 rest es0 Hne Hl0 Hb Hs E1 E2]. subst.
  destruct l as [|c l']; [congruence|]. exists c, l', rest.
  inversion Hl0 as [|c' l'' Hc Hl']. split; [reflexivity|]. split; [exact Hc|reflexivity].
Qed.

Theorem seg_literals : forall s es, Seg s es ->
  ~ In (ELit []) es /\ forall pre l1 l2 post, es <> pre ++ ELit l1 :: ELit l2 :: post.
Proof.
  intros s es H. induction H as [|d f rest es Hd Hs [IH1 IH2]|e x rest es Hx Hs [IH1 IH2]
                                |l rest es Hne Hl Hb Hs [IH1 IH2]].
  - split; [intros H; exact H|]. intros pre l1 l2 post E. destruct pre; discriminate.
  - split; [intros [H|H]; [discriminate|exact (IH1 H)]|].
    intros pre l1 l2 post E. destruct pre as [|y pre]; [discriminate|].
    injection E as _ E. exact (IH2 _ _ _ _ E).
  - split; [intros [H|H]; [discriminate|exact (IH1 H)]|].
    intros pre l1 l2 post E. destruct pre as [|y pre]; [discriminate|].
    injection E as _ E. exact (IH2 _ _ _ _ E).
  - split; [intros [H|H]; [injection H as H; exact (Hne H)|exact (IH1 H)]|].
    intros pre l1 l2 post E. destruct pre as [|y pre].
    + injection E as _ E. subst es.
      destruct (seg_head_lit _ _ _ Hs) as [c [l' [rest' [_ [Hc Hr]]]]]. subst rest.
      exact (boundary_plain c l' rest' Hc Hb).
    + injection E as _ E. exact (IH2 _ _ _ _ E).
Qed.
