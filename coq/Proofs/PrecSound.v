From Coq Require Import List Arith Lia Bool.
From FP Require Import Model.Ast Model.Lex Model.Prec Spec.Grammar.
Import ListNotations.


Ltac fin := exists []; split; [reflexivity | rewrite app_nil_r; assumption].

Definition sound_at (G : list token -> expr -> Prop) (f : list token -> pres) : Prop :=
  forall ts e r, f ts = POk e r -> exists pre, ts = pre ++ r /\ G pre e /\ pre <> [].

Lemma and_loop_sound atomf (Ha : sound_at (GAtom) atomf) :
  forall k acc ts e r pre0, GAnd pre0 acc ->
    and_loop atomf k acc ts = POk e r ->
    exists pre, ts = pre ++ r /\ GAnd (pre0 ++ pre) e.
Proof.
  induction k as [|k IH]; intros acc ts e r pre0 Hacc H; cbn [and_loop] in H.
  - inversion H; subst. fin.
  - destruct ts as [|t ts'].
    + destruct (atomf []) as [e' r'|  |] eqn:Ea; try discriminate.
      { apply Ha in Ea. destruct Ea as (pre & Hp & _ & Hne). destruct pre; [congruence|cbn in Hp; discriminate]. }
      { inversion H; subst. fin. }
    + assert (Hgen: forall e' r', atomf (t :: ts') = POk e' r' ->
               and_loop atomf k (EAnd acc e') r' = POk e r ->
               exists pre, t :: ts' = pre ++ r /\ GAnd (pre0 ++ pre) e).
      { intros e' r' Ea Hl. apply Ha in Ea. destruct Ea as (p1 & Hp1 & G1 & _).
        eapply IH in Hl. 2:{ eapply GN_imp; eauto. }
        destruct Hl as (p2 & Hp2 & G2). exists (p1 ++ p2). split.
        - rewrite Hp1, Hp2. now rewrite app_assoc.
        - now rewrite app_assoc. }
      destruct t; try (destruct (atomf _) as [e' r'| |] eqn:Ea; try discriminate;
                       [eapply Hgen; eauto | inversion H; subst; fin]).
      (* KAnd *)
      destruct (atomf ts') as [e' r'| |] eqn:Ea; try discriminate.
      apply Ha in Ea. destruct Ea as (p1 & Hp1 & G1 & _).
      eapply IH in H. 2:{ eapply GN_exp; eauto. }
      destruct H as (p2 & Hp2 & G2). exists (KAnd :: p1 ++ p2). split.
      * cbn. rewrite Hp1, Hp2. now rewrite app_assoc.
      * replace (pre0 ++ KAnd :: p1 ++ p2) with ((pre0 ++ KAnd :: p1) ++ p2) by (rewrite <- app_assoc; reflexivity). exact G2.
Qed.

Lemma and_sound atomf (Ha : sound_at (GAtom) atomf) : sound_at (GAnd) (and_ atomf).
Proof.
  intros ts e r H. unfold and_ in H.
  destruct (atomf ts) as [e' r'| |] eqn:Ea; try discriminate.
  apply Ha in Ea. destruct Ea as (p1 & Hp1 & G1 & Hne).
  eapply and_loop_sound in H; eauto. 2:{ apply GN_one; eauto. }
  destruct H as (p2 & Hp2 & G2). exists (p1 ++ p2). repeat split.
  - rewrite Hp1, Hp2. now rewrite app_assoc.
  - exact G2.
  - destruct p1; [congruence|discriminate].
Qed.

Lemma or_loop_sound atomf (Ha : sound_at (GAtom) atomf) :
  forall k acc ts e r pre0, GOr pre0 acc ->
    or_loop atomf k acc ts = POk e r ->
    exists pre, ts = pre ++ r /\ GOr (pre0 ++ pre) e.
Proof.
  induction k as [|k IH]; intros acc ts e r pre0 Hacc H; cbn [or_loop] in H.
  - inversion H; subst. fin.
  - destruct ts as [|[] ts']; try (inversion H; subst; fin; fail).
    destruct (and_ atomf ts') as [e' r'| |] eqn:Ea; try discriminate.
    apply (and_sound _ Ha) in Ea. destruct Ea as (p1 & Hp1 & G1 & _).
    eapply IH in H. 2:{ eapply GO_or; eauto. }
    destruct H as (p2 & Hp2 & G2). exists (KOr :: p1 ++ p2). split.
    + cbn. rewrite Hp1, Hp2. now rewrite app_assoc.
    + replace (pre0 ++ KOr :: p1 ++ p2) with ((pre0 ++ KOr :: p1) ++ p2) by (rewrite <- app_assoc; reflexivity). exact G2.
Qed.

Lemma or_sound atomf (Ha : sound_at (GAtom) atomf) : sound_at (GOr) (or_ atomf).
Proof.
  intros ts e r H. unfold or_ in H.
  destruct (and_ atomf ts) as [e' r'| |] eqn:Ea; try discriminate.
  apply (and_sound _ Ha) in Ea. destruct Ea as (p1 & Hp1 & G1 & Hne).
  eapply or_loop_sound in H; eauto. 2:{ apply GO_one; eauto. }
  destruct H as (p2 & Hp2 & G2). exists (p1 ++ p2). repeat split.
  - rewrite Hp1, Hp2. now rewrite app_assoc.
  - exact G2.
  - destruct p1; [congruence|discriminate].
Qed.

Lemma list_loop_sound atomf (Ha : sound_at (GAtom) atomf) :
  forall k acc ts e r pre0, GList pre0 acc ->
    list_loop atomf k acc ts = POk e r ->
    exists pre, ts = pre ++ r /\ GList (pre0 ++ pre) e.
Proof.
  induction k as [|k IH]; intros acc ts e r pre0 Hacc H; cbn [list_loop] in H.
  - inversion H; subst. fin.
  - destruct ts as [|[] ts']; try (inversion H; subst; fin; fail).
    destruct (or_ atomf ts') as [e' r'| |] eqn:Ea; try discriminate.
    apply (or_sound _ Ha) in Ea. destruct Ea as (p1 & Hp1 & G1 & _).
    eapply IH in H. 2:{ eapply GL_cm; eauto. }
    destruct H as (p2 & Hp2 & G2). exists (KComma :: p1 ++ p2). split.
    + cbn. rewrite Hp1, Hp2. now rewrite app_assoc.
    + replace (pre0 ++ KComma :: p1 ++ p2) with ((pre0 ++ KComma :: p1) ++ p2) by (rewrite <- app_assoc; reflexivity). exact G2.
Qed.

Lemma list_sound atomf (Ha : sound_at (GAtom) atomf) : sound_at (GList) (list_ atomf).
Proof.
  intros ts e r H. unfold list_ in H.
  destruct (or_ atomf ts) as [e' r'| |] eqn:Ea; try discriminate.
  apply (or_sound _ Ha) in Ea. destruct Ea as (p1 & Hp1 & G1 & Hne).
  eapply list_loop_sound in H; eauto. 2:{ apply GL_one; eauto. }
  destruct H as (p2 & Hp2 & G2). exists (p1 ++ p2). repeat split.
  - rewrite Hp1, Hp2. now rewrite app_assoc.
  - exact G2.
  - destruct p1; [congruence|discriminate].
Qed.

Lemma atom_sound : forall n, sound_at (GAtom) (atom n).
Proof.
  induction n as [|n IH]; intros ts e r H; cbn [atom] in H; [discriminate|].
  destruct ts as [|t ts']; [discriminate|].
  destruct t as [| | | | | |p]; try discriminate.
  - (* LP *)
    destruct (list_ (atom n) ts') as [e' r'| |] eqn:El; try discriminate.
    destruct r' as [|[] r'']; try discriminate. inversion H; subst.
    apply (list_sound _ IH) in El. destruct El as (p & Hp & G & _).
    exists (KLParen :: p ++ [KRParen]). repeat split; [|constructor; auto|discriminate].
    cbn. rewrite Hp. rewrite <- app_assoc. reflexivity.
  - (* Not *)
    destruct (atom n ts') as [e' r'| |] eqn:Ea; try discriminate. inversion H; subst.
    apply IH in Ea. destruct Ea as (p & Hp & G & _).
    exists (KNot :: p). repeat split; [cbn; now rewrite Hp|constructor; auto|discriminate].
  - inversion H; subst. exists [KPrim p]. repeat split; [constructor|discriminate].
Qed.


