(** The prelude of a compiled policy denotes an environment agreeing with the final manager
    tables; hence the compiled policy as a whole means the (wrapped) expression. *)
From Coq Require Import List String NArith ZArith Bool Lia ZifyBool ZifyN.
From FP Require Import Model.Chars Model.Ast Model.Sexp Model.Compile
  Spec.FileRecord Spec.FindSem Spec.SchemeSem Spec.SchemeEnv Spec.SchemePrelude
  Proofs.SemFacts Proofs.MgrEnv Proofs.TransTests Proofs.Translation
  Spec.GuileReader Proofs.ReaderRoundTrip Proofs.CompileWf Proofs.TransFormat
  Proofs.PreludeNames Proofs.PreludeInv.
Import ListNotations.
Local Open Scope N_scope.

Definition minv (io : list (N * target)) (m : mgr) (e : env) : Prop :=
  match m with ML l => linv l e | MD d => dinv io d e end.
Definition mwf (m : mgr) : Prop := match m with ML _ => True | MD d => dwf d end.
Definition mio_ok (io : list (N * target)) (m : mgr) : Prop :=
  match m with ML _ => True | MD d => io_ok io d end.
Definition same_mode (m m' : mgr) : Prop :=
  match m, m' with ML _, ML _ | MD _, MD _ => True | _, _ => False end.

Lemma same_mode_refl : forall m, same_mode m m.
Proof. intros [l|d]; exact I. Qed.
Lemma same_mode_trans : forall a b c, same_mode a b -> same_mode b c -> same_mode a c.
Proof. intros [a|a] [b|b] [c|c] H1 H2; try exact I; contradiction. Qed.

Lemma mio_ok_le : forall io m mf, mgr_le m mf -> same_mode m mf -> mio_ok io mf -> mio_ok io m.
Proof.
  intros io [l|d] [lf|df] [_ Hle] Hm Hio; try exact I; try contradiction.
  intros t i Hin. apply Hio. exact (Hle t i Hin).
Qed.

Lemma minv_agrees : forall io m e, minv io m e -> env_agrees e m.
Proof. intros io [l|d] e H; [exact (linv_agrees l e H) | exact (dinv_agrees io d e H)]. Qed.

(** one manager operation, or a sequence of them *)
Definition step (io : list (N * target)) (m m' : mgr) : Prop :=
  mgr_le m m' /\ same_mode m m' /\ (mwf m -> mwf m')
  /\ forall mf e, minv io m e -> mgr_le m' mf -> same_mode m' mf -> mio_ok io mf ->
       exists e', minv io m' e'.

Lemma step_refl : forall io m, step io m m.
Proof.
  intros io m. split; [apply mgr_le_refl|]. split; [apply same_mode_refl|]. split; [intros H; exact H|].
  intros mf e H _ _ _. exists e. exact H.
Qed.

Lemma step_trans : forall io a b c, step io a b -> step io b c -> step io a c.
Proof.
  intros io a b c (L1 & M1 & W1 & I1) (L2 & M2 & W2 & I2).
  split; [exact (mgr_le_trans _ _ _ L1 L2)|]. split; [exact (same_mode_trans _ _ _ M1 M2)|].
  split; [intros H; exact (W2 (W1 H))|].
  intros mf e H Hle Hm Hio.
  destruct (I1 mf e H (mgr_le_trans _ _ _ L2 Hle) (same_mode_trans _ _ _ M2 Hm) Hio) as [e1 H1].
  exact (I2 mf e1 H1 Hle Hm Hio).
Qed.

Lemma get_matcher_step : forall io pat ci m x m', get_matcher pat ci m = (x, m') -> step io m m'.
Proof.
  intros io pat ci m x m' E. destruct (get_matcher_spec _ _ _ _ _ E) as [Hle _].
  split; [exact Hle|]. destruct m as [l|d]; cbn [get_matcher] in E.
  - destruct (l_register_match pat ci l) as [i l1] eqn:E1. injection E as _ <-.
    split; [exact I|]. split; [intros _; exact I|].
    intros mf e H _ _ _. exact (l_register_match_inv pat ci l e i l1 H E1).
  - destruct (d_register_match pat ci d) as [i d1] eqn:E1. injection E as _ <-.
    split; [exact I|]. split.
    + intros [Hnd Hlt]. unfold d_register_match in E1.
      destruct (assoc mkey_eqb (pat, ci) (d_matches d)); injection E1 as _ <-; [split; assumption|].
      split; [exact Hnd|]. intros t i' Hin. cbn [d_printers d_idx] in *. pose proof (Hlt t i' Hin). lia.
    + intros mf e H _ _ _. exact (d_register_match_inv io pat ci d e i d1 H E1).
Qed.

Lemma get_printer_step : forall io term m x m',
  term_small term -> get_printer term m = (x, m') -> step io m m'.
Proof.
  intros io term m x m' Hterm E. destruct (get_printer_spec _ _ _ _ E) as [Hle _].
  split; [exact Hle|]. destruct m as [l|d]; cbn [get_printer] in E.
  - destruct (l_init_default_port l) as [p l1] eqn:E1.
    destruct (l_register_printer p term l1) as [i l2] eqn:E2. injection E as _ <-.
    split; [exact I|]. split; [intros _; exact I|].
    intros mf e H _ _ _.
    destruct (l_init_default_port_inv l e p l1 H E1) as [e1 [H1 Hd]].
    exact (l_register_printer_inv p term l1 e1 i l2 DStdout H1 Hterm Hd E2).
  - destruct (d_register_printer (TStdout term) d) as [i d1] eqn:E1. injection E as _ <-.
    split; [exact I|]. split; [intros Hw; exact (d_register_printer_wf _ _ _ _ Hw E1)|].
    intros mf e H Hle' Hm Hio.
    exact (d_register_printer_inv io _ d e i d1 H E1 (mio_ok_le io (MD d1) mf Hle' Hm Hio)).
Qed.

Lemma get_file_printer_step : forall io f term m x m',
  term_small term -> get_file_printer f term m = (x, m') -> step io m m'.
Proof.
  intros io f term m x m' Hterm E. destruct (get_file_printer_spec _ _ _ _ _ E) as [Hle _].
  split; [exact Hle|]. destruct m as [l|d]; cbn [get_file_printer] in E.
  - destruct (l_init_file_port f l) as [p l1] eqn:E1.
    destruct (l_register_printer p term l1) as [i l2] eqn:E2. injection E as _ <-.
    split; [exact I|]. split; [intros _; exact I|].
    intros mf e H _ _ _.
    destruct (l_init_file_port_inv f l e p l1 H E1) as [e1 [H1 Hd]].
    exact (l_register_printer_inv p term l1 e1 i l2 (DFile f) H1 Hterm Hd E2).
  - destruct (d_register_printer (TFile f term) d) as [i d1] eqn:E1. injection E as _ <-.
    split; [exact I|]. split; [intros Hw; exact (d_register_printer_wf _ _ _ _ Hw E1)|].
    intros mf e H Hle' Hm Hio.
    exact (d_register_printer_inv io _ d e i d1 H E1 (mio_ok_le io (MD d1) mf Hle' Hm Hio)).
Qed.

Lemma with_mgr_step : forall io (g : mgr -> lsexp * mgr) s x s',
  (forall m y m', g m = (y, m') -> step io m m') ->
  with_mgr g s = (x, s') -> step io (st_mgr s) (st_mgr s').
Proof.
  intros io g s x s' Hg Ew. destruct (with_mgr_inv _ _ _ _ Ew) as [Eg _]. exact (Hg _ _ _ Eg).
Qed.

Lemma compile_test_step : forall io t s x s',
  compile_test t s = COk (x, s') -> step io (st_mgr s) (st_mgr s').
Proof.
  assert (Hm : forall io pat ci s m s1, with_mgr (get_matcher pat ci) s = (m, s1) ->
            step io (st_mgr s) (st_mgr s1)).
  { intros io pat ci s m s1 Ew. apply (with_mgr_step io _ _ _ _ (get_matcher_step io pat ci) Ew). }
  intros io t s x s' E.
  destruct t as [c|c| | | |c|c|p|p|c|c|c|p|p|k b|p| |c|c| |l|c| |a|a b|p|p|p|p|p|p|p|p| | |p|p|p];
    cbn [compile_test test_unsupported] in E; try discriminate E;
    try (unfold tick in E; destruct (cok_inv _ _ _ _ E) as [_ <-]; apply step_refl).
  - destruct (with_mgr (get_matcher p true) s) as [m s1] eqn:Ew. destruct (cok_inv _ _ _ _ E) as [_ <-]. exact (Hm _ _ _ _ _ _ Ew).
  - destruct (with_mgr (get_matcher p true) s) as [m s1] eqn:Ew. destruct (cok_inv _ _ _ _ E) as [_ <-]. exact (Hm _ _ _ _ _ _ Ew).
  - destruct (with_mgr (get_matcher p false) s) as [m s1] eqn:Ew. destruct (cok_inv _ _ _ _ E) as [_ <-]. exact (Hm _ _ _ _ _ _ Ew).
  - destruct (with_mgr (get_matcher p false) s) as [m s1] eqn:Ew. destruct (cok_inv _ _ _ _ E) as [_ <-]. exact (Hm _ _ _ _ _ _ Ew).
  - destruct (xattr_offending a || xattr_offending b); destruct (cok_inv _ _ _ _ E) as [_ <-]; apply step_refl.
Qed.

Lemma compile_action_step : forall io a s x s',
  compile_action a s = COk (x, s') -> step io (st_mgr s) (st_mgr s').
Proof.
  assert (Hpath : forall io g s x s', (forall m y m', g m = (y, m') -> step io m m') ->
    (let (p, s1) := with_mgr g s in
     @COk (lsexp * cstate) (lst [atom "call-with-relative-path"; p], s1)) = COk (x, s') ->
    step io (st_mgr s) (st_mgr s')).
  { intros io g s x s' Hg E. destruct (with_mgr g s) as [p s1] eqn:Ew.
    destruct (cok_inv _ _ _ _ E) as [_ <-]. exact (with_mgr_step io g _ _ _ Hg Ew). }
  assert (Hfmt : forall io g fmt s x s', (forall m y m', g m = (y, m') -> step io m m') ->
    (let (p, s1) := with_mgr g s in
     match compile_format fmt with
     | COk cf => @COk (lsexp * cstate) (lst [p; cf], s1)
     | CErr k c => CErr k c
     | CPanic m => CPanic m
     end) = COk (x, s') ->
    step io (st_mgr s) (st_mgr s')).
  { intros io g fmt s x s' Hg E. destruct (with_mgr g s) as [p s1] eqn:Ew.
    destruct (compile_format fmt) as [cf|k c|m]; try discriminate E.
    destruct (cok_inv _ _ _ _ E) as [_ <-]. exact (with_mgr_step io g _ _ _ Hg Ew). }
  assert (T10 : term_small (Some 10)) by (cbn; lia).
  assert (T0 : term_small (Some 0)) by (cbn; lia).
  intros io a s x s' E.
  destruct a as [p|p|p|p fmt| | | |fmt| | | | ]; cbn [compile_action] in E; try discriminate E.
  - exact (Hpath io _ _ _ _ (fun m y m' => get_file_printer_step io p (Some 10) m y m' T10) E).
  - exact (Hpath io _ _ _ _ (fun m y m' => get_file_printer_step io p (Some 0) m y m' T0) E).
  - exact (Hfmt io _ _ _ _ _ (fun m y m' => get_file_printer_step io p None m y m' I) E).
  - exact (Hpath io _ _ _ _ (fun m y m' => get_printer_step io (Some 10) m y m' T10) E).
  - exact (Hpath io _ _ _ _ (fun m y m' => get_printer_step io (Some 0) m y m' T0) E).
  - exact (Hfmt io _ _ _ _ _ (fun m y m' => get_printer_step io None m y m' I) E).
  - destruct (with_mgr (get_printer (Some 10)) s) as [p s1] eqn:Ew.
    destruct (cok_inv _ _ _ _ E) as [_ <-].
    exact (with_mgr_step io _ _ _ _ (fun m y m' => get_printer_step io (Some 10) m y m' T10) Ew).
  - destruct (cok_inv _ _ _ _ E) as [_ <-]. apply step_refl.
  - destruct (cok_inv _ _ _ _ E) as [_ <-]. apply step_refl.
Qed.

Lemma compile_expr_step : forall io e s x s',
  compile_expr e s = COk (x, s') -> step io (st_mgr s) (st_mgr s').
Proof.
  intros io.
  assert (Hbin : forall op a b,
    (forall s x s', compile_expr a s = COk (x, s') -> step io (st_mgr s) (st_mgr s')) ->
    (forall s x s', compile_expr b s = COk (x, s') -> step io (st_mgr s) (st_mgr s')) ->
    forall s x s',
    match compile_expr a s with
    | COk (xa, s1) =>
        match compile_expr b s1 with
        | COk (y, s2) => COk (lst [atom op; xa; y], s2)
        | bad => bad
        end
    | bad => bad
    end = COk (x, s') -> step io (st_mgr s) (st_mgr s')).
  { intros op a b IHa IHb s x s' E.
    destruct (compile_expr a s) as [[xa s1]|k c|m] eqn:Ea; try discriminate E.
    destruct (compile_expr b s1) as [[xb s2]|k c|m] eqn:Eb; try discriminate E.
    destruct (cok_inv _ _ _ _ E) as [_ <-].
    exact (step_trans io _ _ _ (IHa _ _ _ Ea) (IHb _ _ _ Eb)). }
  induction e as [e IH|e IH|a IHa b IHb|a IHa b IHb|a IHa b IHb|t|a|g|];
    intros s x s' E; cbn [compile_expr] in E; try discriminate E.
  - destruct (compile_expr e s) as [[xa s1]|k c|m] eqn:Ea; try discriminate E.
    destruct (cok_inv _ _ _ _ E) as [_ <-]. exact (IH _ _ _ Ea).
  - exact (Hbin _ a b IHa IHb s x s' E).
  - exact (Hbin _ a b IHa IHb s x s' E).
  - exact (Hbin _ a b IHa IHb s x s' E).
  - exact (compile_test_step io t s x s' E).
  - exact (compile_action_step io a s x s' E).
Qed.

(** * The compiled policy *)
Lemma assoc_swap_nodup : forall (l : list (target * N)) t i,
  NoDup (map snd l) -> In (t, i) l ->
  assoc N.eqb i (map (fun '(t, i) => (i, t)) l) = Some t.
Proof.
  induction l as [|[t0 i0] l IH]; intros t i Hnd Hin; [contradiction|].
  cbn [map snd] in Hnd. inversion Hnd as [|x xs Hnotin Hnd']; subst.
  cbn [map assoc]. destruct Hin as [Hin|Hin].
  - injection Hin as <- <-. rewrite N.eqb_refl. reflexivity.
  - destruct (i =? i0) eqn:E.
    + apply N.eqb_eq in E. subst i0. contradiction Hnotin.
      apply in_map_iff. exists (t, i). split; [reflexivity | exact Hin].
    + apply IH; assumption.
Qed.

Lemma wrap_ctime_free : forall e, ctime_free (wrap e) = ctime_free e.
Proof. intros e. unfold wrap. destruct (has_action e); cbn [ctime_free action_ctime_free]; [|rewrite andb_true_r]; reflexivity. Qed.
Lemma wrap_defined : forall e f, defined (wrap e) f = defined e f.
Proof. intros e f. unfold wrap. destruct (has_action e); cbn [defined action_defined]; [|rewrite andb_true_r]; reflexivity. Qed.

(** the manager state in which compilation of [e] ends *)
Definition final_mgr (e : expr) (clk : list N) : option mgr :=
  match compile_expr (wrap e)
          {| st_mgr := if complex_frames e then MD dmgr_init else ML lmgr_init; st_clock := clk |} with
  | COk (_, s) => Some (st_mgr s)
  | _ => None
  end.

Lemma program_policy_render : forall c mdt,
  program_policy (erase (snd (render c mdt))) = Some (map erase (c_defs c), erase (c_body c)).
Proof.
  intros c mdt. unfold render. cbn [snd].
  destruct (c_defs c) as [|d r]; cbn [erase erase_items]; rewrite ?erase_items_sep; reflexivity.
Qed.

Section WithHost.
Variable h : host.
Hypothesis Hlaw : host_law h.

(** with ANY environment agreeing with the final tables *)
Theorem compile_sound_env : forall e o clk c mf env f,
  compile e o clk = COk c -> ctime_free e = true -> defined e f = true ->
  final_mgr e clk = Some mf -> env_agrees env mf ->
  sem_bool h env (erase (c_body c)) f = Some (feval h (wrap e) clk f).
Proof.
  intros e o clk c mf env f E Hc Hd Hf Hag. unfold compile in E. unfold final_mgr in Hf.
  destruct (compile_expr (wrap e) _) as [[body sf]|k cs|m] eqn:Ec; try discriminate E.
  injection Hf as <-.
  assert (Hbody : c_body c = body).
  { injection E as <-. destruct (st_mgr sf); reflexivity. }
  rewrite Hbody.
  rewrite <- wrap_ctime_free in Hc. rewrite <- wrap_defined in Hd.
  exact (compile_expr_sound h Hlaw (wrap e) _ body sf (st_mgr sf) env f Ec Hc Hd (mgr_le_refl _) Hag).
Qed.

(** with the environment the emitted prelude itself denotes *)
Theorem compile_sound : forall e o clk c f,
  compile e o clk = COk c -> ctime_free e = true -> defined e f = true ->
  sem_policy h c f = Some (feval h (wrap e) clk f).
Proof.
  intros e o clk c f E Hc Hd. pose proof E as E0. unfold compile in E.
  destruct (compile_expr (wrap e) _) as [[body sf]|k cs|m] eqn:Ec; try discriminate E.
  assert (Hfin : final_mgr e clk = Some (st_mgr sf)) by (unfold final_mgr; rewrite Ec; reflexivity).
  assert (Hgoal : forall env,
            sem_defs (c_iomap c) [] (map erase (c_defs c)) = Some env -> env_agrees env (st_mgr sf) ->
            sem_policy h c f = Some (feval h (wrap e) clk f)).
  { intros env Hdefs Hag. unfold sem_policy. rewrite Hdefs.
    exact (compile_sound_env e o clk c (st_mgr sf) env f E0 Hc Hd Hfin Hag). }
  destruct (st_mgr sf) as [lf|df] eqn:Emf.
  - (* local mode *)
    pose proof (compile_expr_step [] _ _ _ _ Ec) as (Hle & Hmode & _ & Hinv).
    cbn [st_mgr] in Hle, Hmode, Hinv. rewrite Emf in Hle, Hmode, Hinv.
    destruct (complex_frames e); [contradiction Hmode|].
    destruct (Hinv (ML lf) [] linv_init (mgr_le_refl _) I I) as [env Henv].
    cbn [minv] in Henv. injection E as <-. cbn [c_iomap c_defs] in Hgoal.
    exact (Hgoal env (li_defs lf env Henv) (linv_agrees lf env Henv)).
  - (* distributed mode *)
    set (io := map (fun '(t, i) => (i, t)) (d_printers df)).
    pose proof (compile_expr_step io _ _ _ _ Ec) as (Hle & Hmode & Hwf & Hinv).
    cbn [st_mgr] in Hle, Hmode, Hwf, Hinv. rewrite Emf in Hle, Hmode, Hwf, Hinv.
    destruct (complex_frames e); [|contradiction Hmode].
    destruct (Hwf dwf_init) as [Hnd _].
    assert (Hio : mio_ok io (MD df)).
    { intros t i Hin. apply assoc_swap_nodup; assumption. }
    destruct (dinv_init io) as [e0 He0].
    destruct (Hinv (MD df) e0 He0 (mgr_le_refl _) I Hio) as [env Henv].
    cbn [minv] in Henv. injection E as <-. cbn [c_iomap c_defs] in Hgoal.
    exact (Hgoal env (di_defs io df env Henv) (dinv_agrees io df env Henv)).
Qed.

(** the same for the emitted text, read back by the reader of Spec/GuileReader.v *)
Theorem text_sound : forall e o clk c f mdt,
  compile e o clk = COk c -> ctime_free e = true -> defined e f = true ->
  exists forms, read_all (scheme_text c mdt) = Some forms
                /\ sem_forms h (c_iomap c) forms f = Some (feval h (wrap e) clk f).
Proof.
  intros e o clk c f mdt E Hc Hd. eexists. split; [exact (reads_back e o clk c mdt E)|].
  unfold sem_forms. rewrite program_policy_render.
  exact (compile_sound e o clk c f E Hc Hd).
Qed.

(** known finding D17: for %a (likewise %c %t) the emitted policy prints the decimal seconds,
    whatever the host's ctime rendering is *)
Theorem ctime_field_differs : forall f,
  let e := EAction (APrintFormatted [EField FAccess; ESpecial XNewline]) in
  exists c, compile e default_options [] = COk c
    /\ sem_policy h c f = Some (true, [(DStdout, print_dec (f_atime f) ++ [10], None)], false)
    /\ feval h (wrap e) [] f = (true, [(DStdout, ctime_text h (f_atime f) ++ [10], None)], false).
Proof.
  intros f e. eexists. split; [reflexivity|]. split; [|reflexivity].
  change (sem_policy h _ f)
    with (Some (true, [(DStdout, show_int (Z.of_N (f_atime f)) ++ [10], @None N)], false)).
  rewrite show_int_of_N. reflexivity.
Qed.

(** %S on an empty file: the emitted policy divides by zero, a run-time error that ends the scan
    (find leaves the value undefined there; this is why [defined] excludes the case) *)
Lemma sparseness_val_zero : forall f, f_size f = 0 ->
  sem_val h (erase (lst [atom "/"; lst [atom "*"; num 512; call0 "blocks"]; call0 "size"])) f = None.
Proof.
  intros f Hz.
  change (sem_val h (erase (lst [atom "/"; lst [atom "*"; num 512; call0 "blocks"]; call0 "size"])) f)
    with (if ((0 <=? 512 * Z.of_N (f_blocks f)) && (0 <? Z.of_N (f_size f)))%Z
          then Some (VRatio (Z.to_N (512 * Z.of_N (f_blocks f))) (Z.to_N (Z.of_N (f_size f))))
          else None).
  rewrite Hz. destruct (0 <=? 512 * Z.of_N (f_blocks f))%Z; reflexivity.
Qed.

Theorem sparseness_zero_fails : forall f, f_size f = 0 ->
  let e := EAction (APrintFormatted [EField FSparseness; ESpecial XNewline]) in
  exists c, compile e default_options [] = COk c /\ defined e f = false /\ sem_policy h c f = None.
Proof.
  intros f Hz e. eexists. split; [reflexivity|]. split.
  - cbn [e defined action_defined forallb elem_defined]. rewrite Hz. reflexivity.
  - change (sem_policy h _ f)
      with (option_map (apply_printer (TStdout None))
              (match all_some [sem_val h (erase (lst [atom "/"; lst [atom "*"; num 512; call0 "blocks"];
                                                      call0 "size"])) f] with
               | Some vs => format_sem h [126; 102; 10] vs
               | None => None
               end)).
    rewrite (sparseness_val_zero f Hz). reflexivity.
Qed.

End WithHost.
