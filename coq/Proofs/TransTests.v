(** Each test compiles to a form that means the test (C02, one lemma per construct). *)
From Coq Require Import List String NArith ZArith Bool Lia ZifyBool ZifyN.
From FP Require Import Model.Chars Model.Ast Model.Sexp Model.Compile
  Spec.Chmod Spec.Unsupported Spec.FileRecord Spec.FindSem Spec.SchemeSem Spec.SchemeEnv
  Proofs.SemFacts Proofs.MgrEnv.
Import ListNotations.
Local Open Scope N_scope.

Ltac erase_lsts := repeat (rewrite erase_lst; cbn [map]).

Lemma cok_inv : forall (a x : lsexp) (b s : cstate), COk (a, b) = COk (x, s) -> a = x /\ b = s.
Proof. intros a x b s E. inversion E. split; reflexivity. Qed.

Section WithHost.
Variable h : host.
Hypothesis Hlaw : host_law h.

Lemma arith_quotient : forall u v, arith (chars "quotient") u v = if (v =? 0)%Z then None else Some (Z.quot u v).
Proof. reflexivity. Qed.
Lemma arith_sub : forall u v, arith (chars "-") u v = Some (u - v)%Z.
Proof. reflexivity. Qed.
Lemma arith_add : forall u v, arith (chars "+") u v = Some (u + v)%Z.
Proof. reflexivity. Qed.
Lemma arith_mul : forall u v, arith (chars "*") u v = Some (u * v)%Z.
Proof. reflexivity. Qed.
Lemma arith_logand : forall u v, arith (chars "logand") u v = Some (Z.land u v).
Proof. reflexivity. Qed.
Lemma arith_round : forall u v, arith (chars "round-up-power-of-2") u v = round_up u v.
Proof. reflexivity. Qed.

Lemma sem_bool_eq : forall e a b f,
  sem_bool h e (SList [SAtom (chars "="); a; b]) f
  = match sem_num a f, sem_num b f with
    | Some u, Some v => pure (u =? v)%Z
    | _, _ => None
    end.
Proof. reflexivity. Qed.

(** counts *)
Lemma sem_cmp_field : forall e c g fld f,
  num_field (chars g) f = Some fld ->
  sem_bool h e (erase (cmp_field c g)) f = pure (count_test c fld).
Proof.
  intros e c g fld f Hf. unfold cmp_field. erase_lsts.
  rewrite erase_atom, sem_bool_cmp, erase_call0, sem_num_field, Hf, sem_num_num. reflexivity.
Qed.

(** times *)
Lemma sem_compile_time : forall e now g c stamp f,
  num_field (chars g) f = Some stamp ->
  sem_bool h e (erase (compile_time now g c)) f = pure (time_test c now stamp).
Proof.
  intros e now g c stamp f Hf. unfold compile_time, time_test.
  destruct (cmp_val c) as [u n]. erase_lsts.
  rewrite !erase_atom, sem_bool_cmp, sem_num_bin, sem_num_bin, !sem_num_num, erase_call0,
    sem_num_field, Hf. cbn [option_map].
  rewrite arith_sub, arith_quotient, unit_seconds_secs.
  destruct (Z.of_N (time_secs u) =? 0)%Z eqn:E; [destruct u; discriminate E|]. reflexivity.
Qed.

(** sizes *)
Lemma sem_compile_size : forall e c f,
  sem_bool h e (erase (compile_size c)) f = pure (size_test c (f_size f)).
Proof.
  intros e c f. unfold compile_size, size_test. destruct (cmp_val c) as [u n].
  change (unit_bytes u) with (size_mult u).
  assert (Hu : 0 < size_mult u) by (destruct u; reflexivity).
  assert (Hgen : sem_bool h e
            (erase (lst [atom (cmp_op c);
                         lst [atom "round-up-power-of-2"; call0 "size"; num (size_mult u)];
                         num (n * size_mult u)])) f
          = pure (cmp_rel c (Z.of_N (ceil_div (f_size f) (size_mult u))) (Z.of_N n))).
  { erase_lsts.
    rewrite !erase_atom, sem_bool_cmp, sem_num_bin, !sem_num_num, erase_call0, sem_num_field.
    change (num_field (chars "size") f) with (Some (f_size f)). cbn [option_map].
    rewrite arith_round, round_up_ceil by exact Hu.
    rewrite N2Z.inj_mul, cmp_rel_scale by lia. reflexivity. }
  destruct u; try exact Hgen.
  erase_lsts.
  rewrite !erase_atom, sem_bool_cmp, !sem_num_num, erase_call0, sem_num_field.
  change (num_field (chars "size") f) with (Some (f_size f)). cbn [option_map].
  rewrite ceil_div_one. change (size_mult UByte) with 1. rewrite N.mul_1_r. reflexivity.
Qed.

(** -type *)
Lemma sem_type_check : forall e t f,
  sem_bool h e (erase (type_check t)) f = pure (N.land (f_mode f) 61440 =? type_bits t).
Proof.
  intros e t f. unfold type_check. erase_lsts.
  rewrite !erase_atom, sem_bool_eq, sem_num_bin, !sem_num_num, erase_call0, sem_num_field.
  change (num_field (chars "mode") f) with (Some (f_mode f)). cbn [option_map].
  rewrite arith_logand, land_of_N. change (filetype_bits t) with (type_bits t). unfold pure. f_equal. f_equal. f_equal.
  unfold s_ifmt. lia.
Qed.

Lemma disj_type_checks : forall e f l, l <> [] ->
  disj_list h e f (map erase (map type_check l)) = pure (type_test l (f_mode f)).
Proof.
  intros e f l. induction l as [|t l IH]; intros Hne; [contradiction|].
  destruct l as [|t2 l].
  - cbn [map disj_list]. rewrite sem_type_check. unfold type_test. cbn [existsb].
    rewrite orb_false_r. reflexivity.
  - specialize (IH ltac:(discriminate)).
    change (disj_list h e f (map erase (map type_check (t :: t2 :: l))))
      with (then_if false (sem_bool h e (erase (type_check t)) f)
                    (disj_list h e f (map erase (map type_check (t2 :: l))))).
    rewrite IH, sem_type_check. unfold type_test. cbn [existsb].
    destruct (N.land (f_mode f) 61440 =? type_bits t); reflexivity.
Qed.

Lemma sem_compile_types : forall e l f,
  sem_bool h e (erase (compile_types l)) f = pure (type_test l (f_mode f)).
Proof.
  intros e l f. unfold compile_types. destruct l as [|t [|t2 l]].
  - reflexivity.
  - rewrite sem_type_check. unfold type_test. cbn [existsb]. rewrite orb_false_r. reflexivity.
  - cbn [erase erase_items]. rewrite erase_items_sep.
    change (erase (atom "or")) with (SAtom (chars "or")). rewrite sem_bool_or.
    apply disj_type_checks. discriminate.
Qed.

(** -perm *)
Lemma sem_compile_perm : forall e k bits f,
  sem_bool h e (erase (compile_perm k bits)) f = pure (perm_holds k bits (f_mode f)).
Proof.
  intros e k bits f.
  assert (Hland : forall m, sem_num (erase (lst [atom "logand"; call0 "mode"; num m])) f
                            = Some (Z.of_N (N.land (f_mode f) m))).
  { intros m. erase_lsts.
    rewrite erase_atom, sem_num_bin, sem_num_num, erase_call0, sem_num_field.
    change (num_field (chars "mode") f) with (Some (f_mode f)). cbn [option_map].
    rewrite arith_logand, land_of_N. reflexivity. }
  assert (Heq : forall m v, sem_bool h e (erase (lst [atom "="; lst [atom "logand"; call0 "mode"; num m]; num v])) f
                            = pure (N.land (f_mode f) m =? v)).
  { intros m v. rewrite erase_lst. cbn [map].
    rewrite erase_atom, sem_bool_eq, Hland, sem_num_num.
    unfold pure. f_equal. f_equal. f_equal. lia. }
  unfold compile_perm. destruct k; cbn [perm_holds].
  - apply Heq.
  - rewrite erase_lst. cbn [map]. rewrite erase_atom, sem_bool_not, Heq. reflexivity.
  - apply Heq.
Qed.

(** names and paths *)
Lemma apply_matcher_fnmatch : forall pat ci s,
  apply_matcher h (is_pattern pat) ci pat s = fnmatch h ci pat s.
Proof.
  intros pat ci s. unfold apply_matcher. destruct (is_pattern pat) eqn:E; [reflexivity|].
  destruct (Hlaw pat s) as [H1 H2]; [rewrite plain_not_pattern, E; reflexivity|].
  destruct ci; [rewrite H2 | rewrite H1]; reflexivity.
Qed.

Lemma sem_call_with_name : forall e i pat ci f,
  lookup e (idname "match" i) = Some (EMatcher (is_pattern pat) ci pat) ->
  sem_bool h e (erase (lst [atom "call-with-name"; ident "match" i])) f
  = pure (fnmatch h ci pat (f_name f)).
Proof.
  intros e i pat ci f Hl. erase_lsts. rewrite erase_atom, erase_ident.
  rewrite sem_bool_leaf by reflexivity.
  change (sem_leaf h e (chars "call-with-name") [SAtom (idname "match" i)] f)
    with (match lookup e (idname "match" i) with
          | Some (EMatcher glob c p) => pure (apply_matcher h glob c p (f_name f))
          | _ => None
          end).
  rewrite Hl, apply_matcher_fnmatch. reflexivity.
Qed.

Lemma sem_call_with_path_matcher : forall e i pat ci f,
  lookup e (idname "match" i) = Some (EMatcher (is_pattern pat) ci pat) ->
  sem_bool h e (erase (lst [atom "call-with-relative-path"; ident "match" i])) f
  = pure (fnmatch h ci pat (f_relative_path f)).
Proof.
  intros e i pat ci f Hl. erase_lsts. rewrite erase_atom, erase_ident.
  rewrite sem_bool_leaf by reflexivity.
  change (sem_leaf h e (chars "call-with-relative-path") [SAtom (idname "match" i)] f)
    with (match lookup e (idname "match" i) with
          | Some (EMatcher glob c p) => pure (apply_matcher h glob c p (f_relative_path f))
          | Some (EPrinter t) => Some (apply_printer t (f_relative_path f))
          | _ => None
          end).
  rewrite Hl, apply_matcher_fnmatch. reflexivity.
Qed.

(** the other forms *)
Lemma sem_flag : forall e g b f,
  sem_leaf h e (chars g) [] f = pure b ->
  is "and" (chars g) = false -> is "or" (chars g) = false -> is "not" (chars g) = false ->
  sem_bool h e (erase (call0 g)) f = pure b.
Proof.
  intros e g b f Hl H1 H2 H3. rewrite erase_call0, sem_bool_leaf by assumption. exact Hl.
Qed.

Lemma matcher_lookup : forall e mf pat ci s m s1,
  with_mgr (get_matcher pat ci) s = (m, s1) ->
  mgr_le (st_mgr s1) mf -> env_agrees e mf ->
  exists i, m = ident "match" i
            /\ lookup e (idname "match" i) = Some (EMatcher (is_pattern pat) ci pat).
Proof.
  intros e mf pat ci s m s1 Ew Hle Hag.
  destruct (with_mgr_inv _ _ _ _ Ew) as [Eg _].
  destruct (get_matcher_spec _ _ _ _ _ Eg) as [_ [i [Hm Hin]]].
  exists i. split; [exact Hm|]. destruct Hag as [Ham _]. apply Ham.
  destruct Hle as [Hl _]. apply Hl. exact Hin.
Qed.

Theorem compile_test_sound : forall t s x s' mf e f,
  compile_test t s = COk (x, s') ->
  mgr_le (st_mgr s') mf -> env_agrees e mf ->
  sem_bool h e (erase x) f = Some (test_holds h t (hd 0 (st_clock s)) f, [], false).
Proof.
  intros t s x s' mf e f E Hle Hag.
  destruct t as [c|c| | | |c|c|p|p|c|c|c|p|p|k b|p| |c|c| |l|c| |a|a b|p|p|p|p|p|p|p|p| | |p|p|p];
    cbn [compile_test test_unsupported] in E; try discriminate E;
    try (unfold tick in E; inversion E; subst; clear E; cbn [test_holds];
         first [ apply sem_compile_time; reflexivity
               | apply sem_cmp_field; reflexivity
               | apply sem_compile_perm
               | apply sem_compile_size
               | apply sem_compile_types
               | reflexivity ]).
  - (* -iname *)
    destruct (with_mgr (get_matcher p true) s) as [m s1] eqn:Ew. inversion E; subst.
    destruct (matcher_lookup _ _ _ _ _ _ _ Ew Hle Hag) as [i [-> Hl]].
    apply sem_call_with_name. exact Hl.
  - (* -ipath *)
    destruct (with_mgr (get_matcher p true) s) as [m s1] eqn:Ew. inversion E; subst.
    destruct (matcher_lookup _ _ _ _ _ _ _ Ew Hle Hag) as [i [-> Hl]].
    apply sem_call_with_path_matcher. exact Hl.
  - (* -name *)
    destruct (with_mgr (get_matcher p false) s) as [m s1] eqn:Ew. inversion E; subst.
    destruct (matcher_lookup _ _ _ _ _ _ _ Ew Hle Hag) as [i [-> Hl]].
    apply sem_call_with_name. exact Hl.
  - (* -path *)
    destruct (with_mgr (get_matcher p false) s) as [m s1] eqn:Ew. inversion E; subst.
    destruct (matcher_lookup _ _ _ _ _ _ _ Ew Hle Hag) as [i [-> Hl]].
    apply sem_call_with_path_matcher. exact Hl.
  - (* -pool *)
    destruct (cok_inv _ _ _ _ E) as [<- <-]. erase_lsts. rewrite erase_lstr. reflexivity.
  - (* -xattr *)
    destruct (cok_inv _ _ _ _ E) as [<- <-]. erase_lsts. rewrite erase_lstr. reflexivity.
  - (* -xattr-match *)
    cbn [test_holds]. change (xattr_special a) with (xattr_offending a).
    change (xattr_special b) with (xattr_offending b).
    destruct (xattr_offending a || xattr_offending b); destruct (cok_inv _ _ _ _ E) as [<- <-];
      erase_lsts; rewrite !erase_lstr; reflexivity.
Qed.

Lemma compile_test_state : forall t s x s',
  compile_test t s = COk (x, s') ->
  mgr_le (st_mgr s) (st_mgr s') /\ st_clock s' = skipn (clock_reads (ETest t)) (st_clock s).
Proof.
  assert (Hm : forall pat ci s m s1, with_mgr (get_matcher pat ci) s = (m, s1) ->
            mgr_le (st_mgr s) (st_mgr s1) /\ st_clock s1 = st_clock s).
  { intros pat ci s m s1 Ew. destruct (with_mgr_inv _ _ _ _ Ew) as [Eg Hc].
    destruct (get_matcher_spec _ _ _ _ _ Eg) as [Hle _]. split; assumption. }
  intros t s x s' E.
  destruct t as [c|c| | | |c|c|p|p|c|c|c|p|p|k b|p| |c|c| |l|c| |a|a b|p|p|p|p|p|p|p|p| | |p|p|p];
    cbn [compile_test test_unsupported] in E; try discriminate E;
    try (unfold tick in E; inversion E; subst; clear E; cbn [clock_reads st_mgr st_clock skipn];
         split; [apply mgr_le_refl | first [reflexivity | destruct (st_clock s); reflexivity]]).
  - destruct (with_mgr (get_matcher p true) s) as [m s1] eqn:Ew. inversion E; subst. exact (Hm _ _ _ _ _ Ew).
  - destruct (with_mgr (get_matcher p true) s) as [m s1] eqn:Ew. inversion E; subst. exact (Hm _ _ _ _ _ Ew).
  - destruct (with_mgr (get_matcher p false) s) as [m s1] eqn:Ew. inversion E; subst. exact (Hm _ _ _ _ _ Ew).
  - destruct (with_mgr (get_matcher p false) s) as [m s1] eqn:Ew. inversion E; subst. exact (Hm _ _ _ _ _ Ew).
  - destruct (xattr_offending a || xattr_offending b); inversion E; subst;
      split; [apply mgr_le_refl | reflexivity | apply mgr_le_refl | reflexivity].
Qed.

End WithHost.
