(** Proofs for the small modules C09m (the compiled policy of an action-free expression),
    C10s (frame tags stay below the surrogate range for expressions of bounded size) and the
    lemmas used by C09d. *)
From Coq Require Import List String NArith Bool Lia ZifyBool ZifyN.
From FP Require Import Model.Chars Model.Ast Model.Sexp Model.Compile Spec.Tree Spec.Resources.
From FP Require Import Spec.FileRecord Spec.FindSem Spec.SchemeSem Spec.SchemeEnv Spec.SchemePrelude.
From FP Require Import Proofs.Corollaries Proofs.PreludeSound Proofs.Counter Proofs.ManagerInv
  Proofs.PolicyDiscipline Proofs.Routing.
Import ListNotations.
Local Open Scope N_scope.

(** * C09m *)
(** no action => no format => nothing of %a %c %t, nothing undefined *)
Lemma no_action_ctime_free e : has_action e = false -> ctime_free e = true.
Proof.
  induction e as [e IH|e IH|a IHa b IHb|a IHa b IHb|a IHa b IHb|t|a|g|];
    cbn [has_action ctime_free]; intro Ha; try discriminate; try reflexivity.
  - now apply IH.
  - now apply IH.
  - apply orb_false_iff in Ha as [H1 H2]. now rewrite (IHa H1), (IHb H2).
  - apply orb_false_iff in Ha as [H1 H2]. now rewrite (IHa H1), (IHb H2).
  - apply orb_false_iff in Ha as [H1 H2]. now rewrite (IHa H1), (IHb H2).
Qed.

Lemma no_action_defined e f : has_action e = false -> defined e f = true.
Proof.
  induction e as [e IH|e IH|a IHa b IHb|a IHa b IHb|a IHa b IHb|t|a|g|];
    cbn [has_action defined]; intro Ha; try discriminate; try reflexivity.
  - now apply IH.
  - now apply IH.
  - apply orb_false_iff in Ha as [H1 H2]. now rewrite (IHa H1), (IHb H2).
  - apply orb_false_iff in Ha as [H1 H2]. now rewrite (IHa H1), (IHb H2).
  - apply orb_false_iff in Ha as [H1 H2]. now rewrite (IHa H1), (IHb H2).
Qed.

Theorem no_action_policy : forall h, host_law h -> forall e o clk c f,
  has_action e = false -> compile e o clk = COk c ->
  sem_policy h c f =
    Some (fst (fst (feval h e clk f)),
          (if fst (fst (feval h e clk f)) then [(DStdout, f_relative_path f, Some 10)] else []),
          false).
Proof.
  intros h Hlaw e o clk c f Ha Hc.
  rewrite (compile_sound h Hlaw e o clk c f Hc (no_action_ctime_free e Ha) (no_action_defined e f Ha)).
  now rewrite (implicit_print_meaning h e clk f Ha).
Qed.

(** the expression itself writes nothing and requests no stop *)
Theorem no_action_quiet : forall h e clk f, has_action e = false ->
  feval h e clk f = (fst (fst (feval h e clk f)), [], false).
Proof.
  intros h e clk f Ha. destruct (no_action_silent h e Ha clk f) as [H1 H2].
  destruct (feval h e clk f) as [[b0 o0] q0]. cbn in *. now subst.
Qed.

(** * C10s *)
Theorem tag_bound : forall e o clk c tbl i t,
  compile e o clk = COk c -> c_iomap c = Some tbl -> In (i, t) tbl ->
  has_action e = true /\ i < 2 + 3 * leaves e.
Proof.
  intros e o clk c tbl i t Hc Hio Hin.
  destruct (iomap_some _ _ _ _ _ Hc Hio) as (d & Hfin & _ & ->).
  apply invert_In in Hin.
  pose proof (final_mgr_framed e clk _ Hfin) as Hfr. cbn [is_framed] in Hfr. symmetry in Hfr.
  pose proof (framed_has_action e Hfr) as Ha. split; [exact Ha|].
  destruct (counter_bound_both e clk _ Hfin) as [Hb _].
  pose proof (final_counter_above e clk _ Hfin) as [_ Hab].
  pose proof (Hab _ _ Hin) as Hlt. cbn [m_idx] in Hb.
  unfold wrap in Hb. rewrite Ha in Hb. lia.
Qed.

Theorem tag_not_surrogate : forall e o clk c tbl i t,
  compile e o clk = COk c -> c_iomap c = Some tbl -> In (i, t) tbl ->
  leaves e <= 18431 -> i < 55296.
Proof.
  intros e o clk c tbl i t Hc Hio Hin Hsz.
  destruct (tag_bound e o clk c tbl i t Hc Hio Hin) as [_ Hb]. lia.
Qed.

(** * C09d: a tree built through the public constructors with the internal action ADefaultPrint
    next to a printer that needs frames *)
From FP Require Import Spec.TreeShape Spec.Interleave Spec.PolicyCalls Proofs.ImplicitPrint
  Proofs.TreeHelpers.

Definition d_witness : expr := EAnd (EAction APrintNull) (EAction ADefaultPrint).
Definition d_compiled : compiled :=
  match compile d_witness default_options [] with COk c => c | _ =>
    {| c_framed := false; c_defs := []; c_init := []; c_fini := []; c_body := atom "";
       c_threads := None; c_iomap := None |} end.

Lemma d_witness_compiles : compile d_witness default_options [] = COk d_compiled.
Proof. vm_compute. reflexivity. Qed.

Lemma d_witness_outputs : forall h, host_law h -> forall f,
  policy_outputs h d_compiled f
  = Some [(DStdout, f_relative_path f, Some 0); (DStdout, f_relative_path f, Some 10)].
Proof.
  intros h Hlaw f. unfold policy_outputs.
  rewrite (compile_sound h Hlaw d_witness default_options [] d_compiled f d_witness_compiles
             eq_refl eq_refl).
  reflexivity.
Qed.

Theorem d_witness_unrouted : forall h, host_law h -> forall f,
  file_calls h d_compiled f = None /\ file_records h d_compiled f = None
  /\ exists os, policy_outputs h d_compiled f = Some os
       /\ ~ Forall (fun ou : output => exists i, In (i, target_of (fst (fst ou)) (snd ou))
                                                    [(2, TStdout (Some 0))]) os.
Proof.
  intros h Hlaw f. unfold file_calls, file_records. rewrite (d_witness_outputs h Hlaw f).
  split; [reflexivity|]. split; [reflexivity|].
  eexists. split; [reflexivity|]. intro HF.
  inversion HF as [|x l _ HF2]; subst. inversion HF2 as [|x l [i Hi] _]; subst.
  cbn in Hi. destruct Hi as [Hi|[]]. discriminate Hi.
Qed.

Theorem default_print_witness :
  let e := EAnd (EAction APrintNull) (EAction ADefaultPrint) in
  has_action e = true /\ no_default e = false /\ ~ parser_tree e
  /\ exists c, compile e default_options [] = COk c
       /\ c_framed c = true /\ c_iomap c = Some [(2, TStdout (Some 0))]
       /\ print (c_body c)
          = chars "(and (call-with-relative-path %lf3:print:2) (print-relative-path))"
       /\ atom_occurs prp (c_body c) = true
       /\ forall h, host_law h -> forall f,
            let os := [(DStdout, f_relative_path f, Some 0); (DStdout, f_relative_path f, Some 10)] in
            policy_outputs h c f = Some os
            /\ policy_calls c os = None
            /\ file_calls h c f = None
            /\ file_records h c f = None
            /\ ~ Forall (fun ou : output =>
                   exists i, In (i, target_of (fst (fst ou)) (snd ou)) [(2, TStdout (Some 0))]) os.
Proof.
  intros e. split; [reflexivity|]. split; [reflexivity|]. split.
  - intro H. inversion H as [| | |a b Ha Hb| |]; subst. inversion Hb as [|a' Hne| | | |]; subst.
    now apply Hne.
  - exists d_compiled. split; [exact d_witness_compiles|].
    split; [reflexivity|]. split; [reflexivity|]. split; [vm_compute; reflexivity|].
    split; [vm_compute; reflexivity|].
    intros h Hlaw f os.
    destruct (d_witness_unrouted h Hlaw f) as (H1 & H2 & os' & H3 & H4).
    rewrite (d_witness_outputs h Hlaw f) in H3. injection H3 as <-.
    split; [exact (d_witness_outputs h Hlaw f)|]. split; [reflexivity|].
    split; [exact H1|]. split; [exact H2|exact H4].
Qed.

Lemma no_action_side_conditions : forall e f,
  has_action e = false -> ctime_free e = true /\ defined e f = true.
Proof. intros e f H. split; [exact (no_action_ctime_free e H)|exact (no_action_defined e f H)]. Qed.
