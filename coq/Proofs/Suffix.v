(** Every cursor the model ever reports — on success AND on failure — is a suffix of the input
    the parser was given. One lemma per combinator of Model/Winnow.v, a syntax-directed solver in
    the style of [wf_solve], then the parsers of Args, Perm, Format and Lex. *)
From Coq Require Import List String NArith Bool Arith Lia.
From FP Require Import Model.Chars Model.Winnow Model.Ast Model.Args Model.Perm Model.Format Model.Lex.
From FP Require Import Proofs.WinnowFacts Proofs.WinnowTotal.
Import ListNotations.

Definition suffix_of (r i : str) : Prop := exists a, i = a ++ r.

Lemma suffix_refl i : suffix_of i i.
Proof. exists []. reflexivity. Qed.
Lemma suffix_trans a b c : suffix_of a b -> suffix_of b c -> suffix_of a c.
Proof. intros [x Hx] [y Hy]. exists (y ++ x). subst. rewrite app_assoc. reflexivity. Qed.
Lemma suffix_cons c i : suffix_of i (c :: i).
Proof. exists [c]. reflexivity. Qed.
Lemma suffix_app a r : suffix_of r (a ++ r).
Proof. exists a. reflexivity. Qed.

(** [sfx p]: whatever [p] returns, the cursor it leaves is a suffix of its input *)
Definition sfx {A} (p : sp A) : Prop := forall i, suffix_of (snd (p i)) i.

(** * combinators *)
Lemma sfx_pmap {A B} (f : A -> B) (p : sp A) : sfx p -> sfx (pmap f p).
Proof. intros H i. unfold pmap. specialize (H i). destruct (p i) as [[a|x|x|s] r]; exact H. Qed.
Lemma sfx_value {A B} (b : B) (p : sp A) : sfx p -> sfx (value b p).
Proof. apply sfx_pmap. Qed.
Lemma sfx_bind {A B} (p : sp A) (f : A -> sp B) : sfx p -> (forall a, sfx (f a)) -> sfx (bind p f).
Proof.
  intros Hp Hf i. unfold bind. specialize (Hp i). destruct (p i) as [[a|x|x|s] r]; try exact Hp.
  cbn [snd] in Hp. exact (suffix_trans _ _ _ (Hf a r) Hp).
Qed.
Lemma sfx_preceded {A B} (p : sp A) (q : sp B) : sfx p -> sfx q -> sfx (preceded p q).
Proof. intros Hp Hq. apply sfx_bind; [exact Hp|]. intros _. exact Hq. Qed.
Lemma sfx_terminated {A B} (p : sp A) (q : sp B) : sfx p -> sfx q -> sfx (terminated p q).
Proof. intros Hp Hq. apply sfx_bind; [exact Hp|]. intros a. apply sfx_pmap. exact Hq. Qed.
Lemma sfx_pair {A B} (p : sp A) (q : sp B) : sfx p -> sfx q -> sfx (pair_ p q).
Proof. intros Hp Hq. apply sfx_bind; [exact Hp|]. intros a. apply sfx_pmap. exact Hq. Qed.
Lemma sfx_delimited {A B C} (p : sp A) (q : sp B) (r : sp C) :
  sfx p -> sfx q -> sfx r -> sfx (delimited p q r).
Proof. intros Hp Hq Hr. apply sfx_preceded; [exact Hp|]. apply sfx_terminated; assumption. Qed.
Lemma sfx_separated_pair {A B C} (p : sp A) (s : sp B) (q : sp C) :
  sfx p -> sfx s -> sfx q -> sfx (separated_pair p s q).
Proof.
  intros Hp Hs Hq. apply sfx_bind; [exact Hp|]. intros a.
  apply sfx_preceded; [exact Hs|]. apply sfx_pmap. exact Hq.
Qed.
Lemma sfx_cut_err {A} (p : sp A) : sfx p -> sfx (cut_err p).
Proof. intros H i. unfold cut_err. specialize (H i). destruct (p i) as [[a|x|x|s] r]; exact H. Qed.
Lemma sfx_context {A} k (p : sp A) : sfx p -> sfx (context k p).
Proof. intros H i. unfold context. specialize (H i). destruct (p i) as [[a|x|x|s] r]; exact H. Qed.
Lemma sfx_fail {A} : sfx (@fail str A).
Proof. intros i. apply suffix_refl. Qed.
Lemma sfx_peek {A} (p : sp A) : sfx (peek p).
Proof. intros i. apply suffix_refl. Qed.
Lemma sfx_opt {A} (p : sp A) : sfx p -> sfx (opt p).
Proof.
  intros H i. unfold opt. specialize (H i). destruct (p i) as [[a|x|x|s] r]; try exact H.
  apply suffix_refl.
Qed.
Lemma sfx_alt {A} (ps : list (sp A)) : Forall sfx ps -> sfx (alt ps).
Proof.
  induction ps as [|p ps IH]; intros HF.
  - intros i. apply suffix_refl.
  - inversion HF as [|p' ps' Hp Hps]; subst. destruct ps as [|q l].
    + intros i. rewrite alt_one. exact (Hp i).
    + specialize (IH Hps). intros i. rewrite alt_cons2.
      specialize (Hp i). destruct (p i) as [[a|x|x|s] r]; try exact Hp. exact (IH i).
Qed.
Lemma sfx_try_map {A B} (p : sp A) (f : A -> option B) : sfx p -> sfx (try_map p f).
Proof.
  intros H i. unfold try_map. specialize (H i). destruct (p i) as [[a|x|x|s] r]; try exact H.
  destruct (f a) as [b|]; [exact H|apply suffix_refl].
Qed.
Lemma sfx_verify {A} (p : sp A) (f : A -> bool) : sfx p -> sfx (verify p f).
Proof. apply sfx_try_map. Qed.

(** * loops *)
Lemma repeat_fuel_sfx {A} (p : sp A) (Hp : sfx p) : forall fuel i,
  suffix_of (snd (repeat_fuel slen fuel p i)) i.
Proof.
  induction fuel as [|fuel IH]; intros i; cbn [repeat_fuel]; [apply suffix_refl|].
  pose proof (Hp i) as Hpi. destruct (p i) as [[a|x|x|s] r]; cbn [snd] in *; try exact Hpi.
  - destruct (Nat.leb (slen i) (slen r)); [exact Hpi|].
    specialize (IH r). destruct (repeat_fuel slen fuel p r) as [[l|x|x|s] r']; cbn [snd] in *;
      exact (suffix_trans _ _ _ IH Hpi).
  - apply suffix_refl.
Qed.
Lemma sfx_repeat0 {A} (p : sp A) : sfx p -> sfx (repeat0 slen p).
Proof. intros Hp i. unfold repeat0. apply repeat_fuel_sfx. exact Hp. Qed.

Lemma rtill_fuel_sfx {A B} (f : sp A) (g : sp B) (Hf : sfx f) (Hg : sfx g) : forall fuel i,
  suffix_of (snd (rtill_fuel slen fuel f g i)) i.
Proof.
  induction fuel as [|fuel IH]; intros i; cbn [rtill_fuel]; [apply suffix_refl|].
  pose proof (Hg i) as Hgi. destruct (g i) as [[b|x|x|s] r]; cbn [snd] in *; try exact Hgi.
  pose proof (Hf i) as Hfi. destruct (f i) as [[a|y|y|s] r1]; cbn [snd] in *; try exact Hfi.
  destruct (Nat.leb (slen i) (slen r1)); [exact Hfi|].
  specialize (IH r1). destruct (rtill_fuel slen fuel f g r1) as [[[l b]|z|z|s] r']; cbn [snd] in *;
    exact (suffix_trans _ _ _ IH Hfi).
Qed.
Lemma sfx_repeat_till0 {A B} (f : sp A) (g : sp B) : sfx f -> sfx g -> sfx (repeat_till0 slen f g).
Proof. intros Hf Hg i. unfold repeat_till0. apply rtill_fuel_sfx; assumption. Qed.
Lemma sfx_repeat_till1 {A B} (f : sp A) (g : sp B) : sfx f -> sfx g -> sfx (repeat_till1 slen f g).
Proof.
  intros Hf Hg i. unfold repeat_till1.
  pose proof (Hf i) as Hfi. destruct (f i) as [[a|y|y|s] r1]; cbn [snd] in *; try exact Hfi.
  pose proof (sfx_repeat_till0 f g Hf Hg r1) as H.
  destruct (repeat_till0 slen f g r1) as [[[l b]|z|z|s] r']; cbn [snd] in *;
    exact (suffix_trans _ _ _ H Hfi).
Qed.

Lemma sep_fuel_sfx {A B} (p : sp A) (s : sp B) (Hp : sfx p) (Hs : sfx s) : forall fuel i,
  suffix_of (snd (sep_fuel slen fuel p s i)) i.
Proof.
  induction fuel as [|fuel IH]; intros i; cbn [sep_fuel]; [apply suffix_refl|].
  pose proof (Hs i) as Hsi. destruct (s i) as [[b|x|x|m] r1]; cbn [snd] in *; try exact Hsi.
  2: apply suffix_refl.
  destruct (Nat.leb (slen i) (slen r1)); [exact Hsi|].
  pose proof (Hp r1) as Hpi. destruct (p r1) as [[a|y|y|m] r2]; cbn [snd] in *;
    try exact (suffix_trans _ _ _ Hpi Hsi).
  2: apply suffix_refl.
  specialize (IH r2). pose proof (suffix_trans _ _ _ Hpi Hsi) as H2.
  destruct (sep_fuel slen fuel p s r2) as [[l|z|z|m] r']; cbn [snd] in *;
    exact (suffix_trans _ _ _ IH H2).
Qed.
Lemma sfx_separated1 {A B} (p : sp A) (s : sp B) : sfx p -> sfx s -> sfx (separated1 slen p s).
Proof.
  intros Hp Hs i. unfold separated1.
  pose proof (Hp i) as Hpi. destruct (p i) as [[a|y|y|m] r1]; cbn [snd] in *; try exact Hpi.
  pose proof (sep_fuel_sfx p s Hp Hs (S (slen r1)) r1) as H.
  destruct (sep_fuel slen (S (slen r1)) p s r1) as [[l|z|z|m] r']; cbn [snd] in *;
    exact (suffix_trans _ _ _ H Hpi).
Qed.

(** * primitives *)
Lemma sfx_literal s : sfx (literal s).
Proof.
  intros i. unfold literal. destruct (lit_ (chars s) i) as [r|] eqn:E; cbn [snd]; [|apply suffix_refl].
  exists (chars s). apply lit_some. exact E.
Qed.

Lemma span_eq p : forall i a b, span p i = (a, b) -> i = a ++ b.
Proof.
  induction i as [|c i IH]; intros a b H; cbn [span] in H.
  - inversion H; subst. reflexivity.
  - destruct (p c).
    + destruct (span p i) as [a' b'] eqn:E. inversion H; subst. cbn [app]. f_equal. apply IH. reflexivity.
    + inversion H; subst. reflexivity.
Qed.
Lemma sfx_take_while m p : sfx (take_while m p).
Proof.
  intros i. unfold take_while. destruct (span p i) as [a b] eqn:E. apply span_eq in E.
  destruct (Nat.leb m (List.length a)); cbn [snd]; [|apply suffix_refl]. exists a. exact E.
Qed.
Lemma span_max_eq p : forall n i a b, span_max n p i = (a, b) -> i = a ++ b.
Proof.
  induction n as [|n IH]; intros i a b H; cbn [span_max] in H.
  - inversion H; subst. reflexivity.
  - destruct i as [|c i].
    + inversion H; subst. reflexivity.
    + destruct (p c).
      * destruct (span_max n p i) as [a' b'] eqn:E. inversion H; subst. cbn [app]. f_equal.
        apply (IH i a' b E).
      * inversion H; subst. reflexivity.
Qed.
Lemma sfx_take_while_mn m n p : sfx (take_while_mn m n p).
Proof.
  intros i. unfold take_while_mn. destruct (span_max n p i) as [a b] eqn:E. apply span_max_eq in E.
  destruct (Nat.leb m (List.length a)); cbn [snd]; [|apply suffix_refl]. exists a. exact E.
Qed.
Lemma until_eq c : forall i a b, until_ c i = Some (a, b) -> i = a ++ b.
Proof.
  induction i as [|d i IH]; intros a b H; cbn [until_] in H; [discriminate|].
  destruct (N.eqb d c).
  - inversion H; subst. reflexivity.
  - destruct (until_ c i) as [[a' b']|] eqn:E; [|discriminate]. inversion H; subst.
    cbn [app]. f_equal. apply IH. reflexivity.
Qed.
Lemma sfx_take_until0 c : sfx (take_until0 c).
Proof.
  intros i. unfold take_until0. destruct (until_ c i) as [[a b]|] eqn:E; cbn [snd]; [|apply suffix_refl].
  exists a. apply until_eq in E. exact E.
Qed.
Lemma sfx_multispace0 : sfx multispace0. Proof. apply sfx_take_while. Qed.
Lemma sfx_multispace1 : sfx multispace1. Proof. apply sfx_take_while. Qed.
Lemma sfx_digit1 : sfx digit1. Proof. apply sfx_take_while. Qed.
Lemma sfx_alpha1 : sfx alpha1. Proof. apply sfx_take_while. Qed.
Lemma sfx_eof : sfx (@eof N).
Proof. intros i. unfold eof. destruct i; apply suffix_refl. Qed.
Lemma sfx_any : sfx (@any N).
Proof. intros i. unfold any. destruct i as [|c i]; cbn [snd]; [apply suffix_refl|apply suffix_cons]. Qed.
Lemma sfx_one_of f : sfx (@one_of N f).
Proof.
  intros i. unfold one_of. destruct i as [|c i]; cbn [snd]; [apply suffix_refl|].
  destruct (f c); cbn [snd]; [apply suffix_cons|apply suffix_refl].
Qed.
(** the inner parser runs on the slice: only the outer cursor (or the start) is ever reported *)
Lemma sfx_and_then {A} (outer : sp str) (inner : sp A) : sfx outer -> sfx (and_then outer inner).
Proof.
  intros Ho i. unfold and_then. specialize (Ho i).
  destruct (outer i) as [[o|x|x|s] r]; try exact Ho.
  destruct (inner o) as [[a|x|x|s] r']; cbn [snd]; try apply suffix_refl. exact Ho.
Qed.

(** * the solver *)
Ltac sfx_named := fail.
Ltac sfx_solve :=
  lazymatch goal with
  | |- Forall _ [] => constructor
  | |- Forall _ (_ :: _) => constructor; [sfx_solve | sfx_solve]
  | |- forall _, _ => intro; cbv beta; sfx_solve
  | |- sfx (pmap _ _) => apply sfx_pmap; sfx_solve
  | |- sfx (value _ _) => apply sfx_value; sfx_solve
  | |- sfx (context _ _) => apply sfx_context; sfx_solve
  | |- sfx (cut_err _) => apply sfx_cut_err; sfx_solve
  | |- sfx (alt _) => apply sfx_alt; sfx_solve
  | |- sfx (try_map _ _) => apply sfx_try_map; sfx_solve
  | |- sfx (verify _ _) => apply sfx_verify; sfx_solve
  | |- sfx fail => apply sfx_fail
  | |- sfx (peek _) => apply sfx_peek
  | |- sfx (opt _) => apply sfx_opt; sfx_solve
  | |- sfx (literal _) => apply sfx_literal
  | |- sfx (take_while _ _) => apply sfx_take_while
  | |- sfx (take_while_mn _ _ _) => apply sfx_take_while_mn
  | |- sfx (take_until0 _) => apply sfx_take_until0
  | |- sfx multispace0 => apply sfx_multispace0
  | |- sfx multispace1 => apply sfx_multispace1
  | |- sfx digit1 => apply sfx_digit1
  | |- sfx alpha1 => apply sfx_alpha1
  | |- sfx eof => apply sfx_eof
  | |- sfx any => apply sfx_any
  | |- sfx (one_of _) => apply sfx_one_of
  | |- sfx (bind _ _) => apply sfx_bind; sfx_solve
  | |- sfx (preceded _ _) => apply sfx_preceded; sfx_solve
  | |- sfx (terminated _ _) => apply sfx_terminated; sfx_solve
  | |- sfx (pair_ _ _) => apply sfx_pair; sfx_solve
  | |- sfx (delimited _ _ _) => apply sfx_delimited; sfx_solve
  | |- sfx (separated_pair _ _ _) => apply sfx_separated_pair; sfx_solve
  | |- sfx (repeat0 slen _) => apply sfx_repeat0; sfx_solve
  | |- sfx (repeat_till0 slen _ _) => apply sfx_repeat_till0; sfx_solve
  | |- sfx (repeat_till1 slen _ _) => apply sfx_repeat_till1; sfx_solve
  | |- sfx (separated1 slen _ _) => apply sfx_separated1; sfx_solve
  | |- sfx (and_then _ _) => apply sfx_and_then; sfx_solve
  | |- _ => first [ assumption | sfx_named ]
  end.

(** * Args *)
Lemma sfx_parse_uint b : sfx (parse_uint b).
Proof. unfold parse_uint. sfx_solve. Qed.
Lemma sfx_quote_delimiter : sfx quote_delimiter.
Proof. unfold quote_delimiter. sfx_solve. Qed.
Lemma sfx_parse_string : sfx parse_string.
Proof. unfold parse_string. apply sfx_context, sfx_quote_delimiter. Qed.
Lemma sfx_word_end : sfx word_end.
Proof. unfold word_end. sfx_solve. Qed.
Lemma sfx_invalid_spec {A} w : sfx (@invalid_spec A w).
Proof. unfold invalid_spec. sfx_solve. Qed.

Ltac sfx_named ::=
  lazymatch goal with
  | |- sfx (parse_uint _) => apply sfx_parse_uint
  | |- sfx parse_u32 => apply sfx_parse_uint
  | |- sfx parse_u64 => apply sfx_parse_uint
  | |- sfx quote_delimiter => apply sfx_quote_delimiter
  | |- sfx parse_string => apply sfx_parse_string
  | |- sfx word_end => apply sfx_word_end
  | |- sfx (invalid_spec _) => apply sfx_invalid_spec
  end.

Lemma sfx_parse_cmp {T} (d : sparser T) : sfx d -> sfx (parse_cmp d).
Proof. intros Hd. unfold parse_cmp. sfx_solve. Qed.
Lemma sfx_parse_size : sfx parse_size.
Proof. unfold parse_size. sfx_solve. Qed.
Lemma sfx_parse_time u : sfx (parse_time u).
Proof. unfold parse_time. sfx_solve. Qed.
Lemma sfx_parse_filetype : sfx parse_filetype.
Proof. unfold parse_filetype. sfx_solve. Qed.
Lemma sfx_parse_filetypes : sfx parse_filetypes.
Proof. unfold parse_filetypes. pose proof sfx_parse_filetype. sfx_solve. Qed.

(** * Perm and Format *)
Lemma sfx_parse_perm_arg : sfx parse_perm_arg.
Proof. unfold parse_perm_arg. sfx_solve. Qed.
Lemma sfx_parse_format_arg : sfx parse_format_arg.
Proof. unfold parse_format_arg. sfx_solve. Qed.

(** * Lex *)
Lemma sfx_unary {A B} id (f : A -> B) (p : sparser A) : sfx p -> sfx (unary id f p).
Proof. intros Hp. unfold unary. sfx_solve. Qed.
Lemma sfx_binary {A B C} id (f : A * B -> C) (pl : sparser A) (pr : sparser B) args :
  sfx pl -> sfx pr -> sfx (binary id f pl pr args).
Proof. intros Hl Hr. unfold binary. sfx_solve. Qed.
Lemma sfx_unsupported_u32 : sfx unsupported_u32.
Proof. unfold unsupported_u32. sfx_solve. Qed.

Ltac sfx_named ::=
  lazymatch goal with
  | |- sfx (parse_uint _) => apply sfx_parse_uint
  | |- sfx parse_u32 => apply sfx_parse_uint
  | |- sfx parse_u64 => apply sfx_parse_uint
  | |- sfx quote_delimiter => apply sfx_quote_delimiter
  | |- sfx parse_string => apply sfx_parse_string
  | |- sfx word_end => apply sfx_word_end
  | |- sfx (invalid_spec _) => apply sfx_invalid_spec
  | |- sfx (parse_cmp _) => apply sfx_parse_cmp; sfx_solve
  | |- sfx parse_size => apply sfx_parse_size
  | |- sfx (parse_time _) => apply sfx_parse_time
  | |- sfx parse_filetypes => apply sfx_parse_filetypes
  | |- sfx parse_perm_arg => apply sfx_parse_perm_arg
  | |- sfx parse_format_arg => apply sfx_parse_format_arg
  | |- sfx unsupported_u32 => apply sfx_unsupported_u32
  | |- sfx (unary _ _ _) => apply sfx_unary; sfx_solve
  | |- sfx (binary _ _ _ _ _) => apply sfx_binary; sfx_solve
  end.

Lemma sfx_parse_global : sfx parse_global.
Proof. unfold parse_global. sfx_solve. Qed.
Lemma sfx_parse_action : sfx parse_action.
Proof. unfold parse_action. sfx_solve. Qed.
Lemma sfx_parse_test : sfx parse_test.
Proof. unfold parse_test. sfx_solve. Qed.
Lemma sfx_blank_or_eof : sfx blank_or_eof.
Proof. unfold blank_or_eof. sfx_solve. Qed.
Lemma sfx_parse_token : sfx parse_token.
Proof.
  unfold parse_token.
  pose proof sfx_parse_global. pose proof sfx_parse_action. pose proof sfx_parse_test.
  pose proof sfx_blank_or_eof. sfx_solve.
Qed.
Lemma sfx_lex : sfx lex.
Proof. unfold lex. pose proof sfx_parse_token. sfx_solve. Qed.
Lemma sfx_leading_and : sfx leading_and.
Proof. unfold leading_and. sfx_solve. Qed.
Lemma sfx_leading_options : sfx leading_options.
Proof. unfold leading_options. pose proof sfx_parse_global. pose proof sfx_leading_and. sfx_solve. Qed.
