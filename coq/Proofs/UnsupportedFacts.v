From Coq Require Import List String NArith Bool.
From FP Require Import Model.Chars Model.Ast Model.Sexp Model.Compile Spec.Tree Spec.Unsupported.
Import ListNotations.

Lemma template_spec fmt :
  match bad_format fmt with
  | Some n => template fmt = CErr UnsupportedFormat n
  | None => exists ps, template fmt = COk ps
  end.
Proof.
  induction fmt as [|el r IH]; cbn [bad_format template]; [eexists; reflexivity|].
  destruct el as [s|f|x]; cbn [bad_elem elem_piece].
  - destruct (bad_format r); [now rewrite IH|destruct IH as [ps ->]; eexists; reflexivity].
  - destruct f; cbn [bad_field field_unsupported];
      try reflexivity;
      (destruct (bad_format r); [now rewrite IH|destruct IH as [ps ->]; eexists; reflexivity]).
  - destruct x; cbn [special_piece]; try reflexivity;
      (destruct (bad_format r); [now rewrite IH|destruct IH as [ps ->]; eexists; reflexivity]).
Qed.

Lemma compile_format_spec fmt :
  match bad_format fmt with
  | Some n => compile_format fmt = CErr UnsupportedFormat n
  | None => exists x, compile_format fmt = COk x
  end.
Proof.
  unfold compile_format. pose proof (template_spec fmt) as H.
  destruct (bad_format fmt); [now rewrite H|].
  destruct H as [ps ->]. destruct (format_items fmt); eexists; reflexivity.
Qed.

Lemma compile_test_spec t s :
  match bad_test t with
  | Some n => compile_test t s = CErr UnsupportedTest n
  | None => exists x s', compile_test t s = COk (x, s')
  end.
Proof.
  destruct t; cbn [bad_test compile_test test_unsupported]; try reflexivity;
    try (eexists; eexists; reflexivity);
    try (destruct (tick s); eexists; eexists; reflexivity);
    try (match goal with |- context [with_mgr ?f s] => destruct (with_mgr f s) end;
         eexists; eexists; reflexivity).
  match goal with |- context [if ?c then _ else _] => destruct c end; eexists; eexists; reflexivity.
Qed.

Lemma compile_action_spec a s :
  match bad_action a with
  | Some (k, n) => compile_action a s = CErr k n
  | None => exists x s', compile_action a s = COk (x, s')
  end.
Proof.
  destruct a; cbn [bad_action compile_action]; try reflexivity;
    try (eexists; eexists; reflexivity);
    try (match goal with |- context [with_mgr ?f s] => destruct (with_mgr f s) end).
  all: try (eexists; eexists; reflexivity).
  all: pose proof (compile_format_spec fmt) as H; destruct (bad_format fmt);
    [now rewrite H|destruct H as [x ->]; eexists; eexists; reflexivity].
Qed.

Theorem compile_expr_spec e : compilable_shape e = true -> forall s,
  match first_unsupported e with
  | Some (k, n) => compile_expr e s = CErr k n
  | None => exists x s', compile_expr e s = COk (x, s')
  end.
Proof.
  assert (Hbin : forall op a b,
    (forall s, match first_unsupported a with
               | Some (k, n) => compile_expr a s = CErr k n
               | None => exists x s', compile_expr a s = COk (x, s') end) ->
    (forall s, match first_unsupported b with
               | Some (k, n) => compile_expr b s = CErr k n
               | None => exists x s', compile_expr b s = COk (x, s') end) ->
    forall s,
    match match first_unsupported a with Some r => Some r | None => first_unsupported b end with
    | Some (k, n) =>
        match compile_expr a s with
        | COk (x, s1) => match compile_expr b s1 with
                         | COk (y, s2) => COk (lst [atom op; x; y], s2) | bad => bad end
        | bad => bad end = CErr k n
    | None => exists x s',
        match compile_expr a s with
        | COk (x, s1) => match compile_expr b s1 with
                         | COk (y, s2) => COk (lst [atom op; x; y], s2) | bad => bad end
        | bad => bad end = COk (x, s')
    end).
  { intros op a b Ha Hb s. specialize (Ha s).
    destruct (first_unsupported a) as [[k n]|]; [now rewrite Ha|].
    destruct Ha as (x & s1 & ->). specialize (Hb s1).
    destruct (first_unsupported b) as [[k n]|]; [now rewrite Hb|].
    destruct Hb as (y & s2 & ->). eexists; eexists; reflexivity. }
  induction e as [e IH|e IH|a IHa b IHb|a IHa b IHb|a IHa b IHb|t|a|g|];
    cbn [compilable_shape]; intros Hs s; try discriminate.
  - cbn [first_unsupported compile_expr]. specialize (IH Hs s).
    destruct (first_unsupported e) as [[k n]|]; [now rewrite IH|].
    destruct IH as (x & s1 & ->). eexists; eexists; reflexivity.
  - apply andb_true_iff in Hs as [H1 H2]. cbn [first_unsupported compile_expr]. apply Hbin; [apply IHa; assumption|apply IHb; assumption].
  - apply andb_true_iff in Hs as [H1 H2]. cbn [first_unsupported compile_expr]. apply Hbin; [apply IHa; assumption|apply IHb; assumption].
  - apply andb_true_iff in Hs as [H1 H2]. cbn [first_unsupported compile_expr]. apply Hbin; [apply IHa; assumption|apply IHb; assumption].
  - cbn [first_unsupported compile_expr]. pose proof (compile_test_spec t s) as H.
    destruct (bad_test t); assumption.
  - cbn [first_unsupported compile_expr]. apply compile_action_spec.
  - reflexivity.
Qed.

Lemma wrap_shape e : compilable_shape e = true -> compilable_shape (wrap e) = true.
Proof. intro H. unfold wrap. destruct (has_action e); cbn; rewrite ?H; reflexivity. Qed.
Lemma wrap_first e : first_unsupported (wrap e) = first_unsupported e.
Proof. unfold wrap. destruct (has_action e); cbn; [reflexivity|]. now destruct (first_unsupported e). Qed.

Theorem compile_spec e o clk : compilable_shape e = true ->
  match first_unsupported e with
  | Some (k, n) => compile e o clk = CErr k n
  | None => exists c, compile e o clk = COk c
  end.
Proof.
  intro Hs. unfold compile.
  pose proof (compile_expr_spec (wrap e) (wrap_shape e Hs)
    {| st_mgr := if complex_frames e then MD dmgr_init else ML lmgr_init; st_clock := clk |}) as H.
  rewrite wrap_first in H. destruct (first_unsupported e) as [[k n]|]; [now rewrite H|].
  destruct H as (x & s' & ->). eexists; reflexivity.
Qed.

(** "some unsupported construct occurs at some depth" is the same as "there is a first one" *)
Lemma first_unsupported_iff e : first_unsupported e <> None <-> has_unsupported e.
Proof.
  split.
  - induction e as [e IH|e IH|a IHa b IHb|a IHa b IHb|a IHa b IHb|t|a|g|]; cbn [first_unsupported]; intro H.
    + destruct (IH H) as (s & Hs & Hb). exists s; split; [now constructor|assumption].
    + destruct (IH H) as (s & Hs & Hb). exists s; split; [now constructor|assumption].
    + destruct (first_unsupported a) eqn:E.
      * destruct IHa as (s & Hs & Hb); [discriminate|]. exists s; split; [now apply Sub_and_l|assumption].
      * destruct (IHb H) as (s & Hs & Hb). exists s; split; [now apply Sub_and_r|assumption].
    + destruct (first_unsupported a) eqn:E.
      * destruct IHa as (s & Hs & Hb); [discriminate|]. exists s; split; [now apply Sub_or_l|assumption].
      * destruct (IHb H) as (s & Hs & Hb). exists s; split; [now apply Sub_or_r|assumption].
    + destruct (first_unsupported a) eqn:E.
      * destruct IHa as (s & Hs & Hb); [discriminate|]. exists s; split; [now apply Sub_list_l|assumption].
      * destruct (IHb H) as (s & Hs & Hb). exists s; split; [now apply Sub_list_r|assumption].
    + exists (ETest t). split; [constructor|]. cbn. destruct (bad_test t); [discriminate|contradiction].
    + exists (EAction a). split; [constructor|]. exact H.
    + contradiction.
    + exists EPositional. split; [constructor|exact I].
  - intros (s & Hs & Hb). induction Hs; cbn [first_unsupported].
    + destruct s; cbn in Hb; try contradiction; try assumption; try discriminate.
      cbn [first_unsupported]. destruct (bad_test t); [discriminate|contradiction].
    + assumption.
    + assumption.
    + destruct (first_unsupported a); [discriminate|contradiction].
    + destruct (first_unsupported a); [discriminate|assumption].
    + destruct (first_unsupported a); [discriminate|contradiction].
    + destruct (first_unsupported a); [discriminate|assumption].
    + destruct (first_unsupported a); [discriminate|contradiction].
    + destruct (first_unsupported a); [discriminate|assumption].
Qed.
