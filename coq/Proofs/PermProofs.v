(** Proofs for C08: the permission-argument parser of Model/Perm.v against Spec/Chmod.v.
    All statements are for lists of arbitrary length; the list-level facts are by induction. *)
From Coq Require Import List String NArith Bool Arith Lia ZifyBool ZifyN.
From FP Require Import Model.Chars Model.Winnow Model.Ast Model.Args Model.Perm Spec.Chmod Spec.PermWord.
Import ListNotations.
Local Open Scope N_scope.

Lemma parse_perm_arg_is_perm_word : parse_perm_arg = and_then quote_delimiter perm_word.
Proof. reflexivity. Qed.

(** the error a word that is neither form is rejected with *)
Definition perm_format_error : list ctx :=
  [Expected "invalid_permission_format"; Label "permission"; Label "permission_comparison"].

(** * Combinator steps *)
Section Steps.
Context {I : Type}.
Lemma bind_ok {A B} (p : @parser I A) (f : A -> @parser I B) i a r :
  p i = (Ok a, r) -> bind p f i = f a r.
Proof. intros H. unfold bind. rewrite H. reflexivity. Qed.
Lemma bind_back {A B} (p : @parser I A) (f : A -> @parser I B) i c r :
  p i = (Back c, r) -> bind p f i = (Back c, r).
Proof. intros H. unfold bind. rewrite H. reflexivity. Qed.
Lemma bind_cut {A B} (p : @parser I A) (f : A -> @parser I B) i c r :
  p i = (Cut c, r) -> bind p f i = (Cut c, r).
Proof. intros H. unfold bind. rewrite H. reflexivity. Qed.
Lemma pmap_ok {A B} (f : A -> B) (p : @parser I A) i a r :
  p i = (Ok a, r) -> pmap f p i = (Ok (f a), r).
Proof. intros H. unfold pmap. rewrite H. reflexivity. Qed.
Lemma pmap_back {A B} (f : A -> B) (p : @parser I A) i c r :
  p i = (Back c, r) -> pmap f p i = (Back c, r).
Proof. intros H. unfold pmap. rewrite H. reflexivity. Qed.
Lemma pmap_cut {A B} (f : A -> B) (p : @parser I A) i c r :
  p i = (Cut c, r) -> pmap f p i = (Cut c, r).
Proof. intros H. unfold pmap. rewrite H. reflexivity. Qed.
Lemma cut_err_ok {A} (p : @parser I A) i a r : p i = (Ok a, r) -> cut_err p i = (Ok a, r).
Proof. intros H. unfold cut_err. rewrite H. reflexivity. Qed.
Lemma cut_err_back {A} (p : @parser I A) i c r : p i = (Back c, r) -> cut_err p i = (Cut c, r).
Proof. intros H. unfold cut_err. rewrite H. reflexivity. Qed.
Lemma cut_err_cut {A} (p : @parser I A) i c r : p i = (Cut c, r) -> cut_err p i = (Cut c, r).
Proof. intros H. unfold cut_err. rewrite H. reflexivity. Qed.
Lemma context_ok {A} x (p : @parser I A) i a r : p i = (Ok a, r) -> context x p i = (Ok a, r).
Proof. intros H. unfold context. rewrite H. reflexivity. Qed.
Lemma context_back {A} x (p : @parser I A) i c r :
  p i = (Back c, r) -> context x p i = (Back (c ++ [x]), r).
Proof. intros H. unfold context. rewrite H. reflexivity. Qed.
Lemma context_cut {A} x (p : @parser I A) i c r :
  p i = (Cut c, r) -> context x p i = (Cut (c ++ [x]), r).
Proof. intros H. unfold context. rewrite H. reflexivity. Qed.
Lemma alt_ok {A} (p : @parser I A) ps i a r : p i = (Ok a, r) -> alt (p :: ps) i = (Ok a, r).
Proof. intros H. cbn [alt]. rewrite H. destruct ps; reflexivity. Qed.
Lemma alt_cut {A} (p : @parser I A) ps i c r : p i = (Cut c, r) -> alt (p :: ps) i = (Cut c, r).
Proof. intros H. cbn [alt]. rewrite H. destruct ps; reflexivity. Qed.
Lemma alt_back {A} (p q : @parser I A) ps i c r :
  p i = (Back c, r) -> alt (p :: q :: ps) i = alt (q :: ps) i.
Proof. intros H. cbn [alt]. rewrite H. reflexivity. Qed.
Lemma try_map_ok {A B} (p : @parser I A) (f : A -> option B) i a b r :
  p i = (Ok a, r) -> f a = Some b -> try_map p f i = (Ok b, r).
Proof. intros H Hf. unfold try_map. rewrite H, Hf. reflexivity. Qed.
Lemma try_map_none {A B} (p : @parser I A) (f : A -> option B) i a r :
  p i = (Ok a, r) -> f a = None -> try_map p f i = (Back [], i).
Proof. intros H Hf. unfold try_map. rewrite H, Hf. reflexivity. Qed.
Lemma try_map_back {A B} (p : @parser I A) (f : A -> option B) i c r :
  p i = (Back c, r) -> try_map p f i = (Back c, r).
Proof. intros H. unfold try_map. rewrite H. reflexivity. Qed.
End Steps.

(** * Character-level primitives *)

Lemma span_app p a rest :
  forallb p a = true -> stops p rest -> span p (a ++ rest) = (a, rest).
Proof.
  intros Ha Hr. induction a as [|c a IH]; cbn [app span].
  - destruct rest as [|d rest]; [reflexivity|]. cbn [stops] in Hr. cbn [span]. rewrite Hr. reflexivity.
  - cbn [forallb] in Ha. apply andb_true_iff in Ha. destruct Ha as [Hc Ha].
    rewrite Hc, (IH Ha). reflexivity.
Qed.

Lemma take_while_app m p a rest :
  forallb p a = true -> stops p rest -> (m <= List.length a)%nat ->
  take_while m p (a ++ rest) = (Ok a, rest).
Proof.
  intros Ha Hr Hm. unfold take_while. rewrite (span_app _ _ _ Ha Hr).
  apply Nat.leb_le in Hm. rewrite Hm. reflexivity.
Qed.

Lemma take_while_stop m p i : (0 < m)%nat -> stops p i -> take_while m p i = (Back [], i).
Proof.
  intros Hm Hs. unfold take_while.
  replace (span p i) with (@nil N, i).
  - cbn [List.length]. destruct m as [|m]; [lia|]. reflexivity.
  - destruct i as [|c i]; [reflexivity|]. cbn [stops] in Hs. cbn [span]. rewrite Hs. reflexivity.
Qed.

Lemma literal1_hit c s rest :
  chars s = [c] -> literal s (c :: rest) = (Ok tt, rest).
Proof. intros Hs. unfold literal. rewrite Hs. cbn [lit_]. rewrite N.eqb_refl. reflexivity. Qed.

Lemma literal1_miss c s i :
  chars s = [c] -> stops (N.eqb c) i -> literal s i = (Back [], i).
Proof.
  intros Hs Hi. unfold literal. rewrite Hs. destruct i as [|d i]; [reflexivity|].
  cbn [stops] in Hi. cbn [lit_]. rewrite Hi. reflexivity.
Qed.

(** * Symbolic clauses *)
Lemma who_char_ugoa ws : forallb (in_str "ugoa") (map who_char ws) = true.
Proof. induction ws as [|w ws IH]; [reflexivity|]. cbn [map forallb]. rewrite IH. destruct w; reflexivity. Qed.
Lemma perm_char_rwx ps : forallb (in_str "rwx") (map perm_char ps) = true.
Proof. induction ps as [|p ps IH]; [reflexivity|]. cbn [map forallb]. rewrite IH. destruct p; reflexivity. Qed.
Lemma op_char_not_ugoa o : in_str "ugoa" (op_char o) = false.
Proof. destruct o; reflexivity. Qed.
Lemma op_char_op o : in_str "+=-" (op_char o) = true.
Proof. destruct o; reflexivity. Qed.

Lemma from_symbolic_who_acc ws acc :
  fold_left (fun a c => N.lor a (sym_value c)) (map who_char ws) acc = N.lor acc (who_masks ws).
Proof.
  revert acc. induction ws as [|w ws IH]; intros acc; cbn [map fold_left who_masks].
  - now rewrite N.lor_0_r.
  - rewrite IH. rewrite <- N.lor_assoc. f_equal. f_equal. destruct w; reflexivity.
Qed.
Lemma from_symbolic_who ws : from_symbolic (map who_char ws) = who_masks ws.
Proof. unfold from_symbolic. rewrite from_symbolic_who_acc. apply N.lor_0_l. Qed.
Lemma from_symbolic_perm_acc ps acc :
  fold_left (fun a c => N.lor a (sym_value c)) (map perm_char ps) acc = N.lor acc (perm_masks ps).
Proof.
  revert acc. induction ps as [|p ps IH]; intros acc; cbn [map fold_left perm_masks].
  - now rewrite N.lor_0_r.
  - rewrite IH. rewrite <- N.lor_assoc. f_equal. f_equal. destruct p; reflexivity.
Qed.
Lemma from_symbolic_perm ps : from_symbolic (map perm_char ps) = perm_masks ps.
Proof. unfold from_symbolic. rewrite from_symbolic_perm_acc. apply N.lor_0_l. Qed.

(** the [partial] the code builds for a clause *)
Definition code_partial (c : clause) : partial :=
  match clause_op c with
  | OSet => PSet (clause_W c) (clause_P c)
  | OAdd => PAdd (N.land (clause_W c) (clause_P c))
  | ODel => PDel (N.land (clause_W c) (N.ldiff all_bits (clause_P c)))
  end.

Lemma partial_update_code c m : partial_update (code_partial c) m = code_apply m c.
Proof. unfold code_partial, code_apply. destruct (clause_op c); reflexivity. Qed.

Lemma parse_partial_render c rest :
  stops (in_str "rwx") rest ->
  parse_partial (render_clause c ++ rest) = (Ok (code_partial c), rest).
Proof.
  intros Hr. destruct c as [w ws o p ps]. unfold render_clause.
  rewrite <- !app_assoc. unfold parse_partial.
  erewrite bind_ok; cycle 1.
  { apply take_while_app.
    - apply who_char_ugoa.
    - cbn [app stops]. apply op_char_not_ugoa.
    - cbn [map List.length]. lia. }
  cbn [app].
  erewrite bind_ok; cycle 1.
  { apply cut_err_ok, context_ok. unfold one_of. rewrite op_char_op. reflexivity. }
  erewrite pmap_ok; cycle 1.
  { apply cut_err_ok, context_ok. apply take_while_app.
    - apply perm_char_rwx.
    - exact Hr.
    - cbn [map List.length]. lia. }
  rewrite from_symbolic_who, from_symbolic_perm.
  unfold code_partial, clause_W, clause_P, clause_op.
  destruct o; reflexivity.
Qed.

(** * Clause lists *)
(** the text after the first clause: each further clause preceded by its comma *)
Fixpoint tail_render (cls : list clause) : str :=
  match cls with [] => [] | c :: r => 44 :: render_clause c ++ tail_render r end.

Lemma render_clauses_cons c cls : render_clauses (c :: cls) = render_clause c ++ tail_render cls.
Proof.
  unfold render_clauses. revert c. induction cls as [|d cls IH]; intros c.
  - cbn [map join tail_render]. now rewrite app_nil_r.
  - change (map render_clause (c :: d :: cls)) with (render_clause c :: map render_clause (d :: cls)).
    cbn [join]. change (map render_clause (d :: cls)) with (render_clause d :: map render_clause cls) at 1.
    cbv beta iota. rewrite (IH d). reflexivity.
Qed.

(** what may follow a clause list without continuing it: not r, w, x (more permissions) and
    not ',' (a further clause) *)
Definition sym_stop (rest : str) : Prop := stops (in_str "rwx,") rest.

Lemma sym_stop_rwx rest : sym_stop rest -> stops (in_str "rwx") rest.
Proof. destruct rest as [|c rest]; [trivial|]. unfold sym_stop. cbn. lia. Qed.
Lemma sym_stop_comma rest : sym_stop rest -> stops (N.eqb 44) rest.
Proof.
  destruct rest as [|c rest]; [trivial|]. unfold sym_stop, stops.
  change (in_str "rwx," c) with ((c =? 114) || ((c =? 119) || ((c =? 120) || ((c =? 44) || false)))).
  lia.
Qed.

Lemma tail_render_stops cls rest : sym_stop rest -> stops (in_str "rwx") (tail_render cls ++ rest).
Proof.
  intros Hr. destruct cls as [|c cls]; [exact (sym_stop_rwx _ Hr)|]. reflexivity.
Qed.

Lemma sep_fuel_render cls : forall fuel rest,
  (List.length cls < fuel)%nat -> sym_stop rest ->
  sep_fuel slen fuel parse_partial (literal ",") (tail_render cls ++ rest)
  = (Ok (map code_partial cls), rest).
Proof.
  induction cls as [|c cls IH]; intros fuel rest Hf Hr; (destruct fuel as [|n]; [cbn [List.length] in Hf; lia|]).
  - cbn [tail_render app sep_fuel map].
    rewrite (literal1_miss 44 "," rest eq_refl (sym_stop_comma _ Hr)). reflexivity.
  - cbn [tail_render app sep_fuel map].
    rewrite (literal1_hit 44 "," _ eq_refl).
    replace (Nat.leb _ _) with false; cycle 1.
    { symmetry. apply Nat.leb_gt. unfold slen. cbn [List.length]. lia. }
    rewrite <- app_assoc.
    rewrite (parse_partial_render c _ (tail_render_stops cls rest Hr)).
    rewrite (IH n rest); [reflexivity| cbn [List.length] in Hf; lia | exact Hr].
Qed.

Lemma separated1_render c cls rest :
  sym_stop rest ->
  separated1 slen parse_partial (literal ",") (render_clauses (c :: cls) ++ rest)
  = (Ok (map code_partial (c :: cls)), rest).
Proof.
  intros Hr. rewrite render_clauses_cons, <- app_assoc. unfold separated1.
  rewrite (parse_partial_render c _ (tail_render_stops cls rest Hr)).
  rewrite sep_fuel_render; [reflexivity| |exact Hr].
  unfold slen. rewrite app_length.
  assert (List.length cls <= List.length (tail_render cls))%nat as Hl.
  { clear. induction cls as [|d cls IH]; [cbn; lia|]. cbn [tail_render List.length].
    rewrite app_length. lia. }
  lia.
Qed.

Lemma fold_update_code cls acc :
  fold_left (fun a e => partial_update e a) (map code_partial cls) acc = fold_left code_apply cls acc.
Proof.
  revert acc. induction cls as [|c cls IH]; intros acc; [reflexivity|].
  cbn [map fold_left]. rewrite partial_update_code. apply IH.
Qed.

(** * parse_permission *)
Lemma render_clauses_head c cls rest : stops is_oct (render_clauses (c :: cls) ++ rest).
Proof.
  rewrite render_clauses_cons. destruct c as [w ws o p ps]. unfold render_clause.
  cbn [map app stops]. destruct w; reflexivity.
Qed.

Lemma parse_permission_symbolic c cls rest :
  sym_stop rest ->
  parse_permission (render_clauses (c :: cls) ++ rest) = (Ok (code_chmod (c :: cls)), rest).
Proof.
  intros Hr. unfold parse_permission. apply context_ok.
  erewrite alt_back; cycle 1.
  { apply try_map_back, try_map_back, take_while_stop; [lia|]. apply render_clauses_head. }
  apply alt_ok. erewrite pmap_ok; [|apply (separated1_render c cls rest Hr)].
  rewrite fold_update_code. reflexivity.
Qed.

(** neither symbolic nor anything else: the second and third alternatives *)
Lemma symbolic_alts_fail i :
  stops (in_str "ugoa") i ->
  alt [ pmap (fun v => fold_left (fun acc e => partial_update e acc) v 0)
             (separated1 slen parse_partial (literal ","));
        context (expected "invalid_permission_format") fail ] i
  = (Back [Expected "invalid_permission_format"], i).
Proof.
  intros Hi. erewrite alt_back; cycle 1.
  { apply pmap_back. unfold separated1.
    assert (parse_partial i = (Back [], i)) as Hp.
    { unfold parse_partial. apply bind_back, take_while_stop; [lia|exact Hi]. }
    rewrite Hp. reflexivity. }
  cbn [alt]. apply (context_back (expected "invalid_permission_format") fail i [] i). reflexivity.
Qed.

Lemma oct_digits_forallb ds : oct_digits ds -> forallb is_oct ds = true.
Proof.
  intros H. induction H as [|c ds Hc _ IH]; [reflexivity|].
  cbn [forallb]. rewrite IH. unfold is_oct. lia.
Qed.
Lemma is_oct_not_ugoa c : is_oct c = true -> in_str "ugoa" c = false.
Proof. intros H. unfold is_oct in H. cbn. lia. Qed.

Lemma oct_value_acc ds : forall acc,
  fold_left (fun a c => a * 8 + digit_val c) ds acc = acc * 8 ^ N.of_nat (List.length ds) + pos_value8 ds.
Proof.
  induction ds as [|d ds IH]; intros acc.
  - cbn [fold_left List.length pos_value8 N.of_nat]. rewrite N.pow_0_r. lia.
  - cbn [fold_left List.length pos_value8]. rewrite IH, Nat2N.inj_succ, N.pow_succ_r'.
    unfold digit_val. generalize (d - 48) (8 ^ N.of_nat (List.length ds)) (pos_value8 ds).
    intros D X P. ring.
Qed.
(** the model's [oct_value] is the positional base-8 value *)
Lemma oct_value_pos ds : oct_value ds = pos_value8 ds.
Proof. unfold oct_value, radix_value. rewrite oct_value_acc. lia. Qed.

Lemma octal_take ds rest :
  oct_digits ds -> (3 <= List.length ds)%nat -> stops is_oct rest ->
  take_while 3 is_oct (ds ++ rest) = (Ok ds, rest).
Proof. intros Hd Hl Hr. apply take_while_app; [apply oct_digits_forallb, Hd|exact Hr|exact Hl]. Qed.

Lemma parse_permission_octal ds rest :
  oct_digits ds -> (3 <= List.length ds)%nat -> stops is_oct rest -> pos_value8 ds <= 4095 ->
  parse_permission (ds ++ rest) = (Ok (pos_value8 ds), rest).
Proof.
  intros Hd Hl Hr Hv. unfold parse_permission. apply context_ok, alt_ok.
  eapply try_map_ok.
  - eapply try_map_ok; [apply (octal_take ds rest Hd Hl Hr)|].
    cbv beta zeta. rewrite oct_value_pos.
    replace (pos_value8 ds <? two32) with true by (unfold two32; lia). reflexivity.
  - cbv beta. unfold all_bits. replace (pos_value8 ds <=? 4095) with true by lia. reflexivity.
Qed.

Lemma parse_permission_octal_reject ds rest :
  oct_digits ds -> (3 <= List.length ds)%nat -> stops is_oct rest -> 4095 < pos_value8 ds ->
  parse_permission (ds ++ rest)
  = (Back [Expected "invalid_permission_format"; Label "permission"], ds ++ rest).
Proof.
  intros Hd Hl Hr Hv. unfold parse_permission.
  apply (context_back (label "permission") _ _ [Expected "invalid_permission_format"]).
  erewrite alt_back; cycle 1.
  { destruct (pos_value8 ds <? two32) eqn:E.
    - eapply try_map_none.
      + eapply try_map_ok; [apply (octal_take ds rest Hd Hl Hr)|].
        cbv beta zeta. rewrite oct_value_pos, E. reflexivity.
      + cbv beta. unfold all_bits. replace (pos_value8 ds <=? 4095) with false by lia. reflexivity.
    - eapply try_map_back. eapply try_map_none; [apply (octal_take ds rest Hd Hl Hr)|].
      cbv beta zeta. rewrite oct_value_pos, E. reflexivity. }
  apply symbolic_alts_fail.
  destruct ds as [|d ds]; [cbn [List.length] in Hl; lia|].
  cbn [app stops]. apply is_oct_not_ugoa. unfold is_oct. inversion Hd as [|x l Hx Hl']. lia.
Qed.

(** an accepted permission starts with an octal digit or one of u, g, o, a *)
Lemma parse_permission_ok_head i b r :
  parse_permission i = (Ok b, r) ->
  exists c i', i = c :: i' /\ (is_oct c = true \/ in_str "ugoa" c = true).
Proof.
  intros H. destruct i as [|c i]; [vm_compute in H; discriminate H|].
  exists c, i. split; [reflexivity|].
  destruct (is_oct c) eqn:Eo; [left; reflexivity|].
  destruct (in_str "ugoa" c) eqn:Eu; [right; reflexivity|]. exfalso.
  unfold parse_permission in H.
  erewrite context_back in H; [discriminate H|].
  erewrite alt_back; cycle 1.
  { apply try_map_back, try_map_back, take_while_stop; [lia|exact Eo]. }
  apply symbolic_alts_fail. exact Eu.
Qed.

(** * parse_permcheck: the prefix selects the kind *)
Definition lift_check (k : permkind) (x : out N * str) : out (permkind * N) * str :=
  match x with
  | (Ok b, r) => (Ok (k, b), r)
  | (Back c, r) => (Cut (c ++ [Label "permission_comparison"]), r)
  | (Cut c, r) => (Cut (c ++ [Label "permission_comparison"]), r)
  | (Panic s, r) => (Panic s, r)
  end.

(** [body] does not itself begin with a prefix character *)
Definition no_prefix_head (body : str) : Prop := stops (fun c => (c =? 47) || (c =? 45)) body.

Lemma permcheck_slash body :
  parse_permcheck (47 :: body) = lift_check PAny (parse_permission body).
Proof.
  unfold parse_permcheck, context, alt, pmap, preceded, bind, cut_err.
  rewrite (literal1_hit 47 "/" body eq_refl).
  destruct (parse_permission body) as [[b|c|c|s] r]; reflexivity.
Qed.
Lemma permcheck_dash body :
  parse_permcheck (45 :: body) = lift_check PAtLeast (parse_permission body).
Proof.
  unfold parse_permcheck, context, alt, pmap, preceded, bind, cut_err.
  rewrite (literal1_miss 47 "/" (45 :: body) eq_refl eq_refl), (literal1_hit 45 "-" body eq_refl).
  destruct (parse_permission body) as [[b|c|c|s] r]; reflexivity.
Qed.
Lemma permcheck_none body :
  no_prefix_head body -> parse_permcheck body = lift_check PEqual (parse_permission body).
Proof.
  intros Hb.
  assert (stops (N.eqb 47) body) as H47.
  { destruct body as [|c body]; [exact I|]. unfold no_prefix_head, stops in *. lia. }
  assert (stops (N.eqb 45) body) as H45.
  { destruct body as [|c body]; [exact I|]. unfold no_prefix_head, stops in *. lia. }
  unfold parse_permcheck, context, alt, pmap, preceded, bind, cut_err.
  rewrite (literal1_miss 47 "/" body eq_refl H47), (literal1_miss 45 "-" body eq_refl H45).
  destruct (parse_permission body) as [[b|c|c|s] r]; reflexivity.
Qed.
Lemma permcheck_prefix p body :
  no_prefix_head body ->
  parse_permcheck (prefix_str p ++ body) = lift_check (kind_of p) (parse_permission body).
Proof.
  intros Hb. destruct p.
  - apply permcheck_none, Hb.
  - apply permcheck_dash.
  - apply permcheck_slash.
Qed.

(** * perm_word: the whole word must be consumed *)
Lemma perm_word_ok w v : parse_permcheck w = (Ok v, []) -> perm_word w = (Ok v, []).
Proof. intros H. unfold perm_word, terminated. rewrite (bind_ok _ _ _ _ _ H). reflexivity. Qed.
Lemma perm_word_junk w v c r :
  parse_permcheck w = (Ok v, c :: r) ->
  perm_word w = (Back [Expected "invalid_permission_format"], c :: r).
Proof. intros H. unfold perm_word, terminated. rewrite (bind_ok _ _ _ _ _ H). reflexivity. Qed.
Lemma perm_word_cut w c r : parse_permcheck w = (Cut c, r) -> perm_word w = (Cut c, r).
Proof. intros H. unfold perm_word, terminated. rewrite (bind_cut _ _ _ _ _ H). reflexivity. Qed.
Lemma perm_word_inv w v r : perm_word w = (Ok v, r) -> parse_permcheck w = (Ok v, []) /\ r = [].
Proof.
  unfold perm_word, terminated, bind. destruct (parse_permcheck w) as [[a|c|c|s] r'].
  - destruct r' as [|d r']; cbn; intros H; inversion H; subst; split; reflexivity.
  - discriminate.
  - discriminate.
  - discriminate.
Qed.

Lemma oct_head_no_prefix ds rest : oct_digits ds -> (3 <= List.length ds)%nat -> no_prefix_head (ds ++ rest).
Proof.
  intros Hd Hl. destruct ds as [|d ds]; [cbn [List.length] in Hl; lia|].
  inversion Hd as [|x l Hx Hl']. unfold no_prefix_head. cbn [app stops]. lia.
Qed.
Lemma sym_head_no_prefix c cls rest : no_prefix_head (render_clauses (c :: cls) ++ rest).
Proof.
  rewrite render_clauses_cons. destruct c as [w ws o p ps]. unfold render_clause, no_prefix_head.
  cbn [map app stops]. destruct w; reflexivity.
Qed.

(** * The octal form *)
Theorem perm_word_octal p ds :
  oct_digits ds -> (3 <= List.length ds)%nat -> pos_value8 ds <= 4095 ->
  perm_word (prefix_str p ++ ds) = (Ok (kind_of p, pos_value8 ds), []).
Proof.
  intros Hd Hl Hv. apply perm_word_ok.
  rewrite <- (app_nil_r ds) at 1.
  rewrite permcheck_prefix by (apply oct_head_no_prefix; assumption).
  rewrite (parse_permission_octal ds [] Hd Hl I Hv). reflexivity.
Qed.

Theorem perm_word_octal_reject p ds :
  oct_digits ds -> (3 <= List.length ds)%nat -> 4095 < pos_value8 ds ->
  perm_word (prefix_str p ++ ds) = (Cut perm_format_error, ds).
Proof.
  intros Hd Hl Hv. apply perm_word_cut.
  rewrite <- (app_nil_r ds) at 1.
  rewrite permcheck_prefix by (apply oct_head_no_prefix; assumption).
  rewrite (parse_permission_octal_reject ds [] Hd Hl I Hv). rewrite app_nil_r. reflexivity.
Qed.

(** trailing text after the digits: anything that is not a further octal digit *)
Theorem perm_word_octal_junk p ds c j :
  oct_digits ds -> (3 <= List.length ds)%nat -> is_oct c = false ->
  is_ok (fst (perm_word (prefix_str p ++ ds ++ c :: j))) = false.
Proof.
  intros Hd Hl Hc.
  destruct (N.leb_spec (pos_value8 ds) 4095) as [Hv|Hv].
  - erewrite perm_word_junk; [reflexivity|].
    rewrite permcheck_prefix by (apply oct_head_no_prefix; assumption).
    rewrite (parse_permission_octal ds (c :: j) Hd Hl Hc Hv). reflexivity.
  - erewrite perm_word_cut; [reflexivity|].
    rewrite permcheck_prefix by (apply oct_head_no_prefix; assumption).
    rewrite (parse_permission_octal_reject ds (c :: j) Hd Hl Hc Hv). reflexivity.
Qed.

(** * The symbolic form *)
Theorem perm_word_symbolic p cls :
  cls <> [] -> perm_word (prefix_str p ++ render_clauses cls) = (Ok (kind_of p, code_chmod cls), []).
Proof.
  intros Hne. destruct cls as [|c cls]; [contradiction|]. apply perm_word_ok.
  rewrite <- (app_nil_r (render_clauses (c :: cls))).
  rewrite permcheck_prefix by apply sym_head_no_prefix.
  rewrite (parse_permission_symbolic c cls [] I). reflexivity.
Qed.

(** trailing text after the clauses: anything that starts with a character other than r, w, x
    (which would extend the last clause) or ',' (which may start a further clause) *)
Theorem perm_word_symbolic_junk p cls c j :
  cls <> [] -> in_str "rwx," c = false ->
  perm_word (prefix_str p ++ render_clauses cls ++ c :: j)
  = (Back [Expected "invalid_permission_format"], c :: j).
Proof.
  intros Hne Hc. destruct cls as [|d cls]; [contradiction|].
  eapply perm_word_junk.
  rewrite permcheck_prefix by apply sym_head_no_prefix.
  rewrite (parse_permission_symbolic d cls (c :: j) Hc). reflexivity.
Qed.

(** * chmod and the code *)
Lemma fold_no_minus cls : no_minus cls -> forall acc, fold_left code_apply cls acc = fold_left apply_clause cls acc.
Proof.
  intros H. induction H as [|c cls Hc _ IH]; intros acc; [reflexivity|].
  cbn [fold_left]. rewrite IH. f_equal.
  unfold code_apply, apply_clause. destruct (clause_op c); [reflexivity|contradiction|reflexivity].
Qed.
Theorem code_chmod_no_minus cls : no_minus cls -> code_chmod cls = chmod cls.
Proof. intros H. apply (fold_no_minus cls H). Qed.

Theorem code_chmod_minus_differs : exists cls, code_chmod cls <> chmod cls.
Proof.
  exists [Clause Wu [] OAdd Pr [Pw]; Clause Wu [] ODel Pr []].
  vm_compute. discriminate.
Qed.

(** what the code computes for a '-' clause, in the two's-complement-free reading: within the
    twelve permission bits, AND with the complement of (W AND the complement of P) *)
Lemma ldiff_lnot12 a b : a < 4096 -> N.ldiff a b = N.land a (N.lnot b 12).
Proof.
  intros Ha. apply N.bits_inj. intros n.
  rewrite N.ldiff_spec, N.land_spec.
  destruct (N.ltb_spec n 12) as [Hn|Hn].
  - rewrite N.lnot_spec_low by exact Hn. reflexivity.
  - assert (N.testbit a n = false) as Hz.
    { destruct (N.eq_dec a 0) as [->|Hnz]; [apply N.bits_0|].
      apply N.bits_above_log2. apply N.log2_lt_pow2; [lia|].
      apply N.lt_le_trans with (2 ^ 12); [exact Ha|]. apply N.pow_le_mono_r; lia. }
    rewrite Hz. reflexivity.
Qed.

Lemma who_masks_12 ws : N.land (who_masks ws) 4095 = who_masks ws.
Proof.
  induction ws as [|w ws IH]; [reflexivity|].
  cbn [who_masks]. rewrite N.land_lor_distr_l, IH. f_equal. destruct w; reflexivity.
Qed.

Theorem code_minus_clause m c :
  clause_op c = ODel ->
  code_apply m c = N.ldiff m (N.land (clause_W c) (N.ldiff 4095 (clause_P c)))
  /\ (m < 4096 ->
      code_apply m c = N.land m (N.lnot (N.land (clause_W c) (N.lnot (clause_P c) 12)) 12)).
Proof.
  intros Ho. unfold code_apply. rewrite Ho. split; [reflexivity|].
  intros Hm. rewrite (ldiff_lnot12 m _ Hm). rewrite (ldiff_lnot12 4095 _ eq_refl).
  rewrite N.land_assoc.
  replace (N.land (clause_W c) 4095) with (clause_W c); [reflexivity|].
  destruct c as [w ws o p ps]. unfold clause_W. symmetry. apply who_masks_12.
Qed.

(** chmod's own '-' in the same reading, for comparison *)
Theorem chmod_minus_clause m c :
  clause_op c = ODel -> m < 4096 ->
  apply_clause m c = N.land m (N.lnot (N.land (clause_W c) (clause_P c)) 12).
Proof. intros Ho Hm. unfold apply_clause. rewrite Ho. apply ldiff_lnot12, Hm. Qed.

(** * Every accepted word is prefix ++ body, and the prefix alone fixes the kind *)
Theorem perm_word_prefix_inv w k bits r :
  perm_word w = (Ok (k, bits), r) ->
  exists p c body,
    w = prefix_str p ++ c :: body /\ k = kind_of p /\ r = [] /\
    (is_oct c = true \/ in_str "ugoa" c = true).
Proof.
  intros H. apply perm_word_inv in H. destruct H as [H ->].
  assert (forall p body, parse_permcheck w = lift_check (kind_of p) (parse_permission body) ->
          exists c body', body = c :: body' /\ k = kind_of p /\
                          (is_oct c = true \/ in_str "ugoa" c = true)) as Hgen.
  { intros p body Hw. rewrite Hw in H.
    destruct (parse_permission body) as [[b|c|c|s] r'] eqn:E; cbn [lift_check] in H;
      try discriminate H.
    inversion H; subst.
    destruct (parse_permission_ok_head _ _ _ E) as (c & body' & -> & Hc).
    exists c, body'. repeat split; assumption. }
  destruct w as [|c w]; [vm_compute in H; discriminate H|].
  destruct (N.eqb_spec c 47) as [->|N47]; [|destruct (N.eqb_spec c 45) as [->|N45]].
  - destruct (Hgen Slash w (permcheck_slash w)) as (d & body' & -> & -> & Hd).
    exists Slash, d, body'. repeat split. exact Hd.
  - destruct (Hgen Dash w (permcheck_dash w)) as (d & body' & -> & -> & Hd).
    exists Dash, d, body'. repeat split. exact Hd.
  - assert (no_prefix_head (c :: w)) as Hh by (unfold no_prefix_head, stops; lia).
    destruct (Hgen NoPrefix (c :: w) (permcheck_none _ Hh)) as (d & body' & E & -> & Hd).
    exists NoPrefix, d, body'. rewrite E. repeat split. exact Hd.
Qed.

(** * What the three checks mean, bit by bit *)
Lemma testbit_4095 n : N.testbit 4095 n = (n <? 12).
Proof.
  change 4095 with (N.ones 12). destruct (N.ltb_spec n 12) as [Hn|Hn].
  - apply N.ones_spec_low. lia.
  - apply N.ones_spec_high. lia.
Qed.

Theorem perm_holds_equal bits mode :
  perm_holds PEqual bits mode = true <-> forall n, N.testbit bits n = (n <? 12) && N.testbit mode n.
Proof.
  unfold perm_holds. rewrite N.eqb_eq. split.
  - intros <- n. rewrite N.land_spec, testbit_4095. apply andb_comm.
  - intros H. apply N.bits_inj. intros n. rewrite N.land_spec, testbit_4095, H. apply andb_comm.
Qed.

Theorem perm_holds_atleast bits mode :
  perm_holds PAtLeast bits mode = true <->
  forall n, N.testbit bits n = true -> N.testbit mode n = true.
Proof.
  unfold perm_holds. rewrite N.eqb_eq. split.
  - intros H n Hn. rewrite <- H, N.land_spec in Hn. apply andb_true_iff in Hn. apply Hn.
  - intros H. apply N.bits_inj. intros n. rewrite N.land_spec.
    destruct (N.testbit bits n) eqn:E; [|apply andb_false_r]. rewrite (H n E). reflexivity.
Qed.

Theorem perm_holds_any bits mode :
  perm_holds PAny bits mode = true <->
  exists n, N.testbit bits n = true /\ N.testbit mode n = true.
Proof.
  unfold perm_holds. rewrite negb_true_iff, N.eqb_neq. split.
  - intros H. exists (N.log2 (N.land mode bits)). apply N.bit_log2 in H.
    rewrite N.land_spec in H. apply andb_true_iff in H. split; apply H.
  - intros (n & Hb & Hm) H0. assert (N.testbit (N.land mode bits) n = true) as Ht.
    { rewrite N.land_spec, Hb, Hm. reflexivity. }
    rewrite H0, N.bits_0 in Ht. discriminate Ht.
Qed.

(** * Through the argument delimiter: [parse_perm_arg] on a bare (unquoted) word *)
Lemma quote_delimiter_bare w rest :
  w <> [] -> forallb bare_char w = true -> stops bare_char rest ->
  stops (fun c => (c =? 34) || (c =? 39)) w ->
  quote_delimiter (w ++ rest) = (Ok w, rest).
Proof.
  intros Hne Hw Hr Hq. destruct w as [|c w]; [contradiction|]. cbn [stops] in Hq.
  unfold quote_delimiter.
  erewrite alt_back; cycle 1.
  { unfold delimited, preceded. apply bind_back.
    apply (literal1_miss 34 """" _ eq_refl). cbn [app stops]. lia. }
  erewrite alt_back; cycle 1.
  { unfold delimited, preceded. apply bind_back.
    apply (literal1_miss 39 "'" _ eq_refl). cbn [app stops]. lia. }
  cbn [alt]. apply take_while_app; [exact Hw|exact Hr|cbn [List.length]; lia].
Qed.

Lemma parse_perm_arg_ok w rest v :
  w <> [] -> forallb bare_char w = true -> stops bare_char rest ->
  stops (fun c => (c =? 34) || (c =? 39)) w ->
  perm_word w = (Ok v, []) -> parse_perm_arg (w ++ rest) = (Ok v, rest).
Proof.
  intros Hne Hw Hr Hq Hp. unfold parse_perm_arg, and_then.
  rewrite (quote_delimiter_bare w rest Hne Hw Hr Hq).
  fold (perm_word w). rewrite Hp. reflexivity.
Qed.

Lemma bare_prefix p : forallb bare_char (prefix_str p) = true.
Proof. destruct p; reflexivity. Qed.
Lemma bare_oct ds : oct_digits ds -> forallb bare_char ds = true.
Proof.
  intros H. induction H as [|c ds Hc _ IH]; [reflexivity|]. cbn [forallb]. rewrite IH.
  unfold bare_char. lia.
Qed.
Lemma bare_clause c : forallb bare_char (render_clause c) = true.
Proof.
  destruct c as [w ws o p ps]. unfold render_clause. rewrite !forallb_app.
  assert (forall l, forallb bare_char (map who_char l) = true) as Hw.
  { intros l. induction l as [|x l IH]; [reflexivity|]. cbn [map forallb]. rewrite IH. destruct x; reflexivity. }
  assert (forall l, forallb bare_char (map perm_char l) = true) as Hp.
  { intros l. induction l as [|x l IH]; [reflexivity|]. cbn [map forallb]. rewrite IH. destruct x; reflexivity. }
  rewrite Hw, Hp. destruct o; reflexivity.
Qed.
Lemma bare_clauses cls : forallb bare_char (render_clauses cls) = true.
Proof.
  destruct cls as [|c cls]; [reflexivity|]. rewrite render_clauses_cons, forallb_app, bare_clause.
  induction cls as [|d cls IH]; [reflexivity|].
  cbn [tail_render]. change (44 :: render_clause d ++ tail_render cls) with ([44] ++ render_clause d ++ tail_render cls).
  rewrite !forallb_app, bare_clause. cbn [andb] in *. rewrite IH. reflexivity.
Qed.

Theorem parse_perm_arg_octal p ds rest :
  oct_digits ds -> (3 <= List.length ds)%nat -> pos_value8 ds <= 4095 -> stops bare_char rest ->
  parse_perm_arg (prefix_str p ++ ds ++ rest) = (Ok (kind_of p, pos_value8 ds), rest).
Proof.
  intros Hd Hl Hv Hr. rewrite app_assoc. apply parse_perm_arg_ok.
  - destruct ds as [|d ds]; [cbn [List.length] in Hl; lia|]. destruct p; discriminate.
  - rewrite forallb_app, bare_prefix, (bare_oct ds Hd). reflexivity.
  - exact Hr.
  - destruct ds as [|d ds]; [cbn [List.length] in Hl; lia|].
    inversion Hd as [|x l Hx Hl']. destruct p; cbn [prefix_str app stops]; try reflexivity. lia.
  - apply perm_word_octal; assumption.
Qed.

Theorem parse_perm_arg_symbolic p cls rest :
  cls <> [] -> stops bare_char rest ->
  parse_perm_arg (prefix_str p ++ render_clauses cls ++ rest) = (Ok (kind_of p, code_chmod cls), rest).
Proof.
  intros Hne Hr. rewrite app_assoc. apply parse_perm_arg_ok.
  - destruct cls as [|c cls]; [contradiction|]. rewrite render_clauses_cons.
    destruct c as [w ws o q qs]. destruct p; discriminate.
  - rewrite forallb_app, bare_prefix, bare_clauses. reflexivity.
  - exact Hr.
  - destruct cls as [|c cls]; [contradiction|]. rewrite render_clauses_cons.
    destruct c as [w ws o q qs]. destruct p; cbn [prefix_str app stops]; try reflexivity.
    unfold render_clause. cbn [map app]. destruct w; reflexivity.
  - apply perm_word_symbolic, Hne.
Qed.
