(** Compiling one expression under two different clocks: everything is equal except the
    embedded readings; and the embedded readings lie within any bounds the clock lies within. *)
From Coq Require Import List String NArith Bool Arith Lia.
From FP Require Import Model.Chars Model.Ast Model.Sexp Model.Compile.
From FP Require Import Spec.ClockForm Spec.ClockMask Proofs.ClockFacts Proofs.ClockReadings.
Import ListNotations.
Local Open Scope N_scope.

(** * masking the form of a time test forgets the reading *)
Lemma mask_clock_time : forall now1 now2 (f : string) c,
  is_time_field (chars f) = true ->
  mask_clock (compile_time now1 f c) = mask_clock (compile_time now2 f c).
Proof.
  intros now1 now2 f c Hf. unfold compile_time. destruct (cmp_val c) as [u n].
  destruct c; cbn [cmp_op]; cbn; rewrite Hf; reflexivity.
Qed.

(** * masking goes through the connectives *)
Lemma mask_clock_bin : forall (op : string) x y,
  is_cmp_atom (chars op) = false ->
  mask_clock (lst [atom op; x; y]) = lst [atom op; mask_clock x; mask_clock y].
Proof.
  intros op x y H. cbn [lst items_sep]. cbn [mask_clock time_form atom]. rewrite H.
  cbn [mask_clock_items time_form]. reflexivity.
Qed.

Lemma mask_clock_un : forall (op : string) x,
  is_cmp_atom (chars op) = false ->
  mask_clock (lst [atom op; x]) = lst [atom op; mask_clock x].
Proof.
  intros op x H. cbn [lst items_sep]. cbn [mask_clock time_form atom]. rewrite H.
  cbn [mask_clock_items time_form]. reflexivity.
Qed.

(** * two runs under different clocks *)
Definition agree_masked (r1 r2 : cres (lsexp * cstate)) : Prop :=
  match r1, r2 with
  | COk (x1, s1), COk (x2, s2) => mask_clock x1 = mask_clock x2 /\ st_mgr s1 = st_mgr s2
  | CErr k1 n1, CErr k2 n2 => k1 = k2 /\ n1 = n2
  | CPanic a, CPanic b => a = b
  | _, _ => False
  end.

Lemma agree0_masked : forall c1 c2 r1 r2, agree 0 c1 c2 r1 r2 -> agree_masked r1 r2.
Proof.
  intros c1 c2 r1 r2 H. destruct r1 as [[x1 s1]|k1 n1|a], r2 as [[x2 s2]|k2 n2|b];
    cbn in H |- *; try contradiction; try exact H.
  destruct H as (-> & Hm & _ & _). split; [reflexivity|exact Hm].
Qed.

Lemma compile_test_masked : forall t m c1 c2,
  agree_masked (compile_test t {| st_mgr := m; st_clock := c1 |})
               (compile_test t {| st_mgr := m; st_clock := c2 |}).
Proof.
  intros t m c1 c2.
  destruct (Nat.eq_dec (time_tests (ETest t)) 0) as [Z|NZ].
  - apply (agree0_masked c1 c2). rewrite <- Z. apply compile_test_agree. rewrite Z. reflexivity.
  - destruct t; cbn [time_tests] in NZ; try (exfalso; apply NZ; reflexivity);
      cbn [compile_test tick st_clock st_mgr agree_masked];
      (split; [apply mask_clock_time; reflexivity|reflexivity]).
Qed.

Lemma compile_action_masked : forall a m c1 c2,
  agree_masked (compile_action a {| st_mgr := m; st_clock := c1 |})
               (compile_action a {| st_mgr := m; st_clock := c2 |}).
Proof. intros a m c1 c2. apply (agree0_masked c1 c2). apply compile_action_agree. Qed.

Lemma cmp_and : is_cmp_atom (chars "and") = false. Proof. reflexivity. Qed.
Lemma cmp_or : is_cmp_atom (chars "or") = false. Proof. reflexivity. Qed.
Lemma cmp_not : is_cmp_atom (chars "not") = false. Proof. reflexivity. Qed.

Lemma compile_expr_masked : forall e m c1 c2,
  agree_masked (compile_expr e {| st_mgr := m; st_clock := c1 |})
               (compile_expr e {| st_mgr := m; st_clock := c2 |}).
Proof.
  assert (Hbin : forall (op : string) a b, is_cmp_atom (chars op) = false ->
    (forall m c1 c2, agree_masked (compile_expr a {| st_mgr := m; st_clock := c1 |})
                                  (compile_expr a {| st_mgr := m; st_clock := c2 |})) ->
    (forall m c1 c2, agree_masked (compile_expr b {| st_mgr := m; st_clock := c1 |})
                                  (compile_expr b {| st_mgr := m; st_clock := c2 |})) ->
    forall m c1 c2,
    agree_masked
      (match compile_expr a {| st_mgr := m; st_clock := c1 |} with
       | COk (x, s1) => match compile_expr b s1 with
                        | COk (y, s2) => COk (lst [atom op; x; y], s2)
                        | bad => bad end
       | bad => bad end)
      (match compile_expr a {| st_mgr := m; st_clock := c2 |} with
       | COk (x, s1) => match compile_expr b s1 with
                        | COk (y, s2) => COk (lst [atom op; x; y], s2)
                        | bad => bad end
       | bad => bad end)).
  { intros op a b Hop IHa IHb m c1 c2. specialize (IHa m c1 c2).
    destruct (compile_expr a {| st_mgr := m; st_clock := c1 |}) as [[x1 [m1 k1]]|?|?],
             (compile_expr a {| st_mgr := m; st_clock := c2 |}) as [[x2 [m2 k2]]|?|?];
      cbn [agree_masked] in IHa |- *; try contradiction; try exact IHa.
    destruct IHa as (Hx & Hm). cbn [st_mgr] in Hm. subst m2.
    specialize (IHb m1 k1 k2).
    destruct (compile_expr b {| st_mgr := m1; st_clock := k1 |}) as [[y1 s1]|?|?],
             (compile_expr b {| st_mgr := m1; st_clock := k2 |}) as [[y2 s2]|?|?];
      cbn [agree_masked] in IHb |- *; try contradiction; try exact IHb.
    destruct IHb as (Hy & Hm'). split; [|exact Hm'].
    rewrite !(mask_clock_bin op) by exact Hop. rewrite Hx, Hy. reflexivity. }
  induction e as [e IH|e IH|a IHa b IHb|a IHa b IHb|a IHa b IHb|t|a|g|]; intros m c1 c2.
  - cbn. reflexivity.
  - cbn [compile_expr]. specialize (IH m c1 c2).
    destruct (compile_expr e {| st_mgr := m; st_clock := c1 |}) as [[x1 s1]|?|?],
             (compile_expr e {| st_mgr := m; st_clock := c2 |}) as [[x2 s2]|?|?];
      cbn [agree_masked] in IH |- *; try contradiction; try exact IH.
    destruct IH as (Hx & Hm). split; [|exact Hm].
    rewrite !(mask_clock_un "not") by exact cmp_not. rewrite Hx. reflexivity.
  - cbn [compile_expr]. apply Hbin; [exact cmp_and|assumption|assumption].
  - cbn [compile_expr]. apply Hbin; [exact cmp_or|assumption|assumption].
  - cbn [compile_expr]. apply Hbin; [exact cmp_and|assumption|assumption].
  - cbn [compile_expr]. apply compile_test_masked.
  - cbn [compile_expr]. apply compile_action_masked.
  - cbn. reflexivity.
  - cbn. split; reflexivity.
Qed.

(** * (1) under two different clocks everything but the readings is equal *)
Theorem compile_same_but_clock : forall e o c1 c2,
  same_but_clock (compile e o c1) (compile e o c2).
Proof.
  intros e o c1 c2. unfold compile.
  pose proof (compile_expr_masked (wrap e)
                (if complex_frames e then MD dmgr_init else ML lmgr_init) c1 c2) as A.
  destruct (compile_expr (wrap e) _) as [[x1 s1]|?|?],
           (compile_expr (wrap e) _) as [[x2 s2]|?|?];
    cbn [agree_masked] in A; cbn [same_but_clock]; try contradiction; try exact A.
  destruct A as (Hx & Hm). rewrite Hm.
  destruct (st_mgr s2) as [l|d];
    cbn [c_framed c_defs c_init c_fini c_threads c_iomap c_body]; repeat split; exact Hx.
Qed.

(** the same, spelled out without the relation *)
Corollary compile_two_clocks_ok : forall e o c1 c2 p1 p2,
  compile e o c1 = COk p1 -> compile e o c2 = COk p2 ->
  c_framed p1 = c_framed p2 /\ c_defs p1 = c_defs p2 /\ c_init p1 = c_init p2
  /\ c_fini p1 = c_fini p2 /\ c_threads p1 = c_threads p2 /\ c_iomap p1 = c_iomap p2
  /\ mask_clock (c_body p1) = mask_clock (c_body p2).
Proof.
  intros e o c1 c2 p1 p2 H1 H2. pose proof (compile_same_but_clock e o c1 c2) as S.
  rewrite H1, H2 in S. exact S.
Qed.

Corollary compile_two_clocks_class : forall e o c1 c2,
  (forall p1, compile e o c1 = COk p1 -> exists p2, compile e o c2 = COk p2)
  /\ (forall k n, compile e o c1 = CErr k n -> compile e o c2 = CErr k n)
  /\ (forall s, compile e o c1 = CPanic s -> compile e o c2 = CPanic s).
Proof.
  intros e o c1 c2. pose proof (compile_same_but_clock e o c1 c2) as S.
  destruct (compile e o c1) as [p1|k1 n1|s1], (compile e o c2) as [p2|k2 n2|s2];
    cbn [same_but_clock] in S; try contradiction;
    (split; [|split]); intros; try discriminate.
  - eexists; reflexivity.
  - destruct S as [-> ->]. assumption.
  - subst. assumption.
Qed.

(** * (2) the embedded readings lie where the clock lies *)
Lemma Forall_firstn {A} (P : A -> Prop) n (l : list A) : Forall P l -> Forall P (firstn n l).
Proof.
  intro H. revert n. induction H as [|x l Hx Hl IH]; intro n; destruct n; cbn [firstn]; auto.
Qed.

Theorem compile_readings_bounded : forall e o clk c lo hi,
  compile e o clk = COk c ->
  (count_time_tests e <= List.length clk)%nat ->
  Forall (fun t => lo <= t <= hi) clk ->
  Forall (fun t => lo <= t <= hi) (clock_readings (c_body c)).
Proof.
  intros e o clk c lo hi H L B. rewrite (compile_embeds_clock _ _ _ _ H L).
  apply Forall_firstn. exact B.
Qed.

(** one reading per time test *)
Corollary compile_readings_count : forall e o clk c,
  compile e o clk = COk c ->
  (count_time_tests e <= List.length clk)%nat ->
  List.length (clock_readings (c_body c)) = count_time_tests e.
Proof.
  intros e o clk c H L. rewrite (compile_embeds_clock _ _ _ _ H L). apply firstn_length_le. exact L.
Qed.

Lemma mask_clock_time3 : forall now1 now2 c,
  mask_clock (compile_time now1 "atime" c) = mask_clock (compile_time now2 "atime" c)
  /\ mask_clock (compile_time now1 "ctime" c) = mask_clock (compile_time now2 "ctime" c)
  /\ mask_clock (compile_time now1 "mtime" c) = mask_clock (compile_time now2 "mtime" c).
Proof. intros now1 now2 c. repeat split; apply mask_clock_time; reflexivity. Qed.
