(** C02: translation validity.  The emitted policy body means what the expression means. *)
From Coq Require Import List String NArith ZArith Bool Lia ZifyBool ZifyN.
From FP Require Import Model.Chars Model.Ast Model.Sexp Model.Compile
  Spec.Unsupported Spec.FileRecord Spec.FindSem Spec.SchemeSem Spec.SchemeEnv
  Proofs.UnsupportedFacts Proofs.SemFacts Proofs.MgrEnv Proofs.TransTests Proofs.TransFormat.
Import ListNotations.
Local Open Scope N_scope.

Section WithHost.
Variable h : host.
Hypothesis Hlaw : host_law h.

(** * Actions *)
Definition printer_op (g : mgr -> lsexp * mgr) (t : target) : Prop :=
  forall m x m', g m = (x, m') ->
    mgr_le m m' /\ exists i, x = ident "print" i /\ printer_entry m' t i.

Lemma printer_lookup : forall e mf g t s p s1,
  printer_op g t -> with_mgr g s = (p, s1) ->
  mgr_le (st_mgr s1) mf -> env_agrees e mf ->
  exists i, p = ident "print" i /\ lookup e (idname "print" i) = Some (EPrinter t).
Proof.
  intros e mf g t s p s1 Hg Ew Hle Hag.
  destruct (with_mgr_inv _ _ _ _ Ew) as [Eg _].
  destruct (Hg _ _ _ Eg) as [_ [i [Hp Hin]]].
  exists i. split; [exact Hp|]. destruct Hag as [_ Hap]. apply Hap.
  destruct Hle as [_ Hl]. apply Hl. exact Hin.
Qed.

Lemma printer_state : forall g t s p s1,
  printer_op g t -> with_mgr g s = (p, s1) ->
  mgr_le (st_mgr s) (st_mgr s1) /\ st_clock s1 = st_clock s.
Proof.
  intros g t s p s1 Hg Ew. destruct (with_mgr_inv _ _ _ _ Ew) as [Eg Hc].
  destruct (Hg _ _ _ Eg) as [Hle _]. split; assumption.
Qed.

Lemma sem_path_printer : forall e i t f,
  lookup e (idname "print" i) = Some (EPrinter t) ->
  sem_bool h e (erase (lst [atom "call-with-relative-path"; ident "print" i])) f
  = Some (apply_printer t (f_relative_path f)).
Proof.
  intros e i t f Hl. rewrite erase_lst. cbn [map]. rewrite erase_atom, erase_ident.
  rewrite sem_bool_leaf by reflexivity.
  change (sem_leaf h e (chars "call-with-relative-path") [SAtom (idname "print" i)] f)
    with (match lookup e (idname "print" i) with
          | Some (EMatcher glob c p) => pure (apply_matcher h glob c p (f_relative_path f))
          | Some (EPrinter t) => Some (apply_printer t (f_relative_path f))
          | _ => None
          end).
  rewrite Hl. reflexivity.
Qed.

Lemma sem_printer_call : forall e i t arg payload f,
  lookup e (idname "print" i) = Some (EPrinter t) ->
  sem_str h (erase arg) f = Some payload ->
  sem_bool h e (erase (lst [ident "print" i; arg])) f = Some (apply_printer t payload).
Proof.
  intros e i t arg payload f Hl Hs. rewrite erase_lst. cbn [map]. rewrite erase_ident.
  rewrite sem_bool_leaf by reflexivity.
  change (sem_leaf h e (idname "print" i) [erase arg] f)
    with (match lookup e (idname "print" i), [erase arg] with
          | Some (EPrinter t), [x] => option_map (apply_printer t) (sem_str h x f)
          | _, _ => None
          end).
  rewrite Hl, Hs. reflexivity.
Qed.

Lemma get_printer_op : forall term, printer_op (get_printer term) (TStdout term).
Proof. intros term m x m' E. exact (get_printer_spec term m x m' E). Qed.
Lemma get_file_printer_op : forall p term, printer_op (get_file_printer p term) (TFile p term).
Proof. intros p term m x m' E. exact (get_file_printer_spec p term m x m' E). Qed.

Lemma action_ok_elems : forall fmt f,
  forallb elem_ctime_free fmt = true -> forallb (elem_defined f) fmt = true ->
  forallb (elem_ok f) fmt = true.
Proof.
  induction fmt as [|el r IH]; intros f Hc Hd; [reflexivity|].
  cbn [forallb] in *. apply andb_true_iff in Hc. apply andb_true_iff in Hd.
  destruct Hc as [Hc1 Hc2]. destruct Hd as [Hd1 Hd2].
  unfold elem_ok at 1. rewrite Hc1, Hd1, (IH f Hc2 Hd2). reflexivity.
Qed.

Theorem compile_action_sound : forall a s x s' mf e f,
  compile_action a s = COk (x, s') ->
  action_ctime_free a = true -> action_defined a f = true ->
  mgr_le (st_mgr s') mf -> env_agrees e mf ->
  sem_bool h e (erase x) f = Some (action_result h a f).
Proof.
  assert (Hpath : forall g t s x s' mf e f, printer_op g t ->
    (let (p, s1) := with_mgr g s in
     @COk (lsexp * cstate) (lst [atom "call-with-relative-path"; p], s1)) = COk (x, s') ->
    mgr_le (st_mgr s') mf -> env_agrees e mf ->
    sem_bool h e (erase x) f = Some (apply_printer t (f_relative_path f))).
  { intros g t s x s' mf e f Hg E Hle Hag. destruct (with_mgr g s) as [p s1] eqn:Ew.
    destruct (cok_inv _ _ _ _ E) as [<- <-].
    destruct (printer_lookup _ _ _ _ _ _ _ Hg Ew Hle Hag) as [i [-> Hl]].
    apply sem_path_printer. exact Hl. }
  assert (Hfmt : forall g t fmt s x s' mf e f, printer_op g t ->
    (let (p, s1) := with_mgr g s in
     match compile_format fmt with
     | COk cf => @COk (lsexp * cstate) (lst [p; cf], s1)
     | CErr k c => CErr k c
     | CPanic m => CPanic m
     end) = COk (x, s') ->
    forallb elem_ctime_free fmt = true -> forallb (elem_defined f) fmt = true ->
    mgr_le (st_mgr s') mf -> env_agrees e mf ->
    sem_bool h e (erase x) f = Some (apply_printer t (format_text h fmt f))).
  { intros g t fmt s x s' mf e f Hg E Hc Hd Hle Hag. destruct (with_mgr g s) as [p s1] eqn:Ew.
    destruct (compile_format fmt) as [cf|k c|m] eqn:Ef; try discriminate E.
    destruct (cok_inv _ _ _ _ E) as [<- <-].
    destruct (printer_lookup _ _ _ _ _ _ _ Hg Ew Hle Hag) as [i [-> Hl]].
    apply (sem_printer_call _ _ _ _ _ _ Hl).
    apply compile_format_sound; [exact Ef | apply action_ok_elems; assumption]. }
  intros a s x s' mf e f E Hc Hd Hle Hag.
  destruct a as [p|p|p|p fmt| | | |fmt| | | | ]; cbn [compile_action] in E; try discriminate E;
    cbn [action_result action_ctime_free action_defined] in *.
  - exact (Hpath _ _ _ _ _ _ _ _ (get_file_printer_op p (Some 10)) E Hle Hag).
  - exact (Hpath _ _ _ _ _ _ _ _ (get_file_printer_op p (Some 0)) E Hle Hag).
  - exact (Hfmt _ _ _ _ _ _ _ _ _ (get_file_printer_op p None) E Hc Hd Hle Hag).
  - exact (Hpath _ _ _ _ _ _ _ _ (get_printer_op (Some 10)) E Hle Hag).
  - exact (Hpath _ _ _ _ _ _ _ _ (get_printer_op (Some 0)) E Hle Hag).
  - exact (Hfmt _ _ _ _ _ _ _ _ _ (get_printer_op None) E Hc Hd Hle Hag).
  - (* -print-file-fid *)
    destruct (with_mgr (get_printer (Some 10)) s) as [p s1] eqn:Ew.
    destruct (cok_inv _ _ _ _ E) as [<- <-].
    destruct (printer_lookup _ _ _ _ _ _ _ (get_printer_op (Some 10)) Ew Hle Hag) as [i [-> Hl]].
    apply (sem_printer_call _ _ _ _ _ _ Hl). reflexivity.
  - (* -quit *)
    destruct (cok_inv _ _ _ _ E) as [<- <-]. reflexivity.
  - (* implicit print *)
    destruct (cok_inv _ _ _ _ E) as [<- <-]. reflexivity.
Qed.

Lemma compile_action_state : forall a s x s',
  compile_action a s = COk (x, s') ->
  mgr_le (st_mgr s) (st_mgr s') /\ st_clock s' = st_clock s.
Proof.
  assert (Hpath : forall g t s x s', printer_op g t ->
    (let (p, s1) := with_mgr g s in
     @COk (lsexp * cstate) (lst [atom "call-with-relative-path"; p], s1)) = COk (x, s') ->
    mgr_le (st_mgr s) (st_mgr s') /\ st_clock s' = st_clock s).
  { intros g t s x s' Hg E. destruct (with_mgr g s) as [p s1] eqn:Ew.
    destruct (cok_inv _ _ _ _ E) as [_ <-]. exact (printer_state _ _ _ _ _ Hg Ew). }
  assert (Hfmt : forall g t fmt s x s', printer_op g t ->
    (let (p, s1) := with_mgr g s in
     match compile_format fmt with
     | COk cf => @COk (lsexp * cstate) (lst [p; cf], s1)
     | CErr k c => CErr k c
     | CPanic m => CPanic m
     end) = COk (x, s') ->
    mgr_le (st_mgr s) (st_mgr s') /\ st_clock s' = st_clock s).
  { intros g t fmt s x s' Hg E. destruct (with_mgr g s) as [p s1] eqn:Ew.
    destruct (compile_format fmt) as [cf|k c|m]; try discriminate E.
    destruct (cok_inv _ _ _ _ E) as [_ <-]. exact (printer_state _ _ _ _ _ Hg Ew). }
  intros a s x s' E.
  destruct a as [p|p|p|p fmt| | | |fmt| | | | ]; cbn [compile_action] in E; try discriminate E.
  - exact (Hpath _ _ _ _ _ (get_file_printer_op p (Some 10)) E).
  - exact (Hpath _ _ _ _ _ (get_file_printer_op p (Some 0)) E).
  - exact (Hfmt _ _ _ _ _ _ (get_file_printer_op p None) E).
  - exact (Hpath _ _ _ _ _ (get_printer_op (Some 10)) E).
  - exact (Hpath _ _ _ _ _ (get_printer_op (Some 0)) E).
  - exact (Hfmt _ _ _ _ _ _ (get_printer_op None) E).
  - destruct (with_mgr (get_printer (Some 10)) s) as [p s1] eqn:Ew.
    destruct (cok_inv _ _ _ _ E) as [_ <-]. exact (printer_state _ _ _ _ _ (get_printer_op (Some 10)) Ew).
  - destruct (cok_inv _ _ _ _ E) as [_ <-]. split; [apply mgr_le_refl | reflexivity].
  - destruct (cok_inv _ _ _ _ E) as [_ <-]. split; [apply mgr_le_refl | reflexivity].
Qed.

(** * Expressions *)
Lemma supported_compiles : forall e s,
  first_unsupported e = None -> compilable_shape e = true ->
  exists x s', compile_expr e s = COk (x, s').
Proof.
  intros e s Hu Hs. pose proof (compile_expr_spec e Hs s) as H. rewrite Hu in H. exact H.
Qed.

Lemma skipn_skipn : forall (A : Type) a b (l : list A), skipn b (skipn a l) = skipn (a + b) l.
Proof.
  intros A a. induction a as [|a IH]; intros b l; cbn [skipn Nat.add]; [reflexivity|].
  destruct l as [|x l]; [destruct b; reflexivity | apply IH].
Qed.

Lemma compile_expr_state : forall e s x s',
  compile_expr e s = COk (x, s') ->
  mgr_le (st_mgr s) (st_mgr s') /\ st_clock s' = skipn (clock_reads e) (st_clock s).
Proof.
  assert (Hbin : forall op a b,
    (forall s x s', compile_expr a s = COk (x, s') ->
       mgr_le (st_mgr s) (st_mgr s') /\ st_clock s' = skipn (clock_reads a) (st_clock s)) ->
    (forall s x s', compile_expr b s = COk (x, s') ->
       mgr_le (st_mgr s) (st_mgr s') /\ st_clock s' = skipn (clock_reads b) (st_clock s)) ->
    forall s x s',
    match compile_expr a s with
    | COk (xa, s1) =>
        match compile_expr b s1 with
        | COk (y, s2) => COk (lst [atom op; xa; y], s2)
        | bad => bad
        end
    | bad => bad
    end = COk (x, s') ->
    mgr_le (st_mgr s) (st_mgr s')
    /\ st_clock s' = skipn (clock_reads a + clock_reads b) (st_clock s)).
  { intros op a b IHa IHb s x s' E.
    destruct (compile_expr a s) as [[xa s1]|k c|m] eqn:Ea; try discriminate E.
    destruct (compile_expr b s1) as [[xb s2]|k c|m] eqn:Eb; try discriminate E.
    destruct (cok_inv _ _ _ _ E) as [_ <-].
    destruct (IHa _ _ _ Ea) as [La Ca]. destruct (IHb _ _ _ Eb) as [Lb Cb].
    split; [exact (mgr_le_trans _ _ _ La Lb)|]. rewrite Cb, Ca. apply skipn_skipn. }
  induction e as [e IH|e IH|a IHa b IHb|a IHa b IHb|a IHa b IHb|t|a|g|];
    intros s x s' E; cbn [compile_expr] in E; try discriminate E; cbn [clock_reads].
  - destruct (compile_expr e s) as [[xa s1]|k c|m] eqn:Ea; try discriminate E.
    destruct (cok_inv _ _ _ _ E) as [_ <-]. exact (IH _ _ _ Ea).
  - exact (Hbin _ a b IHa IHb s x s' E).
  - exact (Hbin _ a b IHa IHb s x s' E).
  - exact (Hbin _ a b IHa IHb s x s' E).
  - exact (compile_test_state t s x s' E).
  - exact (compile_action_state a s x s' E).
Qed.

Theorem compile_expr_sound : forall e s x s' mf env f,
  compile_expr e s = COk (x, s') ->
  ctime_free e = true -> defined e f = true ->
  mgr_le (st_mgr s') mf -> env_agrees env mf ->
  sem_bool h env (erase x) f = Some (feval h e (st_clock s) f).
Proof.
  assert (Hbin : forall op a b mf env f,
    (forall s x s', compile_expr a s = COk (x, s') -> mgr_le (st_mgr s') mf ->
       sem_bool h env (erase x) f = Some (feval h a (st_clock s) f)) ->
    (forall s x s', compile_expr b s = COk (x, s') -> mgr_le (st_mgr s') mf ->
       sem_bool h env (erase x) f = Some (feval h b (st_clock s) f)) ->
    forall s x s',
    match compile_expr a s with
    | COk (xa, s1) =>
        match compile_expr b s1 with
        | COk (y, s2) => COk (lst [atom op; xa; y], s2)
        | bad => bad
        end
    | bad => bad
    end = COk (x, s') ->
    mgr_le (st_mgr s') mf ->
    exists xa xb, erase x = SList [SAtom (chars op); xa; xb]
      /\ sem_bool h env xa f = Some (feval h a (st_clock s) f)
      /\ sem_bool h env xb f = Some (feval h b (skipn (clock_reads a) (st_clock s)) f)).
  { intros op a b mf env f IHa IHb s x s' E Hle.
    destruct (compile_expr a s) as [[xa s1]|k c|m] eqn:Ea; try discriminate E.
    destruct (compile_expr b s1) as [[xb s2]|k c|m] eqn:Eb; try discriminate E.
    destruct (cok_inv _ _ _ _ E) as [<- <-].
    destruct (compile_expr_state _ _ _ _ Ea) as [_ Ca].
    destruct (compile_expr_state _ _ _ _ Eb) as [Lb _].
    exists (erase xa), (erase xb). split; [rewrite erase_lst; reflexivity|]. split.
    - apply (IHa _ _ _ Ea). exact (mgr_le_trans _ _ _ Lb Hle).
    - rewrite <- Ca. apply (IHb _ _ _ Eb). exact Hle. }
  induction e as [e IH|e IH|a IHa b IHb|a IHa b IHb|a IHa b IHb|t|a|g|];
    intros s x s' mf env f E Hc Hd Hle Hag; cbn [compile_expr] in E; try discriminate E;
    cbn [ctime_free defined feval] in *.
  - (* not *)
    destruct (compile_expr e s) as [[xa s1]|k c|m] eqn:Ea; try discriminate E.
    destruct (cok_inv _ _ _ _ E) as [<- <-]. rewrite erase_lst. cbn [map].
    rewrite erase_atom, sem_bool_not, (IH _ _ _ _ _ _ Ea Hc Hd Hle Hag). reflexivity.
  - (* and *)
    apply andb_true_iff in Hc. destruct Hc as [Hca Hcb].
    apply andb_true_iff in Hd. destruct Hd as [Hda Hdb].
    destruct (Hbin "and"%string a b mf env f
                (fun s x s' E L => IHa s x s' mf env f E Hca Hda L Hag)
                (fun s x s' E L => IHb s x s' mf env f E Hcb Hdb L Hag) s x s' E Hle)
      as (xa & xb & -> & Ha & Hb).
    rewrite sem_bool_and2, Ha, Hb. apply then_if_and.
  - (* or *)
    apply andb_true_iff in Hc. destruct Hc as [Hca Hcb].
    apply andb_true_iff in Hd. destruct Hd as [Hda Hdb].
    destruct (Hbin "or"%string a b mf env f
                (fun s x s' E L => IHa s x s' mf env f E Hca Hda L Hag)
                (fun s x s' E L => IHb s x s' mf env f E Hcb Hdb L Hag) s x s' E Hle)
      as (xa & xb & -> & Ha & Hb).
    rewrite sem_bool_or2, Ha, Hb. apply then_if_or.
  - (* ',' *)
    apply andb_true_iff in Hc. destruct Hc as [Hca Hcb].
    apply andb_true_iff in Hd. destruct Hd as [Hda Hdb].
    destruct (Hbin "and"%string a b mf env f
                (fun s x s' E L => IHa s x s' mf env f E Hca Hda L Hag)
                (fun s x s' E L => IHb s x s' mf env f E Hcb Hdb L Hag) s x s' E Hle)
      as (xa & xb & -> & Ha & Hb).
    rewrite sem_bool_and2, Ha, Hb. apply then_if_and.
  - exact (compile_test_sound h Hlaw t s x s' mf env f E Hle Hag).
  - exact (compile_action_sound a s x s' mf env f E Hc Hd Hle Hag).
Qed.

(** the same, starting from the table of unsupported constructs instead of from a successful run *)
Theorem supported_sound : forall e s,
  first_unsupported e = None -> compilable_shape e = true ->
  exists x s', compile_expr e s = COk (x, s')
    /\ forall mf env f, ctime_free e = true -> defined e f = true ->
         mgr_le (st_mgr s') mf -> env_agrees env mf ->
         sem_bool h env (erase x) f = Some (feval h e (st_clock s) f).
Proof.
  intros e s Hu Hs. destruct (supported_compiles e s Hu Hs) as (x & s' & E).
  exists x, s'. split; [exact E|]. intros mf env f Hc Hd Hle Hag.
  exact (compile_expr_sound e s x s' mf env f E Hc Hd Hle Hag).
Qed.

End WithHost.
